package c15

// Family (C): "its OWN schema accepts" over HISTORIES. A type is a *Schema object; the names it refers to
// are resolved in the type table of the ROOT schema it was added to (AddType). The same object may be
// added to several roots whose tables bind those names differently (another kind, another shape), the way
// the types of an API specification are shared by all the schemas that use them. C15 quantifies over every
// schema accepted by Check, however it was assembled and whatever was called before on other schemas:
//
//	Example() of a root, called after ANY history of Example() / Check() / Validate() calls on the roots
//	it shares objects with, is well-formed JSON its own Validate accepts, and is byte for byte the
//	Example() of the same root assembled from completely fresh objects.
//
// A history =
//
//	names     @s0..@s2  shared types, a chain 1–3 levels deep: objects (required / optional / nullable
//	                    references, arrays of references, key shortcuts, additionalProperties, optional
//	                    back-references = optional recursion), arrays, aliases, or-shortcuts, scalars ruled by
//	                    {type: "@i0"} / {or: ["@k0", …]}, scalars with rules
//	          @b0..@b1  names bound by every root on its own: any kind / shape (scalar with rules, object,
//	                    array, alias or or-shortcut of deeper names), drawn independently per root
//	          @i0 / @k0 integer / string scalar types with rules, every root its own (all accept the literal
//	                    the shared types rule by them); @k0 is the key type of the key shortcuts: its bindings
//	                    come from one family per history (strFamilies: plain words, or one of the formats
//	                    email / uri / uuid / date / datetime), each family ranging over no rule, regex, length,
//	                    enum, explicit `type` rules incl. the format, const and nullable
//	pool      one object per (name, text) — so equal definitions of two roots are ONE object — unless it is
//	          made private to a root; rarely a root defines a shared name on its own
//	roots     2–4, each its own root text (mostly placing @s0) and its own AddType order
//	calls     build (New + AddType…) of all roots first or of each root right before its first call; 0–6
//	          random Check / Example / Validate calls on random roots; finally (Check,) Example on every root
//	          in random order
//
// Required references only go down the order s0 < s1 < s2 < b0 < b1 < {i0, k0}; back-references are
// optional properties. Known-finding situations (recursion cut-offs …) are recognised per root by the
// replayed builder exactly as in family (A) and only ever attached to the FRESH result of a root; a call
// whose result differs from the fresh one is reported without a class.

import (
	"encoding/json"
	"fmt"
	"math/rand"
	"strings"

	"verifharness/vh"
	"verifharness/x/c09"
	tg "verifharness/x/tgraph"
)

type hgen struct {
	r        *rand.Rand
	fam      strFamily // the string literal ruled by {type: "@k0"} and the bindings of @k0 that accept it
	keyNo    int
	order    []string // @s…, then @b…
	nS       int
	intNames []string
	strNames []string
}

type hroot struct {
	g     *tg.Graph
	objs  []int // pool index per g.Types[i]
	order []int // AddType order: indices into g.Types
	doc   string
}

type history struct {
	pool  [][2]string
	popts []bool // pool object i is created with jschema.KeysAreOptionalByDefault()
	uses  []int  // roots per pool object
	roots []*hroot
	ops   []hOp
	stats []string
}

const intLit = "2" // the literal ruled by {type: "@i0"}: every binding of @i0 accepts it

// strFamily: the literal ruled by {type: "@k0"} and the string types the roots may bind @k0 to; every binding accepts
// the literal. @k0 is the key type of the key shortcuts, so the bindings range over everything a string type can carry:
// no rule, regex, length and enum rules (inline and by name), the explicit `type` rule ("string", "enum", and the
// FORMAT types email / uri / uuid / date / datetime), const and nullable. Two histories in five use the family of plain
// words, the others one of the format families: there one root binds the key type to the format, another to a regex
// or a length rule, a third to an enum, with different examples.
type strFamily struct {
	name     string
	lit      string
	bindings [][2]string
}

var strFamilies = []strFamily{
	{"word", `"ab"`, strBindings}, {"word", `"ab"`, strBindings},
	{"email", `"tom@cats.org"`, [][2]string{{`"tom@cats.org"`, `type: "email"`}, {`"a@b.c"`, `type: "email"`}, {`"tom@cats.org"`, `const: true, type: "email"`},
		{`"x+y@host.org"`, `type: "email", nullable: true`}, {`"tom@cats.org"`, `regex: "^[^@]+@[^@]+$"`}, {`"tom@cats.org"`, ""}, {`"a@b.c"`, `type: "string", minLength: 5`},
		{`"tom@cats.org"`, `type: "enum", enum: ["a@b.c", "tom@cats.org"]`}}},
	{"uri", `"https://cats.org/tom"`, [][2]string{{`"https://cats.org/tom"`, `type: "uri"`}, {`"http://a.b"`, `type: "uri"`}, {`"https://cats.org/tom"`, `type: "uri", const: true`},
		{`"ftp://h/p?q#f"`, `nullable: false, type: "uri"`}, {`"https://cats.org/tom"`, `regex: "^https?://"`}, {`"http://a.b"`, "maxLength: 40"}, {`"https://cats.org/tom"`, `type: "string"`},
		{`"http://a.b"`, `enum: ["http://a.b", "https://cats.org/tom"], type: "enum"`}}},
	{"uuid", `"550e8400-e29b-41d4-a716-446655440000"`, [][2]string{{`"550e8400-e29b-41d4-a716-446655440000"`, `type: "uuid"`}, {`"urn:uuid:550E8400-E29B-41D4-A716-446655440000"`, `type: "uuid"`},
		{`"{550e8400-e29b-41d4-a716-446655440000}"`, `type: "uuid", nullable: true`}, {`"550e8400e29b41d4a716446655440000"`, `type: "uuid", const: false`},
		{`"550e8400-e29b-41d4-a716-446655440000"`, `type: "uuid", const: true`}, {`"550e8400-e29b-41d4-a716-446655440000"`, `regex: "^[0-9a-f-]+$", maxLength: 36`},
		{`"550e8400-e29b-41d4-a716-446655440000"`, ""}, {`"550e8400-e29b-41d4-a716-446655440000"`, `type: "enum", enum: ["550e8400-e29b-41d4-a716-446655440000"]`}}},
	{"date", `"2021-12-31"`, [][2]string{{`"2021-12-31"`, `type: "date"`}, {`"2020-02-29"`, `type: "date"`}, {`"2021-12-31"`, `type: "date", const: true`},
		{`"0001-01-01"`, `nullable: true, type: "date"`}, {`"2021-12-31"`, "minLength: 10, maxLength: 10"}, {`"2000-01-01"`, `regex: "^[0-9]{4}-[0-9]{2}-[0-9]{2}$"`}, {`"2021-12-31"`, ""},
		{`"2020-02-29"`, `type: "enum", enum: ["2020-02-29", "2021-12-31"]`}, {`"2021-12-31"`, `type: "string", const: true`}}},
	{"datetime", `"2021-12-31T10:00:00+03:00"`, [][2]string{{`"2021-12-31T10:00:00+03:00"`, `type: "datetime"`}, {`"2020-02-29T12:00:00Z"`, `type: "datetime"`},
		{`"2021-12-31T10:00:00+03:00"`, `const: true, type: "datetime"`}, {`"2000-01-01T00:00:00.123Z"`, `type: "datetime", nullable: false`}, {`"2021-12-31T10:00:00+03:00"`, `regex: "T"`},
		{`"2021-12-31T10:00:00+03:00"`, `minLength: 20`}, {`"2021-12-31T10:00:00+03:00"`, `type: "enum", enum: ["2021-12-31T10:00:00+03:00", "ab"]`}}},
}

var intBindings = [][2]string{{"1", "min: 0"}, {"3", "max: 10"}, {"2", ""}, {"2", "const: true"}, {"3", "enum: @e1"}, {"1", "min: 1, max: 7"}, {"0", "max: 2"}, {"7", `type: "integer"`}}
var strBindings = [][2]string{{`"cd"`, "enum: @e0"}, {`"ab"`, "minLength: 1"}, {`"abc"`, `regex: "a.*"`}, {`"ba"`, "maxLength: 5"}, {`"ab"`, ""}, {`"zz"`, "minLength: 2"}, {`"a-1"`, `regex: "^[a-z0-9-]+$"`}, {`"q"`, `type: "string"`},
	{`"cd"`, `type: "enum", enum: @e0`}, {`"ab"`, `enum: ["x", "ab"], type: "enum"`}, {`"ab"`, `type: "string", const: true`}, {`"zz"`, "nullable: true"}, {`"abc"`, `type: "string", regex: "a.*", nullable: false`}, {`"ab"`, `const: true, enum: ["ab", "cd"]`}, {`"ba"`, `const: false`}}
var scalars = [][2]string{
	{"1", ""}, {"12", "min: 0"}, {"-3", "max: 10"}, {"7", "min: 1, max: 9"}, {"2", "enum: @e1"}, {"0", "const: true"},
	{`"ab"`, ""}, {`"ab"`, "enum: @e0"}, {`"abc"`, `regex: "a.*"`}, {`"x-1"`, "minLength: 2"}, {`"a\"b\\ éé"`, ""}, {`"2020-01-01"`, `type: "date"`}, {`"a@b.cd"`, `type: "email"`},
	{"true", ""}, {"false", "const: true"}, {"2.50", ""}, {"1.5", "min: 1.5"}, {"0.25", "precision: 2"}, {"null", ""},
}

func lit(p [2]string) *tg.Node { return &tg.Node{Kind: tg.KLit, Lit: p[0], Extra: p[1]} }

func (g *hgen) key() string {
	g.keyNo++
	return fmt.Sprintf("k%d", g.keyNo)
}

// deeper: the names a body at `level` (index into order; -1 = a root) may REQUIRE.
func (g *hgen) deeper(level int) []string {
	out := append([]string(nil), g.order[level+1:]...)
	out = append(out, g.intNames...)
	return append(out, g.strNames...)
}

func (g *hgen) pickDeeper(level int) string {
	d := g.deeper(level)
	if len(d) == 0 {
		return ""
	}
	if level+1 < len(g.order) && g.r.Intn(5) < 2 {
		return g.order[level+1] // keeps the chain deep
	}
	return d[g.r.Intn(len(d))]
}

func (g *hgen) ref(level int) *tg.Node {
	first := g.pickDeeper(level)
	if first == "" {
		return g.scalar()
	}
	n := &tg.Node{Kind: tg.KRef, Names: []string{first}}
	if g.r.Intn(5) == 0 {
		for i := 1 + g.r.Intn(2); i > 0; i-- {
			t := g.pickDeeper(level)
			dup := false
			for _, have := range n.Names {
				dup = dup || have == t
			}
			if !dup {
				n.Names = append(n.Names, t)
			}
		}
	}
	n.Nullable = g.r.Intn(7) == 0
	return n
}

func (g *hgen) scalar() *tg.Node {
	n := lit(scalars[g.r.Intn(len(scalars))])
	n.Nullable = g.r.Intn(6) == 0
	return n
}

// litRule: a scalar ruled by a scalar type of the roots: {type: "@i0"}, {or: ["@k0", …]}.
func (g *hgen) litRule() *tg.Node {
	var cand [][2]string // name, literal
	for _, n := range g.intNames {
		cand = append(cand, [2]string{n, intLit})
	}
	for _, n := range g.strNames {
		cand = append(cand, [2]string{n, g.fam.lit})
	}
	if len(cand) == 0 {
		return g.scalar()
	}
	c := cand[g.r.Intn(len(cand))]
	n := &tg.Node{Kind: tg.KLit, Lit: c[1]}
	switch g.r.Intn(4) {
	case 0, 1:
		n.TypeRef = c[0]
	case 2:
		n.OrRule = []string{c[0], `{type: "boolean"}`}
	default:
		n.OrRule = []string{`"null"`, c[0]}
	}
	return n
}

func (g *hgen) value(level, depth int) *tg.Node {
	x := g.r.Intn(100)
	switch {
	case x < 45:
		return g.ref(level)
	case x < 57 && depth > 0:
		n := &tg.Node{Kind: tg.KArr}
		for i := 1 + g.r.Intn(2); i > 0; i-- {
			n.Items = append(n.Items, g.value(level, depth-1))
		}
		return n
	case x < 72 && depth > 0:
		return g.object(level, depth-1)
	case x < 84:
		return g.litRule()
	}
	return g.scalar()
}

func (g *hgen) object(level, depth int) *tg.Node {
	n := &tg.Node{Kind: tg.KObj}
	for i := 1 + g.r.Intn(3); i > 0; i-- {
		p := tg.Prop{Key: g.key(), Val: g.value(level, depth)}
		p.Val.Optional = g.r.Intn(4) == 0
		p.Val.Required = !p.Val.Optional && g.r.Intn(6) == 0 // `optional: false` written out: required whatever the object's option
		n.Props = append(n.Props, p)
	}
	if len(g.strNames) > 0 && g.r.Intn(4) == 0 { // at most one key shortcut per object (one-slot semantics)
		p := tg.Prop{Key: g.strNames[g.r.Intn(len(g.strNames))], Shortcut: true, Val: g.value(level, depth)}
		p.Val.Optional = g.r.Intn(10) < 3
		at := g.r.Intn(len(n.Props) + 1)
		n.Props = append(n.Props[:at], append([]tg.Prop{p}, n.Props[at:]...)...)
	}
	if level >= 0 && g.r.Intn(6) == 0 { // optional recursion: back to this type or to one above it
		back := &tg.Node{Kind: tg.KRef, Names: []string{g.order[g.r.Intn(level+1)]}, Optional: true}
		back.Nullable = g.r.Intn(5) == 0
		n.Props = append(n.Props, tg.Prop{Key: g.key(), Val: back})
	}
	if d := g.deeper(level); len(d) > 0 && g.r.Intn(10) == 0 {
		n.AddProps = d[g.r.Intn(len(d))]
	}
	return n
}

func mentions(n *tg.Node) bool { return len(n.Refs()) > 0 }

// sharedBody: the definition of @s<i>; it mentions at least one name whenever one is available.
func (g *hgen) sharedBody(i int) (*tg.Node, string) {
	for {
		var n *tg.Node
		var sort string
		x := g.r.Intn(100)
		switch {
		case x < 50:
			n, sort = g.object(i, 2), "object"
		case x < 60:
			n, sort = &tg.Node{Kind: tg.KArr}, "array"
			for k := 1 + g.r.Intn(3); k > 0; k-- {
				n.Items = append(n.Items, g.value(i, 1))
			}
		case x < 76:
			n = g.ref(i)
			n.Nullable = false
			sort = "alias"
			if len(n.Names) > 1 {
				sort = "or_shortcut"
			}
		case x < 90:
			n, sort = g.litRule(), "scalar_ruled_by_a_type"
		default:
			return g.scalar(), "scalar_with_rules"
		}
		if mentions(n) || len(g.deeper(i)) == 0 {
			return n, sort
		}
	}
}

// boundBody: what one root binds @b<level - nS> to.
func (g *hgen) boundBody(level int) *tg.Node {
	x := g.r.Intn(100)
	switch {
	case x < 25:
		return g.object(level, 1)
	case x < 35:
		n := &tg.Node{Kind: tg.KArr}
		for k := g.r.Intn(3); k > 0; k-- {
			n.Items = append(n.Items, g.value(level, 1))
		}
		return n
	case x < 45:
		n := g.ref(level)
		n.Nullable = false
		return n
	}
	n := g.scalar()
	n.Nullable = false
	return n
}

func (g *hgen) rootBody() *tg.Node {
	n := g.value(-1, 2)
	uses := false
	for _, r := range n.Refs() {
		uses = uses || r == g.order[0]
	}
	if uses || g.r.Intn(7) == 0 {
		return n
	}
	s0 := func() *tg.Node { return &tg.Node{Kind: tg.KRef, Names: []string{g.order[0]}} }
	switch g.r.Intn(4) {
	case 0:
		return s0()
	case 1:
		return &tg.Node{Kind: tg.KArr, Items: []*tg.Node{s0(), n}}
	case 2:
		return &tg.Node{Kind: tg.KObj, Props: []tg.Prop{{Key: "first", Val: s0()}, {Key: "second", Val: s0()}}}
	}
	n.Optional = false
	return &tg.Node{Kind: tg.KObj, Props: []tg.Prop{{Key: g.key(), Val: n}, {Key: g.key(), Val: s0()}}}
}

func genHistory(r *rand.Rand) *history {
	g := &hgen{r: r, nS: 1 + r.Intn(3)}
	for i := 0; i < g.nS; i++ {
		g.order = append(g.order, fmt.Sprintf("@s%d", i))
	}
	nB := 1 + r.Intn(2)
	for i := 0; i < nB; i++ {
		g.order = append(g.order, fmt.Sprintf("@b%d", i))
	}
	if r.Intn(2) == 0 {
		g.intNames = []string{"@i0"}
	}
	if r.Intn(5) < 3 {
		g.strNames = []string{"@k0"}
	}
	g.fam = strFamilies[r.Intn(len(strFamilies))]
	h := &history{}
	stat := func(s string) { h.stats = append(h.stats, s) }
	if len(g.strNames) > 0 {
		stat("h_string_type_family_" + g.fam.name)
	}
	// The option KeysAreOptionalByDefault belongs to ONE schema object: every root and every type definition draws its
	// own setting (one history in three keeps all objects plain); a shared definition keeps its setting under every root.
	plainHistory := r.Intn(3) == 0
	drawOpt := func() bool { return !plainHistory && r.Intn(2) == 0 }
	shared := make([]*tg.Node, g.nS)
	sharedOpt := make([]bool, g.nS)
	for i := range shared {
		var sort string
		shared[i], sort = g.sharedBody(i)
		sharedOpt[i] = drawOpt()
		stat("h_shared_type_is_" + sort)
	}
	stat(fmt.Sprintf("h_shared_chain_%d", g.nS))
	nRoots := 2 + r.Intn(3)
	stat(fmt.Sprintf("h_roots_%d", nRoots))
	private := make([][]bool, nRoots)
	for j := 0; j < nRoots; j++ {
		ro := &hroot{g: &tg.Graph{}}
		for i, name := range g.order {
			var body *tg.Node
			var opt bool
			switch {
			case i < g.nS && r.Intn(10) > 0:
				body, opt = shared[i], sharedOpt[i]
			case i < g.nS:
				body, _ = g.sharedBody(i) // this root defines the name on its own
				opt = drawOpt()
			case j > 0 && r.Intn(3) == 0:
				other := h.roots[r.Intn(j)].g
				body, opt = other.Type(name), other.Opt(name) // the binding of another root
			default:
				body, opt = g.boundBody(i), drawOpt()
			}
			ro.g.Types = append(ro.g.Types, tg.TypeDef{Name: name, Body: body, Opt: opt})
			private[j] = append(private[j], r.Intn(map[bool]int{true: 14, false: 6}[i < g.nS]) == 0)
		}
		for _, name := range g.intNames {
			ro.g.Types = append(ro.g.Types, tg.TypeDef{Name: name, Body: lit(intBindings[r.Intn(len(intBindings))])})
			private[j] = append(private[j], r.Intn(6) == 0)
		}
		for _, name := range g.strNames {
			ro.g.Types = append(ro.g.Types, tg.TypeDef{Name: name, Body: lit(g.fam.bindings[r.Intn(len(g.fam.bindings))])})
			private[j] = append(private[j], r.Intn(6) == 0)
		}
		ro.g.Root = g.rootBody()
		ro.g.RootOpt = drawOpt()
		ro.order = r.Perm(len(ro.g.Types))
		if sm := simulate(ro.g, ro.g.Root, "root", false); sm.err == "" && sm.out != nil {
			ro.doc = string(sm.out)
		} else {
			ro.doc = "{}"
		}
		h.roots = append(h.roots, ro)
	}
	// the pool: equal (name, text) = one object, unless private to the root
	index := map[string]int{}
	for j, ro := range h.roots {
		for ti, t := range ro.g.Types {
			text := t.Body.Text()
			key := t.Name + "\x00" + text
			if t.Opt {
				key += "\x00KeysAreOptionalByDefault"
			}
			if private[j][ti] {
				key += fmt.Sprintf("\x00private to root %d", j)
			}
			pi, ok := index[key]
			if !ok {
				pi = len(h.pool)
				index[key] = pi
				h.pool = append(h.pool, [2]string{t.Name, text})
				h.popts = append(h.popts, t.Opt)
				h.uses = append(h.uses, 0)
			}
			h.uses[pi]++
			ro.objs = append(ro.objs, pi)
		}
	}
	// the calls
	built := make([]bool, nRoots)
	call := func(k string, j int) {
		if !built[j] {
			built[j] = true
			h.ops = append(h.ops, hOp{"b", j})
		}
		h.ops = append(h.ops, hOp{k, j})
	}
	if r.Intn(2) == 0 {
		for _, j := range r.Perm(nRoots) {
			built[j] = true
			h.ops = append(h.ops, hOp{"b", j})
		}
		stat("h_all_roots_built_first")
	} else {
		stat("h_roots_built_before_their_first_call")
	}
	for i := r.Intn(7); i > 0; i-- {
		call([]string{"c", "e", "e", "v"}[r.Intn(4)], r.Intn(nRoots))
	}
	for _, j := range r.Perm(nRoots) {
		if r.Intn(2) == 0 {
			call("c", j)
		}
		call("e", j)
	}
	return h
}

func (h *history) base() string {
	var sb strings.Builder
	sb.WriteString("TYPE OBJECTS (each created ONCE: jschema.New(name, text), with jschema.KeysAreOptionalByDefault() where marked [opt], AddRule @e0 = [\"ab\", \"cd\"], @e1 = [1, 2, 3] (enum.New); the same object is passed to AddType of every root that lists it):")
	for pi, o := range h.pool {
		fmt.Fprintf(&sb, "\n#%d %s%s =\n%s", pi+1, o[0], optMark(h.popts[pi]), o[1])
	}
	for j, ro := range h.roots {
		fmt.Fprintf(&sb, "\nROOT %d = jschema.New(\"root%d\", text%s) + the two AddRule, text =\n%s\n  AddType in this order:", j, j, optArg(ro.g.RootOpt), ro.g.Root.Text())
		for _, ti := range ro.order {
			fmt.Fprintf(&sb, " %s=#%d", ro.g.Types[ti].Name, ro.objs[ti]+1)
		}
	}
	return sb.String()
}

func (h *history) calls(upto int) string {
	var cs []string
	for i, op := range h.ops {
		if i > upto {
			break
		}
		switch op.K {
		case "b":
			cs = append(cs, fmt.Sprintf("build(root %d)", op.R))
		case "c":
			cs = append(cs, fmt.Sprintf("Check(root %d)", op.R))
		case "e":
			cs = append(cs, fmt.Sprintf("ex := Example(root %d), Validate(root %d, ex)", op.R, op.R))
		case "v":
			cs = append(cs, fmt.Sprintf("Validate(root %d, %s)", op.R, h.roots[op.R].doc))
		}
	}
	return "\nCALLS: " + strings.Join(cs, "; ")
}

func (h *history) fresh(j int) string {
	ro := h.roots[j]
	var sb strings.Builder
	fmt.Fprintf(&sb, "s := jschema.New(\"root%d\", text%s) with text =\n%s\nAddRule: @e0 = [\"ab\", \"cd\"], @e1 = [1, 2, 3] (enum.New) on s and on every type; AddType (fresh jschema.New(name, text) each; [opt] = with jschema.KeysAreOptionalByDefault(), the others without) in this order:", j, optArg(ro.g.RootOpt), ro.g.Root.Text())
	for _, ti := range ro.order {
		sb.WriteString("\n" + ro.g.Types[ti].Name + optMark(ro.g.Types[ti].Opt) + " = " + ro.g.Types[ti].Body.Text())
	}
	sb.WriteString("\nthen s.Check(), ex := s.Example(), s.Validate(json.New(\"example\", ex))")
	return sb.String()
}

func (h *history) request(id int) *hReq {
	req := &hReq{ID: id, Pool: h.pool, PoolOpts: h.popts, Rules: c09.EnumRules, Ops: h.ops}
	for j, ro := range h.roots {
		rr := hRootReq{Name: fmt.Sprintf("root%d", j), Text: ro.g.Root.Text(), Doc: ro.doc, Opt: ro.g.RootOpt}
		for _, ti := range ro.order {
			rr.Adds = append(rr.Adds, ro.objs[ti])
		}
		req.Roots = append(req.Roots, rr)
	}
	return req
}

// verdict: messages are not compared ("Required key" messages list keys in map order).
func verdict(v string) string {
	if strings.HasPrefix(v, "E") {
		if i := strings.IndexByte(v, ' '); i > 0 {
			return v[:i]
		}
	}
	return v
}

func imin(a, b int) int {
	if a < b {
		return a
	}
	return b
}

const histComponent = "C15-shared-type-history"

func evaluateHistory(rep *vh.Report, h *history, res hRes) bool {
	base := h.base()
	if res.Crash != "" {
		rep.Case(base+h.calls(len(h.ops)), true)
		addDiff(rep, vh.Diff{Component: "C15-crash", Input: base + h.calls(len(h.ops)), Impl: "CRASH " + res.Crash, Model: "no library call may kill the process"})
		return true
	}
	if res.Timeout {
		rep.Case(base+h.calls(len(h.ops)), true)
		addDiff(rep, vh.Diff{Component: "C15-termination", Input: base + h.calls(len(h.ops)), Impl: "TIMEOUT", Model: fmt.Sprintf("every call returns within %v", tg.CallDeadline)})
		return false
	}
	if len(res.Fresh) != len(h.roots) || len(res.Calls) != len(h.ops) {
		addDiff(rep, vh.Diff{Component: "C15-harness", Input: base + h.calls(len(h.ops)), Impl: fmt.Sprintf("%d fresh results, %d call results", len(res.Fresh), len(res.Calls)), Model: "one result per root and per call"})
		return true
	}
	// every root assembled from fresh objects: C15 as in family (A)
	accepted := make([]bool, len(h.roots))
	sims := make([]*sim, len(h.roots))
	for j, ro := range h.roots {
		j := j
		f := res.Fresh[j]
		inh := ro.g.InhabitedTypes()
		s := tg.SchemaRes{AddErr: f.AddErr, Check: f.Check, Example: f.Ex, ExErr: f.ExErr, ValEx: f.Val}
		if !examine(rep, ro.g, inh, ro.g.Root, fmt.Sprintf("root%d", j), false, s, func() string { return h.fresh(j) }) {
			return true
		}
		accepted[j] = f.Check == "OK"
		if accepted[j] {
			rep.Stat("h_root_accepted")
			sims[j] = simulate(ro.g, ro.g.Root, "root", false)
		} else {
			rep.Stat("h_root_rejected")
		}
	}
	// the calls of the history
	exampleSeen := make([]bool, len(h.roots))
	anyExample := false
	quiet := true
	for i, op := range h.ops {
		c, f := res.Calls[i], res.Fresh[op.R]
		input := func() string { return base + h.calls(i) }
		differs := func(what, impl, model string) {
			quiet = false
			addDiff(rep, vh.Diff{Component: histComponent, Level: "correspondence", Input: input(), Impl: fmt.Sprintf("call %d, %s = %s", i+1, what, impl),
				Model: fmt.Sprintf("%s as with completely fresh type objects (no call on another root may change it)", model)})
		}
		switch op.K {
		case "b":
			want := f.AddErr
			if want == "" {
				want = "OK"
			}
			if verdict(c.Out) != verdict(want) {
				differs(fmt.Sprintf("build(root %d)", op.R), c.Out, want)
			}
		case "c":
			rep.Stat("h_call_check")
			if verdict(c.Out) != verdict(f.Check) {
				differs(fmt.Sprintf("Check(root %d)", op.R), c.Out, f.Check)
			}
		case "v":
			rep.Stat("h_call_validate")
			if verdict(c.Out) != verdict(f.Doc) {
				differs(fmt.Sprintf("Validate(root %d, doc)", op.R), c.Out, f.Doc)
			}
		case "e":
			rep.Stat("h_call_example")
			if anyExample && !exampleSeen[op.R] && accepted[op.R] {
				rep.Stat("h_first_example_of_a_root_after_examples_of_other_roots")
			}
			exampleSeen[op.R], anyExample = true, true
			if c.Ex == f.Ex && verdict(c.ExErr) == verdict(f.ExErr) && verdict(c.Val) == verdict(f.Val) {
				if accepted[op.R] {
					rep.Stat("h_example_as_fresh")
				}
				continue
			}
			got := fmt.Sprintf("%s ; Validate(root %d, ex) = %s", c.Ex, op.R, c.Val)
			if c.ExErr != "" {
				got = "error: " + c.ExErr
			}
			want := fmt.Sprintf("%s ; Validate = %s", f.Ex, f.Val)
			if f.ExErr != "" {
				want = "error: " + f.ExErr
			}
			bad := c.ExErr != "" || !json.Valid([]byte(c.Ex)) || c.Val != "OK"
			if accepted[op.R] && bad {
				// the property itself: this root passes Check and this is its Example()
				quiet = false
				rep.Stat("FAIL_unclassified_" + histComponent)
				addDiff(rep, vh.Diff{Component: histComponent, Input: input(), Impl: fmt.Sprintf("call %d, Example(root %d) = %s", i+1, op.R, got),
					Model: fmt.Sprintf("well-formed JSON that Validate of root %d accepts; with completely fresh type objects: %s", op.R, want)})
			} else {
				differs(fmt.Sprintf("Example(root %d)", op.R), got, want)
			}
		}
	}
	if quiet {
		rep.Stat("h_history_as_fresh")
	}
	// what the history shares
	nShared, dependent := 0, 0
	for pi, u := range h.uses {
		if u < 2 {
			continue
		}
		nShared++
		name := h.pool[pi][0]
		outs := map[string]bool{}
		for j, ro := range h.roots {
			if !accepted[j] || !sims[j].entered[name] {
				continue
			}
			for ti := range ro.g.Types {
				if ro.objs[ti] == pi {
					sm := simulate(ro.g, &tg.Node{Kind: tg.KRef, Names: []string{name}}, "root", false)
					outs[string(sm.out)+"\x00"+sm.err] = true
				}
			}
		}
		if len(outs) > 1 {
			dependent++
		}
	}
	for _, s := range h.stats {
		rep.Stat(s)
	}
	rep.Stat(fmt.Sprintf("h_shared_objects_%d", imin(nShared, 5)))
	rep.Stat(fmt.Sprintf("h_shared_objects_with_root_dependent_example_%d", imin(dependent, 3)))
	rep.Stat("h_histories")
	rep.Case(base+h.calls(len(h.ops)), dependent > 0)
	return true
}
