package c15

// String types with the full rule set. C15 quantifies over every schema Check accepts, "including user types, …, key
// shortcuts, enum rules": the string type behind a key shortcut `@K: v` (and behind a reference or a {type: "@K"} rule)
// may carry ANY rule a string type can carry. c09.RandomGraph writes its string types as "ab" with regex / length /
// enum rules only; widenStringTypes redraws half of them from everything the checker accepts on a string:
//
//	base      no rule | regex | minLength | maxLength | regex + maxLength | enum (inline list or the rule @e0)
//	          | a FORMAT type: type "email" | "uri" | "uuid" | "date" | "datetime" (the example a valid value)
//	type      the explicit `type` rule that names what the type is anyway: "string" (one time in three) beside
//	          regex / length rules or alone, "enum" (every second time) beside an enum rule
//	const     absent | true | false        nullable  absent | true | false        (each present one time in four)
//
// with the rules in random order. Example() emits the example of the string type as the key of a shortcut entry and as
// the value of a reference; Validate of the same schema must take it back whatever the rules say about the type.

import (
	"fmt"
	"math/rand"
	"regexp"
	"strings"

	tg "verifharness/x/tgraph"
)

var fmtExamples = map[string][]string{
	"email":    {"tom@cats.org", "a@b.c", "x+y@host.org"},
	"uri":      {"https://cats.org/tom", "http://a.b", "ftp://h/p?q#f"},
	"uuid":     {"550e8400-e29b-41d4-a716-446655440000", "urn:uuid:550E8400-E29B-41D4-A716-446655440000", "{550e8400-e29b-41d4-a716-446655440000}", "550e8400e29b41d4a716446655440000"},
	"date":     {"2021-12-31", "2020-02-29", "0001-01-01"},
	"datetime": {"2021-12-31T10:00:00+03:00", "2020-02-29T12:00:00Z", "2000-01-01T00:00:00.123Z"},
}

var fmtOrder = []string{"email", "uri", "uuid", "date", "datetime"}

// stringType: one string type as (example literal, rules).
func stringType(r *rand.Rand) (lit, rules string) {
	var rs []string
	ex := "ab"
	typ := ""
	switch k := r.Intn(16); {
	case k < 2: // no deciding rule
		ex = []string{"ab", "cd", "a-1", "q"}[r.Intn(4)]
		if r.Intn(3) == 0 {
			typ = "string"
		}
	case k < 7:
		switch r.Intn(5) {
		case 0:
			ex = []string{"ab", "abc"}[r.Intn(2)]
			rs = append(rs, `regex: "a.*"`)
		case 1:
			ex = []string{"ab", "a-1"}[r.Intn(2)]
			rs = append(rs, `regex: "^[a-z0-9-]+$"`)
		case 2:
			rs = append(rs, []string{"minLength: 1", "minLength: 2"}[r.Intn(2)])
		case 3:
			rs = append(rs, []string{"maxLength: 5", "maxLength: 2"}[r.Intn(2)])
		default:
			rs = append(rs, `regex: "^[a-c]+$"`, "maxLength: 5")
		}
		if r.Intn(3) == 0 {
			typ = "string"
		}
	case k < 10:
		switch r.Intn(3) {
		case 0:
			ex = []string{"ab", "cd"}[r.Intn(2)]
			rs = append(rs, "enum: @e0")
		case 1:
			rs = append(rs, `enum: ["ab", "cd"]`)
		default:
			rs = append(rs, `enum: ["x", "ab", 1]`)
		}
		if r.Intn(2) == 0 {
			typ = "enum"
		}
	default:
		typ = fmtOrder[r.Intn(len(fmtOrder))]
		pool := fmtExamples[typ]
		ex = pool[r.Intn(len(pool))]
	}
	if typ != "" {
		rs = append(rs, `type: "`+typ+`"`)
	}
	if r.Intn(4) == 0 {
		rs = append(rs, []string{"const: true", "const: false"}[r.Intn(2)])
	}
	if r.Intn(4) == 0 {
		rs = append(rs, []string{"nullable: true", "nullable: false"}[r.Intn(2)])
	}
	r.Shuffle(len(rs), func(i, j int) { rs[i], rs[j] = rs[j], rs[i] })
	return `"` + ex + `"`, strings.Join(rs, ", ")
}

// plainStringType: a type body that is a string literal with rules of its own only (no {type: "@t"} / {or: […]}).
func plainStringType(n *tg.Node) bool {
	return n != nil && n.Kind == tg.KLit && strings.HasPrefix(n.Lit, `"`) && n.TypeRef == "" && len(n.OrRule) == 0
}

// widenStringTypes: every second string type of the graph is redrawn from the full rule set (the node object is kept).
func widenStringTypes(r *rand.Rand, g *tg.Graph) {
	for _, t := range g.Types {
		if plainStringType(t.Body) && r.Intn(2) == 0 {
			t.Body.Lit, t.Body.Extra = stringType(r)
			t.Body.Nullable = false // nullable is among the drawn rules
		}
	}
}

var typeRuleRe = regexp.MustCompile(`type: "([a-z]+)"`)

// keyTypeFeatures: what the rules of a key shortcut's string type hold (statistics of the builder replay).
func keyTypeFeatures(kt *tg.Node) []string {
	if !plainStringType(kt) {
		return nil
	}
	var out []string
	if m := typeRuleRe.FindStringSubmatch(kt.Extra); m != nil {
		out = append(out, "key_type_with_explicit_type_rule", "key_type_explicit_type_"+m[1])
		if _, isFmt := fmtExamples[m[1]]; isFmt {
			out = append(out, "key_type_format")
		}
	}
	for _, w := range []string{"const: true", "const: false", "nullable: true", "nullable: false", "enum:", "regex:", "minLength:", "maxLength:"} {
		if strings.Contains(kt.Extra, w) {
			out = append(out, "key_type_"+strings.NewReplacer(": ", "_", ":", "").Replace(w))
		}
	}
	if kt.Extra == "" && !kt.Nullable {
		out = append(out, "key_type_without_rules")
	}
	return out
}

// addKeyShortcuts: family (A2). A graph of family (A) in which key shortcuts are the rule, not the exception: a string
// type with the full rule set is added when the graph has none (and one time in three anyway), and every object of the
// root and of the type bodies that has no key shortcut yet gets one with probability 1/2 (at least one object does;
// a root without any object is wrapped into one), at a random position among its properties, required or optional, its
// value a literal or a reference to any type. Inheritance (allOf), optional recursion and the known-finding situations
// arise as in family (A); they are recognised on the final IR by the builder replay.
func addKeyShortcuts(r *rand.Rand, g *tg.Graph) {
	var strs []string
	for _, t := range g.Types {
		if plainStringType(t.Body) {
			strs = append(strs, t.Name)
		}
	}
	if len(strs) == 0 || r.Intn(3) == 0 {
		name := fmt.Sprintf("@t%d", len(g.Types))
		lit, rules := stringType(r)
		g.Types = append(g.Types, tg.TypeDef{Name: name, Body: &tg.Node{Kind: tg.KLit, Lit: lit, Extra: rules}, Opt: r.Intn(2) == 0})
		strs = append(strs, name)
	}
	var objs []*tg.Node
	collect := func(n *tg.Node) {
		n.Walk(func(m *tg.Node) {
			if m.Kind == tg.KObj && len(m.OrRule) == 0 && m.TypeRef == "" {
				objs = append(objs, m)
			}
		})
	}
	collect(g.Root)
	for _, t := range g.Types {
		collect(t.Body)
	}
	if len(objs) == 0 {
		old := g.Root
		g.Root = &tg.Node{Kind: tg.KObj, Props: []tg.Prop{{Key: "k0", Val: old}}}
		objs = append(objs, g.Root)
	}
	value := func() *tg.Node {
		switch r.Intn(5) {
		case 0:
			return &tg.Node{Kind: tg.KLit, Lit: "1"}
		case 1:
			return &tg.Node{Kind: tg.KLit, Lit: `"ab"`}
		case 2:
			return &tg.Node{Kind: tg.KLit, Lit: "true", Nullable: r.Intn(3) == 0}
		case 3:
			return &tg.Node{Kind: tg.KRef, Names: []string{strs[r.Intn(len(strs))]}}
		}
		return &tg.Node{Kind: tg.KRef, Names: []string{g.Types[r.Intn(len(g.Types))].Name}, Nullable: r.Intn(5) == 0}
	}
	sure := r.Intn(len(objs))
	for i, o := range objs {
		has := false
		for _, p := range o.Props {
			has = has || p.Shortcut
		}
		if has || (i != sure && r.Intn(2) == 0) {
			continue
		}
		p := tg.Prop{Key: strs[r.Intn(len(strs))], Shortcut: true, Val: value()}
		switch r.Intn(10) {
		case 0, 1, 2:
			p.Val.Optional = true
		case 3:
			p.Val.Required = true
		}
		at := r.Intn(len(o.Props) + 1)
		o.Props = append(o.Props[:at], append([]tg.Prop{p}, o.Props[at:]...)...)
	}
}
