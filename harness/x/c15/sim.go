package c15

// Replay of notations/jschema/example.go (exampleBuilder) on the IR. It reproduces the bytes and,
// more importantly, decides STRUCTURALLY in which situation of a known finding the builder ends up:
//
//   - cut-off: buildExampleForMixedValueNode returns (nil, nil) when the first alternative's type
//     has already been entered twice (processedTypes[t] > 1); the nearest enclosing object property
//     / array element is then omitted, whatever its optionality.
//     · consumed by an OPTIONAL property: harmless (the only situation the cut-off was made for). Optional is
//     read per schema OBJECT (tg.PropOptional): `optional: true`, or no `optional` rule at all in the text of an
//     object created with jschema.KeysAreOptionalByDefault() — the root and every added type have their own
//     setting, and a property inherited through allOf keeps the reading of the PARENT's object (the heir copies the
//     parent's required-keys list)
//     · the cycle being cut contains an or-shortcut choice (the builder always takes the first
//     alternative): K-C15-or
//     · consumed by an array element: K-C15-arraycut
//     · consumed by a required property / the root, no or-shortcut on the cycle: K-C15-reqcut
//   - an uninhabited type (accepted by Check because of K-C09-cycle) is entered: K-C15-uninhabited
//   - the object being built has a key shortcut whose type's root node is not a plain string literal
//     (reference, or-shortcut, or a literal with {type}/{or}): K-C15-keyalias
//   - an object / array EXAMPLE node carries a types-list ({or: […]}): K-C15-orcontainer (error)
//   - the key the builder writes for a key shortcut (the example of its string type) equals, decoded, another key it
//     writes into the same object (a literal key, or the example key of another shortcut, own or inherited): K-C15-keyclash

import (
	"encoding/json"

	tg "verifharness/x/tgraph"
)

// decodedKey: the key a JSON string token stands for (the token itself when encoding/json cannot read it).
func decodedKey(tok []byte) string {
	var k string
	if err := json.Unmarshal(tok, &k); err == nil {
		return k
	}
	return string(tok)
}

type frame struct {
	typ  string // type entered by this frame ("" = none)
	isOr bool   // an or-shortcut node (≥ 2 alternatives) made the choice
}

type sim struct {
	g         *tg.Graph
	processed map[string]int
	stack     []frame

	out      []byte
	err      string
	entered  map[string]bool
	features map[string]bool
	keyAlias bool
	keyClash bool
	cutOr    bool
	cutArr   bool
	cutReq   bool
	rootOpt  bool
}

// oprop: a property together with the option of the schema object whose text holds it.
type oprop struct {
	tg.Prop
	opt bool
}

type cut struct {
	viaOr bool // the cycle that was cut contains an or-shortcut choice
}

// schemaOpt: the option of the schema object under examination: a type compiled as its own root is that type's
// object, anything else is the root object of the graph.
func schemaOpt(g *tg.Graph, name string, self bool) bool {
	if self {
		return g.Opt(name)
	}
	return g.RootOpt
}

func simulate(g *tg.Graph, root *tg.Node, name string, self bool) *sim {
	s := &sim{g: g, processed: map[string]int{}, entered: map[string]bool{}, features: map[string]bool{}}
	s.rootOpt = schemaOpt(g, name, self)
	out, c := s.build(root, s.rootOpt)
	if out == nil && s.err == "" {
		s.features["cut_at_root"] = true
		if c != nil && c.viaOr {
			s.cutOr = true
		} else {
			s.cutReq = true
		}
	}
	s.out = out
	return s
}

// props: the properties of an object after CompileAllOf (own ones, then each parent's).
func (s *sim) props(n *tg.Node, opt bool, depth int) []oprop {
	var out []oprop
	for _, p := range n.Props {
		out = append(out, oprop{p, opt})
	}
	if depth > 8 {
		return out
	}
	for _, p := range n.AllOf {
		if pt := s.g.Type(p); pt != nil && pt.Kind == tg.KObj {
			out = append(out, s.props(pt, s.g.Opt(p), depth+1)...)
		}
	}
	return out
}

func hasRules(n *tg.Node) bool { return n.TypeRef != "" || len(n.OrRule) > 0 }

// build: n is a node of the text of a schema object whose option is opt.
func (s *sim) build(n *tg.Node, opt bool) ([]byte, *cut) {
	if s.err != "" {
		return nil, nil
	}
	switch n.Kind {
	case tg.KLit:
		return []byte(n.Lit), nil
	case tg.KObj:
		if hasRules(n) {
			s.err = "orcontainer"
			return nil, nil
		}
		if len(n.AllOf) > 0 {
			s.features["allOf_object"] = true
		}
		buf := []byte{'{'}
		first := true
		emitted := map[string]bool{} // decoded key -> emitted by a shortcut
		for _, p := range s.props(n, opt, 0) {
			ex, c := s.build(p.Val, p.opt)
			if s.err != "" {
				return nil, nil
			}
			if ex == nil {
				switch {
				case p.Val.Optional:
					s.features["cut_at_optional_property"] = true
				case tg.PropOptional(p.Val, p.opt):
					s.features["cut_at_unmarked_property_of_an_object_with_optional_keys"] = true
				case c != nil && c.viaOr:
					s.cutOr = true
					s.features["cut_at_required_property_via_or"] = true
				default:
					s.cutReq = true
					s.features["cut_at_required_property"] = true
				}
				continue
			}
			var key []byte
			if p.Shortcut {
				s.features["key_shortcut"] = true
				kt := s.g.Type(p.Key)
				if kt == nil {
					s.err = "unknown key type"
					return nil, nil
				}
				if kt.Kind != tg.KLit || hasRules(kt) {
					s.keyAlias = true
				}
				for _, f := range keyTypeFeatures(kt) {
					s.features[f] = true
				}
				key, _ = s.build(kt, s.g.Opt(p.Key))
				if s.err != "" {
					return nil, nil
				}
			} else {
				key = []byte(`"` + p.Key + `"`)
			}
			// the example key of a shortcut equals another key the builder writes into the same object
			dk := decodedKey(key)
			if byShortcut, dup := emitted[dk]; dup && (byShortcut || p.Shortcut) {
				s.keyClash = true
				s.features["key_shortcut_example_equals_another_key_of_the_object"] = true
			}
			emitted[dk] = emitted[dk] || p.Shortcut
			if !first {
				buf = append(buf, ',')
			}
			first = false
			buf = append(buf, key...)
			buf = append(buf, ':')
			buf = append(buf, ex...)
		}
		return append(buf, '}'), nil
	case tg.KArr:
		if hasRules(n) {
			s.err = "orcontainer"
			return nil, nil
		}
		buf := []byte{'['}
		first := true
		for _, it := range n.Items {
			ex, c := s.build(it, opt)
			if s.err != "" {
				return nil, nil
			}
			if ex == nil {
				s.cutArr = true
				s.features["cut_at_array_element"] = true
				if c != nil && c.viaOr {
					s.cutOr = true
				}
				continue
			}
			if !first {
				buf = append(buf, ',')
			}
			first = false
			buf = append(buf, ex...)
		}
		return append(buf, ']'), nil
	case tg.KRef:
		t := n.Names[0]
		isOr := len(n.Names) > 1
		if isOr {
			s.features["or_shortcut_first_alternative"] = true
		}
		if s.processed[t] > 1 {
			// the cycle: everything on the stack from the first entry of t, plus this node
			via := isOr
			in := false
			for _, f := range s.stack {
				if f.typ == t {
					in = true
				}
				if in && f.isOr {
					via = true
				}
			}
			return nil, &cut{viaOr: via}
		}
		s.processed[t]++
		s.entered[t] = true
		if s.processed[t] > 1 {
			s.features["recursive_entry"] = true
		}
		s.stack = append(s.stack, frame{typ: t, isOr: isOr})
		defer func() {
			s.processed[t]--
			s.stack = s.stack[:len(s.stack)-1]
		}()
		body := s.g.Type(t)
		if body == nil {
			s.err = "type not found"
			return nil, nil
		}
		return s.build(body, s.g.Opt(t))
	}
	return nil, nil
}

// class: the known-finding situation the builder provably meets on this schema ("" = none).
func (s *sim) class(g *tg.Graph, root *tg.Node, inh map[string]bool) string {
	switch {
	case s.err == "orcontainer":
		return "K-C15-orcontainer"
	case s.uninhabited(g, root, inh):
		return "K-C15-uninhabited"
	case s.keyAlias:
		return "K-C15-keyalias"
	case s.keyClash:
		return "K-C15-keyclash"
	case s.cutOr:
		return "K-C15-or"
	case s.cutArr:
		return "K-C15-arraycut"
	case s.cutReq:
		return "K-C15-reqcut"
	}
	return ""
}

func (s *sim) uninhabited(g *tg.Graph, root *tg.Node, inh map[string]bool) bool {
	if !tg.InhabitedIn(root, inh, s.rootOpt) {
		return true
	}
	for t := range s.entered {
		if !inh[t] {
			return true
		}
	}
	return false
}
