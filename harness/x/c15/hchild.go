package c15

// Child process and pool of family (C): histories of calls over several root schemas that share type
// OBJECTS. Every library call runs in a child (`vh c15-example --hchild`; a Go stack overflow is fatal),
// under recover and under a deadline. One request = one history:
//
//	fresh phase   per root: every type object created anew, AddType in the root's order, Check(),
//	              Example(), Validate(Example()), Validate(doc)
//	history phase ONE object per pool entry (created when first needed), then the calls of Ops in order:
//	              b = build the root (jschema.New + AddRule + AddType…), c = Check(), e = Example() followed by
//	              Validate(of that very result), v = Validate(doc)

import (
	"bufio"
	"encoding/json"
	"fmt"
	"io"
	"os"
	"os/exec"
	"runtime/debug"
	"sync"
	"time"

	jdoc "github.com/jsightapi/jsight-schema-go-library/formats/json"
	"github.com/jsightapi/jsight-schema-go-library/notations/jschema"
	"github.com/jsightapi/jsight-schema-go-library/rules/enum"

	tg "verifharness/x/tgraph"
)

type hOp struct {
	K string `json:"k"` // b | c | e | v
	R int    `json:"r"`
}

type hRootReq struct {
	Name string `json:"n"`
	Text string `json:"t"`
	Adds []int  `json:"a"`           // pool indices, in AddType order (the name is the pool entry's name)
	Doc  string `json:"d"`           // document of the v calls
	Opt  bool   `json:"o,omitempty"` // this root object is created with jschema.KeysAreOptionalByDefault()
}

type hReq struct {
	ID   int         `json:"id"`
	Pool [][2]string `json:"pool"` // name, text
	// PoolOpts[i]: pool object i is created with jschema.KeysAreOptionalByDefault() (the option belongs to the object,
	// whichever roots it is added to)
	PoolOpts []bool      `json:"popts,omitempty"`
	Rules    [][2]string `json:"rules"`
	Roots    []hRootReq  `json:"roots"`
	Ops      []hOp       `json:"ops"`
}

type hCall struct {
	Out   string `json:"o,omitempty"` // b: AddType errors or OK; c, v: verdict
	Ex    string `json:"x,omitempty"`
	ExErr string `json:"xe,omitempty"`
	Val   string `json:"xv,omitempty"` // Validate(Example())
}

type hFresh struct {
	AddErr string `json:"a,omitempty"`
	Check  string `json:"c"`
	Ex     string `json:"x,omitempty"`
	ExErr  string `json:"xe,omitempty"`
	Val    string `json:"xv,omitempty"`
	Doc    string `json:"d,omitempty"`
}

type hRes struct {
	ID    int      `json:"id"`
	Fresh []hFresh `json:"fresh"`
	Calls []hCall  `json:"calls"`
	// filled by the pool
	Crash   string `json:"-"`
	Timeout bool   `json:"-"`
}

var hTimedOut bool

func hcall(f func() string) string {
	ch := make(chan string, 1)
	go func() {
		defer func() {
			if r := recover(); r != nil {
				ch <- fmt.Sprintf("PANIC %v", r)
			}
		}()
		ch <- f()
	}()
	select {
	case s := <-ch:
		return s
	case <-time.After(tg.CallDeadline):
		hTimedOut = true
		return "TIMEOUT"
	}
}

func newObject(name, text string, opt bool, rules [][2]string) (*jschema.Schema, string) {
	s := jschema.New(name, text)
	if opt {
		s = jschema.New(name, text, jschema.KeysAreOptionalByDefault())
	}
	for _, r := range rules {
		if err := s.AddRule(r[0], enum.New(r[0], r[1])); err != nil {
			return s, "rule " + r[0] + ": " + tg.ErrString(err)
		}
	}
	return s, ""
}

func hExample(s *jschema.Schema) (ex, exErr, val string) {
	var b []byte
	exErr = hcall(func() string {
		x, err := s.Example()
		b = x
		if err != nil {
			return tg.ErrString(err)
		}
		return ""
	})
	ex = string(b)
	if exErr == "" && !hTimedOut {
		val = hcall(func() string { return tg.ErrString(s.Validate(jdoc.New("example", b))) })
	}
	return
}

func hServe(req *hReq) hRes {
	res := hRes{ID: req.ID}
	popt := func(pi int) bool { return pi < len(req.PoolOpts) && req.PoolOpts[pi] }
	build := func(rr hRootReq, object func(int) (*jschema.Schema, string)) (*jschema.Schema, string) {
		var s *jschema.Schema
		e := hcall(func() string {
			var bad string
			s, bad = newObject(rr.Name, rr.Text, rr.Opt, req.Rules)
			for _, pi := range rr.Adds {
				o, e := object(pi)
				if e != "" && bad == "" {
					bad = e
				}
				if err := s.AddType(req.Pool[pi][0], o); err != nil && bad == "" {
					bad = "type " + req.Pool[pi][0] + ": " + tg.ErrString(err)
				}
			}
			if bad != "" {
				return bad
			}
			return "OK"
		})
		return s, e
	}
	// fresh phase
	for _, rr := range req.Roots {
		var f hFresh
		s, e := build(rr, func(pi int) (*jschema.Schema, string) {
			return newObject(req.Pool[pi][0], req.Pool[pi][1], popt(pi), req.Rules)
		})
		if e != "OK" {
			f.AddErr = e
		}
		if s != nil && !hTimedOut {
			f.Check = hcall(func() string { return tg.ErrString(s.Check()) })
			if !hTimedOut {
				f.Ex, f.ExErr, f.Val = hExample(s)
			}
			if !hTimedOut {
				f.Doc = hcall(func() string { return tg.ErrString(s.Validate(jdoc.New("doc", rr.Doc))) })
			}
		}
		res.Fresh = append(res.Fresh, f)
		if hTimedOut {
			return res
		}
	}
	// history phase
	objs := make([]*jschema.Schema, len(req.Pool))
	roots := make([]*jschema.Schema, len(req.Roots))
	for _, op := range req.Ops {
		var c hCall
		rr := req.Roots[op.R]
		s := roots[op.R]
		switch {
		case op.K == "b":
			roots[op.R], c.Out = build(rr, func(pi int) (*jschema.Schema, string) {
				if objs[pi] != nil {
					return objs[pi], ""
				}
				var e string
				objs[pi], e = newObject(req.Pool[pi][0], req.Pool[pi][1], popt(pi), req.Rules)
				return objs[pi], e
			})
		case s == nil:
			c.Out = "NOT BUILT"
		case op.K == "c":
			c.Out = hcall(func() string { return tg.ErrString(s.Check()) })
		case op.K == "e":
			c.Ex, c.ExErr, c.Val = hExample(s)
		case op.K == "v":
			c.Out = hcall(func() string { return tg.ErrString(s.Validate(jdoc.New("doc", rr.Doc))) })
		}
		res.Calls = append(res.Calls, c)
		if hTimedOut {
			break
		}
	}
	return res
}

func hChildMain() {
	debug.SetMaxStack(96 << 20)
	in := bufio.NewReaderSize(os.Stdin, 1<<20)
	out := bufio.NewWriter(os.Stdout)
	for {
		line, err := in.ReadBytes('\n')
		if len(line) > 1 {
			var req hReq
			if e := json.Unmarshal(line, &req); e != nil {
				fmt.Fprintln(os.Stderr, "child: bad request:", e)
				os.Exit(4)
			}
			res := hServe(&req)
			b, _ := json.Marshal(res)
			out.Write(b)
			out.WriteByte('\n')
			out.Flush()
			if hTimedOut {
				os.Exit(3) // a library call is still spinning in its goroutine
			}
		}
		if err != nil {
			return
		}
	}
}

// ---- pool ----

type hWorker struct {
	cmd    *exec.Cmd
	stdin  io.WriteCloser
	stdout *bufio.Reader
	stderr *headBuf
}

type headBuf struct {
	mu  sync.Mutex
	buf []byte
}

func (t *headBuf) Write(p []byte) (int, error) {
	t.mu.Lock()
	defer t.mu.Unlock()
	if n := 600 - len(t.buf); n > 0 { // the head of a Go fatal error carries the reason
		if n > len(p) {
			n = len(p)
		}
		t.buf = append(t.buf, p[:n]...)
	}
	return len(p), nil
}

func (t *headBuf) String() string {
	t.mu.Lock()
	defer t.mu.Unlock()
	return string(t.buf)
}

func startHWorker() *hWorker {
	exe, err := os.Executable()
	if err != nil {
		exe = os.Args[0]
	}
	cmd := exec.Command(exe, command, "--hchild")
	stdin, err := cmd.StdinPipe()
	if err != nil {
		panic(err)
	}
	stdout, err := cmd.StdoutPipe()
	if err != nil {
		panic(err)
	}
	hb := &headBuf{}
	cmd.Stderr = hb
	if err := cmd.Start(); err != nil {
		panic(fmt.Sprintf("cannot start child %s: %v", exe, err))
	}
	return &hWorker{cmd: cmd, stdin: stdin, stdout: bufio.NewReaderSize(stdout, 1<<20), stderr: hb}
}

func (w *hWorker) kill() {
	w.stdin.Close()
	w.cmd.Process.Kill()
	w.cmd.Wait()
}

func (w *hWorker) ask(req *hReq) (res hRes, alive bool) {
	b, _ := json.Marshal(req)
	b = append(b, '\n')
	type answer struct {
		line []byte
		err  error
	}
	ch := make(chan answer, 1)
	go func() {
		if _, err := w.stdin.Write(b); err != nil {
			ch <- answer{nil, err}
			return
		}
		line, err := w.stdout.ReadBytes('\n')
		ch <- answer{line, err}
	}()
	nCalls := 4 + 5*len(req.Roots) + 2*len(req.Ops)
	select {
	case a := <-ch:
		if len(a.line) > 1 {
			if e := json.Unmarshal(a.line, &res); e == nil {
				tmo := func(ss ...string) {
					for _, s := range ss {
						if s == "TIMEOUT" {
							res.Timeout = true
						}
					}
				}
				for _, f := range res.Fresh {
					tmo(f.AddErr, f.Check, f.ExErr, f.Val, f.Doc)
				}
				for _, c := range res.Calls {
					tmo(c.Out, c.ExErr, c.Val)
				}
				return res, !res.Timeout
			}
		}
		w.cmd.Wait()
		res.ID = req.ID
		res.Crash = fmt.Sprintf("child died (%v): %s", w.cmd.ProcessState, w.stderr.String())
		return res, false
	case <-time.After(time.Duration(nCalls)*tg.CallDeadline + 10*time.Second):
		res.ID = req.ID
		res.Timeout = true
		return res, false
	}
}

// runHistPool feeds the histories to n children and calls handle (serialised) with every answer, in
// arbitrary order; handle returns false to stop.
func runHistPool(n int, reqs <-chan *hReq, handle func(*hReq, hRes) bool) {
	type pair struct {
		req *hReq
		res hRes
	}
	results := make(chan pair, 4*n)
	var stop bool
	var mu sync.Mutex
	var wg sync.WaitGroup
	for i := 0; i < n; i++ {
		wg.Add(1)
		go func() {
			defer wg.Done()
			w := startHWorker()
			defer func() { w.kill() }()
			for req := range reqs {
				mu.Lock()
				s := stop
				mu.Unlock()
				if s {
					continue // drain
				}
				res, alive := w.ask(req)
				if !alive {
					w.kill()
					w = startHWorker()
				}
				results <- pair{req, res}
			}
		}()
	}
	go func() {
		wg.Wait()
		close(results)
	}()
	for p := range results {
		mu.Lock()
		s := stop
		mu.Unlock()
		if s {
			continue
		}
		if !handle(p.req, p.res) {
			mu.Lock()
			stop = true
			mu.Unlock()
		}
	}
}
