package c15

import (
	"math/rand"
	"strings"
)

// Family (B): a schema whose example is plain JSON. plainSchema returns the schema text (random
// layout, annotations with rules the example value satisfies, notes, user comments) and the compact
// form of the example (tokens exactly as written, no insignificant whitespace), which Example()
// must return byte for byte.

type pnode struct {
	kind  byte // 's' scalar, 'a' array, 'o' object
	tok   string
	keys  []string
	elems []*pnode
}

var (
	pInts    = []string{"0", "1", "-1", "12", "-305", "7000000"}
	pFloats  = []string{"2.50", "-0.5", "10.0", "0.00", "3.14159"}
	pStrings = []string{`"a"`, `""`, `"a\"b"`, `"\\"`, `"é"`, `"é😀"`, `"a b"`, `"\n\t"`, `"/"`, `"\/"`, `"#x"`, `"// no comment"`, `"{x: 1}"`, `"@t"`, `"a|b"`, `"[,]:"`}
	pKeys    = []string{`"k"`, `"a\"b"`, `"\\"`, `"é"`, `" "`, `"a/b"`, `"#"`, `"@x"`, `"key two"`, `"\u0041"`, `"\t"`, `"1"`, `""`, `"//"`, `"{"`, `"a:b"`,
		// escape spellings Go quoting and JSON quoting disagree on, or that a re-quoting would re-spell
		`"\u0001"`, `"a\u000bb"`, `"\u001f"`, `"\u007f"`, `"\/"`, `"\ud83d\ude00"`, `"\udb40\udc01"`, `"\u0000"`, `"\u00e9\b\f"`, `"\u2028"`}
)

func pScalar(r *rand.Rand) *pnode {
	switch r.Intn(7) {
	case 0, 1:
		return &pnode{kind: 's', tok: pInts[r.Intn(len(pInts))]}
	case 2:
		return &pnode{kind: 's', tok: pFloats[r.Intn(len(pFloats))]}
	case 3, 4:
		return &pnode{kind: 's', tok: pStrings[r.Intn(len(pStrings))]}
	case 5:
		return &pnode{kind: 's', tok: []string{"true", "false"}[r.Intn(2)]}
	}
	return &pnode{kind: 's', tok: "null"}
}

func pValue(r *rand.Rand, depth int) *pnode {
	if depth == 0 || r.Intn(5) < 2 {
		return pScalar(r)
	}
	n := r.Intn(5)
	if r.Intn(2) == 0 {
		a := &pnode{kind: 'a'}
		for i := 0; i < n; i++ {
			a.elems = append(a.elems, pValue(r, depth-1))
		}
		return a
	}
	o := &pnode{kind: 'o'}
	perm := r.Perm(len(pKeys))
	for i := 0; i < n; i++ {
		o.keys = append(o.keys, pKeys[perm[i]])
		o.elems = append(o.elems, pValue(r, depth-1))
	}
	return o
}

func (n *pnode) compact(sb *strings.Builder) {
	switch n.kind {
	case 's':
		sb.WriteString(n.tok)
	case 'a':
		sb.WriteByte('[')
		for i, e := range n.elems {
			if i > 0 {
				sb.WriteByte(',')
			}
			e.compact(sb)
		}
		sb.WriteByte(']')
	case 'o':
		sb.WriteByte('{')
		for i, e := range n.elems {
			if i > 0 {
				sb.WriteByte(',')
			}
			sb.WriteString(n.keys[i])
			sb.WriteByte(':')
			e.compact(sb)
		}
		sb.WriteByte('}')
	}
}

func ws(r *rand.Rand) string {
	return []string{"", "", " ", "  ", "\t", " \t "}[r.Intn(6)]
}

// inline: the subtree on one line, random blanks, no annotations.
func (n *pnode) inline(r *rand.Rand, sb *strings.Builder) {
	switch n.kind {
	case 's':
		sb.WriteString(n.tok)
	case 'a':
		sb.WriteString("[" + ws(r))
		for i, e := range n.elems {
			if i > 0 {
				sb.WriteString(ws(r) + "," + ws(r))
			}
			e.inline(r, sb)
		}
		sb.WriteString(ws(r) + "]")
	case 'o':
		sb.WriteString("{" + ws(r))
		for i, e := range n.elems {
			if i > 0 {
				sb.WriteString(ws(r) + "," + ws(r))
			}
			sb.WriteString(n.keys[i] + ws(r) + ":" + ws(r))
			e.inline(r, sb)
		}
		sb.WriteString(ws(r) + "}")
	}
}

// rule: a rule set the example value satisfies.
func (n *pnode) rule(r *rand.Rand, isProp bool) string {
	var cand []string
	switch n.kind {
	case 'a':
		cand = []string{"minItems: 0", "maxItems: 10", `type: "array"`, "nullable: true", "minItems: 0, maxItems: 9"}
		if len(n.elems) == 0 { // error 1204: an empty example array admits only 0 as minItems / maxItems
			cand = []string{"minItems: 0", `type: "array"`, "nullable: true", "maxItems: 0"}
		}
	case 'o':
		cand = []string{`type: "object"`, "nullable: true", "additionalProperties: true", `additionalProperties: "string"`, "additionalProperties: false"}
	default:
		t := n.tok
		switch {
		case t == "null":
			cand = []string{`type: "null"`}
		case t == "true" || t == "false":
			cand = []string{`type: "boolean"`, "const: true", "nullable: true"}
		case t[0] == '"':
			cand = []string{`type: "string"`, "minLength: 0", "maxLength: 40", "nullable: true", "const: true", `regex: ".*"`}
		case strings.Contains(t, "."):
			cand = []string{`type: "float"`, "min: -1000", "max: 1000.5", "nullable: true", "min: -1000, exclusiveMinimum: true"}
		default:
			cand = []string{`type: "integer"`, "min: -1000", "max: 7000000", "nullable: true", "const: true", "min: -400, max: 7000001"}
		}
	}
	if isProp {
		cand = append(cand, "optional: true", "optional: false")
	}
	return cand[r.Intn(len(cand))]
}

func (n *pnode) annotation(r *rand.Rand, isProp bool) string {
	switch r.Intn(9) {
	case 0, 1:
		return " // {" + n.rule(r, isProp) + "}"
	case 2:
		return " // {" + n.rule(r, isProp) + "} - a note"
	case 3:
		return " // just a note"
	case 4:
		return " /* {" + n.rule(r, isProp) + "} */"
	case 5:
		return " # user comment"
	case 6:
		return " // {" + n.rule(r, isProp) + "} # and a comment"
	}
	return ""
}

// multi: one EXAMPLE node per line, so that every line may carry an annotation.
func (n *pnode) multi(r *rand.Rand, sb *strings.Builder, indent, prefix string, comma string, isProp bool) {
	in := indent + []string{"  ", "\t", "", "    "}[r.Intn(4)]
	switch {
	case n.kind == 's' || len(n.elems) == 0:
		body := n.tok
		if n.kind == 'a' {
			body = []string{"[]", "[ ]"}[r.Intn(2)]
		} else if n.kind == 'o' {
			body = []string{"{}", "{ }"}[r.Intn(2)]
		}
		sb.WriteString(indent + prefix + body + comma + n.annotation(r, isProp) + "\n")
	case r.Intn(4) == 0: // whole subtree on this line; several nodes on one line: no annotation
		sb.WriteString(indent + prefix)
		n.inline(r, sb)
		sb.WriteString(comma + "\n")
	case n.kind == 'a':
		sb.WriteString(indent + prefix + "[" + n.annotation(r, isProp) + "\n")
		for i, e := range n.elems {
			c := ""
			if i+1 < len(n.elems) {
				c = ws(r) + ","
			}
			e.multi(r, sb, in, "", c, false)
			if r.Intn(8) == 0 {
				sb.WriteString("\n")
			}
		}
		sb.WriteString(indent + "]" + comma + "\n")
	default:
		sb.WriteString(indent + prefix + "{" + n.annotation(r, isProp) + "\n")
		for i, e := range n.elems {
			c := ""
			if i+1 < len(n.elems) {
				c = ws(r) + ","
			}
			e.multi(r, sb, in, n.keys[i]+ws(r)+":"+ws(r), c, true)
		}
		sb.WriteString(indent + "}" + comma + "\n")
	}
}

func plainSchema(r *rand.Rand) (text, want string) {
	n := pValue(r, 1+r.Intn(4))
	var w strings.Builder
	n.compact(&w)
	var sb strings.Builder
	if r.Intn(5) == 0 {
		sb.WriteString(ws(r))
		n.inline(r, &sb)
		sb.WriteString(ws(r))
		return sb.String(), w.String()
	}
	if r.Intn(4) == 0 {
		sb.WriteString("\n")
	}
	n.multi(r, &sb, "", "", "", false)
	text = sb.String()
	if r.Intn(2) == 0 {
		text = strings.TrimRight(text, "\n")
	}
	return text, w.String()
}
