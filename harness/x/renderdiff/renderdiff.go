// Package renderdiff: T-diff of the error renderer errors/document.go (DocumentError.Line,
// SourceSubString and the caret line of Error()) against the Lean model JSight/Render.lean (driver
// request `rend <hex content> <idx>` -> `line|hex(text)|number of dashes before the caret`, or CRASH
// where the Go code would index out of range). reuse.go adds the API-sequence stream: one error value moved
// with SetIndex / SetFile between renderings.
package renderdiff

import (
	"fmt"
	"math/rand"
	"strings"
	"sync"

	"github.com/jsightapi/jsight-schema-go-library/bytes"
	"github.com/jsightapi/jsight-schema-go-library/errors"
	"github.com/jsightapi/jsight-schema-go-library/fs"

	"verifharness/vh"
)

type rcase struct {
	content []byte
	idx     int
	stream  string
}

// render returns (canonical answer, consistency complaint about Error()).
func render(content []byte, idx int) (out string, complaint string) {
	out = vh.Recover(func() string {
		de := errors.NewDocumentError(fs.NewFile("f", append([]byte(nil), content...)), errors.Format(errors.ErrGeneric, "m"))
		de.SetMessage("m")
		de.SetIndex(bytes.Index(idx))
		line := de.Line()
		text := de.SourceSubString()
		full := de.Error()
		// the caret line is only available inside the Error() text: everything behind the last "\n\t--"
		p := strings.LastIndex(full, "\n\t--")
		if p < 0 {
			complaint = "no caret line in Error()"
			return fmt.Sprintf("%d|%s|?", line, vh.Hex([]byte(text)))
		}
		caret := full[p+4:]
		dashes := strings.TrimSuffix(caret, "^")
		if !strings.HasSuffix(caret, "^") || strings.Trim(dashes, "-") != "" {
			complaint = fmt.Sprintf("caret line is %q", caret)
		}
		if want := fmt.Sprintf("ERROR: m\n\tin line %d on file f\n\t> %s\n\t--%s", line, text, caret); want != full {
			complaint = fmt.Sprintf("Error() = %q but Line()=%d SourceSubString()=%q", full, line, text)
		}
		return fmt.Sprintf("%d|%s|%d", line, vh.Hex([]byte(text)), len(dashes))
	})
	return out, complaint
}

type runner struct {
	rep   *vh.Report
	cases []rcase
}

func (x *runner) add(stream string, content []byte, idx int) {
	x.cases = append(x.cases, rcase{append([]byte(nil), content...), idx, stream})
	if len(x.cases) >= 400000 {
		x.flush()
	}
}

func (x *runner) flush() {
	n := len(x.cases)
	if n == 0 {
		return
	}
	impl := make([]string, n)
	compl := make([]string, n)
	reqs := make([]string, n)
	var wg sync.WaitGroup
	const workers = 16
	for w := 0; w < workers; w++ {
		wg.Add(1)
		go func(w int) {
			defer wg.Done()
			for i := w; i < n; i += workers {
				c := x.cases[i]
				reqs[i] = fmt.Sprintf("rend %s %d", vh.Hex(c.content), c.idx)
				impl[i], compl[i] = render(c.content, c.idx)
			}
		}(w)
	}
	wg.Wait()
	model := vh.AskModelSharded(reqs, 16)
	for i, c := range x.cases {
		in := fmt.Sprintf("content=%q index=%d", c.content, c.idx)
		s := string(c.content)
		x.rep.Case(in, (strings.ContainsAny(s, "\n\r") && strings.Trim(s, " \t\n\r") != "") || len(c.content) > 200)
		x.rep.Stat("in_" + c.stream)
		panicked := strings.HasPrefix(impl[i], "PANIC")
		switch {
		case panicked && c.idx >= len(c.content) && model[i] == "CRASH":
			// position behind the content: the Go code indexes out of range, the model says so
			x.rep.Stat("outside_both_crash")
			continue
		case panicked:
			x.rep.Stat("panic")
			x.rep.AddDiff(vh.Diff{Component: "render-panic", Input: in, Impl: impl[i], Model: model[i], Note: reqs[i]})
			continue
		}
		if impl[i] != model[i] {
			x.rep.AddDiff(vh.Diff{Component: "render", Input: in, Impl: impl[i], Model: model[i], Note: reqs[i]})
		}
		if compl[i] != "" {
			x.rep.AddDiff(vh.Diff{Component: "render-error-text", Input: in, Impl: compl[i], Model: "Error() is built from Line(), SourceSubString() and a caret line of dashes and ^"})
		}
		f := strings.Split(impl[i], "|")
		if len(f) == 3 {
			switch {
			case f[0] == "1":
				x.rep.Stat("line_1")
			case len(f[0]) == 1:
				x.rep.Stat("line_2_to_9")
			default:
				x.rep.Stat("line_10_up")
			}
			if strings.HasSuffix(f[1], "2e2e2e") && len(f[1]) >= 2*150 {
				x.rep.Stat("text_truncated")
			}
			if f[1] == "" {
				x.rep.Stat("text_empty")
			}
			if f[2] == "0" {
				x.rep.Stat("caret_at_0")
			} else if len(f[2]) >= 3 {
				x.rep.Stat("caret_at_100_up")
			}
		}
	}
	x.cases = x.cases[:0]
}

const fileAlphabet = "abcxyz{}[]:,\"-^>. \t\xc3\xa9"

func randomFile(r *rand.Rand) []byte {
	n := r.Intn(601)
	nls := [][]byte{[]byte("\n"), []byte("\r\n"), []byte("\r"), []byte("\n\r")}
	nl := nls[r.Intn(len(nls))]
	mixed := r.Intn(6) == 0
	// newline every ~k bytes: long lines (> 200 bytes) are wanted as often as short ones
	k := []int{3, 8, 30, 120, 250, 400, 1000}[r.Intn(7)]
	b := make([]byte, 0, n+2)
	bol := true
	for len(b) < n {
		switch {
		case r.Intn(k) == 0:
			if mixed {
				nl = nls[r.Intn(len(nls))]
			}
			b = append(b, nl...)
			bol = true
		case bol && r.Intn(2) == 0:
			for i := r.Intn(6); i > 0; i-- {
				b = append(b, " \t"[r.Intn(2)])
			}
			bol = false
		default:
			b = append(b, fileAlphabet[r.Intn(len(fileAlphabet))])
			bol = false
		}
	}
	if len(b) > 600 {
		b = b[:600]
	}
	return b
}

func Run(args []string) {
	maxLen := vh.Pick(6, 7)
	nFiles, perFile := vh.Pick(4000, 60000), 12
	rep := vh.NewReport("render-diff", fmt.Sprintf("errors/document.go vs model: line number, source text and caret offset (and Error() = composition of the three) for ALL contents of length <=%d over {a, space, tab, LF, CR} x every position inside the content (plus the position just behind it, where both sides must crash), and %d random files up to 600 bytes (4 new-line conventions or mixed, lines from 3 to >400 bytes to reach the 200-byte truncation, leading blanks) x %d positions (random, line starts/ends, inside leading blanks, last byte); nontrivial = content with a new-line byte and a non-blank byte, or longer than 200 bytes; reuse: %d walks of ONE error value through SetIndex / SetFile / Line / SourceSubString / Error / String calls (forwards, backwards, random jumps, hops around new-line bytes, far-near zigzag; 1-3 files of LF / CR / CRLF / mixed convention and different names incl. the empty one), every observation compared with a fresh value at the same file and position and with the model; nontrivial walk = multi-line file and at least 2 observations",
		maxLen, nFiles, perFile, vh.Pick(1500, 40000)))
	r := vh.NewRand(26)
	x := &runner{rep: rep}
	for _, s := range []string{"a", "ab\ncd", "  ab\n\tcd", "a\r\nb\r\nc", "\n[", "a\rb", "a\n\rb", " \n \n a"} { // a few readable cases first
		for i := range s {
			x.add("seed", []byte(s), i)
		}
	}
	vh.AllStrings([]byte("a \t\n\r"), maxLen, func(b []byte) {
		for i := 0; i < len(b); i++ {
			x.add("exhaustive", b, i)
		}
		x.add("exhaustive_behind_end", b, len(b))
	})
	for i := 0; i < nFiles; i++ {
		b := randomFile(r)
		if len(b) == 0 {
			continue
		}
		for j := 0; j < perFile; j++ {
			idx := r.Intn(len(b))
			switch j {
			case 0:
				idx = len(b) - 1
			case 1:
				idx = 0
			case 2, 3, 4: // on or next to a new-line byte
				for k := 0; k < len(b); k++ {
					p := (idx + k) % len(b)
					if b[p] == '\n' || b[p] == '\r' {
						idx = p + j - 3
						break
					}
				}
				if idx < 0 || idx >= len(b) {
					idx = r.Intn(len(b))
				}
			}
			x.add("random_file", b, idx)
		}
	}
	x.flush()
	runReuse(rep, vh.NewRand(27))
	rep.Finish()
}
