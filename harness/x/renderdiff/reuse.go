package renderdiff

// Stream "reuse": ONE DocumentError value driven through a sequence of SetIndex / SetFile / rendering calls.
//
// Property C17 speaks about "any file content and any position inside it": what an error value shows must be a
// function of the file and position it HAS when it is rendered, whatever it was asked before. The streams of
// renderdiff.go build a fresh value per (content, position); here the same value is moved forwards, backwards,
// across lines, to another file (other length, other new-line convention, other name) and rendered after every
// move through one of Line() / SourceSubString() / Error() / String() or all of them in a random order. Every
// observation is compared with
//
//	(a) the observation of a FRESH value built for the current (file, position)   -> component render-reuse
//	(b) the Lean model `rend <hex> <idx>` of the current (content, position)       -> component render-reuse-model
//
// A panic of a step ends the walk (the value may be half-updated) and is a diff.

import (
	"fmt"
	"math/rand"
	"strings"

	"github.com/jsightapi/jsight-schema-go-library/bytes"
	"github.com/jsightapi/jsight-schema-go-library/errors"
	"github.com/jsightapi/jsight-schema-go-library/fs"

	"verifharness/vh"
)

type seqStep struct {
	op   string // idx file line text err str all
	arg  int    // idx: position; file: index into walk.files
	perm []int  // all: order of the three accessors
}

type walk struct {
	kind  string
	clean bool // multi-file walk whose only SetFile precedes the first rendering call (the library's own pattern)
	files [][]byte
	names []string
	steps []seqStep
}

func (w walk) String() string {
	var sb strings.Builder
	for i, f := range w.files {
		fmt.Fprintf(&sb, "f%d := fs.NewFile(%q, %q); ", i, w.names[i], f)
	}
	sb.WriteString("de := errors.NewDocumentError(f0, errors.Format(errors.ErrGeneric, \"m\"))")
	for _, s := range w.steps {
		switch s.op {
		case "idx":
			fmt.Fprintf(&sb, "; de.SetIndex(%d)", s.arg)
		case "file":
			fmt.Fprintf(&sb, "; de.SetFile(f%d)", s.arg)
		case "line":
			sb.WriteString("; de.Line()")
		case "text":
			sb.WriteString("; de.SourceSubString()")
		case "err":
			sb.WriteString("; de.Error()")
		case "str":
			sb.WriteString("; de.String()")
		case "all":
			for _, k := range s.perm {
				sb.WriteString([]string{"; de.Line()", "; de.SourceSubString()", "; de.Error()"}[k])
			}
		}
	}
	return sb.String()
}

// one observation of a rendering step
type seqObs struct {
	step       int
	file, idx  int
	what       string // line text err
	got, fresh string
}

func observeOne(de *errors.DocumentError, what string) string {
	switch what {
	case "line":
		return fmt.Sprintf("%d", de.Line())
	case "text":
		return de.SourceSubString()
	case "str":
		return de.String()
	}
	return de.Error()
}

// runWalk executes the walk; returns the observations, and for a panic the step and its text.
func runWalk(w walk) (obs []seqObs, panicStep int, panicText string) {
	panicStep = -1
	files := make([]*fs.File, len(w.files))
	for i := range w.files {
		files[i] = fs.NewFile(w.names[i], append([]byte(nil), w.files[i]...))
	}
	de := errors.NewDocumentError(files[0], errors.Format(errors.ErrGeneric, "m"))
	cur, idx := 0, 0
	for si, s := range w.steps {
		var whats []string
		switch s.op {
		case "idx":
			de.SetIndex(bytes.Index(s.arg))
			idx = s.arg
			continue
		case "file":
			de.SetFile(files[s.arg])
			cur = s.arg
			continue
		case "all":
			for _, k := range s.perm {
				whats = append(whats, []string{"line", "text", "err"}[k])
			}
		default:
			whats = []string{s.op}
		}
		for _, what := range whats {
			var got string
			p := vh.Recover(func() string { got = observeOne(&de, what); return "" })
			if p != "" {
				return obs, si, p
			}
			// the same question put to a fresh value for the current file and position
			var fresh string
			vh.Recover(func() string {
				fe := errors.NewDocumentError(fs.NewFile(w.names[cur], append([]byte(nil), w.files[cur]...)), errors.Format(errors.ErrGeneric, "m"))
				fe.SetIndex(bytes.Index(idx))
				fresh = observeOne(&fe, what)
				return ""
			})
			if what == "str" {
				what = "err"
			}
			obs = append(obs, seqObs{si, cur, idx, what, got, fresh})
		}
	}
	return obs, -1, ""
}

// modelWants: what the model's answer `line|hex text|dashes` demands for one observation.
func modelWants(model, name, what string) (string, bool) {
	f := strings.Split(model, "|")
	if len(f) != 3 {
		return "", false
	}
	text, ok := unhex(f[1])
	if !ok {
		return "", false
	}
	var dashes int
	fmt.Sscanf(f[2], "%d", &dashes)
	switch what {
	case "line":
		return f[0], true
	case "text":
		return text, true
	}
	return fmt.Sprintf("ERROR: m\n\tin line %s on file %s\n\t> %s\n\t--%s^", f[0], name, text, strings.Repeat("-", dashes)), true
}

func unhex(h string) (string, bool) {
	if len(h)%2 != 0 {
		return "", false
	}
	b := make([]byte, len(h)/2)
	for i := range b {
		var v int
		if _, err := fmt.Sscanf(h[2*i:2*i+2], "%02x", &v); err != nil {
			return "", false
		}
		b[i] = byte(v)
	}
	return string(b), true
}

// ---- generator --------------------------------------------------------------------------------------------------

// lineStructured: a few lines with leading blanks under one new-line convention (the shape error positions
// of real schemas / documents live in); long lines now and then.
func lineStructured(r *rand.Rand, nl string) []byte {
	var sb strings.Builder
	for l, n := 0, 1+r.Intn(7); l < n; l++ {
		for i := r.Intn(5); i > 0; i-- {
			sb.WriteByte(" \t"[r.Intn(2)])
		}
		m := r.Intn(12)
		if r.Intn(10) == 0 {
			m = 190 + r.Intn(30)
		}
		for i := 0; i < m; i++ {
			sb.WriteByte(fileAlphabet[r.Intn(len(fileAlphabet))])
		}
		if l < n-1 || r.Intn(2) == 0 {
			sb.WriteString(nl)
		}
	}
	return []byte(sb.String())
}

func genWalk(r *rand.Rand) walk {
	var w walk
	nFiles := 1
	if r.Intn(3) == 0 {
		nFiles = 2 + r.Intn(2)
	}
	nls := []string{"\n", "\r", "\r\n"}
	for len(w.files) < nFiles {
		var c []byte
		switch r.Intn(4) {
		case 0:
			c = randomFile(r)
			if len(c) > 120 {
				c = c[:120]
			}
		default:
			c = lineStructured(r, nls[r.Intn(3)])
		}
		if len(c) == 0 {
			continue
		}
		w.files = append(w.files, c)
		w.names = append(w.names, []string{"f", "", "dir/other.jst", "f"}[r.Intn(4)])
	}
	cur := 0
	renderStep := func() seqStep {
		switch r.Intn(6) {
		case 0:
			return seqStep{op: "line"}
		case 1:
			return seqStep{op: "text"}
		case 2:
			return seqStep{op: "err"}
		case 3:
			return seqStep{op: "str"}
		}
		return seqStep{op: "all", perm: r.Perm(3)}
	}
	move := func(p int) {
		w.steps = append(w.steps, seqStep{op: "idx", arg: p})
		if r.Intn(8) != 0 { // now and then two moves in a row without a rendering between them
			w.steps = append(w.steps, renderStep())
		}
	}
	w.kind = []string{"forward", "backward", "random", "line-hops", "zigzag"}[r.Intn(5)]
	legs := 1
	if nFiles > 1 {
		legs = 2 + r.Intn(3)
		if r.Intn(2) == 0 {
			// the pattern the library itself uses (checker: error of an added type moved to the type's file):
			// position, SetFile, position, then render
			w.clean = true
			if r.Intn(2) == 0 {
				w.steps = append(w.steps, seqStep{op: "idx", arg: r.Intn(len(w.files[0]))})
			}
			cur = 1 + r.Intn(nFiles-1)
			w.steps = append(w.steps, seqStep{op: "file", arg: cur})
			legs = 1
		}
	}
	for leg := 0; leg < legs; leg++ {
		if leg > 0 {
			nxt := r.Intn(nFiles)
			w.steps = append(w.steps, seqStep{op: "file", arg: nxt})
			cur = nxt
		}
		c := w.files[cur]
		n := len(c)
		budget := 6 + r.Intn(30)
		switch w.kind {
		case "forward":
			for p, st := r.Intn(n), 1+r.Intn(3); p < n && budget > 0; p, budget = p+st, budget-1 {
				move(p)
			}
		case "backward":
			for p, st := n-1-r.Intn(n), 1+r.Intn(3); p >= 0 && budget > 0; p, budget = p-st, budget-1 {
				move(p)
			}
		case "random":
			for ; budget > 0; budget-- {
				move(r.Intn(n))
			}
		case "line-hops": // positions on and next to new-line bytes, first and last byte
			var hot []int
			for i, b := range c {
				if b == '\n' || b == '\r' {
					for _, q := range []int{i - 1, i, i + 1} {
						if q >= 0 && q < n {
							hot = append(hot, q)
						}
					}
				}
			}
			hot = append(hot, 0, n-1)
			for ; budget > 0; budget-- {
				move(hot[r.Intn(len(hot))])
			}
		case "zigzag": // far end, near end, far end …
			for k := 0; budget > 0; k, budget = k+1, budget-1 {
				if k%2 == 0 {
					move(n - 1 - r.Intn((n+3)/4))
				} else {
					move(r.Intn((n + 3) / 4))
				}
			}
		}
	}
	return w
}

func runReuse(rep *vh.Report, r *rand.Rand) {
	nWalks := vh.Pick(1500, 40000)
	type pending struct {
		w        walk
		obs      []seqObs
		firstReq int
	}
	var ps []pending
	var reqs []string
	fixed := []string{"{\n  \"first\": 1,\n\n    \"second\": [\n\t1,\n\t2\n    ]\n}", "ab\ncd\nef", "  a\n\n\tb"}
	for i := 0; i < nWalks; i++ {
		w := genWalk(r)
		if i < 18 { // readable walks first: each fixed text under LF / CR / CRLF, all positions forwards and backwards
			body := strings.ReplaceAll(fixed[i%3], "\n", []string{"\n", "\r", "\r\n"}[(i/3)%3])
			w = walk{kind: "forward", files: [][]byte{[]byte(body)}, names: []string{"f"}}
			for p := 0; p < len(body); p++ {
				q := p
				if i >= 9 {
					q, w.kind = len(body)-1-p, "backward"
				}
				w.steps = append(w.steps, seqStep{op: "idx", arg: q}, seqStep{op: "all", perm: []int{0, 1, 2}})
			}
		}
		obs, ps1, ptxt := runWalk(w)
		rep.Stat("in_reuse_walk")
		rep.Stat("reuse_walk_" + w.kind)
		if len(w.files) > 1 {
			rep.Stat("reuse_walk_with_SetFile")
			if w.clean {
				rep.Stat("reuse_walk_SetFile_before_first_rendering")
			}
		}
		multi := false
		for _, f := range w.files {
			multi = multi || strings.ContainsAny(string(f), "\n\r")
		}
		rep.Case(w.String(), multi && len(obs) >= 2)
		if ps1 >= 0 {
			short := w
			short.steps = w.steps[:ps1+1]
			rep.AddDiff(vh.Diff{Component: "render-reuse", Input: short.String(), Impl: ptxt + " at the last call", Model: "rendering never panics (a fresh value at the same file and position does not)"})
		}
		ps = append(ps, pending{w, obs, len(reqs)})
		for _, o := range obs {
			reqs = append(reqs, fmt.Sprintf("rend %s %d", vh.Hex(w.files[o.file]), o.idx))
		}
	}
	model := vh.AskModelSharded(reqs, 16)
	for _, p := range ps {
		reported := false
		for k, o := range p.obs {
			rep.Stat("reuse_obs_" + o.what)
			if reported {
				continue
			}
			short := p.w
			short.steps = p.w.steps[:o.step+1]
			if o.got != o.fresh {
				rep.AddDiff(vh.Diff{Component: "render-reuse", Input: short.String(), Impl: fmt.Sprintf("%s of the re-used value at position %d of f%d: %q", o.what, o.idx, o.file, o.got),
					Model: fmt.Sprintf("%q (a fresh error value at that file and position)", o.fresh)})
				reported = true // one report per walk: later steps inherit the stale state
				continue
			}
			if want, ok := modelWants(model[p.firstReq+k], p.w.names[o.file], o.what); !ok || want != o.got {
				rep.AddDiff(vh.Diff{Component: "render-reuse-model", Input: short.String(), Impl: fmt.Sprintf("%s at position %d of f%d: %q", o.what, o.idx, o.file, o.got),
					Model: fmt.Sprintf("%q (model answer %s)", want, model[p.firstReq+k]), Note: reqs[p.firstReq+k]})
				reported = true
			}
		}
	}
}
