// Package c17: harness command `c17-positions` — property C17 "Errors point at the offending byte and render
// correctly". Four streams (components):
//
//	C17-validate-pos  (validatepos.go) generated (schema, valid document) pairs over four non-recursive types;
//	    ONE violation planted in the document at a generator-known site (wrong kind of scalar / array / object,
//	    above max, below min, too long / too short string, enum / regex / format miss, unknown key, missing
//	    required key, element in an empty array, more than maxItems, fewer than minItems) at any nesting depth,
//	    random whitespace layout with LF / CRLF / CR line breaks. Demanded: Validate fails and Position() is the
//	    byte offset of the offending value — of the KEY for an unknown key, of the enclosing OBJECT for a missing
//	    key, of the ARRAY for an item-count violation — and Error() names the document's line of that offset.
//	    One unmutated document in eight is validated as well and must be accepted.
//	C17-json-pos      (jsonpos.go) valid JSON texts with one byte replaced / inserted / deleted or truncated;
//	    expected position from encoding/json's byte-at-a-time scanner (first byte that cannot continue the text;
//	    len-1 when the text ends early); json.New(...).Check() must report that Position(). Texts made of blanks
//	    only are skipped: the tree reports them as EMPTY document (code 203, no position), which the property's
//	    position clause does not cover.
//	C17-schema-pos    (schemapos.go) schema texts (root or added type) with a stray byte at a token boundary of
//	    the example part, truncated, with an unknown rule name, or with an example that breaks its own rule.
//	C17-render        (render.go) DocumentError rendering: exhaustive small files and random long files against
//	    an independent reference of line number, shown source text and caret.
//
// Conventions calibrated on the unchanged tree (rule-level):
//
//	R1  a terminator byte (LF, CR, or either byte of CRLF) belongs to the line it ends;
//	R2  a line longer than 200 bytes is shown as its first 197 bytes, left-trimmed, followed by "..."; a line of
//	    at most 200 bytes is shown whole, left-trimmed (blanks = space and tab);
//	R3  the caret line is "--" + (column − leading blanks) dashes + "^"; for a position inside the leading
//	    blanks the count is 0;
//	R4  on a line consisting of blanks only (or empty) only totality and the line number are demanded;
//	R5  files mixing terminator styles: only totality.
package c17

import (
	"verifharness/vh"
)

func Run(args []string) {
	if len(args) >= 2 && args[0] == "probe" {
		probe(args[1:])
		return
	}
	rep := vh.NewReport("c17-positions", "validate: schema+valid document pairs (4 non-recursive types, rules min/max/length/regex/enum/format/items, "+
		"optional keys, nullable, references, or of scalars) with ONE planted violation at a known offset, random layout; json: valid JSON texts with "+
		"one byte replaced/inserted/deleted or truncated, oracle = encoding/json scanner offset; schema: stray byte at a token boundary / truncation / "+
		"unknown rule / example breaking its rule, in the root or in an added type; render: all files of <= 6 (quick) / 7 (thorough) bytes over "+
		"{a,space,tab,LF,CR} x all positions + random files up to 600 bytes with lines around and beyond 200 bytes. "+
		"nontrivial = every planted case; a render file of >= 2 bytes")
	only := ""
	if len(args) > 0 {
		only = args[0]
	}
	if only == "" || only == "render" {
		runRender(rep)
	}
	if only == "" || only == "json" {
		runJSONPos(rep)
	}
	if only == "" || only == "validate" {
		runValidatePos(rep)
	}
	if only == "" || only == "schema" {
		runSchemaPos(rep)
	}
	rep.Exhaustive = false
	rep.Finish()
}
