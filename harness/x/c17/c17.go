package c17

import (
	"verifharness/vh"
)

func Run(args []string) {
	rep := vh.NewReport("c17-positions", "TODO")
	only := ""
	if len(args) > 0 {
		only = args[0]
	}
	if only == "" || only == "render" {
		runRender(rep)
	}
	if only == "" || only == "json" {
		runJSONPos(rep)
	}
	if only == "" || only == "validate" {
		runValidatePos(rep)
	}
	rep.Finish()
}
