// Package c17: harness command `c17-positions` — property C17 "Errors point at the offending byte and render
// correctly". Four streams (components):
//
//	C17-validate-pos  (validatepos.go) generated (schema, valid document) pairs over four non-recursive types;
//	    ONE violation planted in the document at a generator-known site (wrong kind of scalar / array / object,
//	    above max, below min, too long / too short string, enum / regex / format miss, unknown key, missing
//	    required key, element in an empty array, more than maxItems, fewer than minItems) at any nesting depth,
//	    random whitespace layout with LF / CRLF / CR line breaks. Demanded: Validate fails and Position() is the
//	    byte offset of the offending value — of the KEY for an unknown key, of the enclosing OBJECT for a missing
//	    key, of the ARRAY for an item-count violation — and Error() names the document's line of that offset.
//	    One unmutated document in eight is validated as well and must be accepted.
//	C17-json-pos      (jsonpos.go) valid JSON texts with one byte replaced / inserted / deleted or truncated;
//	    expected position from encoding/json's byte-at-a-time scanner (first byte that cannot continue the text;
//	    len-1 when the text ends early); json.New(...).Check() must report that Position(). Texts made of blanks
//	    only are skipped: the tree reports them as EMPTY document (code 203, no position), which the property's
//	    position clause does not cover.
//	C17-schema-pos    (schemapos.go) schema texts (root or added type) with a stray byte at a token boundary of
//	    the example part, truncated, with an unknown rule name, with an example that breaks its own rule, or with
//	    ONE compile-phase defect on a fresh node (allOf errors of every kind, rules that cannot be used on the node,
//	    undefined / wrongly typed references in shortcuts, type / or / additionalProperties rules and key
//	    shortcuts, contradictory bounds, duplicate keys, duplicate rules, unusable rule values). Every case runs
//	    under distinct file names through Check() AND under another naming (all names empty, root name empty, type
//	    names empty, one shared name) through Check() / Validate() / Example(): the first non-nil error must be a
//	    positioned library error (errors.DocumentError) at the generator-known offset, naming the victim's file,
//	    with Line() / SourceSubString() / caret of that offset by the independent reference; and the same error code
//	    under both namings (C17-schema-names).
//	C17-lex-pos       (lexpos.go) ONE lexical error planted INSIDE a token (first byte / middle / last byte) of an
//	    accepted schema (every token kind, every annotation spelling, user comments, LF / CRLF / CR), enum rule, JSON
//	    document or regex text; oracle by construction, second opinion Lean scanner models / encoding/json
//	    (C17-lex-oracle when the two disagree); plus random one-byte edits of schema texts: scanner error vs Lean
//	    scanner model (C17-lex-model).
//	C17-render        (render.go) DocumentError rendering: exhaustive small files and random long files against
//	    an independent reference of line number, shown source text and caret; each file also with ONE error value
//	    moved through its positions (forwards, backwards, random jumps) and rendered after every SetIndex.
//	C17-addtype       (addtype.go) the calls that assemble a schema out of several sources: AddType of regex types
//	    whose pattern holds bytes / runes that Go's %q spells differently from JSON (control characters, DEL, invalid
//	    UTF-8, non-printable runes) under quantifiers that let the generated example omit them, AddType of JSight
//	    types that got types and enum rules added to themselves first (at most one defect, padded so that offsets exceed
//	    the other sources), AddRule of enum rules, then Check / Validate / Example: every error names a source of
//	    the run with the position inside it, and goes through the facade leg.
//	C17-facade        (facade.go) every error the streams above obtain (validation errors, JSON / schema / enum /
//	    regex parsing errors, check errors inside added types) and every rendered value of the render stream is ALSO
//	    handed through the SDK facade kit.ConvertError(file, err), once per caller file: the file the error belongs
//	    to, every other file of the run (root schema / added types / document) and companion files under the same,
//	    the empty or another name whose text is shorter than the position or longer with other line breaks. The
//	    result's Filename / Position / Message / ErrCode / IncorrectUserType and its rendering (Error, Line,
//	    SourceSubString) must be those of the error itself - the error's own file, never the caller's - without panic.
//	    EVERY result of the facade - also for an error handed out wrapped ("load added type: %w") and for a foreign
//	    error - must satisfy the clause of property C07 on what the caller gets: Filename() names the caller's file or
//	    a file of the run, Position() lies inside that file's text, code / message are those of the innermost library
//	    error (then file and position are that error's, too) or the generic conversion carrying its text.
//
// The document / schema / rule files are created under several file names including the empty one in every stream.
//
// Conventions calibrated on the unchanged tree (rule-level):
//
//	R1  a terminator byte (LF, CR, or either byte of CRLF) belongs to the line it ends;
//	R2  a line longer than 200 bytes is shown as its first 197 bytes, left-trimmed, followed by "..."; a line of
//	    at most 200 bytes is shown whole, left-trimmed (blanks = space and tab);
//	R3  the caret line is "--" + (column − leading blanks) dashes + "^"; for a position inside the leading
//	    blanks the count is 0;
//	R4  on a line consisting of blanks only (or empty) only totality and the line number are demanded;
//	R5  files mixing terminator styles: only totality.
package c17

import (
	"verifharness/vh"
)

func Run(args []string) {
	if len(args) >= 2 && args[0] == "probe" {
		probe(args[1:])
		return
	}
	rep := vh.NewReport("c17-positions", "validate: schema+valid document pairs (4 non-recursive types, rules min/max/length/regex/enum/format/items, "+
		"optional keys, nullable, references, or of scalars) with ONE planted violation at a known offset, random layout; json: valid JSON texts with "+
		"one byte replaced/inserted/deleted or truncated, oracle = encoding/json scanner offset; schema: stray byte at a token boundary / truncation / "+
		"unknown rule / example breaking its rule / one compile-phase defect (allOf errors, inapplicable rules, undefined or wrongly typed links, "+
		"contradictory bounds, duplicate keys / rules, unusable rule values) in the root or in an added type, each case under distinct file names and under "+
		"a second naming (all / root / type names empty, one shared name) through Check / Validate / Example; lex: one lexical error inside a token "+
		"(first / middle / last byte; strings, numbers, literals, shortcuts, rule names; all annotation spellings) of an accepted schema / enum / JSON / regex text, "+
		"oracle by construction + Lean scanner models / encoding/json, and random one-byte edits vs the Lean scanner model; render: all files of <= 6 (quick) / 7 (thorough) bytes over "+
		"{a,space,tab,LF,CR} x all positions + random files up to 600 bytes with lines around and beyond 200 bytes, fresh error values and one re-used value walking through the file; file names incl. the empty one everywhere; "+
		"facade: every error of every stream also through kit.ConvertError(file, err) for the error's own file, every other file of the run and companion files "+
		"(same / empty / other name, text shorter than the position or longer), result = the error itself (file, position, code, message, user type, rendering); every result "+
		"(also of wrapped and foreign errors) names a file of the run / the caller's file with the position inside its text, and is the innermost library error with its own file and position or the generic conversion; "+
		"addtype: regex types from parts with special atoms (control bytes, DEL, invalid UTF-8, non-printable runes; quantified {0} * ? {0,1} group class alternation) under several generator seeds, "+
		"JSight types with one defect added to types added to the root, enum rules with one defect, padded sources, own / empty / other / shared file names, every step's error: a source of the run, position inside, facade leg. "+
		"nontrivial = every planted case; a render file of >= 2 bytes; an addtype run with at least one error")
	only := ""
	if len(args) > 0 {
		only = args[0]
	}
	if only == "" || only == "render" {
		runRender(rep)
	}
	if only == "" || only == "json" {
		runJSONPos(rep)
	}
	if only == "" || only == "validate" {
		runValidatePos(rep)
	}
	if only == "" || only == "schema" {
		runSchemaPos(rep)
	}
	if only == "" || only == "lex" {
		runLexPos(rep)
	}
	if only == "" || only == "addtype" {
		runAddType(rep)
	}
	rep.Exhaustive = false
	rep.Finish()
}
