package c17

import (
	stdjson "encoding/json"
	stderrors "errors"
	"fmt"
	"math/rand"
	"strings"

	jdoc "github.com/jsightapi/jsight-schema-go-library/formats/json"

	"verifharness/vh"
)

// ---- generator of valid JSON texts with layout -------------------------------------------------------

func jWS(r *rand.Rand) string {
	switch r.Intn(6) {
	case 0, 1, 2:
		return ""
	case 3:
		return " "
	case 4:
		return []string{"\n", "\t", "\r\n", "  ", " \n "}[r.Intn(5)]
	}
	n := r.Intn(4)
	var sb strings.Builder
	for i := 0; i < n; i++ {
		sb.WriteByte(" \t\n\r"[r.Intn(4)])
	}
	return sb.String()
}

func jString(r *rand.Rand) string {
	parts := []string{"a", "b", "xyz", "é", "😀", `\"`, `\\`, `\/`, `\b`, `\f`, `\n`, `\r`, `\t`, `A`, `é`, `😀`, " ", "/", "{", "]", ":", ",", "e", "0"}
	n := r.Intn(5)
	var sb strings.Builder
	sb.WriteByte('"')
	for i := 0; i < n; i++ {
		sb.WriteString(parts[r.Intn(len(parts))])
	}
	sb.WriteByte('"')
	return sb.String()
}

func jNumber(r *rand.Rand) string {
	var sb strings.Builder
	if r.Intn(3) == 0 {
		sb.WriteByte('-')
	}
	zero := r.Intn(4) == 0
	if zero {
		sb.WriteByte('0')
	} else {
		sb.WriteByte("123456789"[r.Intn(9)])
		for i := r.Intn(4); i > 0; i-- {
			sb.WriteByte("0123456789"[r.Intn(10)])
		}
	}
	frac := r.Intn(3) == 0
	if frac {
		sb.WriteByte('.')
		for i := 1 + r.Intn(3); i > 0; i-- {
			sb.WriteByte("0123456789"[r.Intn(10)])
		}
	}
	if r.Intn(4) == 0 && (!zero || frac) {
		sb.WriteByte("eE"[r.Intn(2)])
		if r.Intn(2) == 0 {
			sb.WriteByte("+-"[r.Intn(2)])
		}
		for i := 1 + r.Intn(2); i > 0; i-- {
			sb.WriteByte("0123456789"[r.Intn(10)])
		}
	}
	return sb.String()
}

func jScalar(r *rand.Rand) string {
	switch r.Intn(6) {
	case 0:
		return "true"
	case 1:
		return "false"
	case 2:
		return "null"
	case 3:
		return jString(r)
	}
	return jNumber(r)
}

func jValue(r *rand.Rand, depth, maxW int, budget *int) string {
	*budget--
	if depth == 0 || *budget <= 0 || r.Intn(3) == 0 {
		return jScalar(r)
	}
	n := r.Intn(maxW + 1)
	var sb strings.Builder
	if r.Intn(2) == 0 {
		sb.WriteByte('[')
		sb.WriteString(jWS(r))
		for i := 0; i < n; i++ {
			if i > 0 {
				sb.WriteByte(',')
			}
			sb.WriteString(jWS(r) + jValue(r, depth-1, maxW, budget) + jWS(r))
		}
		sb.WriteByte(']')
	} else {
		sb.WriteByte('{')
		sb.WriteString(jWS(r))
		for i := 0; i < n; i++ {
			if i > 0 {
				sb.WriteByte(',')
			}
			sb.WriteString(jWS(r) + jString(r) + jWS(r) + ":" + jWS(r) + jValue(r, depth-1, maxW, budget) + jWS(r))
		}
		sb.WriteByte('}')
	}
	return sb.String()
}

// ---- oracle ------------------------------------------------------------------------------------------------

// firstBadByte: the text is not JSON; returns the offset of the first byte b such that text[:b+1] cannot be
// extended to a JSON text while text[:b] can; len-1 when the whole text is an extendable prefix (input ends
// early). Independent recogniser: the byte-at-a-time scanner of encoding/json (SyntaxError.Offset is the number
// of bytes consumed including the offending one).
func firstBadByte(text []byte) (pos int, early bool, valid bool) {
	var v interface{}
	err := stdjson.Unmarshal(text, &v)
	if err == nil {
		return 0, false, true
	}
	var se *stdjson.SyntaxError
	if !stderrors.As(err, &se) {
		return 0, false, true // not a syntax problem (cannot happen for interface{} targets)
	}
	if strings.HasPrefix(se.Error(), "unexpected end of JSON input") {
		return len(text) - 1, true, false
	}
	return int(se.Offset) - 1, false, false
}

type positioned interface{ Position() uint }
type coded interface{ ErrCode() int }

func errPos(err error) (int, string) {
	var p positioned
	if err == nil {
		return -1, "no error"
	}
	if !stderrors.As(err, &p) {
		return -1, "error without Position(): " + err.Error()
	}
	code := 0
	var c coded
	if stderrors.As(err, &c) {
		code = c.ErrCode()
	}
	return int(p.Position()), fmt.Sprintf("code %d position %d", code, p.Position())
}

var jsonCorruptBytes = []byte("{}[]:,\"\\/-+01.eEtrufalsn xyzAF \t\n?\x01")

func runJSONPos(rep *vh.Report) {
	r := vh.NewRand(17003)
	n := vh.Pick(8000, 200000)
	for i := 0; i < n; i++ {
		budget := 5 + r.Intn(60)
		txt := jWS(r) + jValue(r, 1+r.Intn(5), 1+r.Intn(5), &budget) + jWS(r)
		b := []byte(txt)
		var kind string
		switch r.Intn(5) {
		case 0, 1: // replace one byte
			kind = "replace"
			b[r.Intn(len(b))] = jsonCorruptBytes[r.Intn(len(jsonCorruptBytes))]
		case 2: // truncate
			kind = "truncate"
			b = b[:r.Intn(len(b))]
		case 3: // insert one byte
			kind = "insert"
			p := r.Intn(len(b) + 1)
			b = append(b[:p:p], append([]byte{jsonCorruptBytes[r.Intn(len(jsonCorruptBytes))]}, b[p:]...)...)
		case 4: // delete one byte
			kind = "delete"
			p := r.Intn(len(b))
			b = append(b[:p:p], b[p+1:]...)
		}
		if len(strings.TrimSpace(string(b))) == 0 {
			// A text of blanks only is an EMPTY document (code 203, no position), not a text that ends early:
			// the property's position clause is not applied to it (reading satisfied by the unchanged tree).
			rep.Stat("json_blank_only_skipped")
			continue
		}
		want, early, valid := firstBadByte(b)
		if valid {
			rep.Stat("json_still_valid")
			continue
		}
		rep.Stat("json_" + kind)
		if early {
			rep.Stat("json_ends_early")
		} else {
			rep.Stat("json_bad_byte")
		}
		var got int
		var desc string
		var obs observation
		name := []string{"doc.json", "doc.json", "", "a b/c.json"}[r.Intn(4)]
		res := vh.Recover(func() string {
			err := jdoc.New(name, b).Check()
			got, desc = errPos(err)
			obs = observe(err)
			return obs.panics
		})
		in := fmt.Sprintf("json.New(%q, %q).Check()", name, b)
		rep.Case("json "+string(b), true)
		if res != "" {
			rep.AddDiff(vh.Diff{Component: "C17-json-pos", Input: in, Impl: res, Model: fmt.Sprintf("ParsingError at %d", want)})
			continue
		}
		if got != want || !obs.positioned {
			rep.AddDiff(vh.Diff{Component: "C17-json-pos", Input: in, Impl: desc, Model: fmt.Sprintf("position %d (first byte that cannot continue the text; last byte when the text ends early: %v)", want, early)})
			continue
		}
		if cm := renderComplaint(obs, name, b); cm != "" {
			rep.AddDiff(vh.Diff{Component: "C17-json-pos", Input: in, Impl: cm + " | " + obs.String(), Model: fmt.Sprintf("the message shows file %q, the line, left-trimmed source line and caret of offset %d", name, want)})
			continue
		}
		reportFacade(rep, in, obs, runFile{"the document text", name, b}, nil)
	}
}
