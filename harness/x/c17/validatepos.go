package c17

import (
	"fmt"
	"math/rand"
	"strconv"
	"strings"
	"time"

	jdoc "github.com/jsightapi/jsight-schema-go-library/formats/json"
	"github.com/jsightapi/jsight-schema-go-library/notations/jschema"

	"verifharness/vh"
)

// ---- schema IR ---------------------------------------------------------------------------------------------

type sProp struct {
	key      string // plain ASCII key (printed quoted)
	optional bool
	val      *sNode
	rawKey   string // when not empty: printed verbatim instead of the quoted key (key shortcut `@name`)
}

type sNode struct {
	kind     string // int float str bool null obj arr ref or
	nullable bool
	// scalars
	hasMin, hasMax bool
	min, max       int // integers; floats use the same bounds
	minLen, maxLen int // -1 = none
	rx             int // index in rxPool, -1 = none
	format         string
	enum           []string // raw literal texts, all of them of kind `kind` for int/str, any scalar kind otherwise
	// containers
	props              []*sProp
	items              []*sNode
	minItems, maxItems int // -1 = none
	// references
	names []string // ref: one name; or: 2..3 names of SCALAR types
	// extra rules printed verbatim behind the node's own ones (name, value text): planted schema defects
	extra [][2]string
}

type rxEntry struct {
	pattern string
	good    []string
	bad     []string
}

var rxPool = []rxEntry{
	{"^[a-c]+$", []string{"abc", "a", "cab"}, []string{"abd", "", "x"}},
	{"^\\\\d{2,3}$", []string{"12", "123"}, []string{"1", "1234", "ab"}},
	{"^x.*y$", []string{"xy", "x-y", "xaaay"}, []string{"x", "yx", ""}},
}

var formatPool = map[string][2][]string{
	"email":    {{"a@b.cc", "john.doe@example.com"}, {"abc", "a@", "@b.c"}},
	"uuid":     {{"550e8400-e29b-41d4-a716-446655440000"}, {"550e8400", "zz0e8400-e29b-41d4-a716-446655440000"}},
	"date":     {{"2021-01-31", "1999-12-01"}, {"2021-13-01", "21-01-01", "x"}},
	"datetime": {{"2021-01-02T07:23:12+03:00"}, {"2021-01-02", "x"}},
	"uri":      {{"http://example.com/a?b=1", "https://x.org"}, {"abc", "//x"}},
}

type vgen struct {
	r     *rand.Rand
	types map[string]*sNode
	order []string
}

func newS(kind string) *sNode {
	return &sNode{kind: kind, minLen: -1, maxLen: -1, rx: -1, minItems: -1, maxItems: -1}
}

func (g *vgen) scalarSchema(kind string) *sNode {
	r := g.r
	n := newS(kind)
	n.nullable = r.Intn(6) == 0 && kind != "null"
	switch kind {
	case "int", "float":
		if r.Intn(2) == 0 {
			n.hasMin, n.min = true, r.Intn(20)-10
		}
		if r.Intn(2) == 0 {
			n.hasMax, n.max = true, n.min+r.Intn(20)
		}
		if kind == "int" && !n.hasMin && !n.hasMax && r.Intn(3) == 0 {
			for i := 1 + r.Intn(3); i > 0; i-- {
				n.enum = append(n.enum, strconv.Itoa(len(n.enum)*3+r.Intn(3)))
			}
		}
	case "str":
		switch r.Intn(6) {
		case 0:
			n.rx = r.Intn(len(rxPool))
		case 1:
			n.format = []string{"email", "uuid", "date", "datetime", "uri"}[r.Intn(5)]
		case 2:
			for i, k := 0, 1+r.Intn(3); i < k; i++ {
				n.enum = append(n.enum, strconv.Quote([]string{"red", "green", "blue", "a b", "é"}[(i+r.Intn(2)*3)%5]))
			}
			n.enum = dedupe(n.enum)
		case 3, 4:
			if r.Intn(2) == 0 {
				n.minLen = 1 + r.Intn(3)
			}
			if r.Intn(3) != 0 {
				n.maxLen = 3 + r.Intn(5)
			}
		}
	}
	return n
}

func dedupe(a []string) []string {
	seen := map[string]bool{}
	var out []string
	for _, x := range a {
		if !seen[x] {
			seen[x] = true
			out = append(out, x)
		}
	}
	return out
}

// schema: level = index of the type being defined (references go to higher indexes only: no recursion).
func (g *vgen) schema(depth, level int) *sNode {
	r := g.r
	k := r.Intn(12)
	if depth <= 0 && k >= 6 && k <= 9 {
		k = r.Intn(6)
	}
	switch {
	case k <= 5:
		return g.scalarSchema([]string{"int", "int", "float", "str", "str", "str", "bool", "null"}[r.Intn(8)])
	case k <= 7: // object
		n := newS("obj")
		n.nullable = r.Intn(8) == 0
		perm := r.Perm(8)
		for i, c := 0, r.Intn(5); i < c; i++ {
			n.props = append(n.props, &sProp{key: []string{"a", "b", "c", "id", "name", "k 1", "x_y", "Z"}[perm[i]], optional: r.Intn(3) == 0, val: g.schema(depth-1, level)})
		}
		return n
	case k <= 9: // array
		n := newS("arr")
		n.nullable = r.Intn(8) == 0
		for i := r.Intn(4); i > 0; i-- {
			n.items = append(n.items, g.schema(depth-1, level))
		}
		if len(n.items) > 0 {
			if r.Intn(3) == 0 {
				n.minItems = r.Intn(len(n.items) + 1)
			}
			if r.Intn(3) == 0 {
				n.maxItems = len(n.items) + r.Intn(3)
			}
		}
		return n
	default:
		var cand, scal []string
		for i := level + 1; i < len(g.order); i++ {
			cand = append(cand, g.order[i])
			if g.isScalarType(g.order[i]) {
				scal = append(scal, g.order[i])
			}
		}
		if len(cand) == 0 {
			return g.scalarSchema("int")
		}
		if len(scal) >= 2 && r.Intn(3) == 0 {
			r.Shuffle(len(scal), func(i, j int) { scal[i], scal[j] = scal[j], scal[i] })
			c := 2
			if len(scal) > 2 && r.Intn(2) == 0 {
				c = 3
			}
			n := newS("or")
			n.names = append([]string(nil), scal[:c]...)
			return n
		}
		n := newS("ref")
		n.names, n.nullable = []string{cand[r.Intn(len(cand))]}, r.Intn(8) == 0
		return n
	}
}

func (g *vgen) isScalarType(name string) bool {
	switch g.types[name].kind {
	case "int", "float", "str", "bool", "null":
		return true
	}
	return false
}

// ---- document tree -------------------------------------------------------------------------------------------

type dNode struct {
	kind string // lit obj arr
	text string
	keys []string // raw (quoted) key texts
	kids []*dNode
	// filled by the printer
	pos    int
	keyPos []int
}

func lit(s string) *dNode { return &dNode{kind: "lit", text: s} }

func (g *vgen) validString(n *sNode) string {
	r := g.r
	switch {
	case n.rx >= 0:
		e := rxPool[n.rx]
		return e.good[r.Intn(len(e.good))]
	case n.format != "":
		p := formatPool[n.format][0]
		return p[r.Intn(len(p))]
	}
	lo, hi := 0, 6
	if n.minLen >= 0 {
		lo = n.minLen
	}
	if n.maxLen >= 0 {
		hi = n.maxLen
	}
	if hi < lo {
		hi = lo
	}
	l := lo + r.Intn(hi-lo+1)
	var sb strings.Builder
	for i := 0; i < l; i++ {
		sb.WriteByte("abcdefgh XYZ019_-"[r.Intn(17)])
	}
	return sb.String()
}

func (g *vgen) validNumber(n *sNode) int {
	lo, hi := -5, 25
	if n.hasMin {
		lo = n.min
	}
	if n.hasMax {
		hi = n.max
	}
	if !n.hasMax && n.hasMin {
		hi = lo + 20
	}
	if !n.hasMin && n.hasMax {
		lo = hi - 20
	}
	return lo + g.r.Intn(hi-lo+1)
}

func numText(kind string, v int, r *rand.Rand) string {
	if kind == "int" {
		return strconv.Itoa(v)
	}
	// float: v plus a fraction that keeps it inside [v, v] bounds → use ".0" or ".00"
	return strconv.Itoa(v) + []string{".0", ".00", ".000"}[r.Intn(3)]
}

// valid: an instance of schema node n.
func (g *vgen) valid(n *sNode) *dNode {
	r := g.r
	if n.nullable && r.Intn(5) == 0 {
		return lit("null")
	}
	switch n.kind {
	case "int", "float":
		if len(n.enum) > 0 {
			return lit(n.enum[r.Intn(len(n.enum))])
		}
		return lit(numText(n.kind, g.validNumber(n), r))
	case "str":
		if len(n.enum) > 0 {
			return lit(n.enum[r.Intn(len(n.enum))])
		}
		return lit(strconv.Quote(g.validString(n)))
	case "bool":
		return lit([]string{"true", "false"}[r.Intn(2)])
	case "null":
		return lit("null")
	case "obj":
		d := &dNode{kind: "obj"}
		idx := r.Perm(len(n.props)) // document key order is free
		for _, i := range idx {
			p := n.props[i]
			if p.optional && r.Intn(2) == 0 {
				continue
			}
			d.keys = append(d.keys, strconv.Quote(p.key))
			d.kids = append(d.kids, g.valid(p.val))
		}
		return d
	case "arr":
		d := &dNode{kind: "arr"}
		if len(n.items) == 0 {
			return d
		}
		lo, hi := 0, len(n.items)+2
		if n.minItems >= 0 {
			lo = n.minItems
		}
		if n.maxItems >= 0 {
			hi = n.maxItems
		}
		c := lo + r.Intn(hi-lo+1)
		for i := 0; i < c; i++ {
			d.kids = append(d.kids, g.valid(g.itemSchema(n, i)))
		}
		return d
	case "ref":
		return g.valid(g.types[n.names[0]])
	case "or":
		return g.valid(g.types[n.names[r.Intn(len(n.names))]])
	}
	panic("kind " + n.kind)
}

func (g *vgen) itemSchema(n *sNode, i int) *sNode {
	if i >= len(n.items) {
		i = len(n.items) - 1
	}
	return n.items[i]
}

// ---- printing ------------------------------------------------------------------------------------------------

func (g *vgen) example(n *sNode) string { // a valid one-token example for scalar schema nodes
	n2 := *n
	n2.nullable = false
	return g.valid(&n2).text
}

// sPrinter prints a schema and records the offsets the corruption stream needs.
type sPrinter struct {
	g  *vgen
	sb strings.Builder
	// marks
	valueStart map[*sNode]int   // first byte of the example value / shortcut / opening bracket
	valueEnd   map[*sNode]int   // offset just after a scalar example or shortcut
	keyStart   []int            // first byte of every property key
	ruleName   map[*sNode][]int // first byte of every rule name of the node's annotation
	ruleValue  map[*sNode][]int // first byte of every rule value of the node's annotation
	propKey    map[*sProp]int   // first byte of the property's key
	// planted schema defects
	badExample *sNode // print an example that violates the node's own rule
	badRule    *sNode // rename the first rule of this node
	badName    string
	curProp    *sProp
}

func newSPrinter(g *vgen) *sPrinter {
	return &sPrinter{g: g, valueStart: map[*sNode]int{}, valueEnd: map[*sNode]int{}, ruleName: map[*sNode][]int{}, ruleValue: map[*sNode][]int{}, propKey: map[*sProp]int{}}
}

func (p *sPrinter) rules(n *sNode, optional bool) {
	type rule struct{ name, val string }
	var rs []rule
	if n.hasMin {
		rs = append(rs, rule{"min", strconv.Itoa(n.min)})
	}
	if n.hasMax {
		rs = append(rs, rule{"max", strconv.Itoa(n.max)})
	}
	if n.minLen >= 0 {
		rs = append(rs, rule{"minLength", strconv.Itoa(n.minLen)})
	}
	if n.maxLen >= 0 {
		rs = append(rs, rule{"maxLength", strconv.Itoa(n.maxLen)})
	}
	if n.rx >= 0 {
		rs = append(rs, rule{"regex", `"` + rxPool[n.rx].pattern + `"`})
	}
	if n.format != "" {
		rs = append(rs, rule{"type", strconv.Quote(n.format)})
	}
	if len(n.enum) > 0 {
		rs = append(rs, rule{"enum", "[" + strings.Join(n.enum, ", ") + "]"})
	}
	if n.minItems >= 0 {
		rs = append(rs, rule{"minItems", strconv.Itoa(n.minItems)})
	}
	if n.maxItems >= 0 {
		rs = append(rs, rule{"maxItems", strconv.Itoa(n.maxItems)})
	}
	if optional {
		rs = append(rs, rule{"optional", "true"})
	}
	if n.nullable {
		rs = append(rs, rule{"nullable", "true"})
	}
	for _, x := range n.extra {
		rs = append(rs, rule{x[0], x[1]})
	}
	if len(rs) == 0 {
		return
	}
	p.sb.WriteString(" // {")
	for i, r := range rs {
		if i > 0 {
			p.sb.WriteString(", ")
		}
		p.ruleName[n] = append(p.ruleName[n], p.sb.Len())
		name := r.name
		if n == p.badRule && i == 0 {
			name = p.badName
		}
		p.sb.WriteString(name + ": ")
		p.ruleValue[n] = append(p.ruleValue[n], p.sb.Len())
		p.sb.WriteString(r.val)
	}
	p.sb.WriteString("}")
}

func (p *sPrinter) print(n *sNode, indent int, key, comma string, optional bool) {
	w := p.sb.WriteString
	pad := strings.Repeat("  ", indent)
	w(pad)
	if key != "" {
		p.keyStart = append(p.keyStart, p.sb.Len())
		if p.curProp != nil {
			p.propKey[p.curProp] = p.sb.Len()
			p.curProp = nil
		}
		w(key + ": ")
	}
	p.valueStart[n] = p.sb.Len()
	switch n.kind {
	case "obj":
		if len(n.props) == 0 {
			w("{}" + comma)
			p.rules(n, optional)
			w("\n")
			return
		}
		w("{")
		p.rules(n, optional)
		w("\n")
		for i, pr := range n.props {
			c := ","
			if i == len(n.props)-1 {
				c = ""
			}
			p.curProp = pr
			if pr.rawKey != "" {
				p.print(pr.val, indent+1, pr.rawKey, c, pr.optional)
			} else {
				p.print(pr.val, indent+1, strconv.Quote(pr.key), c, pr.optional)
			}
		}
		w(pad + "}" + comma + "\n")
	case "arr":
		if len(n.items) == 0 {
			w("[]" + comma)
			p.rules(n, optional)
			w("\n")
			return
		}
		w("[")
		p.rules(n, optional)
		w("\n")
		for i, it := range n.items {
			c := ","
			if i == len(n.items)-1 {
				c = ""
			}
			p.print(it, indent+1, "", c, false)
		}
		w(pad + "]" + comma + "\n")
	case "tref": // a literal example annotated with a reference to a scalar user type / a list of them
		if n == p.badExample {
			w(p.g.trefViolating(n))
		} else {
			w(p.g.example(p.g.types[n.names[p.g.r.Intn(len(n.names))]]))
		}
		p.valueEnd[n] = p.sb.Len()
		w(comma)
		var rs []string
		if len(n.names) == 1 {
			rs = append(rs, "type: "+strconv.Quote(n.names[0]))
		} else {
			var q []string
			for _, nm := range n.names {
				q = append(q, strconv.Quote(nm))
			}
			rs = append(rs, "or: ["+strings.Join(q, ", ")+"]")
		}
		if optional {
			rs = append(rs, "optional: true")
		}
		if n.nullable {
			rs = append(rs, "nullable: true")
		}
		w(" // {" + strings.Join(rs, ", ") + "}\n")
	case "ref", "or":
		w(strings.Join(n.names, " | "))
		p.valueEnd[n] = p.sb.Len()
		w(comma)
		p.rules(n, optional)
		w("\n")
	default:
		if n == p.badExample {
			w(p.g.violating(n))
		} else {
			w(p.g.example(n))
		}
		p.valueEnd[n] = p.sb.Len()
		w(comma)
		p.rules(n, optional)
		w("\n")
	}
}

// text of the schema without the final line break
func (p *sPrinter) text() string { return strings.TrimSuffix(p.sb.String(), "\n") }

// trefViolating: an example that breaks a rule of one referenced type and has the wrong kind for the others
// (the referenced types of one tref node have pairwise different kinds).
func (g *vgen) trefViolating(n *sNode) string {
	perm := g.r.Perm(len(n.names))
	for _, i := range perm {
		if v := g.violating(g.types[n.names[i]]); v != "" {
			return v
		}
	}
	return ""
}

// violating: an example of the node's kind that breaks one of the node's own rules ("" if it has none).
func (g *vgen) violating(n *sNode) string {
	r := g.r
	var c []string
	switch n.kind {
	case "int", "float":
		if n.hasMax {
			c = append(c, numText(n.kind, n.max+1+r.Intn(5), r))
		}
		if n.hasMin {
			c = append(c, numText(n.kind, n.min-1-r.Intn(5), r))
		}
		if len(n.enum) > 0 {
			c = append(c, "77")
		}
	case "str":
		if n.maxLen >= 0 {
			c = append(c, strconv.Quote(strings.Repeat("x", n.maxLen+1+r.Intn(4))))
		}
		if n.minLen > 0 {
			c = append(c, strconv.Quote(strings.Repeat("x", r.Intn(n.minLen))))
		}
		if n.rx >= 0 {
			b := rxPool[n.rx].bad
			c = append(c, strconv.Quote(b[r.Intn(len(b))]))
		}
		if n.format != "" {
			b := formatPool[n.format][1]
			c = append(c, strconv.Quote(b[r.Intn(len(b))]))
		}
		if len(n.enum) > 0 {
			c = append(c, `"purple"`)
		}
	}
	if len(c) == 0 {
		return ""
	}
	return c[r.Intn(len(c))]
}

type docPrinter struct {
	r   *rand.Rand
	nl  string
	buf []byte
}

func (p *docPrinter) ws() {
	switch p.r.Intn(7) {
	case 0, 1, 2:
	case 3:
		p.buf = append(p.buf, ' ')
	case 4:
		p.buf = append(p.buf, p.nl...)
	case 5:
		p.buf = append(p.buf, p.nl...)
		for i := p.r.Intn(6); i > 0; i-- {
			p.buf = append(p.buf, " \t"[p.r.Intn(2)])
		}
	case 6:
		for i := p.r.Intn(4); i > 0; i-- {
			p.buf = append(p.buf, " \t"[p.r.Intn(2)])
		}
	}
}

func (p *docPrinter) print(d *dNode) {
	d.pos = len(p.buf)
	switch d.kind {
	case "lit":
		p.buf = append(p.buf, d.text...)
	case "arr":
		p.buf = append(p.buf, '[')
		p.ws()
		for i, k := range d.kids {
			if i > 0 {
				p.buf = append(p.buf, ',')
				p.ws()
			}
			p.print(k)
			p.ws()
		}
		p.buf = append(p.buf, ']')
	case "obj":
		p.buf = append(p.buf, '{')
		p.ws()
		d.keyPos = make([]int, len(d.kids))
		for i, k := range d.kids {
			if i > 0 {
				p.buf = append(p.buf, ',')
				p.ws()
			}
			d.keyPos[i] = len(p.buf)
			p.buf = append(p.buf, d.keys[i]...)
			p.ws()
			p.buf = append(p.buf, ':')
			p.ws()
			p.print(k)
			p.ws()
		}
		p.buf = append(p.buf, '}')
	}
}

// ---- planting one violation ------------------------------------------------------------------------------------

type plant struct {
	class string
	apply func() (target *dNode, keyIdx int) // mutates the document; expected position = target.pos, or target.keyPos[keyIdx] when keyIdx >= 0
}

func (g *vgen) randomOther(kinds ...string) *dNode {
	k := kinds[g.r.Intn(len(kinds))]
	switch k {
	case "int":
		return lit(strconv.Itoa(g.r.Intn(50)))
	case "float":
		return lit([]string{"1.5", "-0.25", "10.75"}[g.r.Intn(3)])
	case "str":
		return lit(strconv.Quote([]string{"", "w", "some text", "12"}[g.r.Intn(4)]))
	case "bool":
		return lit([]string{"true", "false"}[g.r.Intn(2)])
	case "null":
		return lit("null")
	case "obj":
		if g.r.Intn(2) == 0 {
			return &dNode{kind: "obj"}
		}
		return &dNode{kind: "obj", keys: []string{`"q"`}, kids: []*dNode{lit("1")}}
	}
	if g.r.Intn(2) == 0 {
		return &dNode{kind: "arr"}
	}
	return &dNode{kind: "arr", kids: []*dNode{lit("1"), lit(`"s"`)}}
}

func without(all []string, drop ...string) []string {
	var out []string
	for _, a := range all {
		keep := true
		for _, d := range drop {
			keep = keep && a != d
		}
		if keep {
			out = append(out, a)
		}
	}
	return out
}

var allKinds = []string{"int", "float", "str", "bool", "null", "obj", "arr"}

// kindsOf: the JSON kinds a schema node accepts (through references), for choosing a WRONG kind.
func (g *vgen) kindsOf(n *sNode) []string {
	var ks []string
	switch n.kind {
	case "ref":
		ks = g.kindsOf(g.types[n.names[0]])
	case "or":
		for _, nm := range n.names {
			ks = append(ks, g.kindsOf(g.types[nm])...)
		}
	case "float":
		ks = []string{"float", "int"} // an integer is not planted as a wrong kind under a float
	default:
		ks = []string{n.kind}
	}
	if n.nullable {
		ks = append(ks, "null")
	}
	return ks
}

// collect walks schema and document in parallel and lists every violation that can be planted.
// set replaces the document node d in its parent.
func (g *vgen) collect(n *sNode, d *dNode, set func(*dNode), depth int, out *[]plant, inherited ...string) {
	r := g.r
	add := func(class string, f func() (*dNode, int)) {
		*out = append(*out, plant{fmt.Sprintf("%s@depth%d", class, depth), f})
	}
	// wrong kind at this position
	if wrong := without(allKinds, append(g.kindsOf(n), inherited...)...); len(wrong) > 0 {
		shape := "scalar"
		if d.kind != "lit" {
			shape = d.kind
		}
		add("wrong-kind-of-"+shape, func() (*dNode, int) {
			nd := g.randomOther(wrong...)
			set(nd)
			return nd, -1
		})
	}
	if d.kind == "lit" && d.text == "null" && n.kind != "null" {
		return // a null accepted through nullable: nothing below
	}
	replaceLit := func(class, text string) {
		add(class, func() (*dNode, int) {
			nd := lit(text)
			set(nd)
			return nd, -1
		})
	}
	switch n.kind {
	case "ref":
		g.collect(g.types[n.names[0]], d, set, depth, out, append(g.kindsOf(n), inherited...)...) // what the reference itself admits (nullable) stays admitted
	case "or":
		// scalars only: every alternative rejects a literal at the literal itself
	case "int", "float":
		if n.hasMax {
			replaceLit("above-max", numText(n.kind, n.max+1+r.Intn(5), r))
		}
		if n.hasMin {
			replaceLit("below-min", numText(n.kind, n.min-1-r.Intn(5), r))
		}
		if len(n.enum) > 0 {
			replaceLit("enum-miss", "77")
		}
	case "str":
		if n.maxLen >= 0 {
			replaceLit("too-long-string", strconv.Quote(strings.Repeat("x", n.maxLen+1+r.Intn(4))))
		}
		if n.minLen > 0 {
			replaceLit("too-short-string", strconv.Quote(strings.Repeat("x", r.Intn(n.minLen))))
		}
		if n.rx >= 0 {
			b := rxPool[n.rx].bad
			replaceLit("regex-miss", strconv.Quote(b[r.Intn(len(b))]))
		}
		if n.format != "" {
			b := formatPool[n.format][1]
			replaceLit("format-miss-"+n.format, strconv.Quote(b[r.Intn(len(b))]))
		}
		if len(n.enum) > 0 {
			replaceLit("enum-miss", `"purple"`)
		}
	case "obj":
		add("unknown-key", func() (*dNode, int) {
			i := r.Intn(len(d.kids) + 1)
			key := strconv.Quote([]string{"zz", "unknown", "a ", "A1", ""}[r.Intn(5)])
			d.keys = append(d.keys[:i:i], append([]string{key}, d.keys[i:]...)...)
			d.kids = append(d.kids[:i:i], append([]*dNode{g.randomOther(allKinds...)}, d.kids[i:]...)...)
			return d, i
		})
		byKey := map[string]*sProp{}
		for _, p := range n.props {
			byKey[strconv.Quote(p.key)] = p
		}
		for i := range d.kids {
			i := i
			p := byKey[d.keys[i]]
			if !p.optional {
				add("missing-required-key", func() (*dNode, int) {
					d.keys = append(d.keys[:i:i], d.keys[i+1:]...)
					d.kids = append(d.kids[:i:i], d.kids[i+1:]...)
					return d, -1
				})
			}
			g.collect(p.val, d.kids[i], func(nd *dNode) { d.kids[i] = nd }, depth+1, out)
		}
	case "arr":
		if len(n.items) == 0 {
			add("extra-element-in-empty-array", func() (*dNode, int) {
				nd := g.randomOther(allKinds...)
				d.kids = append(d.kids, nd)
				if r.Intn(2) == 0 {
					d.kids = append(d.kids, g.randomOther(allKinds...))
				}
				return nd, -1
			})
			return
		}
		if n.maxItems >= 0 {
			add("more-than-maxItems", func() (*dNode, int) {
				for len(d.kids) <= n.maxItems {
					d.kids = append(d.kids, g.valid(g.itemSchema(n, len(d.kids))))
				}
				return d, -1
			})
		}
		if n.minItems > 0 {
			add("fewer-than-minItems", func() (*dNode, int) {
				d.kids = d.kids[:r.Intn(n.minItems)]
				return d, -1
			})
		}
		for i := range d.kids {
			i := i
			g.collect(g.itemSchema(n, i), d.kids[i], func(nd *dNode) { d.kids[i] = nd }, depth+1, out)
		}
	}
}

// ---- the stream ------------------------------------------------------------------------------------------------

type vcase struct {
	schema  string
	types   [][2]string
	nm      naming // file names of the schemas (schemapos.go)
	docName string // file name of the document: the validation error names it
}

func (c vcase) String(doc []byte) string {
	var sb strings.Builder
	fmt.Fprintf(&sb, "s := jschema.New(%q, %q)", c.nm.root, c.schema)
	for _, t := range c.types {
		fmt.Fprintf(&sb, "; s.AddType(%q, jschema.New(%q, %q))", t[0], c.nm.typeFile(t[0]), t[1])
	}
	fmt.Fprintf(&sb, "; s.Validate(json.New(%q, %q))", c.docName, doc)
	return sb.String()
}

// schemaFiles: the schema files of the run, as a caller of the SDK facade may hold them (facade.go)
func (c vcase) schemaFiles() []runFile {
	out := []runFile{{"the root schema text", c.nm.root, []byte(c.schema)}}
	for _, t := range c.types {
		out = append(out, runFile{"the text of " + t[0], c.nm.typeFile(t[0]), []byte(t[1])})
	}
	return out
}

func validateWithDeadline(c vcase, doc []byte) (pos int, desc string, msg string, timeout bool) {
	pos, desc, msg, _, timeout = validateObserved(c, doc)
	return
}

func validateObserved(c vcase, doc []byte) (pos int, desc string, msg string, obs observation, timeout bool) {
	type res struct {
		pos       int
		desc, msg string
		obs       observation
	}
	ch := make(chan res, 1)
	go func() {
		var out res
		p := vh.Recover(func() string {
			s := jschema.New(c.nm.root, c.schema)
			for _, t := range c.types {
				if err := s.AddType(t[0], jschema.New(c.nm.typeFile(t[0]), t[1])); err != nil {
					out.pos, out.desc = -2, "AddType "+t[0]+": "+err.Error()
					return ""
				}
			}
			err := s.Validate(jdoc.New(c.docName, doc))
			out.pos, out.desc = errPos(err)
			out.obs = observe(err) // rendering must not panic either
			out.msg = out.obs.msg
			if out.obs.panics != "" {
				out.pos, out.desc = -3, out.obs.panics
			}
			return ""
		})
		if p != "" {
			out.pos, out.desc = -3, p
		}
		ch <- out
	}()
	select {
	case o := <-ch:
		return o.pos, o.desc, o.msg, o.obs, false
	case <-time.After(20 * time.Second):
		return 0, "", "", observation{}, true
	}
}

func runValidatePos(rep *vh.Report) {
	r := vh.NewRand(17001)
	n := vh.Pick(11000, 250000)
	for i, flat := 0, 0; i < n; i++ {
		g := &vgen{r: r, types: map[string]*sNode{}, order: []string{"root", "@t1", "@t2", "@t3"}}
		// types are generated from the last one backwards so that references only point to defined types
		for lvl := len(g.order) - 1; lvl >= 0; lvl-- {
			t := g.schema(1+r.Intn(3), lvl)
			for try := 0; lvl == 0 && try < 3 && t.kind != "obj" && t.kind != "arr" && t.kind != "ref"; try++ {
				t = g.schema(2+r.Intn(2), lvl) // the root is a container or a reference most of the time
			}
			g.types[g.order[lvl]] = t
		}
		c := vcase{nm: namings[r.Intn(len(namings))], docName: []string{"doc.json", "doc.json", "", "x.jst"}[r.Intn(4)]}
		for lvl, nm := range g.order {
			sp := newSPrinter(g)
			sp.print(g.types[nm], 0, "", "", false)
			txt := sp.text()
			if lvl == 0 {
				c.schema = txt
			} else {
				c.types = append(c.types, [2]string{nm, txt})
			}
		}
		root := g.types["root"]
		var doc *dNode
		var plants []plant
		holder := &doc
		for try := 0; try < 6; try++ { // prefer documents that offer a site below the root
			doc = g.valid(root)
			plants = plants[:0]
			g.collect(root, doc, func(nd *dNode) { *holder = nd }, 0, &plants)
			deep := false
			for _, pl := range plants {
				deep = deep || !strings.HasSuffix(pl.class, "@depth0")
			}
			if deep {
				break
			}
		}
		nl := []string{"\n", "\n", "\r\n", "\r"}[r.Intn(4)]
		// the unmutated document must be accepted (sampled: one case in eight)
		if i%8 == 0 {
			p := &docPrinter{r: r, nl: nl}
			p.ws()
			p.print(doc)
			p.ws()
			pos, desc, _, to := validateWithDeadline(c, p.buf)
			if to {
				rep.AddDiff(vh.Diff{Component: "C17-validate-pos", Input: c.String(p.buf), Impl: "TIMEOUT", Model: "Validate returns"})
				return
			}
			if pos != -1 {
				rep.AddDiff(vh.Diff{Component: "C17-validate-pos", Input: c.String(p.buf), Impl: desc, Model: "the generated valid document is accepted"})
				continue
			}
			rep.Stat("valid_doc_accepted")
		}
		if len(plants) == 0 {
			rep.Stat("no_plantable_violation")
			continue
		}
		onlyRoot := true
		for _, pl := range plants {
			onlyRoot = onlyRoot && strings.HasSuffix(pl.class, "@depth0")
		}
		if onlyRoot {
			if flat++; flat%4 != 0 { // keep one in four of the flat cases
				i--
				continue
			}
		}
		// choose a class first (uniform over the classes present), then a site: rare classes get their share
		byClass := map[string][]plant{}
		var classes []string
		for _, pl := range plants {
			cl := pl.class[:strings.Index(pl.class, "@")]
			if _, ok := byClass[cl]; !ok {
				classes = append(classes, cl)
			}
			byClass[cl] = append(byClass[cl], pl)
		}
		cl := classes[r.Intn(len(classes))]
		// … preferring deep sites (weight (depth+1)^2)
		pl := byClass[cl][0]
		total := 0
		for _, x := range byClass[cl] {
			var dp int
			fmt.Sscanf(x.class[strings.Index(x.class, "@")+1:], "depth%d", &dp)
			w := (dp + 1) * (dp + 1)
			total += w
			if r.Intn(total) < w {
				pl = x
			}
		}
		target, keyIdx := pl.apply()
		p := &docPrinter{r: r, nl: nl}
		p.ws()
		p.print(*holder)
		p.ws()
		want := target.pos
		what := "start of the offending value"
		if keyIdx >= 0 {
			want = target.keyPos[keyIdx]
			what = "start of the unknown key"
		} else if cl == "missing-required-key" {
			what = "start of the object that lacks the key"
		}
		rep.Stat("planted_" + cl)
		rep.Stat("planted_at_" + pl.class[strings.Index(pl.class, "@")+1:])
		in := c.String(p.buf)
		rep.Case(in, true)
		got, desc, _, obs, to := validateObserved(c, p.buf)
		if to {
			rep.AddDiff(vh.Diff{Component: "C17-validate-pos", Input: in, Impl: "TIMEOUT", Model: "Validate returns"})
			return
		}
		if got != want || !obs.positioned {
			rep.AddDiff(vh.Diff{Component: "C17-validate-pos", Input: in, Impl: desc, Model: fmt.Sprintf("Validate fails with Position() == %d (%s; planted: %s)", want, what, pl.class)})
			continue
		}
		// the rendered message points into the document: file name, line number, source line and caret by the reference
		if cm := renderComplaint(obs, c.docName, p.buf); cm != "" {
			rep.AddDiff(vh.Diff{Component: "C17-validate-pos", Input: in, Impl: cm + " | " + obs.String(), Model: fmt.Sprintf("the message shows file %q, the line, left-trimmed source line and caret of offset %d of the document", c.docName, want)})
			continue
		}
		// the same error through the SDK facade, converted for the document file, for every schema file and for companions
		reportFacade(rep, in, obs, runFile{"the document text", c.docName, p.buf}, c.schemaFiles())
	}
}
