package c17

import (
	stderrors "errors"
	"fmt"
	"strings"

	jerr "github.com/jsightapi/jsight-schema-go-library/errors"
)

// observation: everything property C17 lets a caller see of one returned error (OBSERVE AT: Position(),
// ErrCode(), Error()/String(), Line(), SourceSubString()) plus the file the error names.
type observation struct {
	isNil      bool
	positioned bool   // the error is (or wraps) the library's positioned error type errors.DocumentError
	typ        string // %T of the returned error
	code       int
	pos        int
	file       string
	line       uint
	src        string
	msg        string // Error() of the returned error (may carry a wrapping prefix)
	inner      string // Error() of the positioned error itself
	panics     string // a panic of one of the rendering methods
	message    string // Message() of the positioned error
	utype      string // IncorrectUserType() of the positioned error
	// for the facade leg (facade.go): the returned error, the positioned error as extracted and the same value
	// after it has been rendered
	err      error
	de       jerr.DocumentError
	rendered jerr.DocumentError
	// the positioned error was handed out wrapped by a step that made the library synthesise a source (AddType of
	// a regex type): its position is an offset in that synthesised text, which the caller does not have. The
	// facade leg then holds only the result for the RETURNED error to the RESULT clause (facade.go).
	synthetic bool
}

func observe(err error) (o observation) {
	if err == nil {
		o.isNil, o.pos = true, -1
		return o
	}
	o.typ = fmt.Sprintf("%T", err)
	o.pos = -1
	o.err = err
	defer func() {
		if r := recover(); r != nil {
			o.panics = fmt.Sprintf("PANIC %v", r)
		}
	}()
	o.msg = err.Error()
	var de jerr.DocumentError
	if !stderrors.As(err, &de) {
		var c coded
		if stderrors.As(err, &c) {
			o.code = c.ErrCode()
		}
		return o
	}
	o.positioned = true
	o.de, o.rendered = de, de
	o.code, o.pos, o.file = de.ErrCode(), int(de.Position()), de.Filename()
	o.message, o.utype = de.Message(), de.IncorrectUserType()
	o.inner = de.Error()
	o.line = de.Line()
	o.src = de.SourceSubString()
	o.rendered = de
	return o
}

func (o observation) String() string {
	switch {
	case o.isNil:
		return "no error"
	case o.panics != "":
		return o.panics + " while rendering " + o.typ
	case !o.positioned:
		return fmt.Sprintf("bare %s (code %d) without file / Position / Line / source line: %q", o.typ, o.code, o.msg)
	}
	return fmt.Sprintf("code %d position %d file %q Line()=%d SourceSubString()=%q", o.code, o.pos, o.file, o.line, o.src)
}

// renderComplaint: is the rendering of a positioned error the one the property demands for `content`, the text
// of the file the error names, at the error's own position? Independent reference: refRender (render.go).
// Returns "" when everything agrees.
func renderComplaint(o observation, fileName string, content []byte) string {
	if o.file != fileName {
		return fmt.Sprintf("Filename() = %q, want %q", o.file, fileName)
	}
	if o.pos < 0 || o.pos >= len(content) {
		return fmt.Sprintf("position %d outside the %d bytes of file %q", o.pos, len(content), fileName)
	}
	st := classify(content)
	if st == styleMixed {
		return "" // R5: totality only
	}
	num, src, caret, ok := refRender(content, o.pos, st)
	if int(o.line) != num {
		return fmt.Sprintf("Line() = %d, want %d", o.line, num)
	}
	head := fmt.Sprintf("\n\tin line %d on file %s\n\t> ", num, fileName)
	if !ok { // R4: a line of blanks only
		if !strings.Contains(o.inner, head) {
			return fmt.Sprintf("message %q lacks %q", o.inner, head)
		}
		return ""
	}
	if o.src != src {
		return fmt.Sprintf("SourceSubString() = %q, want %q", o.src, src)
	}
	if tail := head + src + "\n\t--" + caret; !strings.HasSuffix(o.inner, tail) || !strings.HasPrefix(o.inner, "ERROR") {
		return fmt.Sprintf("message %q does not end with %q", o.inner, tail)
	}
	if !strings.HasSuffix(o.msg, o.inner) {
		return fmt.Sprintf("outer message %q does not end with the positioned error's message", o.msg)
	}
	return ""
}
