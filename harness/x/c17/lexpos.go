package c17

import (
	stdjson "encoding/json"
	"fmt"
	"math/rand"
	"strings"

	jdoc "github.com/jsightapi/jsight-schema-go-library/formats/json"
	"github.com/jsightapi/jsight-schema-go-library/notations/jschema"
	"github.com/jsightapi/jsight-schema-go-library/notations/regex"
	"github.com/jsightapi/jsight-schema-go-library/rules/enum"

	"verifharness/vh"
)

// Lexical errors INSIDE tokens ("a parsing error's position is the offset of the first byte that cannot continue
// the text").
//
// An accepted text (schema, enum rule, JSON document, regex) is cut into its tokens by a small tokenizer of our
// own; then ONE lexical error is planted inside one token, at the first byte, in the middle or at the last byte
// of the token. Every token kind of the notation is a site: quoted keys, string values, strings inside
// annotations (rule values, enum items), numbers, the literals true / false / null, type shortcuts, bare rule
// names; in inline annotations, multi-line annotations, annotations with a note, next to user comments.
//
// Oracle, by construction: the text before the planted byte is a prefix of an accepted text, so every byte of it
// can continue; the planted byte is chosen so that it cannot continue the token it sits in:
//
//	string          a raw control byte (TAB, LF, CR, NUL, 0x01, 0x1f); `\` + a byte that is no escape letter (the
//	                position is that byte); `\u` + 0..3 hex digits + a byte that is no hex digit (position: that byte)
//	number          a byte outside the number alphabet replacing / inserted after a digit; `0` inserted in front of
//	                the first digit (position: the digit that now follows a leading zero)
//	literal         a foreign byte replacing one of its letters, or appended
//	type shortcut   a byte that is neither a name byte nor a delimiter, after `@`, inside or behind the name
//	bare rule name  a raw control byte or a quote inside or behind the name
//
// Second opinion: the Lean scanner models (`sscan E` / `escan E` -> `ERR code idx`) for schema and enum texts, the
// scanner of encoding/json for documents. A case on which the construction and the second opinion disagree is
// reported as component C17-lex-oracle (level correspondence): it says the oracle needs attention, not the library.

type ltok struct {
	kind string // key-string string ann-string number ann-number literal ann-literal shortcut rule-name
	b, e int    // the token is t[b:e]
}

func isNL(c byte) bool { return c == '\n' || c == '\r' }

func isNameByte(c byte) bool {
	return c == '-' || c == '_' || ('a' <= c && c <= 'z') || ('A' <= c && c <= 'Z') || ('0' <= c && c <= '9')
}

// lexTokens: tokens of a text in the spelling our printers produce (JSON-like example part, `//` and `/* */`
// annotations holding one rule object and an optional note, `#` user comments to the end of the line).
func lexTokens(t string) []ltok {
	var out []ltok
	const (
		mExample = iota
		mInline
		mMulti
	)
	mode, depth := mExample, 0
	nextNonBlank := func(i int) byte {
		for i < len(t) && (t[i] == ' ' || t[i] == '\t') {
			i++
		}
		if i < len(t) {
			return t[i]
		}
		return 0
	}
	for i := 0; i < len(t); {
		c := t[i]
		ann := mode != mExample
		pre := ""
		if ann {
			pre = "ann-"
		}
		switch {
		case c == '"':
			j := i + 1
			for j < len(t) && t[j] != '"' {
				if t[j] == '\\' {
					j++
				}
				j++
			}
			j++ // closing quote
			kind := pre + "string"
			if nextNonBlank(j) == ':' {
				kind = "key-string"
				if ann {
					kind = "ann-key-string"
				}
			}
			out = append(out, ltok{kind, i, j})
			i = j
		case c == '-' || ('0' <= c && c <= '9'):
			j := i + 1
			for j < len(t) && (('0' <= t[j] && t[j] <= '9') || t[j] == '.' || t[j] == 'e' || t[j] == 'E' || t[j] == '+' || t[j] == '-') {
				j++
			}
			out = append(out, ltok{pre + "number", i, j})
			i = j
		case c == '@':
			j := i + 1
			for j < len(t) && isNameByte(t[j]) {
				j++
			}
			out = append(out, ltok{"shortcut", i, j})
			i = j
		case ('a' <= c && c <= 'z') || ('A' <= c && c <= 'Z'):
			j := i + 1
			for j < len(t) && (('a' <= t[j] && t[j] <= 'z') || ('A' <= t[j] && t[j] <= 'Z')) {
				j++
			}
			if ann && nextNonBlank(j) == ':' {
				out = append(out, ltok{"rule-name", i, j})
			} else {
				out = append(out, ltok{pre + "literal", i, j})
			}
			i = j
		case !ann && c == '/' && i+1 < len(t) && t[i+1] == '/':
			mode, depth, i = mInline, 0, i+2
		case !ann && c == '/' && i+1 < len(t) && t[i+1] == '*':
			mode, depth, i = mMulti, 0, i+2
		case !ann && c == '#':
			for i < len(t) && !isNL(t[i]) {
				i++
			}
		case ann && (c == '{' || c == '['):
			depth++
			i++
		case ann && (c == '}' || c == ']'):
			depth--
			i++
			if depth == 0 { // the rule object is closed: a note may follow, up to the end of the annotation
				if mode == mInline {
					for i < len(t) && !isNL(t[i]) {
						i++
					}
				} else {
					for i+1 < len(t) && !(t[i] == '*' && t[i+1] == '/') {
						i++
					}
					i += 2
				}
				mode = mExample
			}
		case mode == mInline && isNL(c):
			mode = mExample
			i++
		default:
			i++
		}
	}
	return out
}

// boundaries of a string token's body: offsets at which a byte can be inserted without splitting an escape
func stringBoundaries(t string, tk ltok) []int {
	var bd []int
	for i := tk.b + 1; i <= tk.e-1; {
		bd = append(bd, i)
		if i == tk.e-1 {
			break
		}
		switch {
		case t[i] == '\\' && i+1 < tk.e-1 && t[i+1] == 'u':
			i += 6
		case t[i] == '\\':
			i += 2
		default:
			i++
		}
		if i > tk.e-1 {
			break
		}
	}
	return bd
}

type lexPlant struct {
	text  string
	want  int
	label string // token kind / error kind / offset class
}

func pickByte(r *rand.Rand, s string) byte { return s[r.Intn(len(s))] }

// three offset classes out of a sorted list of candidate offsets
func offsetClass(r *rand.Rand, cands []int) (int, string) {
	switch k := r.Intn(3); {
	case k == 0 || len(cands) == 1:
		return cands[0], "first"
	case k == 1 || len(cands) == 2:
		return cands[len(cands)-1], "last"
	default:
		return cands[1+r.Intn(len(cands)-2)], "middle"
	}
}

func seq(from, to int) []int { // from..to inclusive
	var s []int
	for i := from; i <= to; i++ {
		s = append(s, i)
	}
	return s
}

// plantLex plants one lexical error inside token tk of text t. json: the text is a JSON document (no shortcuts,
// no annotations: nothing to adapt, the flag only documents the caller).
func plantLex(r *rand.Rand, t string, tk ltok) (lexPlant, bool) {
	ins := func(o int, s string) string { return t[:o] + s + t[o:] }
	rep := func(o int, c byte) string { return t[:o] + string(c) + t[o+1:] }
	tt := t[tk.b:tk.e]
	switch tk.kind {
	case "key-string", "string", "ann-string", "ann-key-string":
		o, cl := offsetClass(r, stringBoundaries(t, tk))
		switch r.Intn(4) {
		case 0, 1:
			return lexPlant{ins(o, string(pickByte(r, "\t\t\n\r\x00\x01\x1f"))), o, tk.kind + "/control-byte/" + cl}, true
		case 2:
			return lexPlant{ins(o, `\`+string(pickByte(r, "qxa0 'U"))), o + 1, tk.kind + "/bad-escape/" + cl}, true
		default:
			k := r.Intn(4)
			return lexPlant{ins(o, `\u`+"0aF9"[:k]+string(pickByte(r, "Gg x-\""))), o + 2 + k, tk.kind + "/bad-hex-digit/" + cl}, true
		}
	case "number", "ann-number":
		switch r.Intn(5) {
		case 0, 1:
			o, cl := offsetClass(r, seq(tk.b, tk.e-1))
			return lexPlant{rep(o, pickByte(r, "x?_!")), o, tk.kind + "/foreign-byte-replacing/" + cl}, true
		case 2, 3:
			o, cl := offsetClass(r, seq(tk.b+1, tk.e))
			return lexPlant{ins(o, string(pickByte(r, "x?_!"))), o, tk.kind + "/foreign-byte-inserted/" + cl}, true
		default:
			d := tk.b
			if tt[0] == '-' {
				d++
			}
			if d >= tk.e || tt[d-tk.b] < '0' || tt[d-tk.b] > '9' {
				return lexPlant{}, false
			}
			return lexPlant{ins(d, "0"), d + 1, tk.kind + "/digit-after-leading-zero/first"}, true
		}
	case "literal", "ann-literal":
		if tt != "true" && tt != "false" && tt != "null" {
			return lexPlant{}, false
		}
		if r.Intn(3) == 0 {
			return lexPlant{ins(tk.e, string(pickByte(r, "x?"))), tk.e, tk.kind + "/foreign-byte-appended/last"}, true
		}
		o, cl := offsetClass(r, seq(tk.b, tk.e-1))
		return lexPlant{rep(o, pickByte(r, "x?T")), o, tk.kind + "/foreign-byte-replacing/" + cl}, true
	case "shortcut":
		o, cl := offsetClass(r, seq(tk.b+1, tk.e))
		return lexPlant{ins(o, string(pickByte(r, "?!%^"))), o, tk.kind + "/foreign-byte-inserted/" + cl}, true
	case "rule-name":
		o, cl := offsetClass(r, seq(tk.b+1, tk.e))
		return lexPlant{ins(o, string(pickByte(r, "\t\x01\n\r\""))), o, tk.kind + "/control-byte-or-quote/" + cl}, true
	}
	return lexPlant{}, false
}

// ---- spelling variants of the annotations of a printed schema ---------------------------------------------------

const lexNoteAlphabet = " \tabcXYZ019/{}[]\":,@|-_.\\'+=<>!?()"

func lexNote(r *rand.Rand) string {
	n := 1 + r.Intn(10)
	b := make([]byte, n)
	for i := range b {
		b[i] = lexNoteAlphabet[r.Intn(len(lexNoteAlphabet))]
	}
	for b[0] == ' ' || b[0] == '\t' {
		b[0] = lexNoteAlphabet[r.Intn(len(lexNoteAlphabet))]
	}
	return string(b)
}

// restyle rewrites the `head // {rules}` lines of a printed schema into the other spellings of an annotation and
// adds user comments; then the line ends become LF, CRLF or CR.
func restyle(r *rand.Rand, txt string) string {
	lines := strings.Split(txt, "\n")
	var out []string
	for _, ln := range lines {
		if k := strings.Index(ln, " // {"); k >= 0 && strings.HasSuffix(ln, "}") {
			head, rules := ln[:k], ln[k+5:len(ln)-1]
			ind := ln[:len(ln)-len(strings.TrimLeft(ln, " "))]
			switch r.Intn(7) {
			case 0:
				ln = head + " /* {" + rules + "} */"
			case 1:
				ln = head + " // {" + rules + "} - " + lexNote(r)
			case 2:
				ln = head + " /* {" + rules + "} - " + lexNote(r) + " */"
			case 3:
				ln = head + " /*\n" + ind + "    {" + rules + "}\n" + ind + "  */"
			case 4:
				ln = head + "  //   { " + rules + " }  "
			}
		}
		out = append(out, ln)
		if r.Intn(12) == 0 {
			out = append(out, "  # "+lexNote(r))
		}
	}
	return strings.Join(out, []string{"\n", "\n", "\r\n", "\r"}[r.Intn(4)])
}

// ---- streams --------------------------------------------------------------------------------------------------------

type lexCase struct {
	in    string // replay text
	want  int
	label string
	got   observation
	req   string // model request ("" = none)
	file  string
	text  string
	other []runFile // the other files of the run (facade.go)
}

// lexMut: a random one-byte edit of an accepted schema text (anywhere, any byte): no construction tells where the
// first dead byte is; the scanner's own error (hook VerifSchemaEvents = the DocumentError the scanner raises, which
// Check() returns unless an earlier construct was already refused by the loader) against the Lean scanner model.
type lexMut struct{ in, hook, req string }

var lexMuts []lexMut

var lexMutBytes = []byte("{}[]:,\"\\/*#@|-+01.9eEtrufalsn xyzAF \t\n\r?\x01\x00")

func runLexPos(rep *vh.Report) {
	var cases []lexCase
	lexMuts = nil
	cases = append(cases, lexSchema(rep)...)
	cases = append(cases, lexEnum(rep)...)
	lexJSON(rep)
	lexRegex(rep)
	// second opinion of the Lean scanner models
	var reqs []string
	for _, c := range cases {
		reqs = append(reqs, c.req)
	}
	for _, m := range lexMuts {
		reqs = append(reqs, m.req)
	}
	model := vh.AskModelSharded(reqs, 16)
	for k, m := range lexMuts {
		ans := model[len(cases)+k]
		if !strings.HasPrefix(ans, "ERR ") {
			rep.Stat("lex_mut_model_accepts") // a question of the accepted language (C05 / C06), not of positions
			continue
		}
		rep.Stat("lex_mut_compared")
		if ans != m.hook {
			rep.AddDiff(vh.Diff{Component: "C17-lex-model", Input: m.in, Impl: m.hook, Model: ans + " (Lean scanner model: code and offset of the first byte that cannot continue the text; last byte when the text ends early)", Note: m.req})
		}
	}
	for i, c := range cases {
		midx, mok := -1, false
		var mcode int
		if _, err := fmt.Sscanf(model[i], "ERR %d %d", &mcode, &midx); err == nil {
			mok = true
		}
		demand := fmt.Sprintf("a positioned error with Position() == %d: the first byte that cannot continue the text (planted: %s)", c.want, c.label)
		if !mok || midx != c.want {
			rep.AddDiff(vh.Diff{Component: "C17-lex-oracle", Level: "correspondence", Input: c.in, Impl: "construction: " + demand, Model: "Lean scanner model: " + model[i], Note: c.req})
			continue
		}
		if !c.got.positioned || c.got.pos != c.want {
			rep.AddDiff(vh.Diff{Component: "C17-lex-pos", Input: c.in, Impl: c.got.String() + " | " + c.got.msg, Model: demand + "; Lean scanner model: " + model[i]})
			continue
		}
		if cm := renderComplaint(c.got, c.file, []byte(c.text)); cm != "" {
			rep.AddDiff(vh.Diff{Component: "C17-lex-pos", Input: c.in, Impl: cm + " | " + c.got.String(), Model: demand + ", rendered with the line number, left-trimmed source line and caret of that offset"})
			continue
		}
		reportFacade(rep, c.in, c.got, runFile{"the text with the planted error", c.file, []byte(c.text)}, c.other)
	}
}

var lexFileNames = []string{"schema.jst", "", "dir/a b.txt", ""}

// lexSchema: tables of genTable; the victim's text restyled; base accepted; planted errors through Check().
func lexSchema(rep *vh.Report) (cases []lexCase) {
	r := vh.NewRand(17005)
	nTables := vh.Pick(1000, 12000)
	perTable := 8
	for i := 0; i < nTables; i++ {
		g, _ := genTable(r)
		victim := g.order[r.Intn(len(g.order))]
		if r.Intn(3) == 0 {
			victim = "root"
		}
		texts := map[string]string{}
		for _, nm := range g.order {
			p := newSPrinter(g)
			p.print(g.types[nm], 0, "", "", false)
			texts[nm] = p.text()
		}
		texts[victim] = restyle(r, texts[victim])
		mk := func(vt string) [][2]string {
			var types [][2]string
			for _, nm := range g.order[1:] {
				if nm == victim {
					types = append(types, [2]string{nm, vt})
				} else {
					types = append(types, [2]string{nm, texts[nm]})
				}
			}
			return types
		}
		base, to := runSchema(namings[0], "Check", texts["root"], mk(texts[victim]))
		if to {
			rep.AddDiff(vh.Diff{Component: "C17-lex-pos", Input: replayText(namings[0], "Check", texts["root"], mk(texts[victim])), Impl: "TIMEOUT", Model: "Check returns"})
			return cases
		}
		if !base.obs.isNil {
			rep.Stat("lex_schema_base_not_accepted") // a spelling variant the tree does not take: no planting
			continue
		}
		rep.Stat("lex_schema_bases")
		toks := lexTokens(texts[victim])
		if len(toks) == 0 {
			continue
		}
		for k := 0; k < 3; k++ { // random one-byte edits: scanner error vs scanner model
			b := []byte(texts[victim])
			switch r.Intn(4) {
			case 0:
				b[r.Intn(len(b))] = lexMutBytes[r.Intn(len(lexMutBytes))]
			case 1:
				b = b[:r.Intn(len(b))]
			case 2:
				p := r.Intn(len(b) + 1)
				b = append(b[:p:p], append([]byte{lexMutBytes[r.Intn(len(lexMutBytes))]}, b[p:]...)...)
			default:
				p := r.Intn(len(b))
				b = append(b[:p:p], b[p+1:]...)
			}
			hook := vh.Recover(func() string { return jschema.VerifSchemaEvents(b) })
			if !strings.HasPrefix(hook, "ERR ") {
				rep.Stat("lex_mut_still_scans")
				continue
			}
			in := fmt.Sprintf("jschema.New(\"x\", %q).Check() (scanner error; hook jschema.VerifSchemaEvents)", b)
			rep.Case(in, true)
			lexMuts = append(lexMuts, lexMut{in, hook, "sscan E " + vh.Hex(b)})
		}
		// token kinds get equal shares
		byKind := map[string][]ltok{}
		var kinds []string
		for _, tk := range toks {
			if _, ok := byKind[tk.kind]; !ok {
				kinds = append(kinds, tk.kind)
			}
			byKind[tk.kind] = append(byKind[tk.kind], tk)
		}
		for k := 0; k < perTable; k++ {
			kind := kinds[r.Intn(len(kinds))]
			tk := byKind[kind][r.Intn(len(byKind[kind]))]
			pl, ok := plantLex(r, texts[victim], tk)
			if !ok {
				continue
			}
			// The planted text is loaded in the smallest context: the root alone, or a one-line root that refers to
			// the victim type (the scanner stops at the planted byte, before any name is resolved).
			nm := namings[r.Intn(len(namings))]
			rootText, types := pl.text, [][2]string(nil)
			if victim != "root" {
				rootText, types = victim, [][2]string{{victim, pl.text}}
			}
			in := replayText(nm, "Check", rootText, types)
			got, to := runSchema(nm, "Check", rootText, types)
			if to {
				rep.AddDiff(vh.Diff{Component: "C17-lex-pos", Input: in, Impl: "TIMEOUT", Model: "Check returns"})
				return cases
			}
			rep.Case(in, true)
			rep.Stat("lex_schema_" + pl.label)
			if got.obs.panics != "" || got.pos == -3 {
				rep.AddDiff(vh.Diff{Component: "C17-lex-pos", Input: in, Impl: got.desc, Model: "a positioned error, rendering never panics"})
				continue
			}
			var other []runFile
			if victim != "root" {
				other = []runFile{{"the root schema text", nm.root, []byte(rootText)}}
			}
			cases = append(cases, lexCase{in: in, want: pl.want, label: pl.label, got: got.obs, req: "sscan E " + vh.Hex([]byte(pl.text)), file: nm.fileOf(victim), text: pl.text, other: other})
		}
	}
	return cases
}

func decodedString(lit string) string {
	var v string
	if err := stdjson.Unmarshal([]byte(lit), &v); err != nil {
		return lit
	}
	return v
}

// lexEnum: enum rule texts `[ v, v, … ]` of distinct scalars.
func lexEnum(rep *vh.Report) (cases []lexCase) {
	r := vh.NewRand(17006)
	n := vh.Pick(1500, 30000)
	for i := 0; i < n; i++ {
		// items: scalars without exponent (the enum notation has none), no item a prefix of another one (a planted
		// byte must not turn the token read so far into a duplicate of another item: that is another error)
		var items []string
		var sb strings.Builder
		sb.WriteString(jWS(r) + "[")
		for k, c := 0, 1+r.Intn(5); k < c; k++ {
			var v string
			for ok := false; !ok; {
				v = jScalar(r)
				ok = v[0] == '"' || !strings.ContainsAny(v, "eE") || v == "true" || v == "false"
				for _, x := range items {
					ok = ok && !strings.HasPrefix(x, v) && !strings.HasPrefix(v, x)
					// distinct as VALUES too: two spellings of one string ("/" and "\/") are a duplicate item
					ok = ok && !(v[0] == '"' && x[0] == '"' && decodedString(v) == decodedString(x))
				}
			}
			items = append(items, v)
			if k > 0 {
				sb.WriteByte(',')
			}
			sb.WriteString(jWS(r) + v + jWS(r))
		}
		sb.WriteString("]" + jWS(r))
		txt := sb.String()
		{ // the base text is accepted
			var o observation
			if p := vh.Recover(func() string { o = observe(enum.New("e", txt).Check()); return "" }); p != "" || !o.isNil {
				rep.AddDiff(vh.Diff{Component: "C17-lex-oracle", Level: "correspondence", Input: fmt.Sprintf("enum.New(\"e\", %q).Check()", txt), Impl: p + o.String(), Model: "the generated enum text is accepted"})
				continue
			}
		}
		toks := lexTokens(txt)
		if len(toks) == 0 {
			continue
		}
		tk := toks[r.Intn(len(toks))]
		pl, ok := plantLex(r, txt, tk)
		if !ok {
			continue
		}
		dup := false
		for _, x := range items { // the token read up to the planted byte must not be a complete other item
			dup = dup || (pl.want > tk.b && x == pl.text[tk.b:pl.want])
		}
		if dup {
			rep.Stat("lex_enum_skipped_prefix_is_an_item")
			continue
		}
		name := lexFileNames[r.Intn(len(lexFileNames))]
		in := fmt.Sprintf("enum.New(%q, %q).Check()", name, pl.text)
		var got observation
		if p := vh.Recover(func() string { got = observe(enum.New(name, pl.text).Check()); return "" }); p != "" || got.panics != "" {
			rep.AddDiff(vh.Diff{Component: "C17-lex-pos", Input: in, Impl: p + got.panics, Model: "a positioned error, rendering never panics"})
			continue
		}
		rep.Case(in, true)
		rep.Stat("lex_enum_" + pl.label)
		cases = append(cases, lexCase{in: in, want: pl.want, label: pl.label, got: got, req: "escan E " + vh.Hex([]byte(pl.text)), file: name, text: pl.text})
	}
	return cases
}

// lexJSON: JSON documents; second opinion = encoding/json's scanner (firstBadByte).
func lexJSON(rep *vh.Report) {
	r := vh.NewRand(17007)
	n := vh.Pick(4000, 80000)
	for i := 0; i < n; i++ {
		budget := 5 + r.Intn(40)
		txt := jWS(r) + jValue(r, 1+r.Intn(4), 1+r.Intn(4), &budget) + jWS(r)
		toks := lexTokens(txt)
		if len(toks) == 0 {
			continue
		}
		pl, ok := plantLex(r, txt, toks[r.Intn(len(toks))])
		if !ok {
			continue
		}
		name := lexFileNames[r.Intn(len(lexFileNames))]
		in := fmt.Sprintf("json.New(%q, %q).Check()", name, pl.text)
		demand := fmt.Sprintf("a positioned error with Position() == %d: the first byte that cannot continue the text (planted: %s)", pl.want, pl.label)
		std, early, valid := firstBadByte([]byte(pl.text))
		if valid || early || std != pl.want {
			rep.AddDiff(vh.Diff{Component: "C17-lex-oracle", Level: "correspondence", Input: in, Impl: "construction: " + demand, Model: fmt.Sprintf("encoding/json: first bad byte %d (valid %v, ends early %v)", std, valid, early)})
			continue
		}
		var got observation
		if p := vh.Recover(func() string { got = observe(jdoc.New(name, pl.text).Check()); return "" }); p != "" || got.panics != "" {
			rep.AddDiff(vh.Diff{Component: "C17-lex-pos", Input: in, Impl: p + got.panics, Model: "a positioned error, rendering never panics"})
			continue
		}
		rep.Case(in, true)
		rep.Stat("lex_json_" + pl.label)
		if !got.positioned || got.pos != pl.want {
			rep.AddDiff(vh.Diff{Component: "C17-lex-pos", Input: in, Impl: got.String() + " | " + got.msg, Model: demand})
			continue
		}
		if cm := renderComplaint(got, name, []byte(pl.text)); cm != "" {
			rep.AddDiff(vh.Diff{Component: "C17-lex-pos", Input: in, Impl: cm + " | " + got.String(), Model: demand + ", rendered with the line number, left-trimmed source line and caret of that offset"})
			continue
		}
		reportFacade(rep, in, got, runFile{"the document text", name, []byte(pl.text)}, nil)
	}
}

// lexRegex: `/pattern/` texts: a first byte that is no slash (position 0), a text without the closing slash
// (input ends early: the last byte).
func lexRegex(rep *vh.Report) {
	r := vh.NewRand(17008)
	n := vh.Pick(600, 6000)
	for i := 0; i < n; i++ {
		var sb strings.Builder
		for k := r.Intn(8); k > 0; k-- {
			sb.WriteString([]string{"a", "b", ".", "[a-c]", "\\d", "\\/", "x+", "(y|z)", "\\\\", " ", "é"}[r.Intn(11)])
		}
		txt := "/" + sb.String() + "/"
		want, label := 0, ""
		if r.Intn(2) == 0 {
			txt, label = string(pickByte(r, "a\\ ^.[\""))+txt[1:], "regex/first-byte-no-slash"
		} else {
			txt, label = txt[:len(txt)-1], "regex/closing-slash-missing"
			want = len(txt) - 1
		}
		name := lexFileNames[r.Intn(len(lexFileNames))]
		in := fmt.Sprintf("regex.New(%q, %q).Check()", name, txt)
		var got observation
		if p := vh.Recover(func() string { got = observe(regex.New(name, txt).Check()); return "" }); p != "" || got.panics != "" {
			rep.AddDiff(vh.Diff{Component: "C17-lex-pos", Input: in, Impl: p + got.panics, Model: "a positioned error, rendering never panics"})
			continue
		}
		rep.Case(in, true)
		rep.Stat("lex_" + label)
		demand := fmt.Sprintf("a positioned error with Position() == %d (%s)", want, label)
		if !got.positioned || got.pos != want {
			rep.AddDiff(vh.Diff{Component: "C17-lex-pos", Input: in, Impl: got.String() + " | " + got.msg, Model: demand})
			continue
		}
		if cm := renderComplaint(got, name, []byte(txt)); cm != "" {
			rep.AddDiff(vh.Diff{Component: "C17-lex-pos", Input: in, Impl: cm + " | " + got.String(), Model: demand})
			continue
		}
		reportFacade(rep, in, got, runFile{"the regex text", name, []byte(txt)}, nil)
	}
}
