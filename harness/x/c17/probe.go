package c17

import (
	"fmt"
	"strings"

	"github.com/jsightapi/jsight-schema-go-library/notations/jschema"
)

// probe: `vh c17-positions probe <schema> [@t=<text> ...]` prints the Check() error of a schema (debug aid).
// With a first argument of the form `-n=<file name>` the root (and, with `-n=<root>,<types>`, the types) get that
// file name; the observation then lists everything the property talks about.
func probe(args []string) {
	rootName, typeName, fixed := "root", "", false
	if strings.HasPrefix(args[0], "-n=") {
		nm := strings.SplitN(args[0][3:], ",", 2)
		rootName = nm[0]
		if len(nm) == 2 {
			typeName, fixed = nm[1], true
		}
		args = args[1:]
	}
	s := jschema.New(rootName, args[0])
	for _, a := range args[1:] {
		i := strings.Index(a, "=")
		fn := a[:i]
		if fixed {
			fn = typeName
		}
		if err := s.AddType(a[:i], jschema.New(fn, a[i+1:])); err != nil {
			fmt.Printf("AddType %s: %s | %q\n", a[:i], observe(err).String(), err.Error())
			return
		}
	}
	err := s.Check()
	if err != nil {
		fmt.Printf("%s | %q\n", observe(err).String(), err.Error())
	} else {
		fmt.Println("OK")
	}
}
