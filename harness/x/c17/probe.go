package c17

import (
	"fmt"
	"strings"

	"github.com/jsightapi/jsight-schema-go-library/notations/jschema"
)

// probe: `vh c17-positions probe <schema> [@t=<text> ...]` prints the Check() error of a schema (debug aid).
func probe(args []string) {
	s := jschema.New("root", args[0])
	for _, a := range args[1:] {
		i := strings.Index(a, "=")
		if err := s.AddType(a[:i], jschema.New(a[:i], a[i+1:])); err != nil {
			_, d := errPos(err)
			fmt.Printf("AddType %s: %s | %q\n", a[:i], d, err.Error())
			return
		}
	}
	err := s.Check()
	_, d := errPos(err)
	if err != nil {
		fmt.Printf("%s | %q\n", d, err.Error())
	} else {
		fmt.Println("OK")
	}
}
