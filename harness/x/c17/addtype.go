package c17

import (
	"fmt"
	"math/rand"
	"strconv"
	"strings"
	"time"
	"unicode/utf8"

	jlib "github.com/jsightapi/jsight-schema-go-library"
	jerr "github.com/jsightapi/jsight-schema-go-library/errors"
	jdoc "github.com/jsightapi/jsight-schema-go-library/formats/json"
	"github.com/jsightapi/jsight-schema-go-library/notations/jschema"
	"github.com/jsightapi/jsight-schema-go-library/notations/regex"
	"github.com/jsightapi/jsight-schema-go-library/rules/enum"

	"verifharness/vh"
)

// C17-addtype: the errors of the calls that ASSEMBLE a schema out of several sources - AddType of a regex type,
// AddType of a JSight type that got types and rules added to itself first (types in types), AddRule of an enum
// rule - and of Check / Validate / Example on the assembled schema. Such errors reach the caller through more
// than one layer: the library wraps them ("load added type: %w", "generate example for Regex type: %w"), builds a
// source of its own for a regex type (`"<example>" // {regex: "<pattern>"}`, spelled with Go's %q, in a file that
// carries the type's name) and hands errors of one source out of a call made on another one. The property speaks
// about every one of them ("every non-nil error ... a position that lies inside the source it refers to"), so
// for every non-nil error of every step:
//
//	- observing it (Error, Position, Line, SourceSubString ...) does not panic;
//	- an error that names a file names a source of the run, and its position lies inside that source's text (the
//	  regex text stands for the synthesised source of a regex type: it is the only source the user has under
//	  that name). Not demanded of an error that is handed out WRAPPED by the step that synthesises a source: its
//	  position is an offset in a text the caller never sees; the facade clause below covers what the caller gets;
//	- the facade leg (facade.go): kit.ConvertError(file, err) for every file of the run and companions, for the
//	  returned error (wrapped or not) and the positioned error inside it, satisfies the RESULT clause P1 - P4.
//
// Input classes (nothing is predicted about WHICH error comes out - the clause is the oracle):
//
//	regex types   `/P/`, P built from parts: ordinary atoms and SPECIAL atoms = one byte / rune of a class whose
//	    spelling by Go's %q differs from what a JSON string admits (control characters incl. NUL, \a, \v, DEL;
//	    bytes that are invalid UTF-8; non-printable runes below and above U+FFFF: \u.... is JSON, \U........ is not)
//	    or agrees with it (\n, \t, \b, \f, printable non-ASCII), each under a quantifier that lets the generated
//	    example keep or omit it ({0}, *, ?, {0,1}, group + ?, alternation, class, none, +), under several generator
//	    seeds; syntactically broken patterns; added under the file's own name or another name.
//	JSight types  built from parts (scalars with rules, objects, arrays, references, enum rule references) with
//	    at most one defect (stray byte, truncation, unknown rule, example breaking its rule, Go-style escape or raw
//	    control byte in a string) behind a random pad of blank lines / comments, so that its offsets exceed the
//	    length of the other sources; added to a type that is then added to the root (types in types), with the
//	    enum rule added to the inner type, the outer type, the root or to nobody.
//	enum rules    built from parts with at most one defect, the same pads.
//
// nontrivial = a run in which at least one step returned an error.

type atOutcome struct {
	desc   string // the Go statement of the step
	own    int    // index of the run file the step works on (the "own" file when the error names none)
	synth  bool   // the step makes the library synthesise a source (AddType of a regex type)
	err    error
	panics string
}

type atRun struct {
	files []runFile
	steps []atOutcome
}

func (a *atRun) file(expr, name, text string) int {
	a.files = append(a.files, runFile{expr, name, []byte(text)})
	return len(a.files) - 1
}

// do: one step under recover. The statements before it are part of its replay text.
func (a *atRun) do(desc string, own int, synth bool, f func() error) {
	o := atOutcome{desc: desc, own: own, synth: synth}
	o.panics = vh.Recover(func() string { o.err = f(); return "" })
	a.steps = append(a.steps, o)
}

func (a *atRun) note(desc string) { a.steps = append(a.steps, atOutcome{desc: desc, own: -1}) }

// ---- generators ----

// atSpecials: the candidates for a special atom; classified by what strconv.Quote (= %q) makes of them.
var atSpecials = func() (out []string) {
	for b := 0; b < 0x20; b++ {
		out = append(out, string([]byte{byte(b)}))
	}
	out = append(out, "\x7f")
	for _, b := range []byte{0x80, 0x9f, 0xa0, 0xbf, 0xc0, 0xc3, 0xe2, 0xf0, 0xf8, 0xff} { // invalid UTF-8 on their own
		out = append(out, string([]byte{b}))
	}
	for _, r := range []rune{0x80, 0x85, 0x9f, 0xa0, 0xad, 0xe9, 0x200b, 0x2028, 0x2029, 0xe000, 0xfeff, 0xfffd, 0xffff, 0x1f600, 0xe0001, 0xf0000, 0x10ffff} {
		out = append(out, string(r))
	}
	return out
}()

// quoteClass: how Go's %q spells s (one byte or one rune) compared with a JSON string.
func quoteClass(s string) string {
	q := strconv.Quote(s)
	q = q[1 : len(q)-1]
	switch {
	case q == s:
		return "literal"
	case !utf8.ValidString(s):
		return "invalid-utf8-as-x-escape"
	case strings.HasPrefix(q, `\x`), strings.HasPrefix(q, `\a`), strings.HasPrefix(q, `\v`), strings.HasPrefix(q, `\U`):
		return "escape-json-lacks"
	default: // \n \t \r \b \f \uXXXX \\ \"
		return "escape-json-has"
	}
}

var atPlain = []string{"a", "b", "ab", "[a-c]", "\\d", "x+", "(y|z)", ".", "é", "\\/", "\\\\", "\"", " ", "-", "\\.", "Z{2}"}

func atRegexEscape(s string) string { // the byte / rune spelled in the regexp's own escape syntax
	if r, n := utf8.DecodeRuneInString(s); r != utf8.RuneError || n > 1 {
		return fmt.Sprintf(`\x{%x}`, r)
	}
	return fmt.Sprintf(`\x%02x`, s[0])
}

// atPattern: a pattern from parts; returns the statistics labels of its special slots.
func atPattern(r *rand.Rand) (p string, labels []string) {
	var parts []string
	for k := 1 + r.Intn(3); k > 0; k-- {
		parts = append(parts, atPlain[r.Intn(len(atPlain))])
	}
	for k := []int{0, 1, 1, 1, 2}[r.Intn(5)]; k > 0; k-- {
		x := atSpecials[r.Intn(len(atSpecials))]
		cl := quoteClass(x)
		if r.Intn(6) == 0 {
			x, cl = atRegexEscape(x), cl+"-spelled-as-regexp-escape"
		}
		var slot, q string
		switch r.Intn(11) {
		case 0:
			slot, q = x, "none"
		case 1:
			slot, q = x+"{0}", "zero-times"
		case 2:
			slot, q = x+"*", "star"
		case 3:
			slot, q = x+"?", "optional"
		case 4:
			slot, q = x+"{0,1}", "zero-or-one"
		case 5:
			slot, q = "("+x+")?", "optional-group"
		case 6:
			slot, q = "(a|"+x+")", "alternative"
		case 7:
			slot, q = "["+x+"]?", "optional-class"
		case 8:
			slot, q = "[^"+x+"]", "negated-class"
		case 9:
			slot, q = x+"+", "plus"
		default:
			slot, q = "(b"+x+"){0}", "group-zero-times"
		}
		at := r.Intn(len(parts) + 1)
		parts = append(parts[:at], append([]string{slot}, parts[at:]...)...)
		labels = append(labels, "addtype_regex_special_"+cl, "addtype_regex_slot_"+q)
	}
	p = strings.Join(parts, "")
	switch r.Intn(14) { // a syntactically broken pattern now and then
	case 0:
		p += "("
		labels = append(labels, "addtype_regex_broken")
	case 1:
		p = "[" + p
		labels = append(labels, "addtype_regex_broken")
	}
	return p, labels
}

var atPads = []string{"", "", "\n", "\n\n  ", "\r\n\t", "# note\n", "\n\n\n\n\n\n\n\n\n\n\n\n", "          ", "# a long comment line, longer than most of the other sources of the run\n"}

var atScalars = []struct{ good, bad, rule string }{
	{"12", "0", "{min: 1}"},
	{"12", "99", "{max: 50}"},
	{`"abc"`, `"a"`, "{minLength: 2}"},
	{`"abc"`, `"abcdefgh"`, "{maxLength: 5}"},
	{`"ab"`, `"zz"`, `{regex: "^[a-c]+$"}`},
	{`"a@b.cc"`, `"ab"`, `{type: "email"}`},
	{"2", "5", "{enum: [1, 2]}"},
	{"1", "7", "{enum: @e}"},
	{"3.5", "30.5", "{max: 10}"},
	{"true", "true", ""},
	{`"s"`, `"s"`, ""},
	{"null", "null", ""},
}

// atJSight: a type text from parts with at most one defect. refs: type names it may refer to.
func atJSight(r *rand.Rand, refs []string) (text, defect string) {
	defect = []string{"none", "none", "stray", "truncated", "unknown-rule", "example-breaks-rule", "go-escape-in-string", "raw-control-in-string"}[r.Intn(8)]
	breakAt := -1
	n := 1
	shape := r.Intn(4) // 0 scalar, 1 object, 2 array, 3 object with references
	if shape > 0 {
		n = 1 + r.Intn(3)
	}
	if defect == "example-breaks-rule" || defect == "unknown-rule" {
		breakAt = r.Intn(n)
	}
	line := func(i int) (val, ann string) {
		sc := atScalars[r.Intn(len(atScalars))]
		if i == breakAt {
			for sc.rule == "" {
				sc = atScalars[r.Intn(len(atScalars))]
			}
		}
		val = sc.good
		if i == breakAt && defect == "example-breaks-rule" {
			val = sc.bad
		}
		rule := sc.rule
		if i == breakAt && defect == "unknown-rule" {
			rule = "{" + []string{"mni", "foo", "Min"}[r.Intn(3)] + rule[strings.Index(rule, ":"):]
		}
		if shape == 3 && len(refs) > 0 && i != breakAt && r.Intn(2) == 0 {
			return refs[r.Intn(len(refs))], ""
		}
		if rule != "" {
			ann = " // " + rule
		}
		return val, ann
	}
	var sb strings.Builder
	switch shape {
	case 0:
		v, a := line(0)
		sb.WriteString(v + a)
	case 2:
		sb.WriteString("[\n")
		for i := 0; i < n; i++ {
			v, a := line(i)
			sb.WriteString("  " + v)
			if i < n-1 {
				sb.WriteString(",")
			}
			sb.WriteString(a + "\n")
		}
		sb.WriteString("]")
	default:
		sb.WriteString("{\n")
		for i := 0; i < n; i++ {
			v, a := line(i)
			sb.WriteString(fmt.Sprintf("  \"k%d\": %s", i, v))
			if i < n-1 {
				sb.WriteString(",")
			}
			sb.WriteString(a + "\n")
		}
		sb.WriteString("}")
	}
	text = sb.String()
	switch defect {
	case "stray":
		at := r.Intn(len(text) + 1)
		text = text[:at] + string(pickByte(r, string(strayBytes))) + text[at:]
	case "truncated":
		text = text[:r.Intn(len(text))]
	case "go-escape-in-string", "raw-control-in-string":
		bad := []string{`\x7f`, `\a`, `\v`, `\U0001f600`, `\x00`}[r.Intn(5)]
		if defect == "raw-control-in-string" {
			bad = []string{"\x7f", "\x07", "\x00", "\x1f", "\xff"}[r.Intn(5)]
		}
		if shape == 0 {
			text = `"ab` + bad + `c" // {minLength: 1}`
		} else if shape == 2 {
			text = text[:1] + "\n  \"ab" + bad + "c\"," + text[1:]
		} else {
			text = text[:1] + "\n  \"s" + bad + "\": 1," + text[1:]
		}
	}
	return atPads[r.Intn(len(atPads))] + text, defect
}

// atEnum: an enum rule text from parts with at most one defect.
func atEnum(r *rand.Rand) (text, defect string) {
	defect = []string{"none", "none", "none", "stray", "truncated", "double-comma", "duplicate", "container-item", "go-escape-in-string"}[r.Intn(9)]
	items := []string{"1", "2", `"a"`, "7", "true", "null", `"abc"`, "3.5"}
	r.Shuffle(len(items), func(i, j int) { items[i], items[j] = items[j], items[i] })
	items = items[:1+r.Intn(4)]
	switch defect {
	case "duplicate":
		items = append(items, items[0])
	case "container-item":
		items = append(items, "[1]")
	case "go-escape-in-string":
		items = append(items, `"x\x7f"`)
	}
	var sb strings.Builder
	sb.WriteString("[")
	for i, it := range items {
		if i > 0 {
			sb.WriteString(",")
			if defect == "double-comma" && i == len(items)-1 {
				sb.WriteString(",")
			}
		}
		sb.WriteString(jWS(r) + it)
		if r.Intn(5) == 0 {
			sb.WriteString(" // c\n")
		}
	}
	sb.WriteString(jWS(r) + "]")
	text = sb.String()
	switch defect {
	case "stray":
		at := r.Intn(len(text) + 1)
		text = text[:at] + string(pickByte(r, string(strayBytes))) + text[at:]
	case "truncated":
		text = text[:r.Intn(len(text))]
	}
	return atPads[r.Intn(len(atPads))] + text, defect
}

func atName(r *rand.Rand, own string, others ...string) string {
	switch r.Intn(8) {
	case 0:
		return ""
	case 1:
		return strings.TrimPrefix(own, "@") + ".src"
	case 2:
		if len(others) > 0 {
			return others[r.Intn(len(others))] // a name another source of the run carries, too
		}
	}
	return own
}

// ---- scenarios ----

func atRootText(r *rand.Rand, ref string) string {
	body := []string{
		ref,
		"[" + ref + "]",
		"{\"k\": " + ref + "}",
		"{\n  \"k\": " + ref + ",\n  \"n\": 1 // {min: 0}\n}",
		"{\"k\": \"x\" // {type: \"" + ref + "\"}\n}",
		"{\"k\": " + ref + " | @zz}",
	}[r.Intn(6)]
	return atPads[r.Intn(len(atPads))] + body
}

func atEntry(a *atRun, r *rand.Rand, s jlib.Schema, rootIdx int, docName, docText string) {
	for _, k := range r.Perm(3)[:1+r.Intn(3)] {
		switch k {
		case 0:
			a.do("s.Check()", rootIdx, false, func() error { return s.Check() })
		case 1:
			a.do(fmt.Sprintf("s.Validate(json.New(%q, %q))", docName, docText), rootIdx, false, func() error { return s.Validate(jdoc.New(docName, docText)) })
		default:
			a.do("s.Example()", rootIdx, false, func() error { _, err := s.Example(); return err })
		}
	}
}

// scenario "regex": a regex type added to a root schema.
func atRegexRun(r *rand.Rand, rep *vh.Report) *atRun {
	a := &atRun{}
	pattern, labels := atPattern(r)
	for _, l := range labels {
		rep.Stat(l)
	}
	text := "/" + pattern + "/"
	typeName := "@tag"
	rootName := atName(r, "root", typeName)
	fileName := atName(r, typeName, rootName)
	seed := int64(r.Intn(6))
	rootText := atRootText(r, typeName)
	docText := []string{`{"k": "a"}`, `"ab"`, `["x"]`, `{"k": 1}`}[r.Intn(4)]
	rootIdx := a.file("the root schema text", rootName, rootText)
	rgIdx := a.file("the regex text", fileName, text)
	if fileName != typeName { // the source of the type, as the user knows it under the type's name
		rgIdx = a.file("the regex text", typeName, text)
		rep.Stat("addtype_regex_file_name_differs_from_type_name")
	}
	a.file("the document text", "doc", docText)
	rg := regex.New(fileName, text, regex.WithGeneratorSeed(seed))
	a.note(fmt.Sprintf("rg := regex.New(%q, %q, regex.WithGeneratorSeed(%d))", fileName, text, seed))
	if r.Intn(3) == 0 {
		a.do("rg.Check()", rgIdx, false, func() error { return rg.Check() })
	}
	s := jschema.New(rootName, rootText)
	a.note(fmt.Sprintf("s := jschema.New(%q, %q)", rootName, rootText))
	a.do(fmt.Sprintf("s.AddType(%q, rg)", typeName), rgIdx, true, func() error { return s.AddType(typeName, rg) })
	atEntry(a, r, s, rootIdx, "doc", docText)
	return a
}

// scenario "nested": a JSight type U (and / or an enum rule) added to a JSight type T, T added to the root.
func atNestedRun(r *rand.Rand, rep *vh.Report) *atRun {
	a := &atRun{}
	rootName := atName(r, "root", "@t", "@u")
	tName := atName(r, "@t", rootName)
	uName := atName(r, "@u", rootName, tName)
	eName := atName(r, "@e", uName)
	rootText := atRootText(r, "@t")
	uText, uDefect := atJSight(r, nil)
	tText, tDefect := atJSight(r, []string{"@u", "@u", "@zz"})
	if !strings.Contains(tText, "@u") && r.Intn(2) == 0 {
		tText = atPads[r.Intn(len(atPads))] + "{\n  \"u\": @u\n}"
		tDefect = "none"
	}
	eText, eDefect := atEnum(r)
	rep.Stat("addtype_inner_type_defect_" + uDefect)
	rep.Stat("addtype_outer_type_defect_" + tDefect)
	rep.Stat("addtype_enum_defect_" + eDefect)
	docText := []string{`{"k": {"u": 12}}`, `{"k": 1}`, `[]`, `{"k": {"k0": 1}}`}[r.Intn(4)]
	rootIdx := a.file("the root schema text", rootName, rootText)
	tIdx := a.file("the text of @t", tName, tText)
	uIdx := a.file("the text of @u", uName, uText)
	eIdx := a.file("the enum rule text", eName, eText)
	a.file("the document text", "doc", docText)

	e := enum.New(eName, eText)
	a.note(fmt.Sprintf("e := enum.New(%q, %q)", eName, eText))
	if r.Intn(4) == 0 {
		a.do("e.Check()", eIdx, false, func() error { return e.Check() })
	}
	ruleTo := r.Intn(5) // 0 nobody, 1 @u, 2 @t, 3 root, 4 everybody
	u := jschema.New(uName, uText)
	a.note(fmt.Sprintf("u := jschema.New(%q, %q)", uName, uText))
	if ruleTo == 1 || ruleTo == 4 {
		a.do(`u.AddRule("@e", e)`, eIdx, false, func() error { return u.AddRule("@e", e) })
	}
	t := jschema.New(tName, tText)
	a.note(fmt.Sprintf("t := jschema.New(%q, %q)", tName, tText))
	if ruleTo == 2 || ruleTo == 4 {
		a.do(`t.AddRule("@e", e)`, eIdx, false, func() error { return t.AddRule("@e", e) })
	}
	a.do(`t.AddType("@u", u)`, uIdx, false, func() error { return t.AddType("@u", u) })
	if r.Intn(3) == 0 {
		a.do("t.Check()", tIdx, false, func() error { return t.Check() })
	}
	s := jschema.New(rootName, rootText)
	a.note(fmt.Sprintf("s := jschema.New(%q, %q)", rootName, rootText))
	if ruleTo == 3 || ruleTo == 4 {
		a.do(`s.AddRule("@e", e)`, eIdx, false, func() error { return s.AddRule("@e", e) })
	}
	a.do(`s.AddType("@t", t)`, tIdx, false, func() error { return s.AddType("@t", t) })
	if r.Intn(3) == 0 { // the inner type also directly under the root
		a.do(fmt.Sprintf(`s.AddType("@u", jschema.New(%q, <the text of @u>))`, uName), uIdx, false, func() error { return s.AddType("@u", jschema.New(uName, uText)) })
	}
	atEntry(a, r, s, rootIdx, "doc", docText)
	return a
}

// ---- the checks ----

func atInside(files []runFile, name string, pos int) (cands int, inside bool) {
	for _, f := range files {
		if f.name != name {
			continue
		}
		cands++
		if pos < len(f.content) || (pos == 0 && len(f.content) == 0) {
			inside = true
		}
	}
	return cands, inside
}

func runAddType(rep *vh.Report) {
	r := vh.NewRand(17031)
	n := vh.Pick(5000, 120000)
	for i := 0; i < n; i++ {
		kind := "regex"
		if i%5 >= 3 {
			kind = "nested"
		}
		ch := make(chan *atRun, 1)
		go func() {
			if kind == "regex" {
				ch <- atRegexRun(r, rep)
			} else {
				ch <- atNestedRun(r, rep)
			}
		}()
		var a *atRun
		select {
		case a = <-ch:
		case <-time.After(20 * time.Second):
			rep.AddDiff(vh.Diff{Component: "C17-addtype", Input: fmt.Sprintf("run %d of the stream (kind %s, VERIF_SEED=%d)", i, kind, vh.Seed()), Impl: "TIMEOUT", Model: "every step returns"})
			return
		}
		var stmts []string
		failed := false
		for _, st := range a.steps {
			stmts = append(stmts, st.desc)
			if st.own < 0 {
				continue
			}
			in := strings.Join(stmts, "; ")
			verb := st.desc[:strings.Index(st.desc, "(")]
			if st.panics != "" {
				rep.AddDiff(vh.Diff{Component: "C17-addtype", Input: in, Impl: st.panics, Model: "the call returns nil or a library error"})
				failed = true
				continue
			}
			o := observe(st.err)
			if o.isNil {
				rep.Stat("addtype_" + kind + "_" + verb + "_ok")
				continue
			}
			failed = true
			_, direct := st.err.(jerr.DocumentError)
			switch {
			case !o.positioned:
				rep.Stat("addtype_" + kind + "_" + verb + "_bare_error")
			case direct:
				rep.Stat("addtype_" + kind + "_" + verb + "_positioned_error")
			default:
				rep.Stat("addtype_" + kind + "_" + verb + "_wrapped_positioned_error")
			}
			if o.panics != "" {
				rep.AddDiff(vh.Diff{Component: "C17-addtype", Input: in + " -> err", Impl: o.panics + " | " + o.typ, Model: "Error() / Position() / Line() / SourceSubString() of the error do not panic"})
				continue
			}
			own := st.own
			if o.positioned {
				// the error itself: a source of the run, the position inside it
				synthetic := st.synth && !direct
				o.synthetic = synthetic
				cands, inside := atInside(a.files, o.file, o.pos)
				switch {
				case synthetic:
					rep.Stat("addtype_wrapped_error_of_a_synthesised_source")
					if c, _ := atInside(a.files[own:own+1], o.file, o.pos); c == 1 && o.pos >= len(a.files[own].content) {
						rep.Stat("addtype_wrapped_error_position_beyond_the_regex_text")
					}
				case cands == 0:
					rep.AddDiff(vh.Diff{Component: "C17-addtype", Input: in + " -> err", Impl: o.String() + " | " + o.msg, Model: fmt.Sprintf("the error names a source of the run (files: %s)", atFileList(a.files))})
					continue
				case !inside:
					rep.AddDiff(vh.Diff{Component: "C17-addtype", Input: in + " -> err", Impl: o.String() + " | " + o.msg, Model: fmt.Sprintf("a position inside the source the error refers to (files: %s)", atFileList(a.files))})
					continue
				}
				// the file the error belongs to, for the facade leg: the one of that name the position fits into
				for k, f := range a.files {
					if f.name == o.file && (o.pos < len(f.content) || k == own) {
						own = k
						break
					}
				}
				for _, f := range a.files {
					if f.name != a.files[own].name && o.pos >= len(f.content) {
						rep.Stat("addtype_error_position_beyond_another_file_of_the_run")
						break
					}
				}
			}
			var others []runFile
			for k, f := range a.files {
				if k != own {
					others = append(others, f)
				}
			}
			reportFacade(rep, in, o, a.files[own], others)
		}
		rep.Case(strings.Join(stmts, "; "), failed)
	}
}

func atFileList(files []runFile) string {
	var sb strings.Builder
	for i, f := range files {
		if i > 0 {
			sb.WriteString(", ")
		}
		fmt.Fprintf(&sb, "%q %d bytes", f.name, len(f.content))
	}
	return sb.String()
}
