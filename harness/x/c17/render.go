package c17

import (
	"fmt"
	"math/rand"
	"strings"

	jbytes "github.com/jsightapi/jsight-schema-go-library/bytes"
	jerr "github.com/jsightapi/jsight-schema-go-library/errors"
	"github.com/jsightapi/jsight-schema-go-library/fs"
	"github.com/jsightapi/jsight-schema-go-library/kit"

	"verifharness/vh"
)

// ---- reference of the renderer -----------------------------------------------------------------------

type fileStyle int

const (
	styleLF   fileStyle = iota // no CR at all (includes files without any line break)
	styleCR                    // no LF at all, at least one CR
	styleCRLF                  // every CR is followed by LF and every LF is preceded by CR
	styleMixed
)

func classify(c []byte) fileStyle {
	hasCR, hasLF, paired := false, false, true
	for i, b := range c {
		switch b {
		case '\r':
			hasCR = true
			if i+1 >= len(c) || c[i+1] != '\n' {
				paired = false
			}
		case '\n':
			hasLF = true
			if i == 0 || c[i-1] != '\r' {
				paired = false
			}
		}
	}
	switch {
	case !hasCR:
		return styleLF
	case !hasLF:
		return styleCR
	case paired:
		return styleCRLF
	}
	return styleMixed
}

func isBlank(b byte) bool { return b == ' ' || b == '\t' }

// refLine: 1-based line number, start offset and text (without terminator) of the line that holds position p.
// A terminator byte belongs to the line it ends.
func refLine(c []byte, p int, st fileStyle) (num, start int, text []byte) {
	term := "\n"
	switch st {
	case styleCR:
		term = "\r"
	case styleCRLF:
		term = "\r\n"
	}
	num, start = 1, 0
	for {
		i := strings.Index(string(c[start:]), term)
		if i < 0 {
			return num, start, c[start:]
		}
		endOfTerm := start + i + len(term) // first offset of the next line
		if p < endOfTerm {
			return num, start, c[start : start+i]
		}
		num++
		start = endOfTerm
	}
}

// refRender: expected source text and caret line; ok=false when the line consists of blanks only.
func refRender(c []byte, p int, st fileStyle) (num int, src, caret string, ok bool) {
	num, start, text := refLine(c, p, st)
	lead := 0
	for lead < len(text) && isBlank(text[lead]) {
		lead++
	}
	if lead == len(text) {
		return num, "", "", false
	}
	// Truncation convention of the unchanged tree ("truncated at 200 bytes"): a line of more than 200 bytes is
	// cut to its first 197 bytes followed by "..." (200 bytes in total before the left trim).
	if len(text) > 200 {
		src = strings.TrimLeft(string(text[:197]), " \t") + "..."
	} else {
		src = string(text[lead:])
	}
	d := p - start - lead
	if d < 0 {
		d = 0 // position inside the leading blanks: the caret stays under the first shown byte
	}
	return num, src, strings.Repeat("-", d) + "^", true
}

// ---- the real renderer ---------------------------------------------------------------------------------

type rendered struct {
	msg    string
	line   uint
	src    string
	panics string
}

func realRender(name string, c []byte, p int) (out rendered) {
	e := jerr.NewDocumentError(fs.NewFile(name, c), jerr.ErrEmptySchema)
	return renderAt(&e, p)
}

// renderAt moves the error value to position p and renders it (the value may have been rendered before at
// another position: the property speaks about the position it has now).
func renderAt(e *jerr.DocumentError, p int) (out rendered) {
	defer func() {
		if r := recover(); r != nil {
			out.panics = fmt.Sprintf("PANIC %v", r)
		}
	}()
	e.SetIndex(jbytes.Index(p))
	out.msg = e.Error()
	out.line = e.Line()
	out.src = e.SourceSubString()
	return out
}

const renderFileName = "file.jst"

func checkRender(rep *vh.Report, c []byte, p int) {
	got := realRender(renderFileName, c, p)
	checkRendered(rep, "C17-render", renderFileName, c, p, got, func() string {
		return fmt.Sprintf("content=%q position=%d (NewDocumentError(fs.NewFile(%q, content), ErrEmptySchema); SetIndex(position); Error())", c, p, renderFileName)
	})
	checkRenderFacade(rep, c, p)
}

// checkRenderFacade: the error value (file content c under a name or under the empty name, position p) handed
// through the SDK facade kit.ConvertError for a caller that holds the error's file, or another file under the same
// / the empty / another name whose text is shorter than p or longer with other line breaks (facade.go): the result
// must name the error's file, keep the position and render like the reference says for c at p.
var renderFacadeTurn int

func checkRenderFacade(rep *vh.Report, c []byte, p int) {
	renderFacadeTurn++
	name := []string{renderFileName, ""}[renderFacadeTurn%2]
	callers := callerFiles(runFile{"content", name, c}, nil, p)
	f := callers[(renderFacadeTurn/2)%len(callers)]
	var file string
	var pos int
	got := func() (out rendered) {
		defer func() {
			if r := recover(); r != nil {
				out.panics = fmt.Sprintf("PANIC %v", r)
			}
		}()
		e := jerr.NewDocumentError(fs.NewFile(name, c), jerr.ErrEmptySchema)
		e.SetIndex(jbytes.Index(p))
		if renderFacadeTurn%3 == 0 {
			_ = e.Line() // a value that has been rendered before
		}
		k := kit.ConvertError(fs.NewFile(f.name, f.content), e)
		file, pos = k.Filename(), int(k.Position())
		ke, ok := k.(error)
		de, ok2 := k.(jerr.DocumentError)
		if !ok || !ok2 {
			out.panics = fmt.Sprintf("the result %T cannot be rendered", k)
			return out
		}
		out.msg = ke.Error()
		out.line = de.Line()
		out.src = de.SourceSubString()
		return out
	}()
	rep.Stat("render_through_facade")
	inf := func() string {
		return fmt.Sprintf("content=%q position=%d: e := NewDocumentError(fs.NewFile(%q, content), ErrEmptySchema); e.SetIndex(position); k := %s; k.Error() / Line() / SourceSubString()", c, p, name, strings.Replace(f.call(), ", err)", ", e)", 1))
	}
	if got.panics == "" && (file != name || pos != p) {
		rep.AddDiff(vh.Diff{Component: "C17-facade", Input: inf(), Impl: fmt.Sprintf("Filename() = %q Position() = %d", file, pos), Model: fmt.Sprintf("the error's own file %q and position %d", name, p)})
		return
	}
	checkRendered(rep, "C17-facade", name, c, p, got, inf)
}

// checkRenderWalk: ONE error value rendered at every position of the list in turn (SetIndex, Error, Line,
// SourceSubString, next position …); after each move the rendering must be that of the new position.
func checkRenderWalk(rep *vh.Report, c []byte, positions []int) {
	e := jerr.NewDocumentError(fs.NewFile(renderFileName, c), jerr.ErrEmptySchema)
	for k, p := range positions {
		got := renderAt(&e, p)
		in := func() string {
			return fmt.Sprintf("content=%q; ONE value e := NewDocumentError(fs.NewFile(%q, content), ErrEmptySchema) rendered (SetIndex(p); Error(); Line(); SourceSubString()) at the positions %v in turn; observed at the last one", c, renderFileName, positions[:k+1])
		}
		if !checkRendered(rep, "C17-render", renderFileName, c, p, got, in) {
			return // later renderings inherit whatever went wrong
		}
	}
	rep.Stat("render_walks")
}

func checkRendered(rep *vh.Report, comp, name string, c []byte, p int, got rendered, inf func() string) (good bool) {
	st := classify(c)
	if got.panics != "" {
		rep.AddDiff(vh.Diff{Component: comp, Input: inf(), Impl: got.panics, Model: "rendering never panics"})
		return false
	}
	if st == styleMixed {
		rep.Stat("render_mixed_nopanic")
		return true
	}
	num, src, caret, ok := refRender(c, p, st)
	head := fmt.Sprintf("\n\tin line %d on file %s\n\t> ", num, name)
	if int(got.line) != num || !strings.Contains(got.msg, head) {
		rep.AddDiff(vh.Diff{Component: comp, Input: inf(), Impl: fmt.Sprintf("Line()=%d message=%q", got.line, got.msg), Model: fmt.Sprintf("line %d", num)})
		return false
	}
	if !ok {
		rep.Stat("render_blank_line")
		return true
	}
	rep.Stat("render_full")
	want := head + src + "\n\t--" + caret
	if !strings.HasSuffix(got.msg, want) || !strings.HasPrefix(got.msg, "ERROR") || got.src != src {
		rep.AddDiff(vh.Diff{Component: comp, Input: inf(), Impl: fmt.Sprintf("SourceSubString()=%q message=%q", got.src, got.msg), Model: fmt.Sprintf("message ends with %q", want)})
		return false
	}
	return true
}

func runRender(rep *vh.Report) {
	maxLen := vh.Pick(6, 7)
	alpha := []byte{'a', ' ', '\t', '\n', '\r'}
	vh.AllStrings(alpha, maxLen, func(b []byte) {
		if len(b) == 0 {
			return
		}
		c := append([]byte(nil), b...)
		fwd, bwd := make([]int, len(c)), make([]int, len(c))
		for p := 0; p < len(c); p++ {
			checkRender(rep, c, p)
			fwd[p], bwd[p] = p, len(c)-1-p
		}
		if len(c) >= 2 { // one value walking through the file, forwards and backwards
			checkRenderWalk(rep, c, fwd)
			checkRenderWalk(rep, c, bwd)
		}
		rep.Case("render "+string(c), len(c) >= 2)
		rep.Stat("render_exhaustive_files")
	})
	// random longer files
	r := vh.NewRand(17002)
	n := vh.Pick(3000, 60000)
	for i := 0; i < n; i++ {
		c := randomFile(r)
		if len(c) == 0 {
			continue
		}
		rep.Stat("render_random_files")
		rep.Stat(fmt.Sprintf("render_random_style_%d", classify(c)))
		for k := 0; k < 12; k++ {
			checkRender(rep, c, r.Intn(len(c)))
		}
		checkRender(rep, c, 0)
		checkRender(rep, c, len(c)-1)
		walk := make([]int, 4+r.Intn(12)) // one value jumping through the file
		for k := range walk {
			walk[k] = r.Intn(len(c))
		}
		checkRenderWalk(rep, c, walk)
		rep.Case("render "+string(c), true)
	}
}

func randomFile(r *rand.Rand) []byte {
	term := []string{"\n", "\r", "\r\n", "\n"}[r.Intn(4)]
	mixed := r.Intn(8) == 0
	var sb strings.Builder
	lines := 1 + r.Intn(6)
	for l := 0; l < lines && sb.Len() < 600; l++ {
		lead := 0
		switch r.Intn(4) {
		case 0:
			lead = r.Intn(4)
		case 1:
			lead = r.Intn(40)
		}
		for i := 0; i < lead; i++ {
			sb.WriteByte(" \t"[r.Intn(2)])
		}
		n := 0
		switch r.Intn(5) {
		case 0:
			n = 0
		case 1:
			n = r.Intn(10)
		case 2:
			n = 150 + r.Intn(100) // around the 200-byte limit
		case 3:
			n = 196 - lead + r.Intn(9) // exactly around the limit
			if n < 0 {
				n = 0
			}
		case 4:
			n = 200 + r.Intn(300)
		}
		for i := 0; i < n && sb.Len() < 600; i++ {
			switch r.Intn(12) {
			case 0:
				sb.WriteByte(' ')
			case 1:
				sb.WriteByte('\t')
			case 2:
				sb.WriteString("é")
			default:
				const al = "abcxyz{}[]\":,0123456789@/*-"
				sb.WriteByte(al[r.Intn(len(al))])
			}
		}
		if l < lines-1 || r.Intn(2) == 0 {
			if mixed {
				sb.WriteString([]string{"\n", "\r", "\r\n"}[r.Intn(3)])
			} else {
				sb.WriteString(term)
			}
		}
	}
	b := []byte(sb.String())
	if len(b) > 600 {
		b = b[:600]
	}
	return b
}
