package c17

import (
	"fmt"
	"sort"
	"strings"
	"time"

	"github.com/jsightapi/jsight-schema-go-library/notations/jschema"

	"verifharness/vh"
)

// Schema parsing / checker errors at generator-known offsets.
//
// Classes (each follows from the property text "offset of the first byte that cannot continue the text (the last
// byte when input ends early)" or from "start of the offending value or key"):
//
//	stray-before-value / stray-after-value / stray-before-key / stray-after-root:
//	    one byte that can start no token (? ^ % ! ; = ~ \x01) inserted at a token boundary of the EXAMPLE part;
//	    expected position = offset of that byte.
//	truncated: the text of a container-rooted schema cut before its last closing bracket (anywhere, also inside
//	    an annotation); expected position = len-1.
//	unknown-rule: the first rule name of one annotation replaced by an unknown name; expected = first byte of the name.
//	example-breaks-rule: the example of one scalar replaced by a value that violates the node's own rule;
//	    expected = first byte of the example.
//	example-breaks-referenced-type: a literal annotated with `{type: "@s"}` or `{or: ["@s1", "@s2"]}` whose example
//	    breaks a rule (min / max / enum / length / regex / format) of the referenced scalar type, which lives in
//	    another file with another line layout; expected = first byte of the example IN THE REFERRING text, and
//	    the message names the referring file, its line and its source text.
//
// Each class is planted in the root schema (file "root") or in an added type (file = type name). For a type the
// position is relative to the type's own text, and Error() must render against the type's text (line number by
// the reference, no panic).
//
// Left out because the property text does not fix the anchor: corruptions INSIDE annotations other than the rule
// name (bad rule value type, bad byte inside the rule object), unknown type names (the tree anchors them at the
// example), duplicate keys, errors of the type graph (recursion, missing types).

type schemaResult struct {
	pos       int
	desc, msg string
	where     string // "AddType" or "Check"
}

func checkSchema(rootText string, types [][2]string) (res schemaResult, timeout bool) {
	ch := make(chan schemaResult, 1)
	go func() {
		var out schemaResult
		p := vh.Recover(func() string {
			s := jschema.New("root", rootText)
			for _, t := range types {
				if err := s.AddType(t[0], jschema.New(t[0], t[1])); err != nil {
					out.pos, out.desc = errPos(err)
					out.msg = err.Error()
					out.where = "AddType " + t[0]
					return ""
				}
			}
			err := s.Check()
			out.pos, out.desc = errPos(err)
			out.where = "Check"
			if err != nil {
				out.msg = err.Error()
			}
			return ""
		})
		if p != "" {
			out.pos, out.desc = -3, p
		}
		ch <- out
	}()
	select {
	case o := <-ch:
		return o, false
	case <-time.After(20 * time.Second):
		return schemaResult{}, true
	}
}

var strayBytes = []byte("?^%!;=~\x01")

func sortedNodes(m map[*sNode]int) []*sNode {
	var ns []*sNode
	for n := range m {
		ns = append(ns, n)
	}
	sort.Slice(ns, func(i, j int) bool { return m[ns[i]] < m[ns[j]] })
	return ns
}

func runSchemaPos(rep *vh.Report) {
	r := vh.NewRand(17004)
	n := vh.Pick(6000, 120000)
	for i := 0; i < n; i++ {
		g := &vgen{r: r, types: map[string]*sNode{}, order: []string{"root", "@t1", "@t2", "@s1", "@s2"}}
		// @s1 / @s2: scalar types (integer, string) that own at least one rule an example can break
		for k, kind := range []string{"int", "str"} {
			t := g.scalarSchema(kind)
			for g.violating(t) == "" {
				t = g.scalarSchema(kind)
			}
			t.nullable = false
			g.types[g.order[3+k]] = t
		}
		for lvl := 2; lvl >= 0; lvl-- {
			t := g.schema(1+r.Intn(3), lvl)
			for try := 0; try < 3 && t.kind != "obj" && t.kind != "arr"; try++ {
				t = g.schema(2+r.Intn(2), lvl)
			}
			g.types[g.order[lvl]] = t
		}
		// the root must use the types, otherwise errors inside unused types could stay unreported
		if root := g.types["root"]; root.kind == "obj" {
			for _, nm := range g.order[1:] {
				ref := newS("ref")
				ref.names = []string{nm}
				root.props = append(root.props, &sProp{key: "use" + nm[1:], val: ref})
			}
		} else {
			obj := newS("obj")
			obj.props = append(obj.props, &sProp{key: "v", val: root})
			for _, nm := range g.order[1:] {
				ref := newS("ref")
				ref.names = []string{nm}
				obj.props = append(obj.props, &sProp{key: "use" + nm[1:], val: ref})
			}
			g.types["root"] = obj
		}
		// literal examples annotated with a reference to @s1 / @s2 (type rule or `or` list) inside the containers
		trefs := map[string][]*sNode{}
		for _, nm := range g.order[:3] {
			t := g.types[nm]
			if t.kind != "obj" || (nm != "root" && r.Intn(2) == 0) {
				continue
			}
			for k := 1 + r.Intn(2); k > 0; k-- {
				tr := newS("tref")
				switch r.Intn(4) {
				case 0:
					tr.names = []string{"@s1", "@s2"}
				case 1:
					tr.names = []string{"@s2", "@s1"}
				case 2:
					tr.names = []string{"@s1"}
				default:
					tr.names = []string{"@s2"}
				}
				tr.nullable = r.Intn(5) == 0
				at := r.Intn(len(t.props) + 1)
				pr := &sProp{key: fmt.Sprintf("r%d", k), optional: r.Intn(4) == 0, val: tr}
				t.props = append(t.props[:at:at], append([]*sProp{pr}, t.props[at:]...)...)
				trefs[nm] = append(trefs[nm], tr)
			}
		}
		victim := g.order[r.Intn(len(g.order))]
		// first print: collect marks of the victim
		sp := newSPrinter(g)
		sp.print(g.types[victim], 0, "", "", false)
		class := []string{"stray-before-value", "stray-after-value", "stray-before-key", "stray-after-root", "truncated", "truncated", "unknown-rule", "example-breaks-rule", "example-breaks-referenced-type", "example-breaks-referenced-type"}[r.Intn(10)]
		if class == "example-breaks-referenced-type" {
			var cands []string
			for _, nm := range g.order[:3] {
				if len(trefs[nm]) > 0 {
					cands = append(cands, nm)
				}
			}
			victim = cands[r.Intn(len(cands))] // the root always has one
			sp = newSPrinter(g)
			sp.print(g.types[victim], 0, "", "", false)
		}
		texts := map[string]string{}
		for _, nm := range g.order {
			if nm != victim {
				p := newSPrinter(g)
				p.print(g.types[nm], 0, "", "", false)
				// the other files get a different line layout (leading blank lines / indentation)
				texts[nm] = []string{"", "", "\n", "\n\n   ", "  ", "\r\n \t"}[r.Intn(6)] + p.text()
			}
		}
		txt := sp.text()
		want := -1
		insertAt := func(off int) {
			b := strayBytes[r.Intn(len(strayBytes))]
			txt = txt[:off] + string(b) + txt[off:]
			want = off
		}
		switch class {
		case "stray-before-value":
			ns := sortedNodes(sp.valueStart)
			insertAt(sp.valueStart[ns[r.Intn(len(ns))]])
		case "stray-after-value":
			ns := sortedNodes(sp.valueEnd)
			if len(ns) == 0 {
				continue
			}
			insertAt(sp.valueEnd[ns[r.Intn(len(ns))]])
		case "stray-before-key":
			if len(sp.keyStart) == 0 {
				continue
			}
			insertAt(sp.keyStart[r.Intn(len(sp.keyStart))])
		case "stray-after-root":
			insertAt(len(txt))
		case "truncated":
			if k := g.types[victim].kind; len(txt) < 3 || (k != "obj" && k != "arr") {
				continue // only a container-rooted text is certainly incomplete when cut
			}
			closePos := len(txt) - 1 // offset of the root's closing bracket
			if t := g.types[victim]; len(t.props)+len(t.items) == 0 {
				closePos = 1 // "{}" / "[]" followed by an annotation
			}
			txt = txt[:1+r.Intn(closePos)]
			want = len(txt) - 1
		case "unknown-rule":
			var ns []*sNode
			for _, x := range sortedNodes(sp.valueStart) {
				if len(sp.ruleName[x]) > 0 && len(x.enum) == 0 { // the renamed rule has a literal value
					ns = append(ns, x)
				}
			}
			if len(ns) == 0 {
				continue
			}
			p2 := newSPrinter(g)
			p2.badRule, p2.badName = ns[r.Intn(len(ns))], []string{"mni", "foo", "Min", "minimum", "x"}[r.Intn(5)]
			p2.print(g.types[victim], 0, "", "", false)
			txt = p2.text()
			want = p2.ruleName[p2.badRule][0]
		case "example-breaks-rule":
			var ns []*sNode
			for _, x := range sortedNodes(sp.valueEnd) {
				if g.violating(x) != "" {
					ns = append(ns, x)
				}
			}
			if len(ns) == 0 {
				continue
			}
			p2 := newSPrinter(g)
			p2.badExample = ns[r.Intn(len(ns))]
			p2.print(g.types[victim], 0, "", "", false)
			txt = p2.text()
			want = p2.valueStart[p2.badExample]
		case "example-breaks-referenced-type":
			p2 := newSPrinter(g)
			p2.badExample = trefs[victim][r.Intn(len(trefs[victim]))]
			p2.print(g.types[victim], 0, "", "", false)
			txt = p2.text()
			want = p2.valueStart[p2.badExample]
			if len(p2.badExample.names) == 1 {
				rep.Stat("schema_tref_by_type_rule")
			} else {
				rep.Stat("schema_tref_by_or_list")
			}
		}
		texts[victim] = txt
		var types [][2]string
		for _, nm := range g.order[1:] {
			types = append(types, [2]string{nm, texts[nm]})
		}
		place := "root"
		if victim != "root" {
			place = "type"
		}
		rep.Stat("schema_" + class + "_in_" + place)
		var in strings.Builder
		fmt.Fprintf(&in, "s := jschema.New(\"root\", %q)", texts["root"])
		for _, t := range types {
			fmt.Fprintf(&in, "; s.AddType(%q, jschema.New(%q, %q))", t[0], t[0], t[1])
		}
		in.WriteString("; s.Check()")
		rep.Case(in.String(), true)
		got, to := checkSchema(texts["root"], types)
		if to {
			rep.AddDiff(vh.Diff{Component: "C17-schema-pos", Input: in.String(), Impl: "TIMEOUT", Model: "Check returns"})
			return
		}
		model := fmt.Sprintf("ParsingError with Position() == %d in the text of %s (class %s)", want, victim, class)
		if got.pos != want {
			rep.AddDiff(vh.Diff{Component: "C17-schema-pos", Input: in.String(), Impl: got.where + ": " + got.desc + " | " + got.msg, Model: model})
			continue
		}
		// rendering: file, line, shown source text and caret of the text the position belongs to
		c := []byte(txt)
		if want < len(c) {
			num, src, caret, ok := refRender(c, want, classify(c))
			tail := fmt.Sprintf("\n\tin line %d on file %s\n\t> ", num, victim)
			good := strings.Contains(got.msg, tail)
			if ok {
				tail += src + "\n\t--" + caret
				good = strings.HasSuffix(got.msg, tail)
			}
			if !good {
				rep.AddDiff(vh.Diff{Component: "C17-schema-pos", Input: in.String(), Impl: fmt.Sprintf("%q", got.msg), Model: fmt.Sprintf("message ends with %q (file, line, source text and caret of %s at offset %d)", tail, victim, want)})
			}
		}
	}
}
