package c17

import (
	"fmt"
	"math/rand"
	"sort"
	"strconv"
	"strings"
	"time"

	jdoc "github.com/jsightapi/jsight-schema-go-library/formats/json"
	"github.com/jsightapi/jsight-schema-go-library/notations/jschema"

	"verifharness/vh"
)

// Schema parsing / checker errors at generator-known offsets.
//
// Classes (each follows from the property text "offset of the first byte that cannot continue the text (the last
// byte when input ends early)" or from "start of the offending value or key"):
//
//	stray-before-value / stray-after-value / stray-before-key / stray-after-root:
//	    one byte that can start no token (? ^ % ! ; = ~ \x01) inserted at a token boundary of the EXAMPLE part;
//	    expected position = offset of that byte.
//	truncated: the text of a container-rooted schema cut before its last closing bracket (anywhere, also inside
//	    an annotation); expected position = len-1.
//	unknown-rule: the first rule name of one annotation replaced by an unknown name; expected = first byte of the name.
//	example-breaks-rule: the example of one scalar replaced by a value that violates the node's own rule;
//	    expected = first byte of the example.
//	example-breaks-referenced-type: a literal annotated with `{type: "@s"}` or `{or: ["@s1", "@s2"]}` whose example
//	    breaks a rule (min / max / enum / length / regex / format) of the referenced scalar type, which lives in
//	    another file with another line layout; expected = first byte of the example IN THE REFERRING text, and
//	    the message names the referring file, its line and its source text.
//
// Each class is planted in the root schema (file "root") or in an added type (file = type name). For a type the
// position is relative to the type's own text, and Error() must render against the type's text (line number by
// the reference, no panic).
//
// Left out because the property text does not fix the anchor: corruptions INSIDE annotations other than the rule
// name (bad rule value type, bad byte inside the rule object), unknown type names (the tree anchors them at the
// example), duplicate keys, errors of the type graph (recursion, missing types).

type schemaResult struct {
	pos       int
	desc, msg string
	where     string // "AddType <name>", "Check", "Validate" or "Example": the call that returned the first error
	obs       observation
}

// naming: the file names the schemas of one case are created with. File names are labels: the error a schema
// produces (code, position, the text it is rendered against) must not depend on them; in particular the empty
// name - usual for schemas built in memory - must give a positioned error like any other name.
type naming struct {
	label    string
	root     string
	typeFile func(typeName string) string
}

var namings = []naming{
	{"distinct names", "root", func(t string) string { return t }},
	{"all names empty", "", func(string) string { return "" }},
	{"root name empty", "", func(t string) string { return t }},
	{"type names empty", "schema.jst", func(string) string { return "" }},
	{"one name for all", "x.jst", func(string) string { return "x.jst" }},
}

func (nm naming) fileOf(victim string) string {
	if victim == "root" {
		return nm.root
	}
	return nm.typeFile(victim)
}

// entry points: a compile-phase error must come out of every call that compiles the schema
var entryPoints = []string{"Check", "Validate", "Example"}

func replayText(nm naming, entry, rootText string, types [][2]string) string {
	var in strings.Builder
	fmt.Fprintf(&in, "s := jschema.New(%q, %q)", nm.root, rootText)
	for _, t := range types {
		fmt.Fprintf(&in, "; s.AddType(%q, jschema.New(%q, %q))", t[0], nm.typeFile(t[0]), t[1])
	}
	switch entry {
	case "Validate":
		in.WriteString("; s.Validate(json.New(\"doc\", `{}`))")
	case "Example":
		in.WriteString("; s.Example()")
	default:
		in.WriteString("; s.Check()")
	}
	return in.String()
}

func checkSchema(rootText string, types [][2]string) (res schemaResult, timeout bool) {
	return runSchema(namings[0], "Check", rootText, types)
}

// runSchema: AddType for every type, then the entry point; the first non-nil error is the result.
func runSchema(nm naming, entry, rootText string, types [][2]string) (res schemaResult, timeout bool) {
	ch := make(chan schemaResult, 1)
	go func() {
		var out schemaResult
		p := vh.Recover(func() string {
			s := jschema.New(nm.root, rootText)
			for _, t := range types {
				if err := s.AddType(t[0], jschema.New(nm.typeFile(t[0]), t[1])); err != nil {
					out.obs = observe(err)
					out.where = "AddType " + t[0]
					return ""
				}
			}
			var err error
			switch entry {
			case "Validate":
				err = s.Validate(jdoc.New("doc", "{}"))
			case "Example":
				_, err = s.Example()
			default:
				err = s.Check()
			}
			out.obs = observe(err)
			out.where = entry
			return ""
		})
		out.pos, out.desc, out.msg = out.obs.pos, out.obs.String(), out.obs.msg
		if p != "" {
			out.pos, out.desc = -3, p
		} else if out.obs.panics != "" {
			out.pos = -3
		}
		ch <- out
	}()
	select {
	case o := <-ch:
		return o, false
	case <-time.After(20 * time.Second):
		return schemaResult{}, true
	}
}

var strayBytes = []byte("?^%!;=~\x01")

func sortedNodes(m map[*sNode]int) []*sNode {
	var ns []*sNode
	for n := range m {
		ns = append(ns, n)
	}
	sort.Slice(ns, func(i, j int) bool { return m[ns[i]] < m[ns[j]] })
	return ns
}

// genTable: root, @t1, @t2 (any kind, containers preferred), @s1 / @s2 (scalar types that own a breakable rule),
// @o1 / @o2 (object types with at least one property; @o2 carries additionalProperties), @a0 (an object type that
// inherits from @o1 in half of the tables). The root uses every type and inherits from @o2 in half of the tables.
// trefs: the literal examples annotated with a reference to @s1 / @s2.
func genTable(r *rand.Rand) (g *vgen, trefs map[string][]*sNode) {
	g = &vgen{r: r, types: map[string]*sNode{}, order: []string{"root", "@t1", "@t2", "@s1", "@s2", "@o1", "@o2", "@a0"}}
	{ // @a0: in half of the tables it INHERITS the properties of @o1 (a valid allOf rule); it is checked before
		// @o1 (types are checked in name order), so a defect planted inside @o1 is met in an inherited property
		// first - and still belongs to the text (and file) of @o1.
		a := newS("obj")
		a.props = []*sProp{{key: "c0", val: newS("int"), optional: r.Intn(2) == 0}}
		if r.Intn(2) == 0 {
			a.extra = append(a.extra, [2]string{"allOf", []string{`"@o1"`, `["@o1"]`}[r.Intn(2)]})
		}
		g.types["@a0"] = a
	}
	for k := 0; k < 2; k++ { // @o1 / @o2
		o := newS("obj")
		keys := [][]string{{"p1", "p2", "p3"}, {"w1", "w2", "w3"}}[k]
		for i, c := 0, 1+r.Intn(3); i < c; i++ {
			o.props = append(o.props, &sProp{key: keys[i], optional: r.Intn(3) == 0, val: g.scalarSchema([]string{"int", "str", "bool", "float"}[r.Intn(4)])})
		}
		if k == 1 {
			o.extra = append(o.extra, [2]string{"additionalProperties", `"string"`})
		}
		g.types[g.order[5+k]] = o
	}
	// @s1 / @s2: scalar types (integer, string) that own at least one rule an example can break
	for k, kind := range []string{"int", "str"} {
		t := g.scalarSchema(kind)
		for g.violating(t) == "" {
			t = g.scalarSchema(kind)
		}
		t.nullable = false
		g.types[g.order[3+k]] = t
	}
	for lvl := 2; lvl >= 0; lvl-- {
		t := g.schema(1+r.Intn(3), lvl)
		for try := 0; try < 3 && t.kind != "obj" && t.kind != "arr"; try++ {
			t = g.schema(2+r.Intn(2), lvl)
		}
		g.types[g.order[lvl]] = t
	}
	g.useAll()
	if r.Intn(2) == 0 { // the root inherits the properties of @o2 (its own keys are different ones)
		g.types["root"].extra = append(g.types["root"].extra, [2]string{"allOf", []string{`"@o2"`, `["@o2"]`}[r.Intn(2)]})
	}
	// literal examples annotated with a reference to @s1 / @s2 (type rule or `or` list) inside the containers
	trefs = map[string][]*sNode{}
	for _, nm := range g.order[:3] {
		t := g.types[nm]
		if t.kind != "obj" || (nm != "root" && r.Intn(2) == 0) {
			continue
		}
		for k := 1 + r.Intn(2); k > 0; k-- {
			tr := newS("tref")
			switch r.Intn(4) {
			case 0:
				tr.names = []string{"@s1", "@s2"}
			case 1:
				tr.names = []string{"@s2", "@s1"}
			case 2:
				tr.names = []string{"@s1"}
			default:
				tr.names = []string{"@s2"}
			}
			tr.nullable = r.Intn(5) == 0
			at := r.Intn(len(t.props) + 1)
			pr := &sProp{key: fmt.Sprintf("r%d", k), optional: r.Intn(4) == 0, val: tr}
			t.props = append(t.props[:at:at], append([]*sProp{pr}, t.props[at:]...)...)
			trefs[nm] = append(trefs[nm], tr)
		}
	}
	return g, trefs
}

// useAll: the root must use the types, otherwise errors inside unused types could stay unreported
func (g *vgen) useAll() {
	root := g.types["root"]
	if root.kind != "obj" {
		obj := newS("obj")
		obj.props = append(obj.props, &sProp{key: "v", val: root})
		g.types["root"] = obj
		root = obj
	}
	for _, nm := range g.order[1:] {
		ref := newS("ref")
		ref.names = []string{nm}
		root.props = append(root.props, &sProp{key: "use" + nm[1:], val: ref})
	}
}

// ---- compile-phase defects ------------------------------------------------------------------------------------------
//
// One FRESH node (a plain scalar / object / array / reference without rules of its own) that carries one defect
// which only the phases after scanning can see, placed as a new property of an object of the victim (any depth),
// as a new element of an array, or as the victim type's whole text. Anchors (calibrated on the unchanged tree,
// they follow the property's "start of the offending value or key"):
//
//	node-level defects   (a rule that cannot be used on this node, an allOf rule that cannot be compiled, a type
//	                      that does not exist or has the wrong kind, contradictory bounds, an example that
//	                      contradicts its type rule)              -> first byte of the example value / bracket / shortcut
//	key-level defects    (duplicate key, key shortcut to an undefined or non-string type) -> first byte of the key
//	rule-level defects   (a rule given twice -> the value of the second one; a rule value of the wrong kind, an
//	                      undefined enum rule -> the offending rule VALUE)
type defect struct {
	class  string
	node   *sNode
	rawKey string // key-level: the property is spelled with this key
	anchor func(p *sPrinter, pr *sProp) int
}

func atValue(n *sNode) func(*sPrinter, *sProp) int {
	return func(p *sPrinter, _ *sProp) int { return p.valueStart[n] }
}

func (g *vgen) plain(kind string) *sNode {
	n := newS(strings.TrimPrefix(kind, "empty"))
	switch kind {
	case "obj":
		n.props = []*sProp{{key: "q1", val: newS("int")}, {key: "q2", val: newS("str"), optional: g.r.Intn(2) == 0}}
	case "arr":
		n.items = []*sNode{newS("int")}
	}
	return n
}

var ruleKinds = []struct {
	name, val string
	on        string // kinds the rule can be used on
}{
	{"min", "1", "int float"}, {"max", "100", "int float"}, {"minLength", "0", "str"}, {"maxLength", "100", "str"},
	{"regex", `"."`, "str"}, {"minItems", "0", "arr"}, {"maxItems", "9", "arr"}, {"precision", "3", "float"},
	{"additionalProperties", "true", "obj"}, {"allOf", `"@o1"`, "obj"},
}

func (g *vgen) compileDefect(victim string) defect {
	r := g.r
	other := func(not string) string { // an object type that is not the victim
		if not == "@o1" {
			return "@o2"
		}
		if not == "@o2" || r.Intn(2) == 0 {
			return "@o1"
		}
		return "@o2"
	}
	q := strconv.Quote
	pick := func(a ...string) string { return a[r.Intn(len(a))] }
	objWith := func(class, name, val string) defect {
		n := g.plain(pick("obj", "obj", "emptyobj"))
		n.extra = append(n.extra, [2]string{name, val})
		return defect{class: class, node: n, anchor: atValue(n)}
	}
	for {
		switch r.Intn(24) {
		case 0:
			return objWith("allOf-parent-undefined", "allOf", pick(`"@nope"`, `["@nope"]`, `["@nope", "@nope2"]`))
		case 1:
			return objWith("allOf-later-parent-undefined", "allOf", "["+q(other(victim))+`, "@nope"]`)
		case 2:
			return objWith("allOf-parent-not-an-object", "allOf", pick(`"@s1"`, `"@s2"`, `["@s2"]`, "["+q(other(victim))+`, "@s1"]`))
		case 3:
			n := g.plain(pick("arr", "emptyarr", "int", "str", "bool", "null", "float"))
			n.extra = append(n.extra, [2]string{"allOf", q(other(victim))})
			return defect{class: "allOf-on-a-non-object", node: n, anchor: atValue(n)}
		case 4:
			parent := other(victim)
			n := g.plain("obj")
			pp := g.types[parent].props
			n.props = append(n.props, &sProp{key: pp[r.Intn(len(pp))].key, val: newS("int")})
			n.extra = append(n.extra, [2]string{"allOf", pick(q(parent), "["+q(parent)+"]")})
			return defect{class: "allOf-duplicate-key-of-child-and-parent", node: n, anchor: atValue(n)}
		case 5:
			if victim == "@o2" {
				continue
			}
			n := g.plain(pick("obj", "emptyobj"))
			n.extra = append(n.extra, [2]string{"additionalProperties", pick(`"integer"`, "false", `"@s1"`)}, [2]string{"allOf", `"@o2"`})
			if r.Intn(2) == 0 {
				n.extra[0], n.extra[1] = n.extra[1], n.extra[0]
			}
			return defect{class: "allOf-conflicting-additionalProperties", node: n, anchor: atValue(n)}
		case 6:
			if victim == "root" {
				continue
			}
			return objWith("allOf-recursion", "allOf", pick(q(victim), "["+q(victim)+"]"))
		case 7:
			return objWith("allOf-empty-name-list", "allOf", "[]")
		case 8, 9, 10:
			rk := ruleKinds[r.Intn(len(ruleKinds))]
			var kinds []string
			for _, k := range []string{"int", "float", "str", "bool", "null", "obj", "emptyobj", "arr", "emptyarr"} {
				if !strings.Contains(rk.on, strings.TrimPrefix(k, "empty")) {
					kinds = append(kinds, k)
				}
			}
			n := g.plain(kinds[r.Intn(len(kinds))])
			n.extra = append(n.extra, [2]string{rk.name, rk.val})
			return defect{class: "rule-not-applicable-to-the-node", node: n, anchor: atValue(n)}
		case 11:
			n := newS("ref")
			n.names = []string{"@nope"}
			return defect{class: "link-undefined-type-shortcut", node: n, anchor: atValue(n)}
		case 12:
			n := newS("or")
			n.names = []string{"@s1", "@nope"}
			if r.Intn(2) == 0 {
				n.names = []string{"@nope", "@s2", "@s1"}
			}
			return defect{class: "link-undefined-type-in-or-shortcut", node: n, anchor: atValue(n)}
		case 13:
			n := g.plain(pick("int", "str", "bool"))
			n.extra = append(n.extra, [2]string{"type", `"@nope"`})
			return defect{class: "link-undefined-type-in-type-rule", node: n, anchor: atValue(n)}
		case 14:
			n := g.plain("int")
			n.extra = append(n.extra, [2]string{"or", pick(`["@nope", "@s1"]`, `["@s1", "@nope"]`, `[{type: "@nope"}, "@s1"]`, `["@s1", {type: "@nope"}]`)})
			return defect{class: "link-undefined-type-in-or-rule", node: n, anchor: atValue(n)}
		case 15:
			return objWith("link-undefined-type-in-additionalProperties", "additionalProperties", `"@nope"`)
		case 16:
			n := g.plain("int")
			return defect{class: "link-undefined-type-in-key-shortcut", node: n, rawKey: "@nope", anchor: func(p *sPrinter, pr *sProp) int { return p.propKey[pr] }}
		case 17:
			n := g.plain("int")
			return defect{class: "key-shortcut-to-a-non-string-type", node: n, rawKey: pick("@s1", other(victim)), anchor: func(p *sPrinter, pr *sProp) int { return p.propKey[pr] }}
		case 18:
			n := g.plain(pick("int", "str", "bool"))
			n.extra = append(n.extra, [2]string{"type", pick(q(other(victim)), `"object"`, `"array"`, `"null"`)})
			return defect{class: "example-of-another-kind-than-its-type-rule", node: n, anchor: atValue(n)}
		case 19:
			n := g.plain(pick("int", "str"))
			n.extra = append(n.extra, [2]string{"type", pick(`"foo"`, `"Integer"`, `"int"`)})
			return defect{class: "unknown-type-name", node: n, anchor: atValue(n)}
		case 20:
			var n *sNode
			switch r.Intn(3) {
			case 0:
				n = g.plain(pick("int", "float"))
				n.extra = append(n.extra, [2]string{"min", "50"}, [2]string{"max", "-50"})
			case 1:
				n = g.plain("str")
				n.extra = append(n.extra, [2]string{"minLength", "70"}, [2]string{"maxLength", "0"})
			default:
				n = g.plain("arr")
				n.extra = append(n.extra, [2]string{"minItems", "5"}, [2]string{"maxItems", "0"})
			}
			if r.Intn(2) == 0 {
				n.extra[0], n.extra[1] = n.extra[1], n.extra[0]
			}
			return defect{class: "contradictory-bounds", node: n, anchor: atValue(n)}
		case 21:
			n := g.plain("int")
			n.extra = append(n.extra, [2]string{"min", "-100"}, [2]string{"max", "100"}, [2]string{pick("min", "max"), "7"})
			return defect{class: "rule-given-twice", node: n, anchor: func(p *sPrinter, _ *sProp) int { rv := p.ruleValue[n]; return rv[len(rv)-1] }}
		case 22:
			n := g.plain(pick("int", "str"))
			switch r.Intn(3) {
			case 0:
				n.extra = append(n.extra, [2]string{"nullable", pick("1", `"yes"`, "null")})
			case 1:
				n.extra = append(n.extra, [2]string{"optional", pick("0", `"no"`)})
			default:
				n.extra = append(n.extra, [2]string{"enum", "@nope"})
			}
			return defect{class: "rule-value-unusable", node: n, anchor: func(p *sPrinter, _ *sProp) int { rv := p.ruleValue[n]; return rv[len(rv)-1] }}
		case 23:
			n := g.plain("bool")
			return defect{class: "duplicate-key", node: n, rawKey: "dup", anchor: func(p *sPrinter, pr *sProp) int { return p.propKey[pr] }}
		}
	}
}

// containers of a schema tree (not through references)
func containers(n *sNode, objs, arrs *[]*sNode) {
	switch n.kind {
	case "obj":
		*objs = append(*objs, n)
		for _, p := range n.props {
			containers(p.val, objs, arrs)
		}
	case "arr":
		if len(n.items) > 0 && n.maxItems < 0 {
			*arrs = append(*arrs, n)
		}
		for _, it := range n.items {
			containers(it, objs, arrs)
		}
	}
}

func (g *vgen) canHost(victim string, d defect) bool {
	var objs, arrs []*sNode
	containers(g.types[victim], &objs, &arrs)
	switch {
	case d.rawKey == "dup":
		for _, o := range objs {
			if len(o.props) > 0 {
				return true
			}
		}
		return false
	case d.rawKey != "":
		return len(objs) > 0
	case victim == "@s1" || victim == "@s2":
		return false // the literal examples of the referring nodes are generated from these types
	case victim == "@o1" || victim == "@o2":
		return len(objs) > 0 // never replaced as a whole: they are allOf parents
	case victim == "root":
		return true // an object by construction
	}
	return true // whole text of the type
}

// place puts the defect into the victim type; returns the property that carries it (nil for an array element
// or a whole type) and a description of the site.
func (g *vgen) place(victim string, d defect) (pr *sProp, site string) {
	r := g.r
	var objs, arrs []*sNode
	containers(g.types[victim], &objs, &arrs)
	if d.rawKey == "dup" { // a second property with the key of an existing one
		var cand []*sNode
		for _, o := range objs {
			if len(o.props) > 0 {
				cand = append(cand, o)
			}
		}
		o := cand[r.Intn(len(cand))] // the root always qualifies (it uses the types)
		pr = &sProp{key: o.props[r.Intn(len(o.props))].key, val: d.node}
		o.props = append(o.props, pr)
		return pr, "property"
	}
	// @o1 / @o2 stay objects: other types (and the root) inherit from them
	whole := d.rawKey == "" && victim != "@s1" && victim != "@s2" && victim != "@o1" && victim != "@o2" && (victim != "root" || (d.node.kind == "obj")) && (len(objs) == 0 || r.Intn(4) == 0)
	if whole {
		g.types[victim] = d.node
		if victim == "root" {
			g.useAll()
		}
		return nil, "whole-text"
	}
	if d.rawKey == "" && len(arrs) > 0 && r.Intn(3) == 0 {
		a := arrs[r.Intn(len(arrs))]
		a.items = append(a.items, d.node)
		return nil, "array-element"
	}
	o := objs[r.Intn(len(objs))]
	pr = &sProp{key: fmt.Sprintf("zq%d", r.Intn(9)), val: d.node, optional: r.Intn(4) == 0, rawKey: d.rawKey}
	at := r.Intn(len(o.props) + 1)
	o.props = append(o.props[:at:at], append([]*sProp{pr}, o.props[at:]...)...)
	return pr, "property"
}

func runSchemaPos(rep *vh.Report) {
	r := vh.NewRand(17004)
	n := vh.Pick(6000, 120000)
	for i := 0; i < n; i++ {
		g, trefs := genTable(r)
		victim := g.order[r.Intn(len(g.order))]
		if r.Intn(4) == 0 {
			victim = "root"
		}
		class := []string{"stray-before-value", "stray-after-value", "stray-before-key", "stray-after-root", "truncated", "truncated", "unknown-rule", "example-breaks-rule", "example-breaks-referenced-type", "example-breaks-referenced-type",
			"compile", "compile", "compile", "compile", "compile", "compile"}[r.Intn(16)]
		var df defect
		var dprop *sProp
		if class == "compile" {
			for {
				df = g.compileDefect(victim)
				if g.canHost(victim, df) {
					break
				}
				victim = g.order[r.Intn(len(g.order))]
			}
			var site string
			dprop, site = g.place(victim, df)
			class = df.class
			rep.Stat("schema_compile_site_" + site)
		}
		// first print: collect marks of the victim
		sp := newSPrinter(g)
		sp.print(g.types[victim], 0, "", "", false)
		if class == "example-breaks-referenced-type" {
			var cands []string
			for _, nm := range g.order[:3] {
				if len(trefs[nm]) > 0 {
					cands = append(cands, nm)
				}
			}
			victim = cands[r.Intn(len(cands))] // the root always has one
			sp = newSPrinter(g)
			sp.print(g.types[victim], 0, "", "", false)
		}
		texts := map[string]string{}
		for _, nm := range g.order {
			if nm != victim {
				p := newSPrinter(g)
				p.print(g.types[nm], 0, "", "", false)
				// the other files get a different line layout (leading blank lines / indentation)
				texts[nm] = []string{"", "", "\n", "\n\n   ", "  ", "\r\n \t"}[r.Intn(6)] + p.text()
			}
		}
		txt := sp.text()
		want := -1
		insertAt := func(off int) {
			b := strayBytes[r.Intn(len(strayBytes))]
			txt = txt[:off] + string(b) + txt[off:]
			want = off
		}
		switch class {
		case "stray-before-value":
			ns := sortedNodes(sp.valueStart)
			insertAt(sp.valueStart[ns[r.Intn(len(ns))]])
		case "stray-after-value":
			ns := sortedNodes(sp.valueEnd)
			if len(ns) == 0 {
				continue
			}
			insertAt(sp.valueEnd[ns[r.Intn(len(ns))]])
		case "stray-before-key":
			if len(sp.keyStart) == 0 {
				continue
			}
			insertAt(sp.keyStart[r.Intn(len(sp.keyStart))])
		case "stray-after-root":
			insertAt(len(txt))
		case "truncated":
			if k := g.types[victim].kind; len(txt) < 3 || (k != "obj" && k != "arr") {
				continue // only a container-rooted text is certainly incomplete when cut
			}
			closePos := len(txt) - 1 // offset of the root's closing bracket
			if t := g.types[victim]; len(t.props)+len(t.items) == 0 {
				closePos = 1 // "{}" / "[]" followed by an annotation
			}
			txt = txt[:1+r.Intn(closePos)]
			want = len(txt) - 1
		case "unknown-rule":
			var ns []*sNode
			for _, x := range sortedNodes(sp.valueStart) {
				if len(sp.ruleName[x]) > 0 && len(x.enum) == 0 && len(x.extra) == 0 { // the renamed rule has a literal value
					ns = append(ns, x)
				}
			}
			if len(ns) == 0 {
				continue
			}
			p2 := newSPrinter(g)
			p2.badRule, p2.badName = ns[r.Intn(len(ns))], []string{"mni", "foo", "Min", "minimum", "x"}[r.Intn(5)]
			p2.print(g.types[victim], 0, "", "", false)
			txt = p2.text()
			want = p2.ruleName[p2.badRule][0]
		case "example-breaks-rule":
			var ns []*sNode
			for _, x := range sortedNodes(sp.valueEnd) {
				if g.violating(x) != "" {
					ns = append(ns, x)
				}
			}
			if len(ns) == 0 {
				continue
			}
			p2 := newSPrinter(g)
			p2.badExample = ns[r.Intn(len(ns))]
			p2.print(g.types[victim], 0, "", "", false)
			txt = p2.text()
			want = p2.valueStart[p2.badExample]
		case "example-breaks-referenced-type":
			p2 := newSPrinter(g)
			p2.badExample = trefs[victim][r.Intn(len(trefs[victim]))]
			p2.print(g.types[victim], 0, "", "", false)
			txt = p2.text()
			want = p2.valueStart[p2.badExample]
			if len(p2.badExample.names) == 1 {
				rep.Stat("schema_tref_by_type_rule")
			} else {
				rep.Stat("schema_tref_by_or_list")
			}
		default: // a compile-phase defect
			want = df.anchor(sp, dprop)
		}
		texts[victim] = txt
		var types [][2]string
		for _, nm := range g.order[1:] {
			types = append(types, [2]string{nm, texts[nm]})
		}
		place := "root"
		if victim != "root" {
			place = "type"
		}
		rep.Stat("schema_" + class + "_in_" + place)
		if (victim == "@o1" && len(g.types["@a0"].extra) > 0) || (victim == "@o2" && len(g.types["root"].extra) > 0) {
			rep.Stat("schema_victim_is_inherited_from") // its properties are met as inherited ones first
		}
		// Every case runs twice: under distinct file names through Check, and under another naming (all names
		// empty, only the root's / only the types' name empty, one shared name) through Check / Validate / Example.
		nm2 := namings[1+r.Intn(len(namings)-1)]
		entry2 := entryPoints[r.Intn(len(entryPoints))]
		rep.Stat("schema_second_run_" + nm2.label)
		var first schemaResult
		for run, cfg := range []struct {
			nm    naming
			entry string
		}{{namings[0], "Check"}, {nm2, entry2}} {
			in := replayText(cfg.nm, cfg.entry, texts["root"], types)
			rep.Case(in, true)
			got, to := runSchema(cfg.nm, cfg.entry, texts["root"], types)
			if to {
				rep.AddDiff(vh.Diff{Component: "C17-schema-pos", Input: in, Impl: "TIMEOUT", Model: cfg.entry + " returns"})
				return
			}
			fileName := cfg.nm.fileOf(victim)
			model := fmt.Sprintf("a positioned error (errors.DocumentError) with Position() == %d in the text of %s, file %q (class %s)", want, victim, fileName, class)
			if got.pos != want || !got.obs.positioned {
				rep.AddDiff(vh.Diff{Component: "C17-schema-pos", Input: in, Impl: got.where + ": " + got.desc + " | " + got.msg, Model: model})
				break
			}
			// rendering: file, line, shown source text and caret of the text the position belongs to
			if c := renderComplaint(got.obs, fileName, []byte(txt)); c != "" {
				rep.AddDiff(vh.Diff{Component: "C17-schema-pos", Input: in, Impl: c + " | " + got.desc, Model: model + ", rendered with the line number, left-trimmed source line and caret of that offset"})
				break
			}
			// the same error through the SDK facade, converted for the victim's file, for every other file of the run
			// (root, types, a document) and for companions
			own := runFile{"the text of " + victim, fileName, []byte(txt)}
			others := []runFile{{"the document text `{}`", "doc", []byte("{}")}}
			for _, nm := range g.order {
				if nm != victim {
					others = append(others, runFile{"the text of " + nm, cfg.nm.fileOf(nm), []byte(texts[nm])})
				}
			}
			reportFacade(rep, in, got.obs, own, others)
			if run == 0 {
				first = got
				continue
			}
			// file names are labels; the entry point only decides who reports the error
			if got.obs.code != first.obs.code {
				rep.AddDiff(vh.Diff{Component: "C17-schema-names", Input: in, Impl: got.where + ": " + got.desc, Model: "the error of the same schemas under distinct file names through Check(): " + first.desc})
			}
		}
	}
}
