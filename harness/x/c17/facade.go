package c17

import (
	"fmt"
	"strings"

	jerr "github.com/jsightapi/jsight-schema-go-library/errors"
	"github.com/jsightapi/jsight-schema-go-library/fs"
	"github.com/jsightapi/jsight-schema-go-library/kit"

	"verifharness/vh"
)

// The SDK facade. The property speaks about every error the library hands out, whatever public path it takes to the
// caller; kit.ConvertError(file, err) is such a path: it turns an error into the kit.Error view (Filename /
// Position / Message / ErrCode / IncorrectUserType) for a caller that holds SOME file of the run - the root schema
// file, a type's file, the document file - which need not be the file the error belongs to. Every error a stream
// obtains is therefore ALSO passed through the facade, once per caller file, and the result must describe the same
// place as the error itself:
//
//	Filename()           the file the position is an offset in (the error's own file, never the caller's),
//	Position() / ErrCode() / Message() / IncorrectUserType()   unchanged,
//	Error() / Line() / SourceSubString()                       unchanged (the line number, the line text and the
//	                     caret of the error's own file), and none of these calls panics.
//
// "Unchanged" is measured against the observation of the error itself, which the stream compares with the
// independent reference (renderComplaint) - so the result of the facade is held to the reference, too.
//
// Caller files (classes the property quantifies over implicitly: any file content, any file name):
//
//	own            the file the error belongs to;
//	run files      every other file of the same run (root schema, added types, document), under the run's naming
//	               (distinct names, empty names, one name shared by all);
//	companions     files that are not the error's file but carry the SAME name as it, the EMPTY name, or another name,
//	               with a text SHORTER than the position (the position is out of range in it - possibly the empty
//	               text) or LONGER with other line breaks in front (the position is in range but on another line).
//
// The error value handed over is the positioned error (errors.DocumentError) the stream extracted with errors.As;
// alternately the pristine value and the value that has been rendered before (a caller that logs the error first).
//
// The RESULT clause (property C07 "every non-nil error ... exposing code, message and a position that lies inside the
// source it refers to", read on what the facade hands to the caller). It is demanded of EVERY result of
// kit.ConvertError - for the positioned error itself, for an error that reaches the caller WRAPPED (AddType: "load
// added type: %w", "generate example for Regex type: %w") and for errors that are no library errors at all:
//
//	P1  Filename() names a source: a file of the run or the file the caller handed over. A result naming no such
//	    file refers to no source.
//	P2  Position() lies inside the text of that file (when several files carry the name: inside at least one of
//	    them; position 0 of an empty text - "no position" - is tolerated).
//	P3  the result tells which error it is: its ErrCode() / Message() are those of the innermost positioned library
//	    error of the chain, or it is the generic conversion (code ErrGeneric) whose Message() carries that error's
//	    full text. (Calibrated on the unchanged tree: the facade does not unwrap, a wrapper comes back as the generic
//	    error of the caller's file, position 0.)
//	P4  a result that presents the innermost error (its code and message) describes the place of that error: the
//	    position AND the file of it. The innermost error's position paired with another file's name points nowhere.
//
// A type the library synthesises a source for (a regex type `/P/` becomes the schema text `"<example>" // {regex:
// "<P>"}` in a file that carries the TYPE'S NAME) has one source the user knows: the regex text. The run therefore
// lists the regex text under the type's name, too (a second runFile with the same content).

type runFile struct {
	expr    string // how to write the content down when replaying: "the root schema text", "the first 9 bytes of the document text" ...
	name    string
	content []byte
}

// resultComplaint: the RESULT clause P1 - P4 (see above) for one result `fo` of kit.ConvertError(caller, err); run =
// the files of the run; o = the observation of err (o.positioned: the innermost positioned error of its chain).
func resultComplaint(fo facadeObs, caller runFile, run []runFile, o observation) string {
	if fo.panics != "" {
		return fo.panics
	}
	// P1 / P2
	cands, inside := 0, false
	var sizes []string
	files := run
	callerIsRunFile := false
	for _, f := range run {
		callerIsRunFile = callerIsRunFile || (f.name == caller.name && string(f.content) == string(caller.content))
	}
	if !callerIsRunFile {
		files = append([]runFile{caller}, run...)
	}
	for _, f := range files {
		if f.name != fo.file {
			continue
		}
		cands++
		sizes = append(sizes, fmt.Sprintf("%d", len(f.content)))
		if fo.pos < len(f.content) || (fo.pos == 0 && len(f.content) == 0) {
			inside = true
		}
	}
	if cands == 0 {
		return fmt.Sprintf("the result names file %q, which is neither a file of the run nor the caller's file: it refers to no source", fo.file)
	}
	if !inside {
		return fmt.Sprintf("the result's Position() = %d lies outside the source it refers to: file %q (ErrCode() = %d, Message() = %q) has %s bytes", fo.pos, fo.file, fo.code, fo.message, strings.Join(sizes, " / "))
	}
	if !o.positioned {
		return ""
	}
	// P3 / P4
	presents := fo.code == o.code && fo.message == o.message
	generic := fo.code == int(jerr.ErrGeneric) && strings.Contains(fo.message, o.inner)
	switch {
	case !presents && !generic:
		return fmt.Sprintf("the result (ErrCode() = %d, Message() = %q) is neither the innermost library error (code %d, message %q) nor the generic conversion carrying its text", fo.code, fo.message, o.code, o.message)
	case presents && (fo.pos != o.pos || fo.file != o.file):
		return fmt.Sprintf("the result presents the error code %d %q of file %q position %d, but as file %q position %d", o.code, o.message, o.file, o.pos, fo.file, fo.pos)
	}
	return ""
}

func (f runFile) call() string {
	return fmt.Sprintf("kit.ConvertError(fs.NewFile(%q, <%s>), err)", f.name, f.expr)
}

type facadeObs struct {
	panics               string
	typ                  string
	file, message, utype string
	pos, code            int
	hasText, isDoc       bool
	text, src            string
	line                 uint
}

func viaFacade(f runFile, err error) (fo facadeObs) {
	defer func() {
		if r := recover(); r != nil {
			fo.panics = fmt.Sprintf("PANIC %v", r)
		}
	}()
	k := kit.ConvertError(fs.NewFile(f.name, f.content), err)
	fo.typ = fmt.Sprintf("%T", k)
	fo.file, fo.pos, fo.message, fo.code, fo.utype = k.Filename(), int(k.Position()), k.Message(), k.ErrCode(), k.IncorrectUserType()
	if e, ok := k.(error); ok {
		fo.hasText, fo.text = true, e.Error()
	}
	if de, ok := k.(jerr.DocumentError); ok {
		fo.isDoc = true
		fo.line = de.Line()
		fo.src = de.SourceSubString()
	}
	return fo
}

// callerFiles: own file, the other files of the run, the companions (see above). pos = position of the error.
func callerFiles(own runFile, others []runFile, pos int) []runFile {
	out := append([]runFile{own}, others...)
	short := own.content
	shortExpr := own.expr
	if pos >= 0 && pos <= len(own.content) {
		short, shortExpr = own.content[:pos], fmt.Sprintf("the first %d bytes of %s", pos, own.expr)
	}
	long := append(append([]byte("\n \r\n\n"), own.content...), "\n\n"...)
	longExpr := `"\n \r\n\n" + ` + own.expr + ` + "\n\n"`
	names := []string{own.name, ""}
	if own.name == "" {
		names = append(names, "caller.jst")
	}
	for _, nm := range names {
		out = append(out, runFile{shortExpr, nm, short}, runFile{longExpr, nm, long})
	}
	return out
}

// facadeComplaint: "" when the facade's result agrees with the error itself for every caller file; otherwise the
// first disagreement with the call that shows it.
func facadeComplaint(rep *vh.Report, o observation, own runFile, others []runFile) (complaint, call string) {
	if o.isNil || o.err == nil {
		return "", ""
	}
	if !o.positioned {
		// a bare error: the facade can only attribute it to the caller's file; totality and the RESULT clause
		run := append([]runFile{own}, others...)
		for _, f := range run {
			rep.Stat("facade_results_checked")
			if c := resultComplaint(viaFacade(f, o.err), f, run, o); c != "" {
				return c, f.call() + " with err = the returned error"
			}
		}
		rep.Stat("facade_bare_errors")
		return "", ""
	}
	if o.file == "" {
		rep.Stat("facade_error_file_has_empty_name")
	} else {
		rep.Stat("facade_error_file_is_named")
	}
	run := append([]runFile{own}, others...)
	for k, f := range callerFiles(own, others, o.pos) {
		e, which := o.de, "err = the positioned error (errors.As), not rendered before"
		if k%2 == 1 {
			e, which = o.rendered, "err = the positioned error (errors.As) after its Error() / Line() / SourceSubString() were called"
		}
		fo := viaFacade(f, e)
		rep.Stat("facade_conversions")
		switch {
		case k == 0:
			rep.Stat("facade_caller_holds_the_error_file")
		case o.pos >= len(f.content):
			rep.Stat("facade_caller_file_shorter_than_position")
		default:
			rep.Stat("facade_caller_file_longer_than_position")
		}
		if k > 0 {
			switch {
			case f.name == o.file && f.name == "":
				rep.Stat("facade_caller_file_and_error_file_both_unnamed")
			case f.name == o.file:
				rep.Stat("facade_caller_file_same_name_as_error_file")
			case f.name == "":
				rep.Stat("facade_caller_file_unnamed")
			case o.file == "":
				rep.Stat("facade_caller_file_named_error_file_unnamed")
			default:
				rep.Stat("facade_caller_file_other_name")
			}
		}
		rep.Stat("facade_results_checked")
		c := ""
		switch {
		case fo.panics != "":
			c = fo.panics
		case !o.synthetic && resultComplaint(fo, f, run, o) != "":
			c = resultComplaint(fo, f, run, o)
		case fo.file != o.file:
			c = fmt.Sprintf("Filename() = %q, the error's own Filename() = %q", fo.file, o.file)
		case fo.pos != o.pos:
			c = fmt.Sprintf("Position() = %d, the error's own Position() = %d", fo.pos, o.pos)
		case fo.code != o.code:
			c = fmt.Sprintf("ErrCode() = %d, the error's own ErrCode() = %d", fo.code, o.code)
		case fo.message != o.message:
			c = fmt.Sprintf("Message() = %q, the error's own Message() = %q", fo.message, o.message)
		case fo.utype != o.utype:
			c = fmt.Sprintf("IncorrectUserType() = %q, the error's own IncorrectUserType() = %q", fo.utype, o.utype)
		case !fo.hasText || !fo.isDoc:
			c = fmt.Sprintf("the result %s cannot be rendered (no Error() / Line() / SourceSubString())", fo.typ)
		case fo.text != o.inner:
			c = fmt.Sprintf("Error() = %q, the error's own Error() = %q", fo.text, o.inner)
		case fo.line != o.line:
			c = fmt.Sprintf("Line() = %d, the error's own Line() = %d", fo.line, o.line)
		case fo.src != o.src:
			c = fmt.Sprintf("SourceSubString() = %q, the error's own SourceSubString() = %q", fo.src, o.src)
		}
		if c != "" {
			return c, f.call() + " with " + which
		}
	}
	// the wrapper, when the library handed the positioned error out wrapped
	if _, direct := o.err.(jerr.DocumentError); !direct {
		rep.Stat("facade_wrapped_errors")
		for _, f := range callerFiles(own, others, o.pos) {
			rep.Stat("facade_results_checked")
			rep.Stat("facade_wrapper_conversions")
			if c := resultComplaint(viaFacade(f, o.err), f, run, o); c != "" {
				return c, f.call() + " with err = the returned (wrapping) error"
			}
		}
	}
	return "", ""
}

// reportFacade: the facade leg of one case. `in` replays the run that produced the error.
func reportFacade(rep *vh.Report, in string, o observation, own runFile, others []runFile) {
	c, call := facadeComplaint(rep, o, own, others)
	if c == "" {
		return
	}
	rep.AddDiff(vh.Diff{Component: "C17-facade", Input: in + " -> err; " + call, Impl: c + " | the error itself: " + o.String(),
		Model: fmt.Sprintf("the facade's result names a source of the run and a position inside it; for the positioned error it describes the place the error describes: file %q, position %d, the same code / message / user type, the same rendering (line, source line, caret of that file); for a wrapper or a foreign error it is that error's code / message / file / position or the generic error of the caller's file; no panic - whatever file the caller holds", o.file, o.pos)})
}
