// Package c07res: property C07, the clause "no public method … fails to terminate" read as a RESOURCE statement that
// can be measured deterministically: for inputs of at most 4 KiB the memory a public call allocates (runtime
// TotalAlloc delta, single goroutine, GC-independent) must stay within a budget that is LINEAR in the input length
// (BUDGET = 4 MiB + 4 KiB per input byte); work that grows with the VALUE an input denotes (an exponent) or
// exponentially with its nesting depth exhausts memory / never ends long before the 4 KiB limit of the statement.
//
// Families are generated structurally, each with its size parameter swept; the family decides the known-finding
// class of an over-budget case (never the symptom):
//   numeral-exponent   `1e<N>`, `1e-<N>`, `1.5E+<N>` for N up to 10^6 as document value, against integer / float / any
//                      (class K-C07-bigexp when |exponent| >= 10^4: the number model materialises the zeros)
//   numeral-digits     4000-digit mantissas, 2000+2000 digit fractions
//   or-fanout          @a = [@a | @b], @b = [@a | @b] (and the object form) against nested documents of depth d
//                      (class K-C07-orfanout when d >= 8: every alternative keeps its own leaf, 2^d leaves)
//   nesting            documents / schemas nested 50..1000 deep (arrays, objects), type any
//   long-string        strings of 4000 bytes (plain, all escapes) against minLength / regex / enum
//   wide               objects with 300 keys, arrays with 1000 elements
//   rules              enum rule with 500 items, regex type of 4000 bytes, 200 added types
// Every public method that takes the input is called: Check, Validate, Example, GetAST, Len, UsedUserTypes.
package c07res

import (
	"fmt"
	"os"
	"runtime"
	"strings"
	"time"

	jdoc "github.com/jsightapi/jsight-schema-go-library/formats/json"
	"github.com/jsightapi/jsight-schema-go-library/notations/jschema"
	"github.com/jsightapi/jsight-schema-go-library/notations/regex"
	"github.com/jsightapi/jsight-schema-go-library/rules/enum"

	"verifharness/vh"
)

const timeLimit = 20 * time.Second // a backstop only; the verdict is the allocation budget

func budget(n int) uint64 { return 4<<20 + 4096*uint64(n) }

type kase struct {
	family, class string
	size          int
	root          string
	types         [][2]string
	enums         [][2]string
	regexes       [][2]string
	doc           string
	hasDoc        bool
}

func (k *kase) inputLen() int {
	n := len(k.root) + len(k.doc)
	for _, t := range k.types {
		n += len(t[1])
	}
	for _, t := range k.enums {
		n += len(t[1])
	}
	for _, t := range k.regexes {
		n += len(t[1])
	}
	return n
}

func short(s string) string {
	if len(s) > 160 {
		return fmt.Sprintf("%s…(%d bytes)…%s", s[:70], len(s), s[len(s)-50:])
	}
	return s
}

func (k *kase) describe() string {
	var sb strings.Builder
	fmt.Fprintf(&sb, "family=%s size=%d root=%q", k.family, k.size, short(k.root))
	for _, t := range k.types {
		fmt.Fprintf(&sb, " AddType %s=%q", t[0], short(t[1]))
	}
	for _, t := range k.enums {
		fmt.Fprintf(&sb, " AddRule %s=%q", t[0], short(t[1]))
	}
	for _, t := range k.regexes {
		fmt.Fprintf(&sb, " AddType(regex) %s=%q", t[0], short(t[1]))
	}
	if k.hasDoc {
		fmt.Fprintf(&sb, " document=%q", short(k.doc))
	}
	return sb.String()
}

// measured runs f on the calling goroutine and returns the bytes it allocated and the wall time; a panic is reported
func measured(f func()) (alloc uint64, dt time.Duration, pan string) {
	var m0, m1 runtime.MemStats
	runtime.GC()
	runtime.ReadMemStats(&m0)
	t := time.Now()
	func() {
		defer func() {
			if r := recover(); r != nil {
				pan = fmt.Sprint(r)
			}
		}()
		f()
	}()
	dt = time.Since(t)
	runtime.ReadMemStats(&m1)
	return m1.TotalAlloc - m0.TotalAlloc, dt, pan
}

func build(k *kase) *jschema.Schema {
	s := jschema.New("root", k.root)
	for _, e := range k.enums {
		_ = s.AddRule(e[0], enum.New(e[0], e[1]))
	}
	for _, t := range k.types {
		ts := jschema.New(t[0], t[1])
		for _, e := range k.enums {
			_ = ts.AddRule(e[0], enum.New(e[0], e[1]))
		}
		_ = s.AddType(t[0], ts)
	}
	for _, t := range k.regexes {
		_ = s.AddType(t[0], regex.New(t[0], t[1]))
	}
	return s
}

func cases() []kase {
	var out []kase
	// numeral-exponent
	for _, n := range append([]int{10, 100, 1000, 10000, 100000, 1000000, 10000000}, make([]int, vh.Pick(0, 1))...) {
		if n == 0 {
			n = 100000000 // thorough only
		}
		for _, sp := range []string{"1e%d", "1e-%d", "1.5E+%d", "-25e-%d"} {
			for _, root := range []string{`1 // {min: 0}`, `1.5 // {type: "float"}`, `1 // {type: "any"}`, `2 // {enum: [1, 2]}`, `1 // {const: true}`} {
				cls := ""
				if n >= 10000 {
					cls = "K-C07-bigexp"
				}
				out = append(out, kase{family: "numeral-exponent", class: cls, size: n, root: root, doc: fmt.Sprintf(sp, n), hasDoc: true})
			}
		}
	}
	// numeral-digits
	for _, n := range []int{100, 1000, 4000} {
		d := strings.Repeat("7", n)
		for _, doc := range []string{d, "-" + d, "0." + d, d[:n/2] + "." + d[:n/2], d[:n/2] + "." + d[:n/2-4] + "e12"} {
			for _, root := range []string{`1 // {min: 0}`, `1.5 // {type: "float", max: 9}`, `1.25 // {type: "decimal", precision: 2}`} {
				out = append(out, kase{family: "numeral-digits", size: n, root: root, doc: doc, hasDoc: true})
			}
		}
	}
	// or-fanout
	for _, d := range []int{2, 4, 6, 8, 10, 12, 14, vh.Pick(15, 16)} {
		cls := ""
		if d >= 8 {
			cls = "K-C07-orfanout"
		}
		out = append(out, kase{family: "or-fanout", class: cls, size: d, root: "@a",
			types: [][2]string{{"@a", "[@a | @b]"}, {"@b", "[@a | @b]"}}, doc: strings.Repeat("[", d) + strings.Repeat("]", d), hasDoc: true})
		if d > 12 {
			continue // the object form grows alike; the deep ones are run in the array form only
		}
		out = append(out, kase{family: "or-fanout", class: cls, size: d, root: "@a",
			types: [][2]string{{"@a", `{"x": @a | @b // {optional: true}` + "\n}"}, {"@b", `{"x": @a | @b // {optional: true}` + "\n}"}},
			doc:   strings.Repeat(`{"x":`, d) + "{}" + strings.Repeat("}", d), hasDoc: true})
	}
	// nesting
	for _, d := range []int{50, 200, 1000} {
		arr := strings.Repeat("[", d) + strings.Repeat("]", d)
		obj := strings.Repeat(`{"a":`, d) + "1" + strings.Repeat("}", d)
		out = append(out, kase{family: "nesting", size: d, root: `1 // {type: "any"}`, doc: arr, hasDoc: true})
		out = append(out, kase{family: "nesting", size: d, root: `{} // {type: "any"}`, doc: obj, hasDoc: true})
		out = append(out, kase{family: "nesting", size: d, root: arr, doc: arr, hasDoc: true})
		if d <= 200 {
			var sb strings.Builder
			for i := 0; i < d; i++ {
				sb.WriteString("{\n\"a\": ")
			}
			sb.WriteString("1")
			for i := 0; i < d; i++ {
				sb.WriteString("\n}")
			}
			out = append(out, kase{family: "nesting", size: d, root: sb.String(), doc: obj, hasDoc: true})
		}
		out = append(out, kase{family: "nesting", size: d, root: "@r", types: [][2]string{{"@r", "[@r]"}}, doc: arr, hasDoc: true})
	}
	// long-string
	for _, n := range []int{100, 1000, 4000} {
		plain := `"` + strings.Repeat("a", n) + `"`
		esc := `"` + strings.Repeat(`é`, n/6) + `"`
		for _, doc := range []string{plain, esc} {
			for _, root := range []string{`"x"`, `"x" // {minLength: 1, maxLength: 5000}`, `"aaa" // {regex: "^a*$"}`, `"x" // {enum: ["x", "y"]}`, `"a@b.cc" // {type: "email"}`, `"2020-01-01" // {type: "date"}`} {
				out = append(out, kase{family: "long-string", size: n, root: root, doc: doc, hasDoc: true})
			}
		}
	}
	// wide
	for _, n := range []int{50, 300} {
		var sb, db strings.Builder
		sb.WriteString("{\n")
		db.WriteString("{")
		for i := 0; i < n; i++ {
			c := ","
			if i == n-1 {
				c = ""
			}
			fmt.Fprintf(&sb, "  \"k%d\": %d%s\n", i, i, c)
			fmt.Fprintf(&db, "\"k%d\":%d%s", n-1-i, i, c)
		}
		sb.WriteString("}")
		db.WriteString("}")
		out = append(out, kase{family: "wide", size: n, root: sb.String(), doc: db.String(), hasDoc: true})
		items := strings.TrimSuffix(strings.Repeat("1,", n*3), ",")
		out = append(out, kase{family: "wide", size: n * 3, root: "[1]", doc: "[" + items + "]", hasDoc: true})
		out = append(out, kase{family: "wide", size: n * 3, root: "[\n" + strings.Replace(items, ",", ",\n", -1) + "\n]", doc: "[" + items + "]", hasDoc: true})
	}
	// rules
	for _, n := range []int{50, 500} {
		var eb strings.Builder
		eb.WriteString("[")
		for i := 0; i < n; i++ {
			if i > 0 {
				eb.WriteString(", ")
			}
			fmt.Fprintf(&eb, "%d", i)
		}
		eb.WriteString("]")
		out = append(out, kase{family: "rules", size: n, root: `1 // {enum: @e}`, enums: [][2]string{{"@e", eb.String()}}, doc: fmt.Sprint(n - 1), hasDoc: true})
		out = append(out, kase{family: "rules", size: n, root: `1 // {enum: ` + eb.String() + `}`, doc: fmt.Sprint(n - 1), hasDoc: true})
		rx := "/" + strings.Repeat("(a|b)", n) + "/"
		out = append(out, kase{family: "rules", size: n, root: "@x", regexes: [][2]string{{"@x", rx}}, doc: `"` + strings.Repeat("a", n) + `"`, hasDoc: true})
		var ts [][2]string
		for i := 0; i < n/2; i++ {
			next := fmt.Sprintf("@t%d", i+1)
			if i == n/2-1 {
				next = "1"
			}
			ts = append(ts, [2]string{fmt.Sprintf("@t%d", i), fmt.Sprintf(`{"v": %s}`, next)})
		}
		out = append(out, kase{family: "rules", size: n / 2, root: "@t0", types: ts, doc: strings.Repeat(`{"v":`, n/2) + "1" + strings.Repeat("}", n/2), hasDoc: true})
	}
	return out
}

func Run(args []string) {
	rep := vh.NewReport("c07-resource", "inputs <= 4 KiB in seven structural families with a swept size parameter (numerals with exponents up to 10^7 (thorough 10^8) / 4000 digits, or-alternatives over nested documents, nesting up to 1000, strings of 4000 bytes, 300 keys / 900 elements, 500 enum items / 250 chained types / long regex types); every public method on them; bytes allocated per call (TotalAlloc delta, deterministic) must stay below 4 MiB + 4 KiB per input byte, wall time below a 20 s backstop, no panic; over-budget cases of the two known classes are classified by FAMILY and size")
	for _, k := range cases() {
		k := k
		if k.inputLen() > 4096+64 {
			rep.Stat("skipped_over_4k")
			continue
		}
		var s *jschema.Schema
		type call struct {
			name string
			f    func()
		}
		calls := []call{
			{"Check", func() { s = build(&k); _ = s.Check() }},
		}
		if k.hasDoc {
			calls = append(calls, call{"Validate", func() { _ = s.Validate(jdoc.New("doc", k.doc)) }},
				call{"Document.Check", func() { _ = jdoc.New("doc", k.doc).Check() }},
				call{"Document.Len", func() { _, _ = jdoc.New("doc", k.doc, jdoc.AllowTrailingNonSpaceCharacters()).Len() }})
		}
		calls = append(calls,
			call{"Example", func() { _, _ = s.Example() }},
			call{"GetAST", func() { _, _ = s.GetAST() }},
			call{"Len", func() { _, _ = build(&k).Len() }},
			call{"UsedUserTypes", func() { _, _ = s.UsedUserTypes() }})
		for _, c := range calls {
			alloc, dt, pan := measured(c.f)
			rep.Case(k.family+"/"+fmt.Sprint(k.size)+"/"+c.name+"/"+k.root+"/"+k.doc, true)
			rep.Stat("family_" + k.family)
			in := k.describe() + " call=" + c.name
			if pan != "" {
				rep.AddDiff(vh.Diff{Component: "C07-resource", Input: in, Impl: "PANIC " + pan, Model: "no public method panics"})
				continue
			}
			if os.Getenv("C07RES_TRACE") != "" {
				fmt.Fprintf(os.Stderr, "%-18s %8d %-16s alloc=%10d dt=%v\n", k.family, k.size, c.name, alloc, dt)
			}
			b := budget(k.inputLen())
			if alloc > b || dt > timeLimit {
				rep.Stat("over_budget_" + k.family)
				rep.AddDiff(vh.Diff{Component: "C07-resource", Class: k.class, Input: in,
					Impl:  fmt.Sprintf("allocated %d bytes in %v for %d input bytes", alloc, dt.Round(time.Millisecond), k.inputLen()),
					Model: fmt.Sprintf("budget %d bytes (4 MiB + 4 KiB per input byte), %v", b, timeLimit)})
			}
		}
	}
	rep.Finish()
}
