package c11

import (
	"bufio"
	"bytes"
	"crypto/sha1"
	"fmt"
	"os"
	"os/exec"
	"runtime"
	"sort"
	"strconv"
	"strings"
	"sync"
	"sync/atomic"
	"time"

	"verifharness/vh"
)

// HistResult is everything one history yields.
type HistResult struct {
	Idx        int
	Key        string
	Nontrivial bool
	Transcript string // canonical results (live and oracle) of every operation
	Digest     string
	Diffs      []vh.Diff
	Stats      []string
}

func caseRand(i int) int64 { return 11000000 + int64(i) }

// optRand: the PRNG the option bits of history i are drawn from.
func optRand(i int) int64 { return 11400000 + int64(i) }

// docOptRand: the PRNG the option bits of the document objects of history i are drawn from.
func docOptRand(i int) int64 { return 11800000 + int64(i) }

// isBind: every fifth history is a binding history (pool_bind.go).
func isBind(i int) bool { return i%5 == 4 && !isKeys(i) }

// The KEYS histories (pool_keys.go) have numbers of their own, keysBase + k, so
// that the other histories keep their numbers in both tiers.
const keysBase = 200000

func isKeys(i int) bool { return i >= keysBase }

// nBase / nKeys: histories of the two number ranges per run.
func nBase() int { return vh.Pick(6250, 75000) } // four in five as before the binding histories were added (5000 / 60000), one in five binding
func nKeys() int { return vh.Pick(600, 7200) }

// nDocSeq: cases of the one-document stream (docseq.go) per run.
func nDocSeq() int { return vh.Pick(6000, 60000) }

// histID: the number of the history evaluated in slot j of a run.
func histID(j int) int {
	if j < nBase() {
		return j
	}
	return keysBase + j - nBase()
}

func genHistory(i int, withKnown bool) *History {
	family := FamPlain
	switch {
	case isKeys(i):
		family = FamKeys
	case isBind(i):
		family = FamBind
	}
	return Generate(vh.NewRand(caseRand(i)), vh.NewRand(optRand(i)), vh.NewRand(docOptRand(i)), withKnown, family)
}

// RunHistory generates history i (PRNG derived from VERIF_SEED and i), runs it
// on live objects, and compares every result with the fresh-object oracle.
func RunHistory(i int, withKnown bool) HistResult {
	h := genHistory(i, withKnown)
	res := HistResult{Idx: i, Key: h.Text()}
	input := fmt.Sprintf("history #%d (vh.NewRand(%d); option bits vh.NewRand(%d), of documents vh.NewRand(%d)): %s", i, caseRand(i), optRand(i), docOptRand(i), res.Key)
	w := NewWorld(h)
	var helds []Held
	changed := map[int]bool{} // held values already reported
	// recheck re-reads every value handed out so far and compares it with the
	// deep copy taken at hand-out time ("values handed to the caller never
	// change after later API calls": after EVERY later call, live or on the
	// fresh objects of the oracle — those are "other Schema objects" too).
	recheck := func(when string) {
		for i, hd := range helds {
			if changed[i] {
				continue
			}
			if now := vh.Recover(hd.Reread); now != hd.Snap {
				changed[i] = true
				res.Diffs = append(res.Diffs, vh.Diff{Component: "C11-stable", Input: input,
					Impl:  fmt.Sprintf("value handed out by %s reads %q %s", hd.Desc, now, when),
					Model: fmt.Sprintf("unchanged since the call: %q", hd.Snap), Class: h.KnownClass(len(h.Ops))})
			}
		}
	}
	var tr strings.Builder
	uses := map[int]int{}
	stat := func(s string) { res.Stats = append(res.Stats, s) }
	for k, op := range h.Ops {
		got, hd := w.Exec(op)
		if op.Code == OpNew {
			continue
		}
		recheck(fmt.Sprintf("after op #%d %s", k, h.OpText(op)))
		for i := range hd {
			hd[i].Desc = fmt.Sprintf("op #%d %s", k, hd[i].Desc)
		}
		helds = append(helds, hd...)
		want := h.Oracle(k)
		recheck(fmt.Sprintf("after op #%d %s was repeated on fresh objects (%s)", k, h.OpText(op), opsText(h, append(h.Replay(k), op))))
		if op.Code == OpExample && h.Objs[op.Obj].Kind == KSchema && strings.HasSuffix(got, " ok") {
			stat("example_ok_" + exampleKind(got))
		}
		tr.WriteString(got)
		tr.WriteString("\n")
		tr.WriteString(want)
		tr.WriteString("\n")
		stat("op_" + opNames[op.Code] + "_" + []string{"schema", "regex", "enum", "doc"}[h.Objs[op.Obj].Kind])
		if v := verdictOf(got); v != "" {
			stat("result_" + v)
		}
		if !isSetup(op.Code) {
			uses[op.Obj]++
		}
		if op.Arg >= 0 {
			uses[-1-op.Arg]++
		}
		if isSetup(op.Code) {
			for j := 0; j < k; j++ {
				if h.Ops[j].Obj == op.Obj && loadsTarget(h.Ops[j].Code) && !isSetup(h.Ops[j].Code) {
					stat("late_setup_op")
					break
				}
			}
		}
		if got != want {
			res.Diffs = append(res.Diffs, vh.Diff{Component: "C11-history", Input: input,
				Impl:  fmt.Sprintf("op #%d %s on the re-used objects: %s", k, h.OpText(op), got),
				Model: fmt.Sprintf("same operation on fresh objects (replay: %s): %s", opsText(h, h.Replay(k)), want),
				Class: h.KnownClass(k)})
		}
	}
	recheck("at the end of the history")
	for _, hd := range helds {
		if !strings.HasSuffix(hd.Desc, "error value") { // message text is not a compared result ("Required key" lists keys in map order)
			tr.WriteString(CanonPtr(vh.Recover(hd.Reread)))
			tr.WriteString("\n")
		}
	}
	stat(fmt.Sprintf("held_values_%02d", imin(len(helds), 20)))
	for _, n := range uses {
		if n >= 2 {
			res.Nontrivial = true
		}
	}
	nshared := 0
	for x := range h.Objs {
		users := map[int]bool{}
		for _, op := range h.Ops {
			if op.Arg == x && isSetup(op.Code) {
				users[op.Obj] = true
			}
		}
		if len(users) >= 2 {
			nshared++
		}
	}
	if nshared > 0 {
		stat("histories_with_object_added_to_2+_schemas")
	}
	if isBind(i) {
		stat("bind_histories")
		for _, st := range bindStats(h) {
			stat(st)
		}
	}
	if isKeys(i) {
		stat("keys_histories")
	}
	for _, st := range optionStats(h) {
		stat(st)
	}
	for x, o := range h.Objs {
		if o.Kind != KDoc || !o.Opt {
			continue
		}
		nops := 0
		for _, op := range h.Ops {
			if (op.Obj == x && op.Code != OpNew) || (op.Code == OpValidate && op.Arg == x) {
				nops++
			}
		}
		if nops > 0 {
			stat("docopt_document_objects_created_with_AllowTrailingNonSpaceCharacters")
		}
		if nops >= 2 {
			stat("docopt_such_objects_with_2+_operations")
		}
	}
	if h.KnownClass(len(h.Ops)) != "" {
		stat("histories_in_class_K-C11-sharedallof")
	}
	stat(fmt.Sprintf("objects_%02d", len(h.Objs)))
	res.Transcript = tr.String()
	d := sha1.Sum([]byte(res.Transcript))
	res.Digest = vh.Hex(d[:8])
	return res
}

// bindStats: what a binding history exercises.
func bindStats(h *History) []string {
	var out []string
	// adders[x] = roots (objects that are not themselves added anywhere) type object x was added to
	isAdded := map[int]bool{}
	for _, op := range h.Ops {
		if op.Code == OpAddType && op.Arg != op.Obj {
			isAdded[op.Arg] = true
		}
	}
	table := map[int]map[string]int{} // root -> name -> object
	for _, op := range h.Ops {
		if op.Code == OpAddType && !isAdded[op.Obj] {
			if table[op.Obj] == nil {
				table[op.Obj] = map[string]int{}
			}
			if _, dup := table[op.Obj][op.Name]; !dup {
				table[op.Obj][op.Name] = op.Arg
			}
		}
	}
	differ := func(a, b int) bool { // do the tables of roots a and b bind some name to different texts / only one of them binds it?
		for n, x := range table[a] {
			y, ok := table[b][n]
			if !ok || h.Objs[x].Kind != h.Objs[y].Kind || h.Objs[x].Spec != h.Objs[y].Spec {
				return true
			}
		}
		for n := range table[b] {
			if _, ok := table[a][n]; !ok {
				return true
			}
		}
		return false
	}
	sharing := map[[2]int]bool{} // pairs of roots that share a type object and bind differently
	for a := range table {
		for b := range table {
			if a >= b || !differ(a, b) {
				continue
			}
			for _, x := range table[a] {
				for _, y := range table[b] {
					if x == y && h.Objs[x].Kind == KSchema {
						sharing[[2]int{a, b}] = true
					}
				}
			}
		}
	}
	if len(sharing) > 0 {
		out = append(out, "bind_type_object_shared_by_roots_that_bind_differently")
	}
	// a root is observed (compiled) after another root of such a pair was compiled
	compiled := map[int]bool{}
	after, nobs := false, 0
	first := -1
	for _, op := range h.Ops {
		if !compilesTarget(op.Code) || isAdded[op.Obj] || table[op.Obj] == nil {
			continue
		}
		for p := range sharing {
			if (p[0] == op.Obj && compiled[p[1]]) || (p[1] == op.Obj && compiled[p[0]]) {
				after = true
				nobs++
			}
		}
		if first < 0 {
			first = op.Obj
		}
		compiled[op.Obj] = true
	}
	if after {
		out = append(out, "bind_root_observed_after_a_differently_binding_root_compiled_the_shared_type")
		out = append(out, fmt.Sprintf("bind_such_observations_%02d", imin(nobs, 12)))
	}
	if first >= 0 {
		rank := 0
		for a := range table {
			if a < first {
				rank++
			}
		}
		out = append(out, fmt.Sprintf("bind_first_compiled_root_is_number_%d_of_%d", rank+1, len(table)))
	}
	return out
}

// optionStats: what a history exercises of the per-object option.
func optionStats(h *History) []string {
	var out []string
	isAdded := map[int]bool{}
	for _, op := range h.Ops {
		if op.Code == OpAddType && op.Arg != op.Obj {
			isAdded[op.Arg] = true
		}
	}
	nOpt := 0
	for _, o := range h.Objs {
		if o.Kind == KSchema && o.Opt {
			nOpt++
		}
	}
	if nOpt == 0 {
		return nil
	}
	out = append(out, "opt_histories_with_a_schema_object_created_with_KeysAreOptionalByDefault")
	// pairs (strict root, lenient root) that were given one type object
	adders := map[int][]int{}
	for _, op := range h.Ops {
		if op.Code == OpAddType && !isAdded[op.Obj] && op.Arg != op.Obj && h.Objs[op.Arg].Kind == KSchema {
			adders[op.Arg] = append(adders[op.Arg], op.Obj)
		}
	}
	lenientOf := map[int]map[int]bool{} // strict root -> lenient roots sharing a type object with it
	for _, rs := range adders {
		for _, a := range rs {
			for _, b := range rs {
				if !h.Objs[a].Opt && h.Objs[b].Opt {
					if lenientOf[a] == nil {
						lenientOf[a] = map[int]bool{}
					}
					lenientOf[a][b] = true
				}
			}
		}
	}
	if len(lenientOf) == 0 {
		return out
	}
	out = append(out, "opt_type_object_shared_by_a_strict_and_a_lenient_root")
	compiled := map[int]bool{}
	after, lacking, lenientLacking := false, false, false
	for _, op := range h.Ops {
		if h.Objs[op.Obj].Kind != KSchema || !compilesTarget(op.Code) {
			continue
		}
		for b := range lenientOf[op.Obj] {
			if compiled[b] {
				after = true
				if op.Code == OpValidate && DocLacksKey(h.Objs[op.Arg].Spec) {
					lacking = true
				}
			}
		}
		if h.Objs[op.Obj].Opt && op.Code == OpValidate && DocLacksKey(h.Objs[op.Arg].Spec) {
			lenientLacking = true
		}
		compiled[op.Obj] = true
	}
	if after {
		out = append(out, "opt_strict_root_observed_after_a_lenient_root_compiled_the_shared_type")
	}
	if lacking {
		out = append(out, "opt_strict_root_validates_a_document_lacking_a_key_after_a_lenient_root_compiled_the_shared_type")
	}
	if lenientLacking {
		out = append(out, "opt_lenient_root_validates_a_document_lacking_a_key")
	}
	return out
}

// exampleKind: the kind of the value an Example() result starts with.
func exampleKind(res string) string {
	if len(res) < 3 {
		return "empty"
	}
	switch res[1] {
	case '[':
		return "array"
	case '{':
		return "object"
	case '\\':
		return "string"
	}
	return "scalar"
}

func opsText(h *History, ops []Op) string {
	var sb []string
	for _, o := range ops {
		sb = append(sb, h.OpText(o))
	}
	return strings.Join(sb, "; ")
}

func verdictOf(res string) string {
	f := strings.Fields(res)
	if len(f) == 0 {
		return ""
	}
	last := f[len(f)-1]
	switch {
	case last == "ok" || last == "EOF" || last == "Eplain":
		return last
	case strings.HasPrefix(last, "E"):
		if i := strings.Index(last, "@"); i > 0 {
			return last[:i]
		}
		if i := strings.Index(last, ":"); i > 0 {
			return last[:i]
		}
		return last
	case strings.HasPrefix(res, "PANIC"):
		return "PANIC"
	}
	return ""
}

// runAll evaluates histories [0,n) on `workers` goroutines (objects are never
// shared between goroutines; the library's pools are).  A history that does
// not finish within the deadline ends the run: timedOut = its index.
func runAll(n, workers int, withKnown, reverse bool, garbage bool) (out []HistResult, timedOut int) {
	out = make([]HistResult, n)
	timedOut = -1
	var next atomic.Int64
	current := make([]atomic.Int64, workers) // index+1 of the history in flight
	started := make([]atomic.Int64, workers)
	var wg sync.WaitGroup
	for w := 0; w < workers; w++ {
		wg.Add(1)
		go func(w int) {
			defer wg.Done()
			var sink [][]byte
			for {
				j := int(next.Add(1)) - 1
				if j >= n {
					return
				}
				i := j
				if reverse {
					i = n - 1 - j
				}
				started[w].Store(time.Now().UnixNano())
				current[w].Store(int64(i) + 1)
				out[i] = RunHistory(histID(i), withKnown)
				current[w].Store(0)
				if garbage && j%7 == 0 {
					for k := 0; k < 50; k++ {
						sink = append(sink, make([]byte, 1<<(8+k%10)))
					}
					if j%63 == 0 {
						sink = nil
						runtime.GC() // empties the sync.Pools, moves the heap along
					}
				}
			}
		}(w)
	}
	done := make(chan struct{})
	go func() { wg.Wait(); close(done) }()
	tick := time.NewTicker(300 * time.Millisecond)
	defer tick.Stop()
	for {
		select {
		case <-done:
			return out, -1
		case <-tick.C:
			for w := range current {
				if c := current[w].Load(); c != 0 && time.Since(time.Unix(0, started[w].Load())) > 30*time.Second {
					return out, int(c - 1)
				}
			}
		}
	}
}

// Run is the command c11-history.
//
//	--no-known   do not generate the K-C11-sharedallof situations
//	--no-multierr  skip the multi-error stream (multierr.go)
//	--only-multierr  the multi-error stream alone
//	--no-docseq    skip the one-document stream (docseq.go)
//	--only-docseq  the one-document stream alone
//	--child      (hidden) print one digest per history and exit
func Run(args []string) {
	withKnown, child, garbage, noMulti, onlyMulti := true, false, false, false, false
	noDoc, onlyDoc := false, false
	for _, a := range args {
		switch a {
		case "--no-known":
			withKnown = false
		case "--child":
			child = true
		case "--garbage":
			garbage = true
		case "--no-multierr":
			noMulti = true
		case "--only-multierr":
			onlyMulti = true
		case "--no-docseq":
			noDoc = true
		case "--only-docseq":
			onlyDoc, noMulti = true, true
		}
	}
	n := nBase() + nKeys()
	workers := runtime.GOMAXPROCS(0)
	if child {
		rs, to := runAll(n, workers, withKnown, false, garbage)
		w := bufio.NewWriter(os.Stdout)
		for j, r := range rs {
			fmt.Fprintf(w, "D %d %s\n", j, r.Digest) // slot number (the history is histID(j))
		}
		if to >= 0 {
			fmt.Fprintf(w, "TIMEOUT %d\n", to)
		}
		w.Flush()
		return
	}
	rep := vh.NewReport("c11-history",
		"histories of <= 12 public operations (object creations not counted) over 1..3 root schemas drawn from a pool of "+fmt.Sprint(len(AllRoots()))+" root texts + "+fmt.Sprint(nTypeTexts(false))+" "+
			"user-type texts (valid, syntactically / semantically invalid, failing in an added type, enum rules, regex types, allOf, or, key "+
			"shortcuts, recursion, self-added type; every ROOT KIND: scalar of each kind, array empty / of scalars / of objects / nested / of references, "+
			"empty object, type-shortcut roots @t and or-shortcut roots @a | @b resolving to each kind, or-rule roots), their AddRule/AddType set-up interleaved with Check/Validate/Len/Example/GetAST/"+
			"UsedUserTypes, late AddType/AddRule, "+fmt.Sprint(NDocs())+" documents incl. malformed / trailing bytes (Check/Len/NextLexeme, Check before Validate on one object; one document object in three created with json.AllowTrailingNonSpaceCharacters(), the fresh documents of the oracle likewise), 6 enum rules, 6 regex types; type, rule and document "+
			"objects are shared between schemas of a history (one history in three is sharing-focused: 2-3 roots with common type / rule specs, common objects nearly always shared, set-up first, fitting documents); "+
			"one history in five is a BINDING history: 2-3 roots of the family ("+fmt.Sprint(len(bindShareds))+" shared type texts referring to @x / @y by every reference form) x ("+fmt.Sprint(len(bindBindings))+" bindings of the name per root: "+
			"each JSON kind, two object shapes, regex type, type with a missing reference, invalid, not loading, missing) x (4 root forms) = "+fmt.Sprint(len(BindRoots()))+" root texts, ONE type object added to all roots, roots set up and compiled in any order; "+
			"OPTION: every schema object (root or type) is created with jschema.KeysAreOptionalByDefault() or without, drawn per object (probability 1/5), the fresh objects of the oracle likewise; "+
			"plus "+fmt.Sprint(nKeys())+" KEYS histories (numbers "+fmt.Sprint(keysBase)+"+k): 2-3 roots of the family ("+fmt.Sprint(len(keyShareds))+" shared type texts with UNMARKED keys: flat, partly marked optional true / false, nested objects / arrays of objects, "+
			"reference to a second shared type, type owning a type, array type, keys with rules, additionalProperties) x ("+fmt.Sprint(len(keyForms))+" root forms) = "+fmt.Sprint(len(KeyRoots()))+" root texts over ONE type object, each root created with the option with probability 1/2 and each type object with 1/4, "+
			"documents: the root's full document and every document lacking exactly one key of it at any depth; "+
			"every result is compared with the same operation on fresh objects (same "+
			"AddType/AddRule prefix), every handed-out value (example bytes, AST, error value, used-type slice, enum values, lexeme) is deep-copied at hand-out and re-read after EVERY later call (live and fresh-object) and at the end; whole run repeated in-process and in 3 child processes. "+
			"MULTI-ERROR cases (keys 'multierr: …'): root + 2-4 added types with several simultaneous errors (in the root, in named types, in unnamed or-shortcut / or rule-set types, AddType failures; two site profiles, one with mostly unnamed, one with mostly named offending types), "+
			"the FILE NAME of the root and of every type object an input of its own drawn independently of the type names (permutation of a pool of "+fmt.Sprint(len(meFileNames))+" names incl. the empty name / independent draws with equal names / one name for all / the type's own name), each input constructed from scratch "+fmt.Sprint(vh.Pick(300, 600))+
			" times with heap churn (allocations of varying sizes and kinds, big blocks, drops, occasional runtime.GC()) between all calls on all workers at once: AddType errors, Check (code, position, file, user type, message) and one more call must be identical in all constructions. "+
			"DOCUMENT cases (keys 'docseq: …'): "+fmt.Sprint(nDocSeq())+" documents = blanks + JSON value ("+fmt.Sprint(len(dsValues))+" values of every kind, well-formed and malformed) + tail ("+fmt.Sprint(len(dsTails))+" tails: nothing, blanks, non-space text of several kinds adjacent to the value or after a blank / line break), "+
			"created with json.AllowTrailingNonSpaceCharacters() or without (drawn independently of the text), and 2-6 calls on that ONE object in any order with repetitions: read to the end (NextLexeme until EOF / error: the whole lexeme stream), 1-3 single NextLexeme, Validate of a fresh schema (fitting or not), Check, Len; "+
			"every call's result (lexeme stream with bounds, verdict, error code and position, length) is compared with the same call on a FRESH document with the same text and option (for the cursor-moving calls after replaying the cursor-moving calls made since the document was last at its start: new, or rewound by its first Check / first Len), lexemes handed out are re-read after every later call. "+
			"Non-trivial = some object is the target of >= 2 non-set-up operations or the argument of >= 2 operations; multi-error case: >= 2 wrong sites; document case: a cursor-moving call that is not the first call")
	// diffs are buffered so that unclassified ones are reported first (the
	// report keeps the first 25 only)
	var buffered []vh.Diff
	addDiff := func(d vh.Diff) { buffered = append(buffered, d) }
	finish := func() {
		for _, d := range buffered {
			if d.Class == "" {
				rep.AddDiff(d)
				rep.Stat("diffs_unclassified_" + d.Component)
			}
		}
		for _, d := range buffered {
			if d.Class != "" {
				rep.AddDiff(d)
				rep.Stat("diffs_" + d.Class + "_" + d.Component)
			}
		}
		rep.Finish()
	}
	// the multi-error stream first: the heap is still small, a GC cycle cheap
	if !noMulti {
		nme, reps := vh.Pick(160, 1200), vh.Pick(300, 600)
		t0 := time.Now()
		mrs, mto := runMultiErr(nme, reps, workers)
		if mto >= 0 {
			addDiff(vh.Diff{Component: "C11-fresh-constructions", Input: fmt.Sprintf("multi-error case #%d: %s", mto, meGenerate(mto).Text(true)), Impl: "TIMEOUT", Model: "every operation terminates"})
			finish()
			return
		}
		reportMultiErr(rep, addDiff, mrs, reps)
		rep.Extra["multierr_seconds"] = fmt.Sprintf("%.1f", time.Since(t0).Seconds())
		mrs = nil
		runtime.GC()
	}
	if onlyMulti {
		finish()
		return
	}
	// the one-document stream
	if !noDoc && !onlyMulti {
		t0 := time.Now()
		drs, dto := runDocSeq(nDocSeq(), workers)
		if dto >= 0 {
			addDiff(vh.Diff{Component: "C11-document", Input: fmt.Sprintf("document case #%d: %s", dto, dsGenerate(dto).Text()), Impl: "TIMEOUT", Model: "every operation terminates"})
			finish()
			return
		}
		reportDocSeq(rep, addDiff, drs)
		rep.Extra["docseq_seconds"] = fmt.Sprintf("%.1f", time.Since(t0).Seconds())
		if onlyDoc {
			finish()
			return
		}
	}
	rs, to := runAll(n, workers, withKnown, false, false)
	if to >= 0 {
		h := genHistory(histID(to), withKnown)
		addDiff(vh.Diff{Component: "C11-history", Input: fmt.Sprintf("history #%d: %s", histID(to), h.Text()), Impl: "TIMEOUT", Model: "every operation terminates"})
		finish()
		return
	}
	for _, r := range rs {
		rep.Case(r.Key, r.Nontrivial)
		for _, s := range r.Stats {
			rep.Stat(s)
		}
		for _, d := range r.Diffs {
			addDiff(d)
		}
	}
	base := make([]string, n)
	for i, r := range rs {
		base[i] = r.Digest
	}
	compare := func(label string, other []string) {
		bad := 0
		for i := range base {
			if i < len(other) && other[i] == base[i] {
				continue
			}
			bad++
			id := histID(i)
			h := genHistory(id, withKnown)
			if bad > 5 {
				addDiff(vh.Diff{Component: "C11-mapiter", Input: fmt.Sprintf("history #%d (vh.NewRand(%d)): %s", id, caseRand(id), h.Text()),
					Impl: "transcript digest differs in " + label, Model: "identical canonical results in every run", Class: h.KnownClass(len(h.Ops))})
				continue
			}
			detail := "transcript digest " + base[i] + " in the first pass, "
			if i < len(other) {
				detail += other[i]
			} else {
				detail += "missing"
			}
			detail += " in " + label
			// try to exhibit both transcripts in-process
			seen := map[string]string{rs[i].Digest: rs[i].Transcript}
			for t := 0; t < 30 && len(seen) < 2; t++ {
				r2 := RunHistory(id, withKnown)
				seen[r2.Digest] = r2.Transcript
			}
			if len(seen) >= 2 {
				var ks []string
				for k := range seen {
					ks = append(ks, k)
				}
				sort.Strings(ks)
				detail += "; differing line: " + firstDiffLine(seen[ks[0]], seen[ks[1]])
			}
			addDiff(vh.Diff{Component: "C11-mapiter", Input: fmt.Sprintf("history #%d (vh.NewRand(%d)): %s", id, caseRand(id), h.Text()),
				Impl: detail, Model: "identical canonical results in every run (map iteration order, scheduling, heap layout must not matter)",
				Class: h.KnownClass(len(h.Ops))})
		}
		rep.Stat("runs_compared")
	}
	// second pass in the same process: other order, other worker count
	rs2, to2 := runAll(n, imax(2, workers/3), withKnown, true, true)
	if to2 >= 0 {
		addDiff(vh.Diff{Component: "C11-history", Input: fmt.Sprintf("history #%d (second pass)", histID(to2)), Impl: "TIMEOUT", Model: "every operation terminates"})
		finish()
		return
	}
	d2 := make([]string, n)
	for i, r := range rs2 {
		d2[i] = r.Digest
		for _, d := range r.Diffs {
			d.Note = "second in-process pass"
			addDiff(d)
		}
	}
	compare("the second in-process pass (reverse order, fewer workers, garbage + GC in between)", d2)
	// child processes
	type childCfg struct {
		procs   int
		garbage bool
	}
	cfgs := []childCfg{{2, false}, {5, true}, {workers, true}}
	outs := make([][]string, len(cfgs))
	problems := make([]string, len(cfgs))
	var wg sync.WaitGroup
	for ci, cfg := range cfgs {
		wg.Add(1)
		go func(ci int, cfg childCfg) {
			defer wg.Done()
			outs[ci], problems[ci] = runChild(n, cfg.procs, cfg.garbage, withKnown)
		}(ci, cfg)
	}
	wg.Wait()
	for ci, cfg := range cfgs {
		label := fmt.Sprintf("child process GOMAXPROCS=%d garbage=%v", cfg.procs, cfg.garbage)
		if problems[ci] != "" {
			addDiff(vh.Diff{Component: "C11-mapiter", Input: label, Impl: problems[ci], Model: "child run completes"})
			continue
		}
		compare(label, outs[ci])
	}
	rep.Extra["known_stream"] = fmt.Sprint(withKnown)
	finish()
}

// nTypeTexts: user-type texts of the pool outside (false) / inside (true) the binding family.
func nTypeTexts(bind bool) int {
	n := 0
	for _, s := range Schemas {
		if s.IsType && s.Bind == bind && !s.Keys {
			n++
		}
	}
	return n
}

func firstDiffLine(a, b string) string {
	la, lb := strings.Split(a, "\n"), strings.Split(b, "\n")
	for i := range la {
		if i >= len(lb) || la[i] != lb[i] {
			x := ""
			if i < len(lb) {
				x = lb[i]
			}
			return fmt.Sprintf("line %d: %q vs %q", i, la[i], x)
		}
	}
	return "(none found)"
}

func runChild(n, procs int, garbage, withKnown bool) ([]string, string) {
	exe, err := os.Executable()
	if err != nil {
		return nil, "cannot find own executable: " + err.Error()
	}
	args := []string{"c11-history", "--child"}
	if garbage {
		args = append(args, "--garbage")
	}
	if !withKnown {
		args = append(args, "--no-known")
	}
	cmd := exec.Command(exe, args...)
	cmd.Env = append(os.Environ(), "GOMAXPROCS="+strconv.Itoa(procs))
	var stdout, stderr bytes.Buffer
	cmd.Stdout, cmd.Stderr = &stdout, &stderr
	done := make(chan error, 1)
	if err := cmd.Start(); err != nil {
		return nil, "cannot start child: " + err.Error()
	}
	go func() { done <- cmd.Wait() }()
	select {
	case err := <-done:
		if err != nil {
			t := stderr.String()
			if len(t) > 800 {
				t = t[len(t)-800:]
			}
			return nil, fmt.Sprintf("child failed: %v: %s", err, t)
		}
	case <-time.After(time.Duration(vh.Pick(120, 1200)) * time.Second):
		cmd.Process.Kill()
		return nil, "TIMEOUT"
	}
	out := make([]string, n)
	sc := bufio.NewScanner(&stdout)
	for sc.Scan() {
		f := strings.Fields(sc.Text())
		if len(f) == 3 && f[0] == "D" {
			if i, err := strconv.Atoi(f[1]); err == nil && i >= 0 && i < n {
				out[i] = f[2]
			}
		}
		if len(f) == 2 && f[0] == "TIMEOUT" {
			return nil, "TIMEOUT in history #" + f[1]
		}
	}
	return out, ""
}

func imin(a, b int) int {
	if a < b {
		return a
	}
	return b
}

func imax(a, b int) int {
	if a > b {
		return a
	}
	return b
}
