package c11

import (
	"fmt"
	"math/rand"
	"strings"
)

// pool_bind.go: the BINDING family of the pool.
//
// C11 quantifies over histories "on the same or on other Schema objects".  A
// type Schema object may be added (AddType) to several root schemas; the names
// the type's text refers to are resolved in the type table of the ROOT that is
// being compiled, so ONE shared object means different things under different
// roots.  Nothing a root learns about the shared object while it compiles
// (verdict of its check, resolved references, example, AST, used types) may
// leak into another root: every call on every root must give what it gives on
// fresh objects.  The family is the product
//
//	shared type text  x  binding of the referred name(s) per root  x  root form
//
// shared type: refers to @x (some also to @y) through each reference form of
// the language — property / array-element / root shortcut, or-shortcut,
// {type: "@x"} next to an example, or rule (short and long spelling), optional
// and nullable reference, key shortcut, additionalProperties, through a second
// shared type (@S -> @M -> @x), inside a nested array of objects.
// binding: @x is an integer, a string (plain / with a rule), an object of one
// or another shape, an array, a boolean, a regex type, an object that itself
// refers to a missing type, a semantically invalid type, a type whose text does
// not load, or is missing altogether.
// root form: the shared type as a property, as the root, as an array element,
// and next to a use of @x by the root itself.
//
// The entries are marked Bind: neither Roots() nor AllRoots() list them (the
// other streams keep their distribution), BindRoots() does.  Their documents
// live in DocsB (not counted by NDocs(), reachable through DocText).

// DocsB: documents of the binding family; document index NDocs()+i is DocsB[i].
var DocsB []string

func bindDocIndex(text string) int {
	for i := 0; i < NDocs(); i++ {
		if DocText(i) == text {
			return i
		}
	}
	for i, d := range DocsB {
		if d == text {
			return NDocs() + i
		}
	}
	DocsB = append(DocsB, text)
	return NDocs() + len(DocsB) - 1
}

type bindShared struct {
	id, text string
	doc      string // document of the type with holes X and Y
	two      bool   // refers to @y as well
	mid      bool   // refers to @M (= the `prop` shared type), which refers to @x
}

type bindBinding struct {
	id   string
	kind int    // KSchema, KRegex, -1 = missing
	text string // schema text (KSchema) / index into Regexes as text (KRegex)
	rx   int
	doc  string // a document value of the bound type
}

type bindForm struct {
	text, doc string // hole D = document of the shared type, X = value of @x
	own       bool   // the root itself refers to @x
}

var bindShareds = []bindShared{
	{id: "prop", text: `{"id": @x}`, doc: `{"id": X}`},
	{id: "trs", text: "{\n  \"id\": \"A-1\" // {type: \"@x\"}\n}", doc: `{"id": X}`},
	{id: "trn", text: "{\n  \"n\": 12 // {type: \"@x\"}\n}", doc: `{"n": X}`},
	{id: "arr", text: `[@x]`, doc: `[X]`},
	{id: "alias", text: `@x`, doc: `X`},
	{id: "orsh", text: `{"id": @x | @y}`, doc: `{"id": Y}`, two: true},
	{id: "orr", text: "{\n  \"id\": 12 // {or: [\"@x\", {type: \"string\"}]}\n}", doc: `{"id": X}`},
	{id: "orr2", text: "{\n  \"id\": \"A-1\" // {or: [{type: \"@x\"}, {type: \"@y\"}]}\n}", doc: `{"id": X}`, two: true},
	{id: "opt", text: "{\n  \"id\": @x, // {optional: true}\n  \"n\": 1\n}", doc: `{"id": X, "n": 1}`},
	{id: "null", text: "{\n  \"id\": @x // {nullable: true}\n}", doc: `{"id": X}`},
	{id: "key", text: `{@x: 1}`, doc: `{"A-1": 1}`},
	{id: "addl", text: "{ // {additionalProperties: \"@x\"}\n  \"n\": 1\n}", doc: `{"n": 1, "more": X}`},
	{id: "nest", text: `{"in": @M}`, doc: `{"in": {"id": X}}`, mid: true},
	{id: "two", text: `{"a": @x, "b": @y}`, doc: `{"a": X, "b": Y}`, two: true},
	{id: "deep", text: `{"l": [{"id": @x}]}`, doc: `{"l": [{"id": X}]}`},
}

var bindBindings = []bindBinding{
	{id: "int", kind: KSchema, text: `12`, doc: `12`},
	{id: "str", kind: KSchema, text: `"A-1"`, doc: `"A-1"`},
	{id: "strr", kind: KSchema, text: `"A-1" // {minLength: 2}`, doc: `"A-7"`},
	{id: "obj", kind: KSchema, text: `{"v": 1}`, doc: `{"v": 1}`},
	{id: "obj2", kind: KSchema, text: `{"v": "s", "w": [1]}`, doc: `{"v": "s", "w": [1]}`},
	{id: "arr", kind: KSchema, text: `[12]`, doc: `[12]`},
	{id: "bool", kind: KSchema, text: `true`, doc: `true`},
	{id: "rx", kind: KRegex, rx: 1, doc: `"abc-12"`},
	{id: "deepmiss", kind: KSchema, text: `{"v": @zz}`, doc: `{"v": 1}`},
	{id: "sem", kind: KSchema, text: `"s" // {minLength: 5}`, doc: `"A-1"`},
	{id: "broken", kind: KSchema, text: `{"x":`, doc: `"A-1"`},
	{id: "missing", kind: -1, doc: `"A-1"`},
}

var bindForms = []bindForm{
	{text: `{"item": @S}`, doc: `{"item": D}`},
	{text: `@S`, doc: `D`},
	{text: `[@S]`, doc: `[D]`},
	{text: `{"item": @S, "own": @x}`, doc: `{"item": D, "own": X}`, own: true},
}

// yOf: the binding of @y that goes with binding b of @x (another one).
func yOf(b int) int { return (b*5 + 3) % len(bindBindings) }

func bindRootID(s, b, f int) string {
	return fmt.Sprintf("b_%s_%s_f%d", bindShareds[s].id, bindBindings[b].id, f)
}

func initBindFamily() {
	bspec := make([]int, len(bindBindings))
	for i, b := range bindBindings {
		if b.kind == KSchema {
			Schemas = append(Schemas, SchemaSpec{ID: "bx_" + b.id, Text: b.text, IsType: true, Ext: true, Bind: true})
			bspec[i] = len(Schemas) - 1
		}
	}
	sspec := make([]int, len(bindShareds))
	for i, s := range bindShareds {
		Schemas = append(Schemas, SchemaSpec{ID: "bs_" + s.id, Text: s.text, IsType: true, Ext: true, Bind: true})
		sspec[i] = len(Schemas) - 1
	}
	ref := func(name string, b int) (TypeRef, bool) {
		switch bb := bindBindings[b]; bb.kind {
		case KSchema:
			return TypeRef{Name: name, Kind: KSchema, Spec: bspec[b]}, true
		case KRegex:
			return TypeRef{Name: name, Kind: KRegex, Spec: bb.rx}, true
		}
		return TypeRef{}, false
	}
	for si, s := range bindShareds {
		for bi, b := range bindBindings {
			for fi, f := range bindForms {
				if fi != 0 && fi != 1+(si+bi)%(len(bindForms)-1) {
					continue // form 0 and one of the others per (shared, binding)
				}
				types := []TypeRef{{Name: "@S", Kind: KSchema, Spec: sspec[si]}}
				if s.mid {
					types = append(types, TypeRef{Name: "@M", Kind: KSchema, Spec: sspec[0]})
				}
				if t, ok := ref("@x", bi); ok {
					types = append(types, t)
				}
				y := bindBindings[yOf(bi)]
				if s.two {
					if t, ok := ref("@y", yOf(bi)); ok {
						types = append(types, t)
					}
				}
				id := bindRootID(si, bi, fi)
				Schemas = append(Schemas, SchemaSpec{ID: id, Text: f.text, Types: types, Ext: true, Bind: true})
				d := strings.ReplaceAll(strings.ReplaceAll(s.doc, "X", b.doc), "Y", y.doc)
				d = strings.ReplaceAll(strings.ReplaceAll(f.doc, "D", d), "X", b.doc)
				docFit[id] = append(docFit[id], bindDocIndex(d))
				// a document of the OTHER kind as well (fits under another binding)
				o := bindBindings[(bi+1)%len(bindBindings)]
				d2 := strings.ReplaceAll(strings.ReplaceAll(s.doc, "X", o.doc), "Y", y.doc)
				d2 = strings.ReplaceAll(strings.ReplaceAll(f.doc, "D", d2), "X", b.doc)
				docFit[id] = append(docFit[id], bindDocIndex(d2))
			}
		}
	}
}

// BindRoots lists the root specs of the binding family.
func BindRoots() []int {
	var out []int
	for i, s := range Schemas {
		if !s.IsType && s.Bind && !s.Keys {
			out = append(out, i)
		}
	}
	return out
}

// bindRootSpecs draws the roots of a binding history: ONE shared type text,
// 2-3 roots that (mostly) bind the name(s) it refers to differently, each in
// one of its root forms.
func bindRootSpecs(r *rand.Rand) []int {
	s := r.Intn(len(bindShareds))
	n := 2 + r.Intn(2)
	var out []int
	var bs []int
	for len(out) < n {
		b := r.Intn(len(bindBindings))
		if len(bs) > 0 && r.Intn(7) == 0 {
			b = bs[r.Intn(len(bs))] // the consistent case: the same binding again
		}
		f := 0
		if r.Intn(2) == 0 {
			f = 1 + (s+b)%(len(bindForms)-1)
		}
		bs = append(bs, b)
		out = append(out, idx(bindRootID(s, b, f)))
	}
	return out
}
