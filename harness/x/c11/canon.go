package c11

import (
	"encoding/json"
	stdErrors "errors"
	"fmt"
	"io"
	"regexp"
	"strconv"
	"strings"

	jschema "github.com/jsightapi/jsight-schema-go-library"
)

// CanonErr: verdict, error code and position.  Message text is NOT part of the
// canonical result (C11 lists verdict, code, position, AST, example, used
// types).  A bare error (no code) is "Eplain".
func CanonErr(err error) string {
	if err == nil {
		return "ok"
	}
	if stdErrors.Is(err, io.EOF) {
		return "EOF"
	}
	var pe interface {
		ErrCode() int
		Position() uint
	}
	if stdErrors.As(err, &pe) {
		// the position is an offset into a file: the blamed file (root schema,
		// an added type, the document) belongs to it
		var fe interface{ Filename() string }
		if stdErrors.As(err, &fe) {
			return fmt.Sprintf("E%d@%d:%s", pe.ErrCode(), pe.Position(), fe.Filename())
		}
		return fmt.Sprintf("E%d@%d", pe.ErrCode(), pe.Position())
	}
	var ve interface{ ErrCode() int }
	if stdErrors.As(err, &ve) {
		return fmt.Sprintf("E%d", ve.ErrCode())
	}
	return "Eplain"
}

var ptrRe = regexp.MustCompile(`#0x[0-9a-fA-F]+|#%!p\([^)]*\)`)

// CanonPtr replaces the generated names of anonymous types ("#0xc000123456",
// fmt %p of the type's address) by "#1", "#2", … in order of first appearance.
func CanonPtr(s string) string {
	if !strings.Contains(s, "#") {
		return s
	}
	seen := map[string]int{}
	return ptrRe.ReplaceAllStringFunc(s, func(m string) string {
		n, ok := seen[m]
		if !ok {
			n = len(seen) + 1
			seen[m] = n
		}
		return "#" + strconv.Itoa(n)
	})
}

// ASTJSON: the AST as JSON (encoding/json; the rule maps marshal in their
// insertion order).
func ASTJSON(n jschema.ASTNode) string {
	b, err := json.Marshal(n)
	if err != nil {
		return "MARSHAL-ERROR " + err.Error()
	}
	return string(b)
}

// ErrSnapshot: everything an error value shows to its holder.
func ErrSnapshot(err error) string {
	if err == nil {
		return "nil"
	}
	s := err.Error() + " | " + CanonErr(err)
	var pe jschema.ParsingError
	if stdErrors.As(err, &pe) {
		s += " | " + pe.Message()
	}
	return s
}
