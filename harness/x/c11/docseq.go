package c11

import (
	"fmt"
	"strings"
	"sync"
	"sync/atomic"
	"time"

	root "github.com/jsightapi/jsight-schema-go-library"
	"github.com/jsightapi/jsight-schema-go-library/formats/json"
	"github.com/jsightapi/jsight-schema-go-library/notations/jschema"

	"verifharness/vh"
)

// docseq.go: histories on ONE DOCUMENT object.
//
// "Equal inputs give equal results … however often and in whatever order
// operations were invoked before on the same … Document".  A document is made
// from a name, a text and OPTIONS (json.AllowTrailingNonSpaceCharacters()): the
// option is an input like the text, and every scanner the document ever works
// with (the one of the constructor, the ones of the rewinds around Check / Len,
// one made on demand) has to honour it.  A case is one document - a JSON value
// (well-formed of every kind, or malformed) with blanks before it and a TAIL after
// it (nothing, blanks, non-space text of several kinds directly after the value or
// after a blank / a line break) - created with or without the option, and 2-6
// calls on that one object, in any order and with repetitions:
//
//	read   NextLexeme until EOF or an error (the whole lexeme stream: kind and
//	       bounds of every lexeme, how it ends: EOF / code and position)
//	next   1-3 single NextLexeme calls
//	valid  Validate of a fresh schema (fitting the value or not) against it
//	check  Check           len   Len
//
// Every call's result is compared with the same call on a FRESH document made
// from the same text with the same option.  Reading of "fresh" for the calls
// that move the cursor (read, next, valid): a document is a cursor, so the fresh
// document first gets the cursor-moving calls the live one got since it was last
// at its start, where "at its start" is: newly made, or rewound by the FIRST
// Check / the FIRST Len (they scan the whole text and put the cursor back to the
// start; later ones are answered from their once-cell and leave it alone).  Check
// and Len themselves are compared with a fresh document to which nothing was done:
// they are functions of text and option alone.  This is the reading the unchanged
// tree satisfies (json.go: "rewind rewinds document to the beginning").
// Lexemes handed out are values handed to the caller: their bytes are re-read
// after every later call.

type dsKind int

const (
	dsRead dsKind = iota
	dsNext
	dsValid
	dsCheck
	dsLen
)

var dsKindNames = []string{"read_to_end", "NextLexeme", "Validate", "Check", "Len"}

type dsOp struct {
	kind   dsKind
	n      int // dsNext: number of calls
	schema int // dsValid: index into dsSchemas
}

type dsCase struct {
	idx   int
	text  string
	opt   bool
	value int // index into dsValues
	tail  int // index into dsTails
	ops   []dsOp
}

var dsSchemas = []string{
	/*0*/ `{"a": 1}`,
	/*1*/ "{\n  \"id\": 5,\n  \"tags\": [\"x\"]\n}",
	/*2*/ `1`,
	/*3*/ `"s"`,
	/*4*/ `[1]`,
	/*5*/ `{"a": {"b": [1, 2]}}`,
	/*6*/ `true`,
	/*7*/ `null`,
	/*8*/ `{}`,
	/*9*/ `1 // {type: "any"}`,
	/*10*/ "[ // {type: \"array\", minItems: 0}\n  1, \"s\"\n]",
	/*11*/ `2.5`,
}

// dsValues: the top-level value of the document and the schemas that fit it.
var dsValues = []struct {
	text string
	fit  []int
}{
	{`{"a": 1}`, []int{0, 9}},
	{`{"id": 1, "tags": ["a", "b"]}`, []int{1, 9}},
	{`7`, []int{2, 9}},
	{`-12`, []int{2, 9}},
	{`"str"`, []int{3, 9}},
	{`""`, []int{3, 9}},
	{`[1, 2, 3]`, []int{4, 9}},
	{`[]`, []int{4, 9, 10}},
	{`{"a": {"b": [3, 4]}}`, []int{5, 9}},
	{`true`, []int{6, 9}},
	{`false`, []int{6, 9}},
	{`null`, []int{7, 9}},
	{`{}`, []int{8, 9}},
	{`[7, "q"]`, []int{10, 9}},
	{`0.5`, []int{11, 9}},
	{`{"a": 1, "zz": 2}`, []int{0, 9}},
	{`{"a": "x"}`, []int{0, 9}},
	// malformed / unfinished values
	{`{"a": 1,`, []int{0}},
	{`{"a": }`, []int{0}},
	{`[1, 2,, 3]`, []int{4}},
	{`[1, 2`, []int{4}},
	{`"abc`, []int{3}},
	{`tru`, []int{6}},
	{`{"a" 1}`, []int{0}},
	{``, []int{2, 9}},
}

var dsHeads = []string{"", "", "", " ", "\n", " \t\r\n"}

// dsTails: what follows the value.
var dsTails = []string{
	"", "", " ", "\n", " \t\r\n",
	" x", "x", "\nHTTP/1.1 200 OK", "}", " ]", ",", " 1", "1", " {}", "{}", "\n\n{\"next\": 1}", " \"", "\"q\"", " // c", "\n# c", " null", ":", "\x00", " \xc3\xa9",
}

func dsGenerate(i int) *dsCase {
	r := vh.NewRand(14000000 + int64(i))
	c := &dsCase{idx: i}
	c.value = r.Intn(len(dsValues))
	if r.Intn(4) == 0 {
		c.value = r.Intn(17) // a well-formed one
	}
	c.tail = r.Intn(len(dsTails))
	c.text = dsHeads[r.Intn(len(dsHeads))] + dsValues[c.value].text + dsTails[c.tail]
	// the option: an input of its own, drawn independently of the text
	c.opt = vh.NewRand(14500000+int64(i)).Intn(2) == 0
	n := 2 + r.Intn(5)
	for k := 0; k < n; k++ {
		var op dsOp
		switch x := r.Intn(100); {
		case x < 25:
			op.kind = dsRead
		case x < 38:
			op.kind, op.n = dsNext, 1+r.Intn(3)
		case x < 63:
			op.kind = dsValid
			fit := dsValues[c.value].fit
			if r.Intn(4) == 0 {
				op.schema = r.Intn(len(dsSchemas))
			} else {
				op.schema = fit[r.Intn(len(fit))]
			}
		case x < 84:
			op.kind = dsCheck
		default:
			op.kind = dsLen
		}
		c.ops = append(c.ops, op)
	}
	return c
}

func (c *dsCase) ctor() string {
	if c.opt {
		return fmt.Sprintf("json.New(\"doc\", %q, json.AllowTrailingNonSpaceCharacters())", c.text)
	}
	return fmt.Sprintf("json.New(\"doc\", %q)", c.text)
}

func (c *dsCase) opText(op dsOp) string {
	switch op.kind {
	case dsRead:
		return "for { d.NextLexeme() } until EOF / error"
	case dsNext:
		return fmt.Sprintf("d.NextLexeme() x %d", op.n)
	case dsValid:
		return fmt.Sprintf("jschema.New(\"s\", %q).Validate(d)", dsSchemas[op.schema])
	case dsCheck:
		return "d.Check()"
	}
	return "d.Len()"
}

func (c *dsCase) opsText(ops []dsOp) string {
	var sb []string
	for _, op := range ops {
		sb = append(sb, c.opText(op))
	}
	return strings.Join(sb, "; ")
}

func (c *dsCase) Text() string { return "d := " + c.ctor() + "; " + c.opsText(c.ops) }

func (c *dsCase) newDoc() root.Document {
	if c.opt {
		return json.New("doc", c.text, json.AllowTrailingNonSpaceCharacters())
	}
	return json.New("doc", c.text)
}

// dsHeld: a lexeme handed out, with the copy of what it showed at hand-out time.
type dsHeld struct {
	desc   string
	snap   string
	reread func() string
}

const dsReadCap = 400

// dsExec performs one call on d; held collects the lexemes it hands out (nil: not wanted).
func dsExec(d root.Document, op dsOp, held *[]dsHeld, desc string) (res string) {
	defer func() {
		if r := recover(); r != nil {
			res += fmt.Sprintf("PANIC %v", r)
		}
	}()
	next := func(sb *strings.Builder) (stop bool) {
		lex, err := d.NextLexeme()
		e := CanonErr(err)
		if err != nil && e != "EOF" {
			sb.WriteString(e)
			return true
		}
		fmt.Fprintf(sb, "%s[%d:%d]", lex.Type().String(), lex.Begin(), lex.End())
		if held != nil {
			show := func() string {
				return vh.Recover(func() string {
					return fmt.Sprintf("%s[%d:%d] %q", lex.Type().String(), lex.Begin(), lex.End(), lex.Value())
				})
			}
			*held = append(*held, dsHeld{desc: desc + " lexeme", snap: show(), reread: show})
		}
		if err != nil {
			sb.WriteString(" EOF")
			return true
		}
		sb.WriteString(" ")
		return false
	}
	switch op.kind {
	case dsRead:
		var sb strings.Builder
		for k := 0; k < dsReadCap; k++ {
			if next(&sb) {
				return sb.String()
			}
		}
		return sb.String() + "… (no end after " + fmt.Sprint(dsReadCap) + " calls)"
	case dsNext:
		var sb strings.Builder
		for k := 0; k < op.n; k++ {
			next(&sb)
			sb.WriteString("| ")
		}
		return sb.String()
	case dsValid:
		return CanonErr(jschema.New("s", dsSchemas[op.schema]).Validate(d))
	case dsCheck:
		return CanonErr(d.Check())
	}
	n, err := d.Len()
	return fmt.Sprintf("%d %s", n, CanonErr(err))
}

func (k dsKind) movesCursor() bool { return k == dsRead || k == dsNext || k == dsValid }

type dsResult struct {
	c     *dsCase
	diffs []vh.Diff
	stats []string
}

func dsRun(i int) dsResult {
	c := dsGenerate(i)
	res := dsResult{c: c}
	stat := func(s string) { res.stats = append(res.stats, s) }
	input := fmt.Sprintf("document case #%d (dsGenerate(%d)): %s", i, i, c.Text())
	d := c.newDoc()
	var held []dsHeld
	changed := map[int]bool{}
	recheck := func(when string) {
		for hi, h := range held {
			if changed[hi] {
				continue
			}
			if now := h.reread(); now != h.snap {
				changed[hi] = true
				res.diffs = append(res.diffs, vh.Diff{Component: "C11-stable", Input: input,
					Impl:  fmt.Sprintf("value handed out by %s reads %s %s", h.desc, now, when),
					Model: "unchanged since the call: " + h.snap})
			}
		}
	}
	start := 0 // the cursor was last at the start of the text before op #start
	checked, lened, moved, reported := false, false, false, false
	for k, op := range c.ops {
		got := dsExec(d, op, &held, fmt.Sprintf("op #%d %s", k, c.opText(op)))
		recheck(fmt.Sprintf("after op #%d %s", k, c.opText(op)))
		// the same call on a fresh document with the same option
		var replay []dsOp
		if op.kind.movesCursor() {
			for _, o := range c.ops[start:k] {
				if o.kind.movesCursor() {
					replay = append(replay, o)
				}
			}
		}
		f := c.newDoc()
		for _, o := range replay {
			dsExec(f, o, nil, "")
		}
		want := dsExec(f, op, nil, "")
		recheck(fmt.Sprintf("after op #%d %s was repeated on a fresh document", k, c.opText(op)))
		stat("ds_op_" + dsKindNames[op.kind])
		if op.kind.movesCursor() {
			if len(replay) == 0 && k > 0 {
				stat("ds_cursor_call_at_the_start_after_Check_or_Len")
			}
			if len(replay) > 0 {
				stat("ds_cursor_call_after_cursor_calls")
			}
			if op.kind != dsNext {
				stat("ds_" + dsKindNames[op.kind] + "_result_" + verdictOf(got))
			}
		}
		if got != want && !reported { // one diff per case: the first call that differs
			reported = true
			rp := "none"
			if len(replay) > 0 {
				rp = c.opsText(replay)
			}
			res.diffs = append(res.diffs, vh.Diff{Component: "C11-document", Input: input,
				Impl:  fmt.Sprintf("op #%d %s on the re-used document: %s", k, c.opText(op), got),
				Model: fmt.Sprintf("same call on a fresh document %s (calls replayed before it: %s): %s", c.ctor(), rp, want)})
		}
		switch op.kind {
		case dsCheck:
			if !checked {
				if moved {
					stat("ds_first_Check_or_Len_after_the_cursor_moved")
				}
				checked, start, moved = true, k+1, false
			}
		case dsLen:
			if !lened {
				if moved {
					stat("ds_first_Check_or_Len_after_the_cursor_moved")
				}
				lened, start, moved = true, k+1, false
			}
		default:
			moved = true
		}
	}
	recheck("at the end of the case")
	stat("ds_cases")
	if c.opt {
		stat("ds_option_AllowTrailingNonSpaceCharacters")
	} else {
		stat("ds_no_option")
	}
	// what the text is like, by what a fresh document says
	chk := dsExec(c.newDoc(), dsOp{kind: dsCheck}, nil, "")
	chkOther := func() string {
		o := *c
		o.opt = !c.opt
		return dsExec(o.newDoc(), dsOp{kind: dsCheck}, nil, "")
	}()
	stat("ds_fresh_Check_" + verdictOf(chk))
	if chk != chkOther {
		stat("ds_text_whose_Check_depends_on_the_option")
		if c.opt {
			stat("ds_text_whose_Check_depends_on_the_option_and_option_given")
		}
	}
	stat(fmt.Sprintf("ds_held_lexemes_%02d", imin(len(held)/5*5, 40)))
	return res
}

// runDocSeq evaluates document cases [0, n).
func runDocSeq(n, workers int) (out []dsResult, timedOut int) {
	out = make([]dsResult, n)
	var next atomic.Int64
	current := make([]atomic.Int64, workers)
	var wg sync.WaitGroup
	for w := 0; w < workers; w++ {
		wg.Add(1)
		go func(w int) {
			defer wg.Done()
			for {
				i := int(next.Add(1)) - 1
				if i >= n {
					return
				}
				current[w].Store(int64(i) + 1)
				out[i] = dsRun(i)
				current[w].Store(0)
			}
		}(w)
	}
	done := make(chan struct{})
	go func() { wg.Wait(); close(done) }()
	select {
	case <-done:
		return out, -1
	case <-time.After(time.Duration(vh.Pick(60, 600)) * time.Second):
		for w := range current {
			if c := current[w].Load(); c != 0 {
				return out, int(c - 1)
			}
		}
		return out, 0
	}
}

func reportDocSeq(rep *vh.Report, addDiff func(vh.Diff), rs []dsResult) {
	for _, r := range rs {
		if r.c == nil {
			continue
		}
		nontrivial := false
		for k, op := range r.c.ops {
			if k > 0 && op.kind.movesCursor() {
				nontrivial = true
			}
		}
		rep.Case("docseq: "+r.c.Text(), nontrivial)
		for _, s := range r.stats {
			rep.Stat(s)
		}
		for _, d := range r.diffs {
			addDiff(d)
		}
	}
}
