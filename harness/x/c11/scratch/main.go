package main

import (
	"fmt"

	"github.com/jsightapi/jsight-schema-go-library/notations/jschema"
)

func main() {
	mkT := func() *jschema.Schema { return jschema.New("t", "{ // {allOf: \"@base\"}\n \"k\": 1}") }
	{
		t := mkT()
		fmt.Println("fresh T.Check:", t.Check())
	}
	t := mkT()
	r1 := jschema.New("r1", `{"a": @t}`)
	fmt.Println(r1.AddType("@t", t), r1.AddType("@base", jschema.New("b1", `{"x": 1}`)))
	r2 := jschema.New("r2", `{"a": @t}`)
	fmt.Println(r2.AddType("@t", t), r2.AddType("@base", jschema.New("b2", `{"y": "s"}`)))
	b, err := r1.Example()
	fmt.Printf("r1 %s %v\n", b, err)
	b, err = r2.Example()
	fmt.Printf("r2 after r1 %s %v\n", b, err)
	fmt.Println("T.Check after r1:", t.Check())
	{
		t := mkT()
		r2 := jschema.New("r2", `{"a": @t}`)
		fmt.Println(r2.AddType("@t", t), r2.AddType("@base", jschema.New("b2", `{"y": "s"}`)))
		b, err = r2.Example()
		fmt.Printf("r2 fresh %s %v\n", b, err)
	}
	// T with inline or (anonymous types)
	{
		t := jschema.New("t", `{"k": 1 // {or: [{type:"integer"}, {type: "string"}]}
}`)
		r1 := jschema.New("r1", `{"a": @t}`)
		fmt.Println(r1.AddType("@t", t))
		a1, err := r1.GetAST()
		fmt.Printf("%v\n", err)
		fmt.Println(r1.Check())
		ta, _ := t.GetAST()
		_ = a1
		_ = ta
		fmt.Println(t.Check())
		r2 := jschema.New("r2", `{"a": @t}`)
		fmt.Println(r2.AddType("@t", t))
		fmt.Println(r2.Check())
		b, err = r2.Example()
		fmt.Printf("r2 %s %v\n", b, err)
	}
}
