package c11

import (
	"fmt"
	"math/rand"
	"strings"

	root "github.com/jsightapi/jsight-schema-go-library"
	"github.com/jsightapi/jsight-schema-go-library/formats/json"
	"github.com/jsightapi/jsight-schema-go-library/notations/jschema"
	"github.com/jsightapi/jsight-schema-go-library/notations/regex"
	"github.com/jsightapi/jsight-schema-go-library/rules/enum"
)

type OpCode int

// Families of histories (Generate).
const (
	FamPlain = iota
	FamBind
	FamKeys
)

const (
	OpNew OpCode = iota
	OpAddType
	OpAddRule
	OpCheck
	OpValidate
	OpLen
	OpExample
	OpAST
	OpUsed
	OpNext    // document
	OpValues  // enum
	OpPattern // regex
)

var opNames = map[OpCode]string{OpNew: "New", OpAddType: "AddType", OpAddRule: "AddRule", OpCheck: "Check", OpValidate: "Validate",
	OpLen: "Len", OpExample: "Example", OpAST: "GetAST", OpUsed: "UsedUserTypes", OpNext: "NextLexeme", OpValues: "Values", OpPattern: "Pattern"}

// Obj declares one object of a history.
type Obj struct {
	Kind int  // KSchema, KRegex, KEnum, KDoc
	Spec int  // index into Schemas / Regexes / Enums / Docs
	Opt  bool // KSchema: created with jschema.KeysAreOptionalByDefault() (pool_keys.go); KDoc: with json.AllowTrailingNonSpaceCharacters()
}

func (o Obj) Text() string {
	switch o.Kind {
	case KSchema:
		return Schemas[o.Spec].Text
	case KRegex:
		return Regexes[o.Spec]
	case KEnum:
		return Enums[o.Spec]
	}
	return DocText(o.Spec)
}

func (o Obj) Ctor() string {
	switch o.Kind {
	case KSchema:
		return fmt.Sprintf("jschema.New(%q, %q%s)", Schemas[o.Spec].ID, o.Text(), OptText(o.Opt))
	case KRegex:
		return fmt.Sprintf("regex.New(\"rx\", %q)", o.Text())
	case KEnum:
		return fmt.Sprintf("enum.New(\"en\", %q)", o.Text())
	}
	if o.Opt {
		return fmt.Sprintf("json.New(\"doc\", %q, json.AllowTrailingNonSpaceCharacters())", o.Text())
	}
	return fmt.Sprintf("json.New(\"doc\", %q)", o.Text())
}

// Op is one public operation: Objs[Obj].<Code>(Name, Objs[Arg]).
type Op struct {
	Code OpCode
	Obj  int
	Arg  int // AddType: the type; AddRule: the enum; Validate: the document; else -1
	Name string
}

type History struct {
	Objs []Obj
	Ops  []Op
}

func (h *History) OpText(op Op) string {
	switch op.Code {
	case OpNew:
		return fmt.Sprintf("o%d := %s", op.Obj, h.Objs[op.Obj].Ctor())
	case OpAddType, OpAddRule:
		return fmt.Sprintf("o%d.%s(%q, o%d)", op.Obj, opNames[op.Code], op.Name, op.Arg)
	case OpValidate:
		return fmt.Sprintf("o%d.Validate(o%d)", op.Obj, op.Arg)
	}
	return fmt.Sprintf("o%d.%s()", op.Obj, opNames[op.Code])
}

func (h *History) Text() string {
	var sb []string
	for _, op := range h.Ops {
		sb = append(sb, h.OpText(op))
	}
	return strings.Join(sb, "; ")
}

// ---------------------------------------------------------------- execution

// World holds the live objects of one run of (a part of) a history.
type World struct {
	H    *History
	Objs []interface{}
}

func NewWorld(h *History) *World { return &World{H: h, Objs: make([]interface{}, len(h.Objs))} }

// Held is a value handed to the caller, with its deep copy at call time.
type Held struct {
	Desc   string
	Snap   string
	Reread func() string
}

// hold snapshots a handed-out value at hand-out time: Snap is a deep copy (a
// string rendering of everything the holder can read through the value).
func hold(desc string, reread func() string) Held {
	return Held{Desc: desc, Snap: reread(), Reread: reread}
}

func (w *World) create(i int) {
	o := w.H.Objs[i]
	switch o.Kind {
	case KSchema:
		w.Objs[i] = jschema.New(Schemas[o.Spec].ID, o.Text(), SchemaOptions(o.Opt)...)
	case KRegex:
		w.Objs[i] = regex.New("rx", o.Text())
	case KEnum:
		w.Objs[i] = enum.New("en", o.Text())
	case KDoc:
		// the option is an input like the text: the fresh documents of the oracle get it too
		if o.Opt {
			w.Objs[i] = json.New("doc", o.Text(), json.AllowTrailingNonSpaceCharacters())
		} else {
			w.Objs[i] = json.New("doc", o.Text())
		}
	}
}

// Exec performs one operation and returns its canonical result and the values
// it handed out.
func (w *World) Exec(op Op) (res string, held []Held) {
	defer func() {
		if r := recover(); r != nil {
			res = fmt.Sprintf("PANIC %v", r)
		}
	}()
	if op.Code == OpNew {
		w.create(op.Obj)
		return "-", nil
	}
	desc := w.H.OpText(op)
	heldErr := func(err error) {
		if err != nil {
			held = append(held, hold(desc+" error value", func() string { return ErrSnapshot(err) }))
		}
	}
	switch o := w.Objs[op.Obj].(type) {
	case *jschema.Schema:
		switch op.Code {
		case OpAddType:
			var err error
			switch t := w.Objs[op.Arg].(type) {
			case *jschema.Schema:
				err = o.AddType(op.Name, t)
			case *regex.Schema:
				err = o.AddType(op.Name, t)
			default:
				return "bad-arg", nil
			}
			heldErr(err)
			return CanonErr(err), held
		case OpAddRule:
			err := o.AddRule(op.Name, w.Objs[op.Arg].(*enum.Enum))
			heldErr(err)
			return CanonErr(err), held
		case OpCheck:
			err := o.Check()
			heldErr(err)
			return CanonErr(err), held
		case OpValidate:
			err := o.Validate(w.Objs[op.Arg].(root.Document))
			heldErr(err)
			return CanonErr(err), held
		case OpLen:
			n, err := o.Len()
			heldErr(err)
			return fmt.Sprintf("%d %s", n, CanonErr(err)), held
		case OpExample:
			b, err := o.Example()
			heldErr(err)
			if b != nil {
				held = append(held, hold(desc+" byte slice", func() string { return string(b) }))
			}
			return fmt.Sprintf("%q %s", b, CanonErr(err)), held
		case OpAST:
			a, err := o.GetAST()
			heldErr(err)
			held = append(held, hold(desc+" AST", func() string { return ASTJSON(a) }))
			return CanonPtr(ASTJSON(a)) + " " + CanonErr(err), held
		case OpUsed:
			u, err := o.UsedUserTypes()
			heldErr(err)
			held = append(held, hold(desc+" slice", func() string { return strings.Join(u, ",") }))
			return CanonPtr(strings.Join(u, ",")) + " " + CanonErr(err), held
		}
	case *regex.Schema:
		switch op.Code {
		case OpCheck:
			err := o.Check()
			heldErr(err)
			return CanonErr(err), held
		case OpLen:
			n, err := o.Len()
			heldErr(err)
			return fmt.Sprintf("%d %s", n, CanonErr(err)), held
		case OpPattern:
			p, err := o.Pattern()
			heldErr(err)
			return fmt.Sprintf("%q %s", p, CanonErr(err)), held
		case OpExample:
			b, err := o.Example()
			heldErr(err)
			if b != nil {
				held = append(held, hold(desc+" byte slice", func() string { return string(b) }))
			}
			return fmt.Sprintf("%q %s", b, CanonErr(err)), held
		case OpAST:
			a, err := o.GetAST()
			heldErr(err)
			held = append(held, hold(desc+" AST", func() string { return ASTJSON(a) }))
			return ASTJSON(a) + " " + CanonErr(err), held
		}
	case *enum.Enum:
		switch op.Code {
		case OpCheck:
			err := o.Check()
			heldErr(err)
			return CanonErr(err), held
		case OpLen:
			n, err := o.Len()
			heldErr(err)
			return fmt.Sprintf("%d %s", n, CanonErr(err)), held
		case OpValues:
			vs, err := o.Values()
			heldErr(err)
			show := func() string {
				var sb []string
				for _, v := range vs {
					sb = append(sb, fmt.Sprintf("%q/%s/%q", v.Value.String(), v.Type, v.Comment))
				}
				return strings.Join(sb, ",")
			}
			held = append(held, hold(desc+" values", show))
			return show() + " " + CanonErr(err), held
		case OpAST:
			a, err := o.GetAST()
			heldErr(err)
			held = append(held, hold(desc+" AST", func() string { return ASTJSON(a) }))
			return ASTJSON(a) + " " + CanonErr(err), held
		}
	case root.Document:
		switch op.Code {
		case OpCheck:
			err := o.Check()
			heldErr(err)
			return CanonErr(err), held
		case OpLen:
			n, err := o.Len()
			heldErr(err)
			return fmt.Sprintf("%d %s", n, CanonErr(err)), held
		case OpNext:
			lex, err := o.NextLexeme()
			heldErr(err)
			if err != nil && CanonErr(err) != "EOF" {
				return CanonErr(err), held
			}
			// the lexeme is a handed-out value too: kind, bounds and the bytes it designates
			held = append(held, hold(desc+" lexeme", func() string {
				return fmt.Sprintf("%s[%d:%d] %q", lex.Type().String(), lex.Begin(), lex.End(), lex.Value())
			}))
			return fmt.Sprintf("%s[%d:%d] %s", lex.Type().String(), lex.Begin(), lex.End(), CanonErr(err)), held
		}
	}
	return "bad-op", nil
}

// ---------------------------------------------------------------- state-relevant sub-history

func isSetup(c OpCode) bool { return c == OpAddType || c == OpAddRule }

// loads / compiles: does the operation force load / compile of its TARGET
// (jschema.go: AddType, UsedUserTypes load; Check, Validate, Example, GetAST compile).
func loadsTarget(c OpCode) bool {
	return c == OpAddType || c == OpUsed || compilesTarget(c)
}
func compilesTarget(c OpCode) bool {
	return c == OpCheck || c == OpValidate || c == OpExample || c == OpAST
}

// laterSetup: is there a setup op (AddType only, if typeOnly) on object x at a
// position in (j, k] (operation k itself included: it may be the late setup op)?
func (h *History) laterSetup(x, j, k int, typeOnly bool) bool {
	for i := j + 1; i <= k && i < len(h.Ops); i++ {
		op := h.Ops[i]
		if op.Obj == x && (op.Code == OpAddType || (!typeOnly && op.Code == OpAddRule)) {
			return true
		}
	}
	return false
}

// laterAddTypeBelow: is there, in (j, k], an AddType whose target is x or an
// object (transitively) added to x before k?  Compiling x hoists the types of
// its types, so such an AddType after x's (once-only) compile is invisible to
// x, whereas before it is visible.
func (h *History) laterAddTypeBelow(x, j, k int) bool {
	reach := map[int]bool{x: true}
	for changed := true; changed; {
		changed = false
		for i := 0; i <= k && i < len(h.Ops); i++ {
			o := h.Ops[i]
			if o.Code == OpAddType && reach[o.Obj] && !reach[o.Arg] {
				reach[o.Arg] = true
				changed = true
			}
		}
	}
	for i := j + 1; i <= k && i < len(h.Ops); i++ {
		if o := h.Ops[i]; o.Code == OpAddType && reach[o.Obj] {
			return true
		}
	}
	return false
}

// Closure returns the set of objects whose state can legitimately influence
// operation k (the operation's target and argument; everything added to a
// member before k; and — only when needed to reproduce the moment a member was
// first loaded — the schema a member was added to).
func (h *History) Closure(k int) map[int]bool {
	op := h.Ops[k]
	c := map[int]bool{op.Obj: true}
	if op.Arg >= 0 {
		c[op.Arg] = true
	}
	for changed := true; changed; {
		changed = false
		for j := 0; j < k; j++ {
			o := h.Ops[j]
			if !isSetup(o.Code) {
				continue
			}
			if c[o.Obj] && !c[o.Arg] {
				c[o.Arg] = true
				changed = true
			}
			// AddType(R, X) loads X: matters iff X is configured afterwards
			if o.Code == OpAddType && c[o.Arg] && !c[o.Obj] && h.Objs[o.Arg].Kind == KSchema && h.laterSetup(o.Arg, j, k, false) {
				c[o.Obj] = true
				changed = true
			}
		}
	}
	return c
}

// Replay lists the operations to perform on FRESH objects before operation k
// so that they are in the state the API contract says they are in: creation,
// every AddType/AddRule of the closure in the original order, and — where an
// object was loaded/compiled BEFORE a later AddRule/AddType on it (the once
// cells freeze it) — a load (UsedUserTypes) / compile (Check) at that point.
// Documents are cursors: for the cursor-dependent operations (NextLexeme,
// Validate) the document's own earlier operations are replayed.
// (Reading note: "equal inputs" = same texts + same AddType/AddRule prefix +
// same cursor position; this is the reading the unchanged tree satisfies.)
func (h *History) Replay(k int) []Op {
	c := h.Closure(k)
	target := h.Ops[k]
	var out []Op
	for j := 0; j < k; j++ {
		o := h.Ops[j]
		if !c[o.Obj] {
			continue
		}
		switch {
		case o.Code == OpNew:
			out = append(out, o)
		case isSetup(o.Code):
			out = append(out, o)
		case h.Objs[o.Obj].Kind == KSchema:
			if compilesTarget(o.Code) && h.laterAddTypeBelow(o.Obj, j, k) {
				out = append(out, Op{Code: OpCheck, Obj: o.Obj, Arg: -1})
			} else if loadsTarget(o.Code) && h.laterSetup(o.Obj, j, k, false) {
				out = append(out, Op{Code: OpUsed, Obj: o.Obj, Arg: -1})
			}
		case h.Objs[o.Obj].Kind == KDoc:
			// Check() and Len() of a document are cursor-neutral (they scan a
			// rewound copy of the cursor and leave it where a fresh document
			// has it); only NextLexeme (and Validate, after which the
			// generator issues no cursor-dependent operation) advances it.
			// So only the earlier NextLexeme calls are replayed.  (The
			// generator issues the FIRST Check / Len of a document object only
			// while it has not been advanced: on the unchanged tree the first
			// Check/Len rewinds to the start, later ones are cached.)
			cursorOp := (target.Code == OpNext && target.Obj == o.Obj) || (target.Code == OpValidate && target.Arg == o.Obj)
			if cursorOp && o.Code == OpNext {
				out = append(out, o)
			}
		}
	}
	// objects of the closure created lazily must exist
	return out
}

// Oracle: the result of operation k on fresh objects.
func (h *History) Oracle(k int) string {
	w := NewWorld(h)
	for _, o := range h.Replay(k) {
		w.Exec(o)
	}
	res, _ := w.Exec(h.Ops[k])
	return res
}

// KnownClass: "K-C11-sharedallof" when the closure of operation k (k =
// len(Ops): the whole history) contains a schema object that uses allOf and
// lives in more than one compile context: added to two or more schemas, or
// added to a schema and also used directly.
func (h *History) KnownClass(k int) string {
	var c map[int]bool
	if k >= len(h.Ops) {
		c = map[int]bool{}
		for i := range h.Objs {
			c[i] = true
		}
		k = len(h.Ops)
	} else {
		c = h.Closure(k)
		k++ // the operation itself counts as a use
	}
	for x := range c {
		if h.Objs[x].Kind != KSchema || !Schemas[h.Objs[x].Spec].UsesAllOf() {
			continue
		}
		ctx := map[int]bool{}
		for j := 0; j < k && j < len(h.Ops); j++ {
			o := h.Ops[j]
			if o.Code == OpAddType && o.Arg == x && o.Obj != x {
				ctx[o.Obj] = true
			}
			if o.Obj == x && (loadsTarget(o.Code) && o.Code != OpAddType) {
				ctx[-1] = true
			}
		}
		if len(ctx) >= 2 {
			return "K-C11-sharedallof"
		}
	}
	return ""
}

// ---------------------------------------------------------------- generation

var docFit = map[string][]int{
	"r_plain": {0, 1}, "r_rules": {0, 1, 10}, "r_types": {0, 1}, "r_rx": {13, 1}, "r_rxroot": {3}, "r_enum": {0, 10}, "r_enum2": {0, 10},
	"r_rec": {4}, "r_self": {4}, "r_or": {12, 0}, "r_allof": {8}, "r_allof2": {8}, "r_uset": {9, 8}, "r_uset2": {9, 8}, "r_keys": {0, 10},
	"r_twokeys": {0, 10, 1}, "r_addl": {10, 0}, "r_req": {11, 0}, "t_node": {4}, "t_allof": {8}, "t_or": {12},
	"r_idflag": {18, 19, 20, 21}, "r_ownor": {22, 23},
	"r_enum3": {25, 0}, "r_enum3s": {26, 3}, "r_tenum3": {25, 0}, "r_allofpq": {27, 28, 11}, "r_allofpq2": {27, 28, 11}, "r_extpq": {29, 30},
	"r_usep": {31, 32}, "r_proot": {28, 27, 11}, "r_useq": {33, 11}, "t_p": {28, 27, 11}, "t_q": {27, 11}, "t_ext": {27, 28, 11},
}

type gen struct {
	r         *rand.Rand
	ro        *rand.Rand // the option bits of the schema objects are drawn from a PRNG of their own
	rd        *rand.Rand // and so are the option bits of the document objects (nil: no document gets the option)
	pOptRoot  float64    // probability that a root object is created with KeysAreOptionalByDefault()
	pOptType  float64    // the same for a type object
	keys      bool       // keys history (see Generate)
	h         *History
	withKnown bool
	focus     bool    // sharing-focused history (see Generate)
	bind      bool    // binding history (see Generate)
	pShare    float64 // probability that a type / rule object of a spec already present is re-used
	created   []bool
	pending   map[int][]Op // setup queue per schema object
	added     map[int]bool // type object has been added to something
	spent     map[int]bool // document was handed to Validate
	advanced  map[int]bool // document: NextLexeme was called
	checked   map[int]bool // document: Check was called (result cached, no more rewinding)
	lened     map[int]bool // document: Len was called
	maxOps    int
	count     int
}

func (g *gen) newObj(kind, spec int) int {
	opt := false
	if kind == KSchema {
		// one draw per schema object, independent of every other object
		if x := g.ro.Float64(); Schemas[spec].IsType {
			opt = x < g.pOptType
		} else {
			opt = x < g.pOptRoot
		}
	}
	if kind == KDoc && g.rd != nil {
		// one document object in three is created with json.AllowTrailingNonSpaceCharacters()
		opt = g.rd.Intn(3) == 0
	}
	g.h.Objs = append(g.h.Objs, Obj{Kind: kind, Spec: spec, Opt: opt})
	g.created = append(g.created, false)
	return len(g.h.Objs) - 1
}

func (g *gen) find(kind, spec int) []int {
	var out []int
	for i, o := range g.h.Objs {
		if o.Kind == kind && o.Spec == spec {
			out = append(out, i)
		}
	}
	return out
}

// instance returns an object of (kind, spec): an existing one with probability
// p (sharing), else a new one.
func (g *gen) instance(kind, spec int, p float64) int {
	if kind == KSchema && Schemas[spec].UsesAllOf() && !g.withKnown {
		p = 0 // never share a type that uses allOf (known finding) unless asked to
	}
	if ex := g.find(kind, spec); len(ex) > 0 && g.r.Float64() < p {
		return ex[g.r.Intn(len(ex))]
	}
	i := g.newObj(kind, spec)
	if kind == KSchema {
		g.plan(i)
	}
	return i
}

// plan fills the setup queue of schema object i from its spec.
func (g *gen) plan(i int) {
	spec := Schemas[g.h.Objs[i].Spec]
	var q []Op
	for _, rr := range spec.Rules {
		q = append(q, Op{Code: OpAddRule, Obj: i, Arg: g.instance(KEnum, rr.Enum, g.pShare), Name: rr.Name})
	}
	for _, tr := range spec.Types {
		switch tr.Kind {
		case KSelf:
			q = append(q, Op{Code: OpAddType, Obj: i, Arg: i, Name: tr.Name})
		default:
			q = append(q, Op{Code: OpAddType, Obj: i, Arg: g.instance(tr.Kind, tr.Spec, g.pShare), Name: tr.Name})
		}
	}
	if len(q) > 1 && (g.r.Intn(8) == 0 || ((g.bind || g.keys) && g.r.Intn(2) == 0)) {
		g.r.Shuffle(len(q), func(a, b int) { q[a], q[b] = q[b], q[a] })
	}
	if len(q) > 0 {
		g.pending[i] = q
	}
}

func (g *gen) ensure(i int) {
	if i >= 0 && !g.created[i] {
		g.created[i] = true
		g.h.Ops = append(g.h.Ops, Op{Code: OpNew, Obj: i, Arg: -1})
	}
}

func (g *gen) emit(op Op) {
	g.ensure(op.Obj)
	g.ensure(op.Arg)
	g.h.Ops = append(g.h.Ops, op)
	g.count++
	if op.Code == OpAddType {
		g.added[op.Arg] = true
	}
	if op.Code == OpValidate {
		g.spent[op.Arg] = true
	}
	if g.h.Objs[op.Obj].Kind == KDoc {
		switch op.Code {
		case OpNext:
			g.advanced[op.Obj] = true
		case OpCheck:
			g.checked[op.Obj] = true
		case OpLen:
			g.lened[op.Obj] = true
		}
	}
}

// docOpOK: may Check / Len be issued on document d now?  The first Check and
// the first Len only while the cursor is at the start (or after the document
// was spent by Validate: no cursor-dependent operation follows then).
func (g *gen) docOpOK(d int, code OpCode) bool {
	switch code {
	case OpCheck:
		return g.checked[d] || !g.advanced[d] || g.spent[d]
	case OpLen:
		return g.lened[d] || !g.advanced[d] || g.spent[d]
	case OpNext:
		return !g.spent[d]
	}
	return true
}

// malformed documents and documents with trailing non-space bytes
func malformedDocs() []int {
	var out []int
	for i := 0; i < NDocs(); i++ {
		w := NewWorld(&History{Objs: []Obj{{Kind: KDoc, Spec: i}}})
		w.create(0)
		if r, _ := w.Exec(Op{Code: OpCheck, Obj: 0, Arg: -1}); r != "ok" {
			out = append(out, i)
		}
	}
	return out
}

var badDocs []int // set by init (pool.go) once the pools are complete

func (g *gen) emitPending(i int) {
	q := g.pending[i]
	op := q[0]
	g.pending[i] = q[1:]
	if len(g.pending[i]) == 0 {
		delete(g.pending, i)
	}
	// a type's own setup normally precedes its being added
	if op.Code == OpAddType && op.Arg != i {
		for len(g.pending[op.Arg]) > 0 && g.r.Intn(7) != 0 && g.count < 11 {
			g.emitPending(op.Arg)
		}
	}
	g.emit(op)
}

func (g *gen) pick(kind int) []int {
	var out []int
	for i, o := range g.h.Objs {
		if o.Kind == kind {
			out = append(out, i)
		}
	}
	return out
}

// directUseOK: may the generator operate directly on schema object i?
// (a user type that uses allOf is rewritten in place by every root it was
// added to: operating on it directly as well is the known finding.)
func (g *gen) directUseOK(i int) bool {
	sp := Schemas[g.h.Objs[i].Spec]
	return g.withKnown || !(sp.UsesAllOf() && sp.IsType)
}

func (g *gen) docFor(schemaObj int) int {
	id := Schemas[g.h.Objs[schemaObj].Spec].ID
	spec := g.r.Intn(NDocs())
	nFit := 5
	if g.focus {
		nFit = 7
	}
	switch x := g.r.Intn(10); {
	case x < nFit && len(docFit[id]) > 0:
		fit := docFit[id]
		spec = fit[g.r.Intn(len(fit))]
	case x < nFit+2:
		spec = badDocs[g.r.Intn(len(badDocs))]
	}
	d := -1
	// reuse an unspent document object sometimes (it may have been read partly)
	if g.r.Intn(10) < 4 {
		var cands []int
		for i, o := range g.h.Objs {
			if o.Kind == KDoc && !g.spent[i] && (o.Spec == spec || g.r.Intn(2) == 0) {
				cands = append(cands, i)
			}
		}
		if len(cands) > 0 {
			d = cands[g.r.Intn(len(cands))]
		}
	}
	if d < 0 {
		d = g.newObj(KDoc, spec)
	}
	// Check()/Len() the document before it is validated (a common calling pattern)
	if g.count < g.maxOps-1 && g.r.Intn(10) < 4 {
		code := []OpCode{OpCheck, OpCheck, OpCheck, OpLen}[g.r.Intn(4)]
		if g.docOpOK(d, code) {
			g.emit(Op{Code: code, Obj: d, Arg: -1})
		}
	}
	return d
}

func (g *gen) observeSchema(i int) {
	switch x := g.r.Intn(100); {
	case x < 20:
		g.emit(Op{Code: OpCheck, Obj: i, Arg: -1})
	case x < 50:
		g.emit(Op{Code: OpValidate, Obj: i, Arg: g.docFor(i)})
	case x < 58:
		g.emit(Op{Code: OpLen, Obj: i, Arg: -1})
	case x < 75:
		g.emit(Op{Code: OpExample, Obj: i, Arg: -1})
	case x < 87:
		g.emit(Op{Code: OpAST, Obj: i, Arg: -1})
	case x < 95:
		g.emit(Op{Code: OpUsed, Obj: i, Arg: -1})
	case x < 98:
		// late AddType (after whatever happened before)
		var cands []int
		for j, o := range g.h.Objs {
			if (o.Kind == KRegex || (o.Kind == KSchema && Schemas[o.Spec].IsType)) && g.directUseOK(j) && (g.withKnown || !(o.Kind == KSchema && Schemas[o.Spec].UsesAllOf())) {
				cands = append(cands, j)
			}
		}
		var arg int
		if len(cands) > 0 && g.r.Intn(2) == 0 {
			arg = cands[g.r.Intn(len(cands))]
		} else {
			arg = g.instance(KSchema, idx([]string{"t_num", "t_str", "t_base", "t_or"}[g.r.Intn(4)]), 0.5)
		}
		name := []string{"@late", "@num", "@base", "@missing", "bad name"}[g.r.Intn(5)]
		g.emit(Op{Code: OpAddType, Obj: i, Arg: arg, Name: name})
	default:
		g.emit(Op{Code: OpAddRule, Obj: i, Arg: g.instance(KEnum, g.r.Intn(len(Enums)), 0.5), Name: []string{"@late", "@e"}[g.r.Intn(2)]})
	}
}

// Generate draws one history: up to 12 operations (object creations not
// counted) over 1..3 root schemas, their types and rules, documents, and
// stand-alone enum / regex objects.
//
// bind: a BINDING history (pool_bind.go): 2-3 roots of the binding family that
// share ONE type object whose text refers to names the roots bind differently;
// set-up mostly first (in any order of the roots and of their AddType calls),
// then Check / Validate / Example / GetAST / UsedUserTypes on the roots in a
// random order, so that each root is observed after any history of calls on the
// others (whichever of them is compiled first).
//
// keys: a KEYS history (pool_keys.go): 2-3 roots of the keys family over ONE
// shared type object with unmarked keys, every root (probability 1/2) and every
// type object (1/4) created with KeysAreOptionalByDefault() independently, the
// rest as in a binding history; the documents preferred are the root's full
// document and the documents lacking one key of it.
//
// ro: the PRNG of the option bits.  In the other histories every schema object
// is created with the option with probability 1/5.
//
// rd: the PRNG of the option bits of the DOCUMENT objects (one in three is created
// with json.AllowTrailingNonSpaceCharacters()).
func Generate(r, ro, rd *rand.Rand, withKnown bool, family int) *History {
	bind, keys := family == FamBind, family == FamKeys
	g := &gen{r: r, ro: ro, rd: rd, pOptRoot: 0.2, pOptType: 0.2, h: &History{}, withKnown: withKnown, pShare: 0.7, pending: map[int][]Op{}, added: map[int]bool{}, spent: map[int]bool{},
		advanced: map[int]bool{}, checked: map[int]bool{}, lened: map[int]bool{}}
	// a history draws its roots either from the base pool (constructs: rules,
	// enums, allOf, or, key shortcuts, recursion, broken texts) or from the
	// whole pool incl. the root-kind extension, so that neither thins the other
	roots := AllRoots()
	if r.Intn(2) == 0 {
		roots = Roots()
	}
	nRoots := []int{1, 1, 1, 2, 2, 2, 2, 3, 3}[r.Intn(9)]
	// One history in three is sharing-focused ("on the same or on other Schema
	// objects": what one schema does to an object it shares with another):
	// two or three roots that use common type / rule specs, the common objects
	// (nearly) always shared, set-up mostly completed first, fitting documents
	// preferred, so that most operations observe one root after another root
	// loaded / compiled / validated with the same type and rule objects.
	if r.Intn(3) == 0 {
		g.focus = true
		g.pShare = 0.95
		nRoots = 2 + r.Intn(2)
	}
	var rootObjs []int
	if keys {
		g.pOptRoot, g.pOptType = 0.5, 0.25
	}
	if bind || keys {
		g.focus, g.bind, g.keys = true, bind, keys
		g.pShare = 0.95
		specs := bindRootSpecs
		if keys {
			specs = keyRootSpecs
		}
		for _, spec := range specs(r) {
			i := g.newObj(KSchema, spec)
			g.plan(i)
			rootObjs = append(rootObjs, i)
		}
		nRoots = len(rootObjs)
	}
	for len(rootObjs) < nRoots {
		spec := roots[r.Intn(len(roots))]
		if len(Schemas[spec].Types)+len(Schemas[spec].Rules) == 0 && r.Intn(2) == 0 {
			spec = roots[r.Intn(len(roots))] // roots with types / rules are the interesting ones: second draw
		}
		for try := 0; g.focus && try < 6 && len(Schemas[spec].Types)+len(Schemas[spec].Rules) == 0; try++ {
			spec = roots[r.Intn(len(roots))] // a sharing-focused history needs roots that have something to share
		}
		if len(rootObjs) > 0 {
			x := r.Intn(10)
			if g.focus && x < 2 {
				x = 3 + r.Intn(5)
			}
			switch {
			case x < 3: // same text again
				spec = g.h.Objs[rootObjs[r.Intn(len(rootObjs))]].Spec
			case x < 8: // a root that uses one of the same type / rule specs (its objects can then be shared)
				prev := Schemas[g.h.Objs[rootObjs[r.Intn(len(rootObjs))]].Spec]
				var cands []int
				for _, ri := range roots {
					if Schemas[ri].ID == prev.ID {
						continue
					}
					shares := false
					for _, a := range Schemas[ri].Types {
						for _, b := range prev.Types {
							if a.Kind == b.Kind && a.Spec == b.Spec && a.Kind != KSelf {
								shares = true
							}
						}
					}
					for _, a := range Schemas[ri].Rules {
						for _, b := range prev.Rules {
							if a.Enum == b.Enum {
								shares = true
							}
						}
					}
					if shares {
						cands = append(cands, ri)
					}
				}
				if len(cands) > 0 {
					spec = cands[r.Intn(len(cands))]
				}
			}
		}
		i := g.newObj(KSchema, spec)
		g.plan(i)
		rootObjs = append(rootObjs, i)
	}
	if r.Intn(10) < 4 {
		g.newObj(KEnum, r.Intn(len(Enums)))
	}
	if r.Intn(10) < 4 {
		g.newObj(KRegex, r.Intn(len(Regexes)))
	}
	maxOps := 4 + r.Intn(9)
	pSetup := 0.8
	if r.Intn(3) == 0 {
		pSetup = 0.4
	}
	if g.focus {
		maxOps = 9 + r.Intn(4)
		pSetup = 0.9
	}
	if bind || keys {
		maxOps = 10 + r.Intn(3)
		pSetup = []float64{0.95, 0.9, 0.6}[r.Intn(3)]
	}
	g.maxOps = maxOps
	for g.count < maxOps {
		if len(g.pending) > 0 && r.Float64() < pSetup {
			// next pending setup op of a root first, of any object otherwise
			var cands []int
			for _, ro := range rootObjs {
				if len(g.pending[ro]) > 0 {
					cands = append(cands, ro)
				}
			}
			if len(cands) == 0 {
				for i := range g.h.Objs {
					if len(g.pending[i]) > 0 {
						cands = append(cands, i)
					}
				}
			}
			g.emitPending(cands[r.Intn(len(cands))])
			continue
		}
		x := r.Intn(100)
		if bind || keys {
			x = x * 7 / 10 // 79% a root, 14% a type object directly, 7% a document
		}
		switch {
		case x < 55:
			g.observeSchema(rootObjs[r.Intn(len(rootObjs))])
		case x < 65:
			var cands []int
			for i, o := range g.h.Objs {
				if o.Kind == KSchema && Schemas[o.Spec].IsType && g.directUseOK(i) {
					cands = append(cands, i)
				}
			}
			if len(cands) > 0 {
				g.observeSchema(cands[r.Intn(len(cands))])
			}
		case x < 80:
			ds := g.pick(KDoc)
			var d int
			if len(ds) > 0 && r.Intn(3) > 0 {
				d = ds[r.Intn(len(ds))]
			} else {
				spec := r.Intn(NDocs())
				if r.Intn(3) == 0 {
					spec = badDocs[r.Intn(len(badDocs))]
				}
				d = g.newObj(KDoc, spec)
			}
			code := []OpCode{OpCheck, OpCheck, OpLen, OpNext, OpNext, OpNext}[r.Intn(6)]
			if !g.docOpOK(d, code) {
				if code == OpNext {
					code = OpCheck
				} else {
					code = OpNext
				}
			}
			if g.docOpOK(d, code) {
				g.emit(Op{Code: code, Obj: d, Arg: -1})
			}
		case x < 90:
			es := g.pick(KEnum)
			var e int
			if len(es) > 0 && r.Intn(4) > 0 {
				e = es[r.Intn(len(es))]
			} else {
				e = g.newObj(KEnum, r.Intn(len(Enums)))
			}
			g.emit(Op{Code: []OpCode{OpCheck, OpLen, OpValues, OpAST}[r.Intn(4)], Obj: e, Arg: -1})
		default:
			xs := g.pick(KRegex)
			var x int
			if len(xs) > 0 && r.Intn(4) > 0 {
				x = xs[r.Intn(len(xs))]
			} else {
				x = g.newObj(KRegex, r.Intn(len(Regexes)))
			}
			g.emit(Op{Code: []OpCode{OpCheck, OpLen, OpPattern, OpExample, OpExample, OpAST}[r.Intn(6)], Obj: x, Arg: -1})
		}
	}
	return g.h
}
