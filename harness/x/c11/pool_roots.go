package c11

// pool_roots.go: the ROOT-KIND extension of the pool.  C11 quantifies over "a
// pool of schemas"; what a call hands out (and which internal buffer / node it
// comes from) depends on the kind of the schema's ROOT value, so the pool has a
// text for every root kind, as a root schema AND as a user type reached through
// a type-shortcut root (`@t`), an or-shortcut root (`@a | @b`), an or-rule root,
// an array element and an object property:
//
//	scalar   integer, float, string, boolean, null (plain and with a rule)
//	array    empty, of scalars, of objects, nested, of references, with rules
//	object   empty (the base pool has the non-empty ones)
//	@t       resolving to each of the kinds above
//	@a | @b  every ordered pair of {scalar, array, object} first alternatives
//	or rule  over scalar / array / object example values, over type names
//
// The entries are marked Ext: Roots() (the base pool, shared with x/c12) does
// not list them, AllRoots() does.  Documents for them live in DocsX (indices
// continue those of Docs).

// DocsX: documents of the extension; document index len(Docs)+i is DocsX[i].
var DocsX []string

// NDocs / DocText: base + extension documents.
func NDocs() int { return len(Docs) + len(DocsX) }

func DocText(i int) string {
	if i < len(Docs) {
		return Docs[i]
	}
	if i < len(Docs)+len(DocsX) {
		return DocsX[i-len(Docs)]
	}
	return DocsB[i-len(Docs)-len(DocsX)] // documents of the binding family (pool_bind.go)
}

// docIndex returns the index of a document text, adding it to DocsX if new.
func docIndex(text string) int {
	for i := 0; i < NDocs(); i++ {
		if DocText(i) == text {
			return i
		}
	}
	DocsX = append(DocsX, text)
	return NDocs() - 1
}

func initRootKinds() {
	t := func(id, text string, types ...TypeRef) {
		Schemas = append(Schemas, SchemaSpec{ID: id, Text: text, IsType: true, Ext: true, Types: types})
	}
	r := func(id, text string, docs []string, types ...TypeRef) {
		Schemas = append(Schemas, SchemaSpec{ID: id, Text: text, Ext: true, Types: types})
		for _, d := range docs {
			docFit[id] = append(docFit[id], docIndex(d))
		}
	}
	// ---- user types of every root kind
	t("k_int", `7`)
	t("k_float", `2.5 // {min: 1}`)
	t("k_bool", `true`)
	t("k_null", `null`)
	t("k_text", `"text"`)
	t("k_arr0", `[]`)
	t("k_arrs", `[1, "a", true]`)
	t("k_arro", "[\n  {\"id\": 1, \"tags\": [\"x\", \"y\"]}\n]")
	t("k_arrn", `[[1, 2], [], [["x"]]]`)
	t("k_arrt", `[@num, @arrs]`, ty("@num", "t_num"), ty("@arrs", "k_arrs"))
	t("k_arrrec", "[\n  {\n    \"sub\": @arrrec // {optional: true}\n  }\n]") // referenced under its own name by the roots below
	t("k_obj0", `{}`)
	t("k_objarr", `{"l": [1, 2], "n": []}`)
	t("k_orarr", `[] // {or: [{type: "array"}, {type: "string"}]}`)
	t("k_alias", `@arrs`, ty("@arrs", "k_arrs")) // a type whose root is a reference to an array type

	const (
		dInt   = `7`
		dFloat = `2.5`
		dBool  = `true`
		dNull  = `null`
		dText  = `"text"`
		dArr0  = `[]`
		dArrS  = `[1, "a", true]`
		dArrO  = `[{"id": 1, "tags": ["q"]}]`
		dArrN  = `[[1, 2], [], [["x"]]]`
		dArr1  = `[7]`
		dObj0  = `{}`
	)
	ds := func(d ...string) []string { return d }

	// ---- scalar roots
	r("k_rint", `7`, ds(dInt, dText))
	r("k_rintrule", `42 // {min: 1, max: 100}`, ds(dInt, dFloat))
	r("k_rfloat", `2.5`, ds(dFloat, dInt))
	r("k_rstr", `"text" // {minLength: 2}`, ds(dText, dNull))
	r("k_rbool", `true`, ds(dBool, dNull))
	r("k_rnull", `null`, ds(dNull, dBool))
	r("k_rnullable", `7 // {nullable: true}`, ds(dNull, dInt))
	// ---- array roots
	r("k_rarr0", `[]`, ds(dArr0, dArr1))
	r("k_rarrs", `[1, "a", true]`, ds(dArrS, dArr0, dArr1))
	r("k_rarro", "[\n  {\"id\": 1, \"tags\": [\"x\", \"y\"]}\n]", ds(dArrO, dArr0, dArr1))
	r("k_rarro2", `[{"id": 1, "tags": ["x", "y"]}, 2, "three"]`, ds(dArrO, dArr1))
	r("k_rarrn", `[[1, 2], [], [["x"]]]`, ds(dArrN, dArr0, `[[]]`))
	r("k_rarrrule", "[ // {minItems: 1, maxItems: 3}\n  1 // {min: 0}\n]", ds(dArr1, dArr0, `[1, 2, 3, 4]`))
	r("k_rarrlong", `["x", "y", "z", 1, 2, 3, 4, 5, 6, 7, 8, 9, 10.5, false, null]`, ds(dArrS, dArr1))
	r("k_rarrt", `[@num, @arrs]`, ds(`[7, [1, "a", true]]`, dArr1), ty("@num", "t_num"), ty("@arrs", "k_arrs"))
	r("k_rarrp", `[@p, @obj0]`, ds(`[{"p": 1}, {}]`, dArr0), ty("@p", "t_p"), ty("@obj0", "k_obj0"))
	r("k_rarrmiss", `[@missing]`, ds(dArr1))
	r("k_rarrbad", `[1, 2`, nil)
	r("k_rarrsem", "[\n  1 // {min: 5}\n]", nil)
	// ---- object roots made of the kinds
	r("k_robj0", `{}`, ds(dObj0, `{"a": 1, "b": "s"}`))
	r("k_robjarr", `{"l": [1, 2], "m": @arro, "n": []}`, ds(`{"l": [1, 2], "m": [{"id": 2, "tags": []}], "n": []}`, dObj0), ty("@arro", "k_arro"))
	r("k_robjkinds", `{"i": @int, "f": @float, "b": @bool, "z": @null, "s": @text, "a": @arrn}`,
		ds(`{"i": 1, "f": 1.5, "b": false, "z": null, "s": "q", "a": [[3]]}`, dObj0),
		ty("@int", "k_int"), ty("@float", "k_float"), ty("@bool", "k_bool"), ty("@null", "k_null"), ty("@text", "k_text"), ty("@arrn", "k_arrn"))
	// ---- type-shortcut roots resolving to each kind
	r("k_tint", `@int`, ds(dInt, dText), ty("@int", "k_int"))
	r("k_tfloat", `@float`, ds(dFloat, `0.5`), ty("@float", "k_float"))
	r("k_tbool", `@bool`, ds(dBool, dInt), ty("@bool", "k_bool"))
	r("k_tnull", `@null`, ds(dNull, dInt), ty("@null", "k_null"))
	r("k_ttext", `@text`, ds(dText, dInt), ty("@text", "k_text"))
	r("k_tarr0", `@arr0`, ds(dArr0, dArr1), ty("@arr0", "k_arr0"))
	r("k_tarrs", `@arrs`, ds(dArrS, dArr0), ty("@arrs", "k_arrs"))
	r("k_tarro", `@arro`, ds(dArrO, dArr0), ty("@arro", "k_arro"))
	r("k_tarrn", `@arrn`, ds(dArrN, dArr0), ty("@arrn", "k_arrn"))
	r("k_tarrt", `@arrt`, ds(`[7, [1, "a", true]]`, dArr1), ty("@arrt", "k_arrt"), ty("@arrs", "k_arrs"), ty("@num", "t_num"))
	r("k_tarrrec", `@arrrec`, ds(`[{"sub": [{}]}]`, dArr0), ty("@arrrec", "k_arrrec"))
	r("k_tobj0", `@obj0`, ds(dObj0, dArr0), ty("@obj0", "k_obj0"))
	r("k_tobjarr", `@objarr`, ds(`{"l": [1], "n": []}`, dObj0), ty("@objarr", "k_objarr"))
	r("k_torarr", `@orarr`, ds(dArr0, dText, dInt), ty("@orarr", "k_orarr"))
	r("k_talias", `@alias`, ds(dArrS, dInt), ty("@alias", "k_alias"), ty("@arrs", "k_arrs"))
	// ---- or-shortcut roots: first alternative of each kind
	r("k_or_arr_num", `@arrs | @num`, ds(dArrS, dInt, dText), ty("@arrs", "k_arrs"), ty("@num", "t_num"))
	r("k_or_num_arr", `@num | @arrs`, ds(dArrS, dInt, dText), ty("@num", "t_num"), ty("@arrs", "k_arrs"))
	r("k_or_obj_arr", `@p | @arro`, ds(dArrO, `{"p": 1}`, dInt), ty("@p", "t_p"), ty("@arro", "k_arro"))
	r("k_or_arr_obj", `@arro | @p`, ds(dArrO, `{"p": 1}`, dInt), ty("@arro", "k_arro"), ty("@p", "t_p"))
	r("k_or_arr_arr", `@arrn | @arr0 | @arrs`, ds(dArrN, dArr0, dArrS), ty("@arrn", "k_arrn"), ty("@arr0", "k_arr0"), ty("@arrs", "k_arrs"))
	r("k_or_text_null", `@text | @null`, ds(dText, dNull, dInt), ty("@text", "k_text"), ty("@null", "k_null"))
	// ---- or-rule roots
	r("k_orr_scalar", `111 // {or: [{type: "string"}, {type: "integer"}, {type: "object"}]}`, ds(dInt, dText, dObj0, dArr0))
	r("k_orr_arr", `[] // {or: [{type: "array"}, {type: "string"}]}`, ds(dArr0, dArr1, dText, dInt))
	r("k_orr_obj", `{} // {or: [{type: "object"}, {type: "string"}]}`, ds(dObj0, dText, dInt))
	r("k_orr_types", `"foo" // {or: [{type: "@arrs"}, "@p", {type: "string", minLength: 3}, {type: "integer", min: 0}]}`,
		ds(dArrS, `{"p": 1}`, dText, dInt, dBool), ty("@arrs", "k_arrs"), ty("@p", "t_p"))
	// more documents of the extension (malformed / trailing bytes around arrays and scalars)
	for _, d := range []string{`[1, 2`, `[] ]`, `7 7`, `[1 2]`, `nul`, `"text`} {
		docIndex(d)
	}
}
