// Package c11: property C11 — results are deterministic, history-independent
// and stable.  pool.go: the pool of schema / type / document / enum / regex
// texts (also used by x/c12).
package c11

import "strings"

// Kinds of pooled objects.
const (
	KSchema = iota // *jschema.Schema (root or user type)
	KRegex         // *regex.Schema
	KEnum          // *enum.Enum
	KDoc           // json document
	KSelf          // (TypeRef only) the schema is added to itself
)

// TypeRef: one AddType(Name, <object of pool entry Spec>) of a schema's setup.
type TypeRef struct {
	Name string
	Kind int // KSchema, KRegex or KSelf
	Spec int // index into Schemas / Regexes
}

// RuleRef: one AddRule(Name, enum.New(Name, Enums[Enum])).
type RuleRef struct {
	Name string
	Enum int
}

// SchemaSpec is a pool entry: text plus the intended setup (rules first, then
// types, in this order).
type SchemaSpec struct {
	ID     string
	Text   string
	Rules  []RuleRef
	Types  []TypeRef
	IsType bool // meant to be added to roots (still a full Schema object)
	Ext    bool // entry of the root-kind extension (pool_roots.go): in AllRoots() only, so that x/c12 keeps its pool
	Bind   bool // entry of the binding family (pool_bind.go): in BindRoots() only
	Keys   bool // entry of the keys family (pool_keys.go; marked Ext and Bind as well): in KeyRoots() only
}

// UsesAllOf: the text carries an allOf rule (such an object is rewritten in
// place by the compile of every root it was added to — K-C11-sharedallof /
// K-C12-allof when shared).
func (s SchemaSpec) UsesAllOf() bool { return strings.Contains(s.Text, "allOf") }

var Enums = []string{
	/*0*/ `["a", "b", 1]`,
	/*1*/ "[\n  \"x\", // first\n  2.5,\n  null, true\n]",
	/*2*/ `["a", "a"]`, // duplicate
	/*3*/ `["a",`, // malformed
	/*4*/ `[1, 2] // trailing comment`,
	/*5*/ `{"a": 1}`, // not an array
	// stand-alone (own-line) comment entries between the values
	/*6*/ "[\n  // group one\n  \"a\",\n  /* group two */\n  1,\n  \"b\" // last\n]",
	/*7*/ "[\n  \"x\",\n  // only strings below\n  \"y\",\n  // and this\n  \"z\"\n]",
}

var Regexes = []string{
	/*0*/ `/[a-z]x[0-9]?/`,
	/*1*/ `/abc-\d{2}/`,
	/*2*/ `/(unclosed/`,
	/*3*/ `abc`,
	/*4*/ `/a\/b+/ trailing`,
	/*5*/ `/(foo|bar)[A-F]{1,3}.?/`,
}

var Docs = []string{
	/*0*/ `{"a": 1, "b": "s"}`,
	/*1*/ `{"a": "x", "b": "s"}`,
	/*2*/ `[1, 2, 3]`,
	/*3*/ `"ax"`,
	/*4*/ `{"id": 7, "tags": ["q"], "next": {"id": 8, "tags": []}}`,
	/*5*/ `{"a": 1,`,
	/*6*/ ``,
	/*7*/ `{"a": 1} x`,
	/*8*/ `{"k": 1, "x": 1}`,
	/*9*/ `{"a": {"k": 2, "y": "t"}}`,
	/*10*/ `{"a": 5, "zz": 2}`,
	/*11*/ `{}`,
	/*12*/ `{"v": "st", "w": 3}`,
	/*13*/ `{"a": "cx"}`,
	/*14*/ `{"a": 1, "b": }`,
	/*15*/ `[1, 2,, 3]`,
	/*16*/ `{"a": 1, "b": "s"}}`,
	/*17*/ `{"a": x, "b": "s"}`,
	/*18*/ `{"id": 7, "flag": false}`,
	/*19*/ `{"id": "x7", "flag": null}`,
	/*20*/ `{"id": true, "flag": false}`,
	/*21*/ `{"id": 7, "flag": "no"}`,
	/*22*/ `{"v": true, "w": "x"}`,
	/*23*/ `{"v": 1, "w": 2}`,
	/*24*/ `{"a": 1, "b": "s"} ]`,
	/*25*/ `{"a": "b"}`,
	/*26*/ `"z"`,
	/*27*/ `{"p": 1, "q": 2}`,
	/*28*/ `{"p": 1}`,
	/*29*/ `{"z": {"p": 1, "q": 2}}`,
	/*30*/ `{"z": {"p": 1}}`,
	/*31*/ `{"x": {"p": 1}}`,
	/*32*/ `{"x": {}}`,
	/*33*/ `{"y": {"q": 2}}`,
}

// Schemas: type specs first (indices are referenced by the roots below).
var Schemas []SchemaSpec

func idx(id string) int {
	for i, s := range Schemas {
		if s.ID == id {
			return i
		}
	}
	panic("c11 pool: no schema spec " + id)
}

func ty(name, id string) TypeRef    { return TypeRef{Name: name, Kind: KSchema, Spec: idx(id)} }
func rx(name string, i int) TypeRef { return TypeRef{Name: name, Kind: KRegex, Spec: i} }

func init() {
	initBasePool()
	initRootKinds()
	initBindFamily()
	initKeysFamily() // after the binding family: its documents are appended to DocsB
	badDocs = malformedDocs()
}

func initBasePool() {
	t := func(id, text string) { Schemas = append(Schemas, SchemaSpec{ID: id, Text: text, IsType: true}) }
	t("t_num", `1 // {min: 0}`)
	t("t_str", `"s" // {minLength: 1}`)
	t("t_node", "{\n  \"id\": 1,\n  \"tags\": [\"t\"],\n  \"next\": @node // {optional: true}\n}")
	t("t_base", `{"x": 1}`)
	t("t_base2", `{"y": "s"}`)
	t("t_allof", "{ // {allOf: \"@base\"}\n  \"k\": 1\n}")
	t("t_bad", `"s" // {minLength: 5}`)
	t("t_broken", `{"x":`)
	t("t_key", `"abc" // {regex: "[a-z]+"}`)
	t("t_or", "{\n  \"v\": 1 // {or: [{type: \"integer\", min: 0}, {type: \"string\", minLength: 2}]}\n}")
	t("t_m1", `{"x": @m1}`)
	t("t_m2", `{"yy":  @m2}`)
	t("t_empty", ``)
	// inline or-sets with DIFFERENT alternatives: each type owns anonymous types
	t("t_id", `1 // {or: [{type: "integer"}, {type: "string"}]}`)
	t("t_flag", `  true // {or: [{type: "boolean"}, {type: "null"}]}`)
	// plain object types with required keys, used as allOf parents AND directly
	t("t_p", `{"p": 1}`)
	t("t_q", `{"q": 2}`)
	// an object without required keys of its own extending two parents
	t("t_ext", "{ // {allOf: [\"@p\", \"@q\"]}\n  \"o\": 1 // {optional: true}\n}")
	Schemas = append(Schemas, SchemaSpec{ID: "t_enum3", Text: `"a" // {enum: @e}`, IsType: true, Rules: []RuleRef{{"@e", 6}}})
	Schemas = append(Schemas, SchemaSpec{ID: "t_enum", Text: `"a" // {enum: @e}`, IsType: true, Rules: []RuleRef{{"@e", 0}}})
	Schemas = append(Schemas, SchemaSpec{ID: "t_hoist", Text: `{"u": @u}`, IsType: true, Types: []TypeRef{ty("@u", "t_num")}})

	r := func(id, text string, rules []RuleRef, types ...TypeRef) {
		Schemas = append(Schemas, SchemaSpec{ID: id, Text: text, Rules: rules, Types: types})
	}
	r("r_plain", `{"a": 1, "b": "s"}`, nil)
	r("r_rules", "{\n  \"a\": 1, // {min: 0}\n  \"b\": \"s\" // {optional: true}\n}", nil)
	r("r_types", `{"a": @num, "b": @str}`, nil, ty("@num", "t_num"), ty("@str", "t_str"))
	r("r_rx", `{"a": @rx}`, nil, rx("@rx", 0))
	r("r_rxroot", `@rx`, nil, rx("@rx", 5))
	r("r_rxbad", `{"a": @rx}`, nil, rx("@rx", 2))
	r("r_enum", "{\n  \"a\": 1 // {enum: @e}\n}", []RuleRef{{"@e", 0}})
	r("r_enum2", "{\n  \"a\": 2.5 // {enum: @e}\n}", []RuleRef{{"@e", 1}})
	r("r_enumbad", "{\n  \"a\": 1 // {enum: @e}\n}", []RuleRef{{"@e", 3}})
	r("r_enumdup", "{\n  \"a\": \"a\" // {enum: @e}\n}", []RuleRef{{"@e", 2}})
	r("r_rec", `@node`, nil, ty("@node", "t_node"))
	r("r_self", "{\n  \"id\": 1,\n  \"tags\": [\"t\"],\n  \"next\": @node // {optional: true}\n}", nil, TypeRef{Name: "@node", Kind: KSelf})
	r("r_or", "{\n  \"v\": 1, // {or: [{type: \"integer\", min: 0}, {type: \"string\", minLength: 2}]}\n  \"w\": @or | @num\n}", nil,
		ty("@or", "t_or"), ty("@num", "t_num"))
	r("r_idflag", `{"id": @id, "flag": @flag}`, nil, ty("@id", "t_id"), ty("@flag", "t_flag"))
	r("r_ownor", "{\n  \"v\": true, // {or: [{type: \"boolean\"}, {type: \"null\"}]}\n  \"w\": @id\n}", nil, ty("@id", "t_id"))
	r("r_enum3", "{\n  \"a\": \"a\" // {enum: @e}\n}", []RuleRef{{"@e", 6}})
	r("r_enum3n", "{\n  \"a\": 1, // {enum: @e}\n  \"b\": \"b\" // {enum: @e, optional: true}\n}", []RuleRef{{"@e", 6}})
	r("r_enum3s", `"y" // {enum: @words}`, []RuleRef{{"@words", 7}})
	r("r_enum3s2", "[\n  \"z\" // {enum: @w}\n]", []RuleRef{{"@w", 7}})
	r("r_tenum3", `{"a": @te}`, nil, ty("@te", "t_enum3"))
	r("r_allofpq", "{ // {allOf: [\"@p\", \"@q\"]}\n}", nil, ty("@p", "t_p"), ty("@q", "t_q"))
	r("r_allofpq2", "{ // {allOf: [\"@q\", \"@p\"]}\n  \"o\": 1 // {optional: true}\n}", nil, ty("@p", "t_p"), ty("@q", "t_q"))
	r("r_extpq", `{"z": @ext}`, nil, ty("@ext", "t_ext"), ty("@p", "t_p"), ty("@q", "t_q"))
	r("r_usep", `{"x": @p}`, nil, ty("@p", "t_p"))
	r("r_proot", `@p`, nil, ty("@p", "t_p"))
	r("r_useq", `{"y": @q}`, nil, ty("@q", "t_q"))
	r("r_allof", "{ // {allOf: \"@base\"}\n  \"k\": 1\n}", nil, ty("@base", "t_base"))
	r("r_allof2", "{ // {allOf: \"@base\"}\n  \"k\": 1\n}", nil, ty("@base", "t_base2"))
	r("r_uset", `{"a": @t}`, nil, ty("@t", "t_allof"), ty("@base", "t_base"))
	r("r_uset2", `{"a": @t}`, nil, ty("@t", "t_allof"), ty("@base", "t_base2"))
	r("r_syntax", `{"a": 1,`, nil)
	r("r_sem", "{\n  \"a\": 1 // {min: 5}\n}", nil)
	r("r_missing", `{"a": @missing}`, nil)
	r("r_badtype", `{"a": @bad}`, nil, ty("@bad", "t_bad"))
	r("r_brokentype", `{"a": @t}`, nil, ty("@t", "t_broken"))
	r("r_keys", `{@key: 1}`, nil, ty("@key", "t_key"))
	r("r_addl", "{ // {additionalProperties: \"integer\"}\n  \"a\": 1\n}", nil)
	r("r_empty", ``, nil)
	r("r_twomissing", `{"a": @t1, "b": @t2}`, nil, ty("@t1", "t_m1"), ty("@t2", "t_m2"))
	r("r_req", `{"a": 1, "b": 2, "c": 3}`, nil)
	r("r_twokeys", `{@k1: 1, @k2: "s"}`, nil, ty("@k1", "t_key"), ty("@k2", "t_key"))
	r("r_hoist", `{"h": @hoist}`, nil, ty("@hoist", "t_hoist"))
	r("r_emptytype", `{"a": @e}`, nil, ty("@e", "t_empty"))
	r("r_tenum", `{"a": @te}`, nil, ty("@te", "t_enum"))
	r("r_dupname", `{"a": @num}`, nil, ty("@num", "t_num"), ty("@num", "t_str")) // second AddType: duplicate name
}

// Roots lists the indices of the root specs of the base pool (the pool x/c12
// draws from as well).
func Roots() []int {
	var out []int
	for i, s := range Schemas {
		if !s.IsType && !s.Ext {
			out = append(out, i)
		}
	}
	return out
}

// AllRoots: base pool + the root-kind extension of pool_roots.go.
func AllRoots() []int {
	var out []int
	for i, s := range Schemas {
		if !s.IsType && !s.Bind {
			out = append(out, i)
		}
	}
	return out
}
