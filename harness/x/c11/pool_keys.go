package c11

import (
	stdjson "encoding/json"
	"fmt"
	"math/rand"
	"strings"

	"github.com/jsightapi/jsight-schema-go-library/notations/jschema"
)

// pool_keys.go: the OPTION of a schema object and the KEYS family of the pool.
//
// C11 / C12 quantify over "Schema objects"; a Schema object is its text AND the
// options it was created with.  jschema.KeysAreOptionalByDefault() belongs to
// ONE object: it says how the unmarked keys of THAT object's text are read.  A
// type object may be added to several roots that were created with different
// settings of the option (a lenient root next to a strict one), and may itself
// have been created with or without it; nothing one root does with the shared
// object may change what another root answers.  So
//
//   - every schema object of every history carries an option bit (Obj.Opt),
//     drawn independently per object (roots and type objects alike; the fresh
//     objects of the oracle are created with the same bit);
//   - the KEYS family is the product
//
//	shared type text with UNMARKED keys  x  root form
//
//     shared type: a flat object, an object whose keys are partly marked
//     `optional: true` / `optional: false`, nested objects and arrays of objects
//     inside the type, a reference to a second shared type, a type that OWNS a
//     type (T.AddType(U)), an array type, keys with rules, additionalProperties;
//     root form: the type as a property, as the root, as an array element, next
//     to a key of the root's own, as an optional property plus array element;
//     documents per root: the full document and every document that LACKS
//     exactly one key of it (at any depth: keys of the root's own text, of the
//     shared type, of the objects nested in it, of the types it refers to).
//     Expected (from fresh objects, never from a table): a strict root turns a
//     document lacking an unmarked key of a strict type down, whatever a lenient
//     root did with the same type object before; a lenient root accepts the
//     documents lacking its OWN keys only.
//
// The entries are marked Keys (and Ext, Bind, so that Roots() / AllRoots() keep
// their lists); KeyRoots() lists the roots.  Their documents live in DocsB.

// SchemaOptions: the options a schema object with option bit opt is created with.
func SchemaOptions(opt bool) []jschema.Option {
	if opt {
		return []jschema.Option{jschema.KeysAreOptionalByDefault()}
	}
	return nil
}

// OptText: how the options are written in a replay description.
func OptText(opt bool) string {
	if opt {
		return ", jschema.KeysAreOptionalByDefault()"
	}
	return ""
}

type keyShared struct {
	id, text string
	doc      string    // the full document of the type
	owned    []TypeRef // AddType calls on the TYPE object itself
	second   string    // id of a second shared type the ROOT adds as @K ("" = none)
}

type keyForm struct {
	text, doc string // hole D = document of the shared type
}

var keyShareds = []keyShared{
	{id: "two", text: `{"k1": 1, "k2": "s"}`, doc: `{"k1": 1, "k2": "s"}`},
	{id: "mix", text: "{\n  \"k1\": 1,\n  \"k2\": \"s\", // {optional: true}\n  \"k3\": true, // {optional: false}\n  \"k4\": 2.5\n}",
		doc: `{"k1": 1, "k2": "s", "k3": true, "k4": 2.5}`},
	{id: "nest", text: `{"k1": {"n1": 1, "n2": [{"e1": 1, "e2": "s"}]}, "k2": 2}`, doc: `{"k1": {"n1": 1, "n2": [{"e1": 1, "e2": "s"}]}, "k2": 2}`},
	{id: "ref", text: `{"k1": @K, "k2": 1}`, doc: `{"k1": {"k1": 1, "k2": "s"}, "k2": 1}`, second: "two"},
	{id: "arr", text: `[{"a1": 1, "a2": "s"}]`, doc: `[{"a1": 1, "a2": "s"}]`},
	{id: "rules", text: "{\n  \"k1\": 1, // {min: 0}\n  \"k2\": \"ab\", // {minLength: 1}\n  \"k3\": [1]\n}", doc: `{"k1": 1, "k2": "ab", "k3": [1]}`},
	{id: "addl", text: "{ // {additionalProperties: \"string\"}\n  \"k1\": 1,\n  \"k2\": 2\n}", doc: `{"k1": 1, "k2": 2, "zz": "s"}`},
	// "own" is appended by initKeysFamily (its owned type must exist first)
}

var keyForms = []keyForm{
	{text: `{"item": @S}`, doc: `{"item": D}`},
	{text: `@S`, doc: `D`},
	{text: `[@S]`, doc: `[D]`},
	{text: `{"item": @S, "own": 1}`, doc: `{"item": D, "own": 1}`},
	{text: "{\n  \"item\": @S, // {optional: true}\n  \"list\": [@S]\n}", doc: `{"item": D, "list": [D]}`},
}

// docLacksKey[i]: document i of the keys family lacks one key of its root's full document.
var docLacksKey = map[int]bool{}

func keyRootID(s, f int) string { return fmt.Sprintf("kr_%s_f%d", keyShareds[s].id, f) }

// dropOneKey lists the documents that lack exactly one key (at any depth) of doc.
func dropOneKey(doc string) []string {
	var v interface{}
	dec := stdjson.NewDecoder(strings.NewReader(doc))
	dec.UseNumber()
	if dec.Decode(&v) != nil {
		panic("c11 keys family: bad document " + doc)
	}
	var out []string
	// walk visits every object below v; emit is called with a replacement for it
	var walk func(x interface{}, rebuild func(interface{}) interface{})
	walk = func(x interface{}, rebuild func(interface{}) interface{}) {
		switch t := x.(type) {
		case map[string]interface{}:
			keys := make([]string, 0, len(t))
			for k := range t {
				keys = append(keys, k)
			}
			// encoding/json writes keys sorted; enumerate in the same order
			sortStrings(keys)
			for _, drop := range keys {
				c := map[string]interface{}{}
				for k, e := range t {
					if k != drop {
						c[k] = e
					}
				}
				b, err := stdjson.Marshal(rebuild(c))
				if err != nil {
					panic(err)
				}
				out = append(out, string(b))
			}
			for _, k := range keys {
				k := k
				walk(t[k], func(n interface{}) interface{} {
					c := map[string]interface{}{}
					for kk, e := range t {
						c[kk] = e
					}
					c[k] = n
					return rebuild(c)
				})
			}
		case []interface{}:
			for i := range t {
				i := i
				walk(t[i], func(n interface{}) interface{} {
					c := append([]interface{}{}, t...)
					c[i] = n
					return rebuild(c)
				})
			}
		}
	}
	walk(v, func(n interface{}) interface{} { return n })
	return out
}

func sortStrings(a []string) {
	for i := 1; i < len(a); i++ {
		for j := i; j > 0 && a[j] < a[j-1]; j-- {
			a[j], a[j-1] = a[j-1], a[j]
		}
	}
}

func initKeysFamily() {
	add := func(id, text string, types ...TypeRef) int {
		Schemas = append(Schemas, SchemaSpec{ID: id, Text: text, IsType: true, Ext: true, Bind: true, Keys: true, Types: types})
		return len(Schemas) - 1
	}
	u := add("kt_u", `{"u1": 1, "u2": "s"}`)
	keyShareds = append(keyShareds, keyShared{id: "own", text: `{"k1": @u, "k2": 1}`, doc: `{"k1": {"u1": 1, "u2": "s"}, "k2": 1}`,
		owned: []TypeRef{{Name: "@u", Kind: KSchema, Spec: u}}})
	sspec := map[string]int{}
	for _, s := range keyShareds {
		sspec[s.id] = add("kt_"+s.id, s.text, s.owned...)
	}
	for si, s := range keyShareds {
		for fi, f := range keyForms {
			types := []TypeRef{{Name: "@S", Kind: KSchema, Spec: sspec[s.id]}}
			if s.second != "" {
				types = append(types, TypeRef{Name: "@K", Kind: KSchema, Spec: sspec[s.second]})
			}
			id := keyRootID(si, fi)
			Schemas = append(Schemas, SchemaSpec{ID: id, Text: f.text, Types: types, Ext: true, Bind: true, Keys: true})
			full := strings.ReplaceAll(f.doc, "D", s.doc)
			docFit[id] = append(docFit[id], bindDocIndex(full))
			for _, d := range dropOneKey(full) {
				i := bindDocIndex(d)
				docLacksKey[i] = true
				docFit[id] = append(docFit[id], i)
			}
		}
	}
}

// KeyRoots lists the root specs of the keys family.
func KeyRoots() []int {
	var out []int
	for i, s := range Schemas {
		if !s.IsType && s.Keys {
			out = append(out, i)
		}
	}
	return out
}

// KeyRootsSharing: the roots of the keys family grouped by shared type text
// (every group: one root per root form, all adding the same type spec as @S).
func KeyRootsSharing() [][]int {
	var out [][]int
	for si := range keyShareds {
		var g []int
		for fi := range keyForms {
			g = append(g, idx(keyRootID(si, fi)))
		}
		out = append(out, g)
	}
	return out
}

// DocFit: indices (DocText) of the documents written for the spec: for a root
// of the keys family the full document and every document lacking one key.
func DocFit(id string) []int { return docFit[id] }

// DocLacksKey: document i lacks one key of the full document of its root.
func DocLacksKey(i int) bool { return docLacksKey[i] }

// keyRootSpecs draws the roots of a keys history: ONE shared type text, 2-3
// roots over it, each in one of the root forms.
func keyRootSpecs(r *rand.Rand) []int {
	g := KeyRootsSharing()[r.Intn(len(keyShareds))]
	var out []int
	for i, n := 0, 2+r.Intn(2); i < n; i++ {
		out = append(out, g[r.Intn(len(g))])
	}
	return out
}
