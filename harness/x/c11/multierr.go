package c11

import (
	stdErrors "errors"
	"fmt"
	"math/rand"
	"regexp"
	"runtime"
	"sort"
	"strings"
	"sync"
	"sync/atomic"
	"time"

	root "github.com/jsightapi/jsight-schema-go-library"
	"github.com/jsightapi/jsight-schema-go-library/formats/json"
	"github.com/jsightapi/jsight-schema-go-library/notations/jschema"

	"verifharness/vh"
)

// multierr.go: SEVERAL SIMULTANEOUS ERRORS, many fresh constructions.
//
// "Equal inputs give equal results - verdict, error code and position": when a
// schema has more than one error (in the root text, in several added types, in
// the unnamed types the loader makes for or-shortcuts `@a | @b` and or rule-sets),
// WHICH of them Check reports is part of the result.  It must be a function of
// the input, not of map iteration order, of the order types happen to be visited
// in, or of the addresses the objects happen to get (unnamed types are named by
// address).  A history of <= 12 operations runs an input a handful of times;
// a choice that depends on heap layout shows up once in hundreds of runs only.
// So every case here is ONE input (root text + added types as name = text, in a
// fixed AddType order) constructed from scratch N >= 300 times, with heap churn
// between all the steps of a construction (allocations of varying sizes and
// kinds, dropping them, big allocations that drive the GC pacer, occasional
// runtime.GC()), on all workers at once; all N results (AddType errors; Check:
// code, position, file, incorrect user type, message; one further call per case:
// Example / GetAST / Validate (code, position, file) / UsedUserTypes) must be
// identical.
//
// Input: 2-4 added types under names whose alphabetical order, AddType order
// and order of use in the root are independent.  The FILE NAME every schema
// object (the root, each type object) is created with is an input of its own (it
// is what an error names as its file, and what the library may order things by):
// it is drawn independently of the type names - a permutation of a pool of names
// (orders that disagree with the order of the type names), independent draws
// (equal names occur, also equal to the root's), one name for all objects (the
// empty name too), or the type's own name (the file order is the name order); the
// pool has the empty name, names that sort between / before / after the others,
// names that look like type names.  Each type is an object / array
// / bare value made of SITES; the root uses the types (plain, inside an array,
// inside an or-shortcut, or not at all) and may have sites of its own.  A site
// is fine, or wrong at the level of the named type (missing type, value against
// its own rule, rule not applicable, example against the named type, enum), or
// wrong inside an UNNAMED type (or-shortcut with missing members, or rule-set
// none of whose members fits / with a missing type / with an inapplicable rule),
// or does not load (AddType fails).  Types refer to later types only (no cycles:
// K-C07 / K-C09 are other properties' findings).

type meSite struct {
	value, annot string
	cat          int  // 0 fine, 1 wrong in a named type, 2 wrong in an unnamed type, 3 does not load
	unnamed      bool // the loader makes an unnamed type for the site (wrong or fine)
}

type meType struct {
	name, file, text string
	wrongNamed       bool // has a site that is wrong at the level of the named type
	unnamed          bool // has a site the loader makes an unnamed type for
}

// meFileNames: the pool the file names are drawn from.
var meFileNames = []string{"", "#f", "@A", "@zed", "a", "b", "b.jst", "m", "root", "t1.jst", "t2.jst", "t3.jst", "z"}

var meFileModes = []string{"permutation_of_the_pool", "independent_draws", "one_name_for_all", "own_type_name"}

type meCase struct {
	idx         int
	rootFile    string
	rootText    string
	fileMode    int      // index into meFileModes
	heavy       bool     // site profile: wrong sites of NAMED types are the most frequent ones
	types       []meType // in AddType order
	rootUnnamed bool     // the root text has a site the loader makes an unnamed type for
	extra       OpCode   // OpCheck = none
	doc         string
	nbad        int
	unnamedFiles,
	namedFiles int // number of files (root / types) with a wrong site of that category
	rootBad bool
}

func (c *meCase) Text(withExtra bool) string {
	var sb strings.Builder
	fmt.Fprintf(&sb, "root := jschema.New(%q, %q); ", c.rootFile, c.rootText)
	for i, t := range c.types {
		fmt.Fprintf(&sb, "t%d := jschema.New(%q, %q); root.AddType(%q, t%d); ", i, t.file, t.text, t.name, i)
	}
	sb.WriteString("root.Check()")
	if withExtra {
		switch c.extra {
		case OpValidate:
			fmt.Fprintf(&sb, "; root.Validate(json.New(\"doc\", %q))", c.doc)
		case OpExample, OpAST, OpUsed:
			fmt.Fprintf(&sb, "; root.%s()", opNames[c.extra])
		}
	}
	return sb.String()
}

// heavy: the other site profile (fine 18, wrong in a named type 40, wrong in an
// unnamed type 28 of 100 instead of 23 / 20 / 43): several offending NAMED types
// at once are then as frequent as several offending unnamed ones.
func meSitePick(r *rand.Rand, later []string, heavy bool) (s meSite) {
	defer func() {
		s.unnamed = s.cat == 2 || strings.Contains(s.value, " | ") || strings.Contains(s.annot, "or:")
	}()
	m := func() string { return fmt.Sprintf("@m%d", 1+r.Intn(4)) }
	x := r.Intn(100)
	if len(later) > 0 && x < 12 {
		return meSite{value: later[r.Intn(len(later))]}
	}
	if heavy && x >= 12 && x < 98 {
		switch {
		case x < 30:
			x = 12
		case x < 70:
			x = 35
		default:
			x = 55
		}
	}
	switch {
	case x < 35:
		fine := []meSite{{value: `1`}, {value: `"s"`}, {value: `@num`}, {value: `@num | @str`}, {value: `[1]`},
			{value: `1`, annot: `{or: [{type: "integer"}, {type: "string"}]}`}, {value: `2`, annot: `{min: 1}`},
			{value: `"ab"`, annot: `{type: "@str"}`}, {value: `[@num | @str]`}, {value: `"b"`, annot: `{or: ["@num", "@str"]}`}}
		return fine[r.Intn(len(fine))]
	case x < 55:
		named := []meSite{{value: m()}, {value: `1`, annot: `{min: 5}`}, {value: `1`, annot: `{minLength: 2}`},
			{value: `"abc"`, annot: `{type: "@num"}`}, {value: `1`, annot: `{enum: [2, 3]}`}, {value: `1`, annot: `{type: "` + m() + `"}`},
			{value: `{}`, annot: `{additionalProperties: "` + m() + `"}`}, {value: `[` + m() + `]`}}
		s := named[r.Intn(len(named))]
		s.cat = 1
		return s
	case x < 98:
		a, b := m(), m()
		unnamed := []meSite{{value: a + ` | ` + b}, {value: `@num | ` + a}, {value: a + ` | @str`}, {value: `[` + a + ` | ` + b + `]`},
			{value: a + ` | ` + b + ` | @num`},
			{value: `1`, annot: `{or: [{type: "integer", min: 5}, {type: "string"}]}`},
			{value: `1`, annot: `{or: [{type: "` + a + `"}, {type: "string"}]}`},
			{value: `1`, annot: `{or: ["` + a + `", "@num"]}`},
			{value: `true`, annot: `{or: [{type: "string"}, {type: "integer"}]}`},
			{value: `1`, annot: `{or: [{type: "integer", minLength: 5}, {type: "string"}]}`},
			{value: `1`, annot: `{or: [{type: "enum", enum: [2]}, {type: "string"}]}`},
			{value: `"q"`, annot: `{or: [{type: "string", minLength: 3}, "` + a + `"]}`}}
		s := unnamed[r.Intn(len(unnamed))]
		s.cat = 2
		return s
	}
	noload := []meSite{{value: `1`, annot: `{or: [{min: 1, max: 0}, {type: "string"}]}`}, {value: `1`, annot: `{min: 1, max: 0}`},
		{value: `1`, annot: `{or: [{type: "mixed"}, {type: "string"}]}`}, {value: `[1, 2`}}
	s = noload[r.Intn(len(noload))]
	s.cat = 3
	return s
}

// meRender renders sites as an object (keys k0, k1 …), an array, or a bare value.
func meRender(r *rand.Rand, sites []meSite, keys []string, shape int) string {
	line := func(prefix string, s meSite, last bool) string {
		l := "  " + prefix + s.value
		if !last {
			l += ","
		}
		if s.annot != "" {
			l += " // " + s.annot
		}
		return l
	}
	var ls []string
	switch shape {
	case 0: // object
		ls = append(ls, "{")
		for i, s := range sites {
			ls = append(ls, line(fmt.Sprintf("%q: ", keys[i]), s, i == len(sites)-1))
		}
		ls = append(ls, "}")
	case 1: // array
		ls = append(ls, "[")
		for i, s := range sites {
			ls = append(ls, line("", s, i == len(sites)-1))
		}
		ls = append(ls, "]")
	default: // bare value
		s := sites[0]
		if s.annot != "" {
			return s.value + " // " + s.annot
		}
		return s.value
	}
	return strings.Join(ls, "\n")
}

func meGenerate(i int) *meCase {
	r := vh.NewRand(12000000 + int64(i))
	c := &meCase{idx: i}
	names := []string{"@A", "@B", "@C", "@D", "@a1", "@zed", "@T", "@Bb"}
	r.Shuffle(len(names), func(a, b int) { names[a], names[b] = names[b], names[a] })
	n := 2 + r.Intn(3)
	names = names[:n]
	c.heavy = r.Intn(2) == 0
	type file struct{ unnamed, named, anyUnnamed bool }
	count := func(sites []meSite) (f file) {
		for _, s := range sites {
			if s.cat != 0 {
				c.nbad++
			}
			if s.cat == 2 {
				f.unnamed = true
			}
			if s.cat == 1 {
				f.named = true
			}
			if s.unnamed {
				f.anyUnnamed = true
			}
		}
		return f
	}
	tally := func(f file) {
		if f.unnamed {
			c.unnamedFiles++
		}
		if f.named {
			c.namedFiles++
		}
	}
	var types []meType
	for k, name := range names {
		shape := []int{0, 0, 0, 0, 0, 1, 2}[r.Intn(7)]
		ns := 1 + r.Intn(3)
		if shape == 2 {
			ns = 1
		}
		sites := make([]meSite, ns)
		keys := make([]string, ns)
		for j := range sites {
			sites[j] = meSitePick(r, names[k+1:], c.heavy)
			keys[j] = fmt.Sprintf("k%d", j)
		}
		f := count(sites)
		tally(f)
		types = append(types, meType{name: name, text: meRender(r, sites, keys, shape), wrongNamed: f.named, unnamed: f.anyUnnamed})
	}
	// the root: uses of the types + own sites
	var rs []meSite
	var keys []string
	for k, name := range names {
		switch x := r.Intn(10); {
		case x < 6:
			rs = append(rs, meSite{value: name})
		case x < 7:
			rs = append(rs, meSite{value: "[" + name + "]"})
		case x < 9:
			rs = append(rs, meSite{value: name + " | " + names[(k+1)%len(names)]})
			c.rootUnnamed = true
		default: // not used by the root
			continue
		}
		keys = append(keys, strings.ToLower(name[1:]))
	}
	nOwn := []int{0, 0, 0, 1, 1, 2}[r.Intn(6)]
	var own []meSite
	for j := 0; j < nOwn; j++ {
		s := meSitePick(r, nil, c.heavy)
		own = append(own, s)
		rs = append(rs, s)
		keys = append(keys, fmt.Sprintf("own%d", j))
	}
	f := count(own)
	tally(f)
	c.rootBad = f.unnamed || f.named
	c.rootUnnamed = c.rootUnnamed || f.anyUnnamed
	if len(rs) == 0 {
		rs, keys = []meSite{{value: `1`}}, []string{"n"}
	}
	r.Shuffle(len(rs), func(a, b int) { rs[a], rs[b] = rs[b], rs[a]; keys[a], keys[b] = keys[b], keys[a] })
	c.rootText = meRender(r, rs, keys, 0)
	// helper types the sites refer to (now and then one is absent: one more missing type)
	if r.Intn(6) != 0 {
		types = append(types, meType{name: "@num", text: `1 // {min: 0}`})
	}
	if r.Intn(6) != 0 {
		types = append(types, meType{name: "@str", text: `"s"`})
	}
	r.Shuffle(len(types), func(a, b int) { types[a], types[b] = types[b], types[a] })
	// the file names: an input of their own (PRNG of its own, so that the texts of a
	// case number do not depend on how the names are drawn)
	rf := vh.NewRand(12500000 + int64(i))
	c.fileMode = []int{0, 0, 0, 1, 1, 1, 2, 3}[rf.Intn(8)]
	pool := append([]string(nil), meFileNames...)
	rf.Shuffle(len(pool), func(a, b int) { pool[a], pool[b] = pool[b], pool[a] })
	one := pool[0]
	if rf.Intn(3) == 0 {
		one = ""
	}
	fileOf := func(k int, own string) string {
		switch c.fileMode {
		case 0:
			return pool[k]
		case 1:
			return meFileNames[rf.Intn(len(meFileNames))]
		case 2:
			return one
		}
		return own
	}
	c.rootFile = fileOf(len(types), "root")
	for k := range types {
		types[k].file = fileOf(k, types[k].name)
	}
	c.types = types
	c.extra = []OpCode{OpCheck, OpCheck, OpExample, OpAST, OpValidate, OpUsed}[r.Intn(6)]
	c.doc = `{"own0": 1}`
	return c
}

// fileStats: how the file names of the case relate to the type names and to what
// the files contain.
func (c *meCase) fileStats() []string {
	out := []string{"me_file_names_" + meFileModes[c.fileMode]}
	if c.heavy {
		out = append(out, "me_site_profile_named_heavy")
	}
	files := map[string]bool{c.rootFile: true}
	agree, disagree, tie := 0, 0, 0
	nOff := 0
	for i, a := range c.types {
		files[a.file] = true
		if a.wrongNamed {
			nOff++
		}
		for _, b := range c.types[i+1:] {
			switch {
			case a.file == b.file:
				tie++
			case (a.name < b.name) == (a.file < b.file):
				agree++
			default:
				disagree++
			}
		}
	}
	out = append(out, fmt.Sprintf("me_distinct_file_names_%d", len(files)))
	if c.rootFile == "" {
		out = append(out, "me_root_file_name_empty")
	}
	switch {
	case disagree > 0 && tie > 0:
		out = append(out, "me_file_order_vs_type_name_order_disagrees_and_equal_file_names")
	case disagree > 0:
		out = append(out, "me_file_order_vs_type_name_order_disagrees")
	case tie > 0:
		out = append(out, "me_file_order_vs_type_name_order_agrees_up_to_equal_file_names")
	default:
		out = append(out, "me_file_order_vs_type_name_order_agrees")
	}
	out = append(out, fmt.Sprintf("me_offending_named_types_%d", imin(nOff, 4)))
	// >= 2 offending named types together with an unnamed type made from ANOTHER
	// file (a third type's or the root's) under a file name of its own
	if nOff >= 2 {
		out = append(out, "me_2+_offending_named_types")
		other, between := false, false
		var offFiles []string
		for _, a := range c.types {
			if a.wrongNamed {
				offFiles = append(offFiles, a.file)
			}
		}
		sort.Strings(offFiles)
		chk := func(f string) {
			own := false
			for _, o := range offFiles {
				if o == f {
					own = true
				}
			}
			if !own {
				other = true
				if f > offFiles[0] && f < offFiles[len(offFiles)-1] {
					between = true
				}
			}
		}
		if c.rootUnnamed {
			chk(c.rootFile)
		}
		for _, a := range c.types {
			if a.unnamed {
				chk(a.file)
			}
		}
		if other {
			out = append(out, "me_2+_offending_named_types_and_unnamed_type_of_a_file_with_another_name")
		}
		if between {
			out = append(out, "me_2+_offending_named_types_and_unnamed_type_of_a_file_whose_name_sorts_between_theirs")
		}
	}
	return out
}

var meShortcutRe = regexp.MustCompile(`@\w+( \| @\w+)+`)

// equalNameShortcutTie: two DIFFERENT schema objects of the case (root / type
// objects) were created with EQUAL file names and have an or-shortcut (`@a | @b`:
// an unnamed type) at the same offset of their texts.  (Statistic and note only:
// (file name, offset) is all that tells such unnamed types apart besides their
// generated names.)
func (c *meCase) equalNameShortcutTie() bool {
	type obj struct{ file, text string }
	objs := []obj{{c.rootFile, c.rootText}}
	for _, t := range c.types {
		objs = append(objs, obj{t.file, t.text})
	}
	at := map[string]int{} // file name + offset -> object
	for i, o := range objs {
		for _, loc := range meShortcutRe.FindAllStringIndex(o.text, -1) {
			k := fmt.Sprintf("%q@%d", o.file, loc[0])
			if j, ok := at[k]; ok && j != i {
				return true
			}
			at[k] = i
		}
	}
	return false
}

// churner: heap traffic between the steps of a construction.
type churner struct {
	r    *rand.Rand
	sink []interface{}
	gcs  int
}

var churnSizes = []int{8, 16, 24, 32, 48, 64, 80, 96, 112, 128, 192, 256, 384, 512, 1024, 2048, 4096, 8192}

func (c *churner) step() {
	switch x := c.r.Intn(100); {
	case x < 40:
	case x < 80: // byte blocks of many size classes
		for k := c.r.Intn(24); k > 0; k-- {
			c.sink = append(c.sink, make([]byte, churnSizes[c.r.Intn(len(churnSizes))]))
		}
	case x < 88: // blocks with pointers, maps
		for k := c.r.Intn(12); k > 0; k-- {
			switch c.r.Intn(4) {
			case 0:
				c.sink = append(c.sink, map[string]interface{}{"a": k})
			case 1:
				c.sink = append(c.sink, new([3]*int))
			case 2:
				c.sink = append(c.sink, make([]*string, 1+c.r.Intn(6)))
			default:
				c.sink = append(c.sink, &struct {
					m map[string]int
					i interface{}
				}{})
			}
		}
	case x < 91: // a big block: moves the pacer, a GC cycle starts on its own
		c.sink = append(c.sink, make([]byte, (64<<10)<<uint(c.r.Intn(4))))
	case x < 98: // drop (a part of) what was kept
		if c.r.Intn(2) == 0 {
			c.sink = nil
		} else {
			c.sink = c.sink[:len(c.sink)/2]
		}
	default:
		// an explicit full cycle now and then (it stalls every worker; the cycles the
		// allocations above start on their own move the heap along just as well)
		if c.r.Intn(12) == 0 {
			c.gcs++
			runtime.GC()
		}
	}
	if len(c.sink) > 4000 {
		c.sink = nil
	}
}

// meConstruct builds the case from scratch once and returns its canonical results.
func meConstruct(c *meCase, ch *churner) (res string) {
	defer func() {
		if r := recover(); r != nil {
			res = fmt.Sprintf("PANIC %v", r)
		}
	}()
	var sb strings.Builder
	ch.step()
	s := jschema.New(c.rootFile, c.rootText)
	for _, t := range c.types {
		ch.step()
		ts := jschema.New(t.file, t.text)
		ch.step()
		sb.WriteString(meErr(s.AddType(t.name, ts)))
		sb.WriteString(" ; ")
	}
	ch.step()
	sb.WriteString("Check: ")
	sb.WriteString(meErr(s.Check()))
	switch c.extra {
	case OpExample:
		b, err := s.Example()
		fmt.Fprintf(&sb, " ; Example: %q %s", b, meErr(err))
	case OpAST:
		a, err := s.GetAST()
		sb.WriteString(" ; GetAST: " + CanonPtr(ASTJSON(a)) + " " + meErr(err))
	case OpValidate:
		// code, position and file only: the text of a document error is not a
		// compared result ("Required key" lists the keys in map order); the text
		// of a schema error has been compared by Check above
		sb.WriteString(" ; Validate: " + CanonErr(s.Validate(root.Document(json.New("doc", c.doc)))))
	case OpUsed:
		u, err := s.UsedUserTypes()
		sb.WriteString(" ; UsedUserTypes: " + CanonPtr(strings.Join(u, ",")) + " " + meErr(err))
	}
	return sb.String()
}

// meErr: code, position, file, incorrect user type and message of an error
// (generated names of unnamed types canonicalised).
func meErr(err error) string {
	if err == nil {
		return "ok"
	}
	s := CanonErr(err)
	var pe root.ParsingError
	if stdErrors.As(err, &pe) {
		var ue interface{ IncorrectUserType() string }
		ut := ""
		if stdErrors.As(err, &ue) {
			ut = ue.IncorrectUserType()
		}
		s += fmt.Sprintf(" type=%q msg=%q", ut, pe.Message())
	} else {
		s += fmt.Sprintf(" msg=%q", err.Error())
	}
	return CanonPtr(s)
}

type meResult struct {
	c        *meCase
	distinct map[string]int // result -> number of constructions
	firstAlt int            // first construction whose result differs from construction #0
	base     string
	gcs      int
}

// runMultiErr evaluates cases [0, n): each constructed reps times.
func runMultiErr(n, reps, workers int) (out []meResult, timedOut int) {
	out = make([]meResult, n)
	var next atomic.Int64
	current := make([]atomic.Int64, workers)
	done := make(chan struct{})
	var wg sync.WaitGroup
	for w := 0; w < workers; w++ {
		wg.Add(1)
		go func(w int) {
			defer wg.Done()
			for {
				i := int(next.Add(1)) - 1
				if i >= n {
					return
				}
				current[w].Store(int64(i) + 1)
				c := meGenerate(i)
				ch := &churner{r: vh.NewRand(13000000 + int64(i))}
				res := meResult{c: c, distinct: map[string]int{}, firstAlt: -1}
				for k := 0; k < reps; k++ {
					r := meConstruct(c, ch)
					if k == 0 {
						res.base = r
					} else if r != res.base && res.firstAlt < 0 {
						res.firstAlt = k
					}
					res.distinct[r]++
				}
				res.gcs = ch.gcs
				out[i] = res
				current[w].Store(0)
			}
		}(w)
	}
	go func() { wg.Wait(); close(done) }()
	select {
	case <-done:
		return out, -1
	case <-time.After(time.Duration(vh.Pick(120, 900)) * time.Second):
		for w := range current {
			if c := current[w].Load(); c != 0 {
				return out, int(c - 1)
			}
		}
		return out, 0
	}
}

// reportMultiErr: cases, statistics and diffs of the multi-error stream.
func reportMultiErr(rep *vh.Report, addDiff func(vh.Diff), rs []meResult, reps int) {
	for _, r := range rs {
		c := r.c
		if c == nil {
			continue
		}
		rep.Case("multierr: "+c.Text(true), c.nbad >= 2)
		rep.Stat("me_cases")
		rep.Stat(fmt.Sprintf("me_wrong_sites_%d", imin(c.nbad, 6)))
		rep.Stat(fmt.Sprintf("me_files_with_wrong_unnamed_type_%d", imin(c.unnamedFiles, 4)))
		if c.unnamedFiles >= 2 && !c.rootBad {
			rep.Stat("me_wrong_unnamed_types_in_2+_files_and_root_sites_fine")
		}
		if c.unnamedFiles >= 1 && c.namedFiles >= 1 {
			rep.Stat("me_wrong_unnamed_and_wrong_named_sites")
		}
		rep.Stat("me_extra_call_" + opNames[c.extra])
		for _, st := range c.fileStats() {
			rep.Stat(st)
		}
		tie := c.equalNameShortcutTie()
		if tie {
			rep.Stat("me_objects_of_equal_file_names_with_or_shortcuts_at_equal_offsets")
		}
		if i := strings.Index(r.base, "Check: "); i >= 0 {
			f := strings.Fields(r.base[i+7:])
			if len(f) > 0 {
				v := f[0]
				if j := strings.Index(v, "@"); j > 0 {
					v = v[:j]
				}
				rep.Stat("me_check_" + v)
			}
		}
		if strings.Contains(r.base[:imax(0, strings.Index(r.base, "Check: "))], "E") {
			rep.Stat("me_some_AddType_failed")
		}
		if len(r.distinct) > 1 {
			var alts []string
			for k, v := range r.distinct {
				if k != r.base {
					alts = append(alts, fmt.Sprintf("%d construction(s): %s", v, k))
				}
			}
			sort.Strings(alts)
			addDiff(vh.Diff{Component: "C11-fresh-constructions",
				Input: fmt.Sprintf("multi-error case #%d (meGenerate(%d)): %s — the same calls on fresh objects %d times, allocations of varying sizes / runtime.GC() (%d) between the calls",
					c.idx, c.idx, c.Text(true), reps, r.gcs),
				Impl:  fmt.Sprintf("first differing construction #%d; %s", r.firstAlt, strings.Join(alts, " || ")),
				Model: fmt.Sprintf("every construction gives what construction #0 gave (%d of %d did): %s", r.distinct[r.base], reps, r.base),
				Note:  map[bool]string{true: "objects created with equal file names have or-shortcuts at equal offsets of their texts", false: ""}[tie]})
		}
	}
}
