// Package semalloffull: harness command `sem-allof-full`.
//
// Differential for the allOf expansion AS CODED (compiler_all_of.go) and the validator on the expanded table.
// The IR is the one of sem-allof / sem-keys (scalars, any, arrays, objects, references, nullable) over SIX named
// types, plus everything the expansion reads or writes:
//   - additionalProperties in every spelling: absent, "any", true, false, "object", "array", scalar types, "@tN";
//   - key shortcuts `@k0..@k3: v` among the properties (they are inherited like plain keys; (key, isShortcut) is
//     what collides);
//   - allOf lists of 0..3 names, also on nodes that are not objects, names of unknown types, the empty list;
//   - inheritance plans: chains of 3 and 4 levels, diamonds, fans, inheritance inside a nested child, with per-type
//     key pools (so that most plans expand) and one injected defect in every third plan: key collision with an
//     ancestor, conflicting additionalProperties, cycle, non-object base, unknown base, empty list, allOf on a scalar
//     or an array.
//
// JSight text -> real AddType / Check / Validate; the same IR as S-expressions -> Lean driver word `semao`
// (AOK.compileAll, then VK.validateT on the expanded table).
// Compared: (1) when the model's expansion fails with code c, the real Check must fail with the SAME code (the
// expansion runs before every other check; the order root, then types by sorted name, then list order decides which
// of several defects is reported); (2) when the real Check fails with one of the expansion's codes
// (402 703 704 705 809 1117 1302) the model must fail with that code; (3) otherwise real Validate(document) == nil
// <=> model reply ACC. A real Check failure with another code (type recursion check, …) on a table the model expands
// is outside the model: counted, not compared.
package semalloffull

import (
	stderrors "errors"
	"fmt"
	"math/rand"
	"runtime"
	"strings"
	"sync"

	jlib "github.com/jsightapi/jsight-schema-go-library"
	jdoc "github.com/jsightapi/jsight-schema-go-library/formats/json"
	"github.com/jsightapi/jsight-schema-go-library/notations/jschema"

	"verifharness/vh"
)

const (
	command = "sem-allof-full"
	prefix  = "semao" // driver command word (Driver/SemAO.lean)
	salt    = 3203
)

type Node struct {
	Kind     string // lit any arr obj ref
	Lit      string // i f s b n
	Nullable bool
	Items    []*Node
	Props    []*Prop
	Names    []string
	HasAllOf bool     // the node carries an allOf rule (possibly with an empty list)
	AllOf    []string // names without @
	Add      string   // additionalProperties: "", any, true, false, object, array, string, integer, float, boolean, null, @tN
}
type Prop struct {
	Short    bool // key shortcut: Key is the name of a key type (k0..k3)
	Key      string
	Required bool
	Val      *Node
}
type Doc struct {
	Kind  string // l a o
	Lit   string
	Tok   string
	Look  bool
	Items []*Doc
	Keys  []string
}

var typeNames = []string{"t0", "t1", "t2", "t3", "t4", "t5"}

// per-type key pools of the inheritance plans; "e", "z" belong to nobody
var keyPool = map[string][]string{"t0": {"a", "b"}, "t1": {"c", "f"}, "t2": {"g", "h"}, "t3": {"i", "j"}, "t4": {"k", "l"}, "t5": {"m", "n"}, "root": {"r", "s"}}
var allPlain = []string{"a", "b", "c", "f", "g", "h", "i", "j", "k", "l", "m", "n", "r", "s"}

var docKeys = []string{"a", "b", "c", "f", "g", "h", "i", "k", "m", "r", "e", "q", "zz", "ab", "xy", "abc", "wxyz", "@k1"}
var keyTypeNames = []string{"k0", "k1", "k2", "k3"}
var keyTypeText = map[string]string{"k0": `"ab" // {minLength: 2}`, "k1": `"a" // {maxLength: 1}`, "k2": `"zz"`, "k3": `"abc" // {minLength: 3}`}
var shortKeys = map[string][]string{"k0": {"xy", "ab", "wxyz"}, "k1": {"q", "e"}, "k2": {"zz"}, "k3": {"abc", "wxyz"}}

var lookAlike = []string{`"a.b"`, `"1.5"`, `"1"`, `"-0"`, `"1e5"`, `"true"`, `"false"`, `"null"`, `"{}"`, `"[]"`, `""`, `" "`, `"0.0"`,
	`"a.b"`, `"1.5"`, `"true"`, `"null"`, `"{}"`}

var litText = map[string]string{"i": "1", "f": "1.5", "s": `"s"`, "b": "true", "n": "null"}

var addModes = []string{"any", "true", "false", "object", "array", "string", "integer", "float", "boolean", "null"}

type gen struct {
	r       *rand.Rand
	mut     string
	look    bool
	noAllOf bool // children of planned objects carry no allOf of their own (the plan decides who inherits whom)
}

func (g *gen) pickAdd(allowRef bool) string {
	adds := append([]string{}, addModes...)
	if allowRef {
		adds = append(adds, "@t0", "@t1", "@t2", "@t3", "@t4", "@t5")
	}
	return adds[g.r.Intn(len(adds))]
}

func (g *gen) genScalar() *Node {
	return &Node{Kind: "lit", Lit: []string{"i", "f", "s", "b", "n"}[g.r.Intn(5)], Nullable: g.r.Intn(4) == 0}
}

// genNode: the random IR of sem-allof, with shortcuts, all additionalProperties spellings, allOf of 0..3 names
// (every third object), allOf on scalars / arrays now and then.
func (g *gen) genNode(depth int, allowRef bool) *Node {
	r := g.r
	k := r.Intn(20)
	if depth <= 0 && k >= 8 && k <= 14 {
		k = 0
	}
	switch {
	case k <= 7:
		n := g.genScalar()
		if allowRef && !g.noAllOf && r.Intn(40) == 0 {
			n.HasAllOf = true
			n.Nullable = false
			n.AllOf = g.pickNames(r.Intn(3), 30)
		}
		return n
	case k <= 10:
		n := &Node{Kind: "arr"}
		for i := r.Intn(4); i > 0; i-- {
			n.Items = append(n.Items, g.genNode(depth-1, allowRef))
		}
		if allowRef && !g.noAllOf && r.Intn(40) == 0 {
			n.HasAllOf = true
			n.AllOf = g.pickNames(r.Intn(3), 30)
		}
		return n
	case k <= 14:
		n := &Node{Kind: "obj"}
		if r.Intn(2) == 0 {
			n.Add = g.pickAdd(allowRef)
		}
		cnt := r.Intn(4)
		keys := r.Perm(len(allPlain))
		for i := 0; i < cnt; i++ {
			n.Props = append(n.Props, &Prop{Key: allPlain[keys[i]], Required: r.Intn(3) != 0, Val: g.genNode(depth-1, allowRef)})
		}
		g.addShortcuts(n, depth, allowRef, 4)
		if allowRef && !g.noAllOf && r.Intn(3) == 0 {
			n.HasAllOf = true
			cnt := 1 + r.Intn(3)
			if r.Intn(12) == 0 {
				cnt = 0
			}
			n.AllOf = g.pickNames(cnt, 40)
		}
		return n
	case k <= 18 && allowRef:
		n := &Node{Kind: "ref", Nullable: r.Intn(4) == 0}
		n.Names = g.pickNames(1+r.Intn(3), 0)
		return n
	default:
		return &Node{Kind: "any"}
	}
}

// addShortcuts inserts 0-2 key shortcuts of distinct key types at random positions, one time in `oneIn`.
func (g *gen) addShortcuts(n *Node, depth int, allowRef bool, oneIn int) {
	r := g.r
	if r.Intn(oneIn) != 0 {
		return
	}
	perm := r.Perm(len(keyTypeNames))
	for i := 1 + r.Intn(2); i > 0; i-- {
		p := &Prop{Short: true, Key: keyTypeNames[perm[i]], Required: r.Intn(2) == 0, Val: g.genNode(depth-1, allowRef)}
		at := r.Intn(len(n.Props) + 1)
		n.Props = append(n.Props[:at], append([]*Prop{p}, n.Props[at:]...)...)
	}
}

// pickNames: cnt distinct-ish names; one time in `unknownIn` (0 = never) one of them is the unknown type `zz`;
// repeats are allowed one time in eight (allOf: ["@t1", "@t1"]).
func (g *gen) pickNames(cnt int, unknownIn int) []string {
	r := g.r
	var out []string
	for i := 0; i < cnt; i++ {
		nm := typeNames[r.Intn(len(typeNames))]
		if unknownIn > 0 && r.Intn(unknownIn) == 0 {
			nm = "zz"
		}
		dup := false
		for _, x := range out {
			dup = dup || x == nm
		}
		if !dup || (unknownIn > 0 && r.Intn(8) == 0) {
			out = append(out, nm)
		}
	}
	return out
}

// ---- inheritance plans ------------------------------------------------------------------------------------

// planObject: an object whose plain keys come from the pool of its owner.
func (g *gen) planObject(owner string, allowShort bool) *Node {
	r := g.r
	n := &Node{Kind: "obj"}
	pool := keyPool[owner]
	for _, k := range pool {
		if r.Intn(4) != 0 {
			n.Props = append(n.Props, &Prop{Key: k, Required: r.Intn(3) != 0, Val: g.genNode(1, true)})
		}
	}
	if allowShort {
		g.addShortcuts(n, 1, true, 5)
	}
	return n
}

func hasKey(n *Node, short bool, key string) bool {
	for _, p := range n.Props {
		if p.Short == short && p.Key == key {
			return true
		}
	}
	return false
}

type plan struct {
	name  string
	bases map[string][]string // type -> allOf list
	top   string
}

func (g *gen) pickPlan() plan {
	switch g.r.Intn(6) {
	case 0:
		return plan{"chain3", map[string][]string{"t2": {"t1"}, "t1": {"t0"}}, "t2"}
	case 1:
		return plan{"chain4", map[string][]string{"t3": {"t2"}, "t2": {"t1"}, "t1": {"t0"}}, "t3"}
	case 2:
		return plan{"diamond", map[string][]string{"t3": {"t1", "t2"}, "t1": {"t0"}, "t2": {"t0"}}, "t3"}
	case 3:
		return plan{"fan3", map[string][]string{"t3": {"t0", "t1", "t2"}}, "t3"}
	case 4:
		return plan{"tree", map[string][]string{"t5": {"t3", "t4"}, "t3": {"t0", "t1"}, "t4": {"t2"}}, "t5"}
	default:
		return plan{"chain3+fan", map[string][]string{"t4": {"t2", "t3"}, "t2": {"t1"}, "t1": {"t0"}}, "t4"}
	}
}

// genPlanned builds the six types and the root following an inheritance plan; returns the name of the plan and
// of the injected defect ("" = none).
func (g *gen) genPlanned(types map[string]*Node) (root *Node, planName, defect string) {
	r := g.r
	g.noAllOf = true
	defer func() { g.noAllOf = false }()
	p := g.pickPlan()
	// additionalProperties of the family: one value, spelled with its IsEqual-equivalents now and then
	family := ""
	if r.Intn(3) != 0 {
		family = g.pickAdd(true)
	}
	equiv := func(a string) string {
		if a == "any" || a == "true" || a == "false" {
			return []string{"any", "true", "false"}[r.Intn(3)]
		}
		return a
	}
	// every fourth plan: additionalProperties drawn independently for every object of the plan (absent, false, true,
	// "any", a JSON kind, a user type on the inheriting object x the same on every transitive parent: most of these
	// conflict, the rest exercise copy-down from any depth)
	independent := r.Intn(4) == 0
	for _, nm := range typeNames {
		n := g.planObject(nm, true)
		if b, ok := p.bases[nm]; ok {
			n.HasAllOf = true
			n.AllOf = append([]string{}, b...)
		}
		switch {
		case independent:
			if r.Intn(3) != 0 {
				n.Add = []string{"false", "true", "any", "any", "false", "string", "integer", "object", "@t5", "@t0"}[r.Intn(10)]
			}
		case family != "" && r.Intn(2) == 0:
			n.Add = family
			if r.Intn(4) == 0 {
				n.Add = equiv(family)
			}
		}
		types[nm] = n
	}
	// the diamond's common ancestor has no members half of the time (otherwise every diamond is a collision)
	if p.name == "diamond" && r.Intn(2) == 0 {
		types["t0"].Props = nil
	}
	// the root: the top type by reference, an object inheriting it, an array of it, a property holding it
	top := p.top
	switch r.Intn(5) {
	case 0:
		root = &Node{Kind: "ref", Names: []string{top}}
	case 1:
		root = g.planObject("root", true)
		root.HasAllOf = true
		root.AllOf = []string{top}
		if independent && r.Intn(3) != 0 {
			root.Add = []string{"false", "true", "any", "any", "false", "string", "integer", "object", "@t5", "@t0"}[r.Intn(10)]
		} else if family != "" && r.Intn(2) == 0 {
			root.Add = equiv(family)
		}
	case 2:
		root = &Node{Kind: "arr", Items: []*Node{{Kind: "ref", Names: []string{top}}}}
	case 3:
		inner := g.planObject("root", false)
		inner.HasAllOf = true
		inner.AllOf = []string{top}
		root = &Node{Kind: "obj", Props: []*Prop{{Key: "e", Required: true, Val: inner}}}
	default:
		// inheritance inside a nested child of a type: t5 (or the root) holds an object inheriting the top type
		inner := g.planObject("root", false)
		inner.HasAllOf = true
		inner.AllOf = []string{top}
		holder := "t5"
		if p.top == "t5" {
			root = &Node{Kind: "obj", Props: []*Prop{{Key: "e", Required: true, Val: inner}}}
		} else {
			types[holder] = &Node{Kind: "obj", Props: []*Prop{{Key: "m", Required: r.Intn(2) == 0, Val: inner}}}
			root = &Node{Kind: "ref", Names: []string{holder}}
		}
	}
	planName = p.name
	if r.Intn(3) != 0 {
		return root, planName, ""
	}
	// one injected defect
	inPlan := []string{}
	for nm := range p.bases {
		inPlan = append(inPlan, nm)
	}
	// deterministic order (map iteration is random)
	for i := 0; i < len(inPlan); i++ {
		for j := i + 1; j < len(inPlan); j++ {
			if inPlan[j] < inPlan[i] {
				inPlan[i], inPlan[j] = inPlan[j], inPlan[i]
			}
		}
	}
	victim := inPlan[r.Intn(len(inPlan))]
	base := p.bases[victim][r.Intn(len(p.bases[victim]))]
	switch r.Intn(8) {
	case 0: // key collision with a direct base: plain or shortcut
		defect = "collision"
		if bp := types[base].Props; len(bp) > 0 {
			q := bp[r.Intn(len(bp))]
			if !hasKey(types[victim], q.Short, q.Key) { // an object never declares a key twice itself (load error)
				types[victim].Props = append(types[victim].Props, &Prop{Short: q.Short, Key: q.Key, Required: r.Intn(2) == 0, Val: g.genScalar()})
			}
		} else {
			types[base].Props = append(types[base].Props, &Prop{Key: "e", Required: true, Val: g.genScalar()})
			types[victim].Props = append(types[victim].Props, &Prop{Key: "e", Required: false, Val: g.genScalar()})
		}
	case 1: // same key string, one plain and one shortcut: NOT a collision
		defect = "plain_vs_shortcut_same_name"
		if !hasKey(types[base], true, "k1") {
			types[base].Props = append(types[base].Props, &Prop{Short: true, Key: "k1", Required: false, Val: g.genScalar()})
		}
		types[victim].Props = append(types[victim].Props, &Prop{Key: "@k1", Required: r.Intn(2) == 0, Val: g.genScalar()})
	case 2:
		defect = "conflicting_additionalProperties"
		a, b := g.pickAdd(true), g.pickAdd(true)
		types[victim].Add, types[base].Add = a, b
	case 3:
		defect = "cycle"
		// the deepest ancestor inherits the top
		types["t0"].HasAllOf = true
		types["t0"].AllOf = append(types["t0"].AllOf, p.top)
	case 4:
		defect = "non_object_base"
		switch r.Intn(3) {
		case 0:
			types[base] = g.genScalar()
		case 1:
			types[base] = &Node{Kind: "arr"}
		default:
			types[base] = &Node{Kind: "ref", Names: []string{"t5"}}
		}
	case 5:
		defect = "unknown_base"
		l := types[victim].AllOf
		at := r.Intn(len(l) + 1)
		types[victim].AllOf = append(l[:at:at], append([]string{"zz"}, l[at:]...)...)
	case 6:
		defect = "empty_list"
		types[victim].AllOf = nil
	default:
		defect = "allOf_on_non_object"
		switch r.Intn(2) {
		case 0:
			types[victim] = &Node{Kind: "lit", Lit: "i", HasAllOf: true, AllOf: types[victim].AllOf}
		default:
			types[victim] = &Node{Kind: "arr", HasAllOf: true, AllOf: types[victim].AllOf}
		}
	}
	return root, planName, defect
}

// ---- printing ---------------------------------------------------------------------------------------------

func rules(n *Node, optional bool) string {
	var rs []string
	if n.Kind == "any" {
		rs = append(rs, `type: "any"`)
	}
	if optional {
		rs = append(rs, "optional: true")
	}
	if n.Nullable {
		rs = append(rs, "nullable: true")
	}
	if n.Kind == "obj" && n.Add != "" {
		if n.Add == "true" || n.Add == "false" {
			rs = append(rs, `additionalProperties: `+n.Add)
		} else {
			rs = append(rs, `additionalProperties: "`+n.Add+`"`)
		}
	}
	if n.HasAllOf {
		if len(n.AllOf) == 1 {
			rs = append(rs, `allOf: "@`+n.AllOf[0]+`"`)
		} else {
			var q []string
			for _, x := range n.AllOf {
				q = append(q, `"@`+x+`"`)
			}
			rs = append(rs, "allOf: ["+strings.Join(q, ", ")+"]")
		}
	}
	if len(rs) == 0 {
		return ""
	}
	return " // {" + strings.Join(rs, ", ") + "}"
}

func printNode(n *Node, indent int, prefix, comma string, optional bool) []string {
	pad := strings.Repeat("  ", indent)
	switch n.Kind {
	case "lit":
		return []string{pad + prefix + litText[n.Lit] + comma + rules(n, optional)}
	case "any":
		return []string{pad + prefix + "1" + comma + rules(n, optional)}
	case "ref":
		var nm []string
		for _, x := range n.Names {
			nm = append(nm, "@"+x)
		}
		return []string{pad + prefix + strings.Join(nm, " | ") + comma + rules(n, optional)}
	case "arr":
		if len(n.Items) == 0 {
			return []string{pad + prefix + "[]" + comma + rules(n, optional)}
		}
		out := []string{pad + prefix + "[" + rules(n, optional)}
		for i, it := range n.Items {
			c := ","
			if i == len(n.Items)-1 {
				c = ""
			}
			out = append(out, printNode(it, indent+1, "", c, false)...)
		}
		return append(out, pad+"]"+comma)
	default:
		if len(n.Props) == 0 {
			return []string{pad + prefix + "{}" + comma + rules(n, optional)}
		}
		out := []string{pad + prefix + "{" + rules(n, optional)}
		for i, p := range n.Props {
			c := ","
			if i == len(n.Props)-1 {
				c = ""
			}
			pre := `"` + p.Key + `": `
			if p.Short {
				pre = "@" + p.Key + ": "
			}
			out = append(out, printNode(p.Val, indent+1, pre, c, !p.Required)...)
		}
		return append(out, pad+"}"+comma)
	}
}

func b01(v bool) string {
	if v {
		return "1"
	}
	return "0"
}

func sx(n *Node) string {
	if n.HasAllOf && n.Kind != "obj" {
		return "(bad " + strings.Join(n.AllOf, " ") + ")"
	}
	switch n.Kind {
	case "lit":
		return "(lit " + n.Lit + " " + b01(n.Nullable) + ")"
	case "any":
		return "(any)"
	case "ref":
		return "(ref " + b01(n.Nullable) + " " + strings.Join(n.Names, " ") + ")"
	case "arr":
		s := "(arr"
		for _, it := range n.Items {
			s += " " + sx(it)
		}
		return s + ")"
	default:
		s := "(obj " + addSx(n.Add)
		if n.HasAllOf {
			s += " (allof " + strings.Join(n.AllOf, " ") + ")"
		} else {
			s += " (noallof)"
		}
		for _, p := range n.Props {
			tag := "P"
			if p.Short {
				tag = "K"
			}
			s += " (" + tag + " " + p.Key + " " + b01(p.Required) + " " + sx(p.Val) + ")"
		}
		return s + ")"
	}
}

func addSx(a string) string {
	switch a {
	case "":
		return "(add none)"
	case "any", "true":
		return "(add any)"
	case "false":
		return "(add no)"
	case "object":
		return "(add obj)"
	case "array":
		return "(add arr)"
	case "string":
		return "(add lit s)"
	case "integer":
		return "(add lit i)"
	case "float":
		return "(add lit f)"
	case "boolean":
		return "(add lit b)"
	case "null":
		return "(add lit n)"
	}
	return "(add type " + a[1:] + ")"
}

// ---- documents --------------------------------------------------------------------------------------------

func (g *gen) genDoc(depth int) *Doc {
	r := g.r
	k := r.Intn(8)
	if depth <= 0 && k >= 5 {
		k = 0
	}
	switch {
	case k <= 4:
		return &Doc{Kind: "l", Lit: []string{"i", "f", "s", "b", "n"}[r.Intn(5)]}
	case k == 5 || k == 6:
		d := &Doc{Kind: "a"}
		for i := r.Intn(4); i > 0; i-- {
			d.Items = append(d.Items, g.genDoc(depth-1))
		}
		return d
	default:
		d := &Doc{Kind: "o"}
		for i := r.Intn(4); i > 0; i-- {
			d.Keys = append(d.Keys, docKeys[r.Intn(len(docKeys))])
			d.Items = append(d.Items, g.genDoc(depth-1))
		}
		return d
	}
}

// members draws the members an object node asks for, its own and (transitively) the inherited ones.
func (g *gen) members(n *Node, types map[string]*Node, fuel int, d *Doc, seen map[string]bool) {
	r := g.r
	perm := r.Perm(len(n.Props))
	for _, i := range perm {
		p := n.Props[i]
		if p.Required || r.Intn(2) == 0 {
			k := p.Key
			if p.Short {
				ks := shortKeys[p.Key]
				k = ks[r.Intn(len(ks))]
			}
			d.Keys = append(d.Keys, k)
			d.Items = append(d.Items, g.sample(p.Val, types, fuel-1))
		}
	}
	for _, b := range n.AllOf {
		if bt := types[b]; bt != nil && bt.Kind == "obj" && !seen[b] && fuel > 1 {
			seen[b] = true
			g.members(bt, types, fuel-1, d, seen)
		}
	}
}

// effective additionalProperties of an object: its own, else the first one met along the bases (as the expansion
// copies it)
func effAdd(n *Node, types map[string]*Node, depth int) string {
	if n.Add != "" || depth > 6 {
		return n.Add
	}
	for _, b := range n.AllOf {
		if bt := types[b]; bt != nil && bt.Kind == "obj" {
			if a := effAdd(bt, types, depth+1); a != "" {
				return a
			}
		}
	}
	return ""
}

func (g *gen) sample(n *Node, types map[string]*Node, fuel int) *Doc {
	r := g.r
	if fuel <= 0 {
		return &Doc{Kind: "l", Lit: "n"}
	}
	if n.Nullable && r.Intn(4) == 0 {
		return &Doc{Kind: "l", Lit: "n"}
	}
	switch n.Kind {
	case "lit":
		if n.Lit == "f" && r.Intn(2) == 0 {
			return &Doc{Kind: "l", Lit: "i"}
		}
		return &Doc{Kind: "l", Lit: n.Lit}
	case "any":
		return g.genDoc(1)
	case "ref":
		t := types[n.Names[r.Intn(len(n.Names))]]
		if t == nil {
			return g.genDoc(1)
		}
		return g.sample(t, types, fuel-1)
	case "arr":
		d := &Doc{Kind: "a"}
		if len(n.Items) == 0 {
			return d
		}
		cnt := r.Intn(len(n.Items) + 2)
		for i := 0; i < cnt; i++ {
			j := i
			if j >= len(n.Items) {
				j = len(n.Items) - 1
			}
			d.Items = append(d.Items, g.sample(n.Items[j], types, fuel-1))
		}
		return d
	default:
		d := &Doc{Kind: "o"}
		g.members(n, types, fuel, d, map[string]bool{})
		// shuffle the members now and then (inherited before own)
		if r.Intn(3) == 0 {
			r.Shuffle(len(d.Keys), func(i, j int) {
				d.Keys[i], d.Keys[j] = d.Keys[j], d.Keys[i]
				d.Items[i], d.Items[j] = d.Items[j], d.Items[i]
			})
		}
		add := effAdd(n, types, 0)
		if r.Intn(10) < 6 { // a member whose key neither the object nor a parent names
			var v *Doc
			switch add {
			case "", "false":
				if r.Intn(3) != 0 {
					return d
				}
				v = g.genDoc(0)
			case "any", "true":
				v = g.genDoc(1)
			case "object":
				v = &Doc{Kind: "o"}
			case "array":
				v = &Doc{Kind: "a", Items: []*Doc{g.genDoc(0)}}
			case "string":
				v = &Doc{Kind: "l", Lit: "s"}
			case "integer":
				v = &Doc{Kind: "l", Lit: "i"}
			case "float":
				v = &Doc{Kind: "l", Lit: []string{"f", "i"}[r.Intn(2)]}
			case "boolean":
				v = &Doc{Kind: "l", Lit: "b"}
			case "null":
				v = &Doc{Kind: "l", Lit: "n"}
			default:
				if t := types[add[1:]]; t != nil {
					v = g.sample(t, types, fuel-1)
				} else {
					v = g.genDoc(0)
				}
			}
			switch r.Intn(8) {
			case 0:
				v = &Doc{Kind: "l", Lit: "s", Look: true}
			case 1, 2: // whatever the mode says: any value
				v = g.genDoc(1)
			}
			d.Keys = append(d.Keys, []string{"e", "z", "wxyz"}[r.Intn(3)])
			d.Items = append(d.Items, v)
		}
		return d
	}
}

func (g *gen) mutateDoc(d *Doc) *Doc {
	r := g.r
	switch r.Intn(6) {
	case 0:
		g.mut = "regenerate"
		return g.genDoc(1)
	case 1:
		if d.Kind == "o" && len(d.Keys) > 0 {
			g.mut = "drop_member"
			i := r.Intn(len(d.Keys))
			nd := &Doc{Kind: "o"}
			for j := range d.Keys {
				if j != i {
					nd.Keys = append(nd.Keys, d.Keys[j])
					nd.Items = append(nd.Items, d.Items[j])
				}
			}
			return nd
		}
	case 2:
		if d.Kind == "o" {
			g.mut = "add_member"
			nd := &Doc{Kind: "o", Keys: append([]string{}, d.Keys...), Items: append([]*Doc{}, d.Items...)}
			nd.Keys = append(nd.Keys, docKeys[r.Intn(len(docKeys))])
			nd.Items = append(nd.Items, g.genDoc(1))
			return nd
		}
	case 3:
		if d.Kind == "a" {
			g.mut = "append_item"
			nd := &Doc{Kind: "a", Items: append([]*Doc{}, d.Items...)}
			nd.Items = append(nd.Items, g.genDoc(1))
			return nd
		}
	}
	if len(d.Items) > 0 {
		i := r.Intn(len(d.Items))
		nd := &Doc{Kind: d.Kind, Keys: d.Keys, Items: append([]*Doc{}, d.Items...)}
		nd.Items[i] = g.mutateDoc(d.Items[i])
		return nd
	}
	g.mut = "none"
	return d
}

func (g *gen) docText(d *Doc) string {
	switch d.Kind {
	case "l":
		if d.Lit == "s" {
			if d.Tok == "" {
				d.Tok = litText["s"]
				if d.Look || g.r.Intn(4) == 0 {
					d.Tok = lookAlike[g.r.Intn(len(lookAlike))]
				}
			}
			if d.Tok != litText["s"] {
				g.look = true
			}
			return d.Tok
		}
		return litText[d.Lit]
	case "a":
		var xs []string
		for _, it := range d.Items {
			xs = append(xs, g.docText(it))
		}
		return "[" + strings.Join(xs, ", ") + "]"
	default:
		var xs []string
		for i, k := range d.Keys {
			xs = append(xs, `"`+k+`": `+g.docText(d.Items[i]))
		}
		return "{" + strings.Join(xs, ",") + "}"
	}
}

func docSx(d *Doc) string {
	switch d.Kind {
	case "l":
		return "(l " + d.Lit + ")"
	case "a":
		s := "(a"
		for _, it := range d.Items {
			s += " " + docSx(it)
		}
		return s + ")"
	default:
		s := "(o"
		for i, k := range d.Keys {
			s += " (m " + k + " " + docSx(d.Items[i]) + ")"
		}
		return s + ")"
	}
}

// ---- the real library ------------------------------------------------------------------------------------

func errCode(err error) string {
	var pe jlib.ParsingError
	if stderrors.As(err, &pe) {
		return fmt.Sprint(pe.ErrCode())
	}
	return "other"
}

// Result: ACC | REJ | ADDERR <code> … | CHECKERR <code> … | PANIC …
func validate(rootText string, typeTexts map[string]string, doc string) string {
	return vh.Recover(func() string {
		s := jschema.New("root", rootText)
		for _, nm := range typeNames {
			if err := s.AddType("@"+nm, jschema.New("@"+nm, typeTexts[nm])); err != nil {
				return "ADDERR " + errCode(err) + " " + err.Error()
			}
		}
		for _, nm := range keyTypeNames {
			if err := s.AddType("@"+nm, jschema.New("@"+nm, keyTypeText[nm])); err != nil {
				return "ADDERR " + errCode(err) + " " + err.Error()
			}
		}
		if err := s.Check(); err != nil {
			return "CHECKERR " + errCode(err) + " " + err.Error()
		}
		if err := s.Validate(jdoc.New("doc", doc)); err != nil {
			return "REJ"
		}
		return "ACC"
	})
}

var expansionCodes = map[string]bool{"402": true, "703": true, "704": true, "705": true, "809": true, "1117": true, "1302": true}

// ---- features ---------------------------------------------------------------------------------------------

type feat struct {
	emptyRef, allOf, short, inhShort bool
	maxDepth                         int // longest inheritance chain below an object reachable from the root
	adds                             map[string]bool
	cross                            map[string]bool // additionalProperties of an inheriting object x of its (transitive) parents
}

func emptyAlts(types map[string]*Node, names []string) bool {
	seen := map[string]bool{}
	todo := append([]string{}, names...)
	for len(todo) > 0 {
		nm := todo[len(todo)-1]
		todo = todo[:len(todo)-1]
		if seen[nm] {
			continue
		}
		seen[nm] = true
		t := types[nm]
		if t == nil {
			return false
		}
		switch t.Kind {
		case "ref":
			if t.Nullable {
				return false
			}
			todo = append(todo, t.Names...)
		default:
			return false
		}
	}
	return true
}

func addClass(a string) string {
	switch {
	case a == "":
		return "absent"
	case strings.HasPrefix(a, "@"):
		return "usertype"
	case a == "any" || a == "true" || a == "false":
		return a
	case a == "object" || a == "array":
		return "container"
	}
	return "scalar"
}

// inheritedAdds: the additionalProperties spellings of the transitive parents of an object, with their depth class
func inheritedAdds(n *Node, types map[string]*Node, depth int, out map[string]bool) {
	if depth > 5 {
		return
	}
	for _, b := range n.AllOf {
		if bt := types[b]; bt != nil && bt.Kind == "obj" {
			d := "parent"
			if depth > 0 {
				d = "ancestor"
			}
			out[d+"_"+addClass(bt.Add)] = true
			inheritedAdds(bt, types, depth+1, out)
		}
	}
}

func chainDepth(n *Node, types map[string]*Node, fuel int) int {
	if fuel == 0 || n == nil || n.Kind != "obj" {
		return 0
	}
	best := 0
	for _, b := range n.AllOf {
		if d := 1 + chainDepth(types[b], types, fuel-1); d > best {
			best = d
		}
	}
	return best
}

func hasShort(n *Node, types map[string]*Node, fuel int) bool {
	if fuel == 0 || n == nil || n.Kind != "obj" {
		return false
	}
	for _, p := range n.Props {
		if p.Short {
			return true
		}
	}
	for _, b := range n.AllOf {
		if hasShort(types[b], types, fuel-1) {
			return true
		}
	}
	return false
}

func (f *feat) visitType(nm string, types map[string]*Node, done map[string]bool) {
	if done[nm] || types[nm] == nil {
		return
	}
	done[nm] = true
	f.walk(types[nm], types, done)
}

func (f *feat) walk(n *Node, types map[string]*Node, done map[string]bool) {
	switch n.Kind {
	case "ref":
		if !n.Nullable && emptyAlts(types, n.Names) {
			f.emptyRef = true
		}
		for _, nm := range n.Names {
			f.visitType(nm, types, done)
		}
	case "arr":
		for _, it := range n.Items {
			f.walk(it, types, done)
		}
	case "obj":
		if n.Add != "" {
			m := n.Add
			if strings.HasPrefix(m, "@") {
				if emptyAlts(types, []string{m[1:]}) {
					f.emptyRef = true
				}
				f.visitType(m[1:], types, done)
				m = "usertype"
			}
			f.adds[m] = true
		}
		for _, p := range n.Props {
			if p.Short {
				f.short = true
			}
		}
		if n.HasAllOf {
			f.allOf = true
			inh := map[string]bool{}
			inheritedAdds(n, types, 0, inh)
			for k := range inh {
				f.cross["own_"+addClass(n.Add)+"_x_"+k] = true
			}
			if d := chainDepth(n, types, 8); d > f.maxDepth {
				f.maxDepth = d
			}
			for _, b := range n.AllOf {
				if hasShort(types[b], types, 8) {
					f.inhShort = true
				}
				f.visitType(b, types, done)
			}
		}
		for _, p := range n.Props {
			f.walk(p.Val, types, done)
		}
	}
}

// ---- one table --------------------------------------------------------------------------------------------

type oneCase struct {
	line, impl, input string
	nontrivial        bool
	class             string
	stats             []string
}

type tableResult struct {
	stats []string
	cases []oneCase
	// a table the real Check refuses: the model must fail with the same code when the code is one of the expansion's
	probe, probeCode, probeInput string
}

func showInput(rootText string, typeTexts map[string]string, doc string) string {
	var sb strings.Builder
	sb.WriteString("SCHEMA:\n" + rootText + "\nTYPES (AddType name = text):")
	for _, nm := range typeNames {
		sb.WriteString("\n@" + nm + " = " + typeTexts[nm])
	}
	for _, nm := range keyTypeNames {
		sb.WriteString("\n@" + nm + " = " + keyTypeText[nm])
	}
	sb.WriteString("\nDOCUMENT: " + doc)
	return sb.String()
}

func oneTable(seed int64) tableResult {
	g := &gen{r: rand.New(rand.NewSource(seed))}
	var res tableResult
	types := map[string]*Node{}
	typeTexts := map[string]string{}
	var root *Node
	planned := g.r.Intn(5) < 3
	if planned {
		var pl, defect string
		root, pl, defect = g.genPlanned(types)
		res.stats = append(res.stats, "table_planned", "plan_"+pl)
		if defect != "" {
			res.stats = append(res.stats, "plan_defect_"+defect)
		} else {
			res.stats = append(res.stats, "plan_without_defect")
		}
	} else {
		objectTypes := g.r.Intn(2) == 0
		for _, nm := range typeNames {
			types[nm] = g.genNode(2, true)
			for tries := 0; tries < 40 && types[nm].Kind != "obj" && (objectTypes || (tries < 3 && g.r.Intn(2) == 0)); tries++ {
				types[nm] = g.genNode(2, true)
			}
		}
		root = g.genNode(3, true)
		for tries := 0; objectTypes && tries < 40 && root.Kind != "ref" && root.Kind != "obj" && g.r.Intn(4) != 0; tries++ {
			root = g.genNode(3, true)
		}
		res.stats = append(res.stats, "table_random")
	}
	env := "(env"
	for _, nm := range typeNames {
		typeTexts[nm] = strings.Join(printNode(types[nm], 0, "", "", false), "\n")
		env += " (t " + nm + " " + sx(types[nm]) + ")"
	}
	env += ")"
	rootText := strings.Join(printNode(root, 0, "", "", false), "\n")
	rootSx := sx(root)
	if v := validate(rootText, typeTexts, "1"); strings.HasPrefix(v, "CHECKERR") || strings.HasPrefix(v, "ADDERR") || strings.HasPrefix(v, "PANIC") {
		w := strings.SplitN(v, " ", 3)
		res.stats = append(res.stats, "check_failed")
		res.probe = prefix + " val " + env + " " + rootSx + " (l i)"
		res.probeInput = showInput(rootText, typeTexts, "(none: Check() is compared)")
		if w[0] == "CHECKERR" {
			res.probeCode = w[1]
			res.stats = append(res.stats, "check_failed_code_"+w[1])
		} else {
			res.probeCode = w[0] + " " + v
			res.stats = append(res.stats, "check_failed_"+w[0])
		}
		return res
	}
	f := feat{adds: map[string]bool{}, cross: map[string]bool{}}
	f.walk(root, types, map[string]bool{})
	class := ""
	if f.emptyRef {
		class = "K-C09-cycle"
		res.stats = append(res.stats, "table_uninhabited_alias_cycle_reachable")
	}
	res.stats = append(res.stats, "tables_checked", "root_"+root.Kind)
	if planned {
		res.stats = append(res.stats, "tables_checked_planned")
	}
	for _, fl := range []struct {
		on bool
		nm string
	}{{f.allOf, "table_uses_allOf"}, {f.short, "table_uses_shortcut"}, {f.inhShort, "table_inherits_shortcut"},
		{f.maxDepth >= 2, "table_chain_depth_ge2"}, {f.maxDepth >= 3, "table_chain_depth_ge3"}} {
		if fl.on {
			res.stats = append(res.stats, fl.nm)
		}
	}
	for m := range f.adds {
		res.stats = append(res.stats, "table_uses_additionalProperties_"+m)
	}
	for m := range f.cross {
		res.stats = append(res.stats, "expanded_additionalProperties_"+m)
	}
	for j := 0; j < 12; j++ {
		var d *Doc
		var st []string
		switch {
		case j < 5:
			d = g.sample(root, types, 7)
			st = append(st, "doc_sampled")
		case j < 10:
			g.mut = "none"
			d = g.mutateDoc(g.sample(root, types, 7))
			st = append(st, "doc_mutated", "mutation_"+g.mut)
		default:
			d = g.genDoc(2)
			st = append(st, "doc_random")
		}
		g.look = false
		dt := g.docText(d)
		v := validate(rootText, typeTexts, dt)
		if g.look {
			st = append(st, "doc_with_lookalike_string")
			for k := 1; k < 4; k++ {
				if w := validate(rootText, typeTexts, dt); w != v {
					v = fmt.Sprintf("UNSTABLE: call 1 = %s, call %d = %s", v, k+1, w)
					break
				}
			}
		}
		switch {
		case v == "ACC":
			st = append(st, "accepted")
		case v == "REJ":
			st = append(st, "rejected")
		default:
			st = append(st, "impl_other")
		}
		res.cases = append(res.cases, oneCase{
			line:       prefix + " val " + env + " " + rootSx + " " + docSx(d),
			impl:       v,
			input:      showInput(rootText, typeTexts, dt),
			nontrivial: f.allOf,
			stats:      st,
			class:      class,
		})
	}
	return res
}

func Run(args []string) {
	rep := vh.NewReport(command, "type tables over six named types + four key types; 3 of 5 tables follow an inheritance plan (chain of 3 / 4 levels, diamond, fan of 3, tree, chain+fan; per-type key pools; the root names / inherits / nests the top type; one family additionalProperties value spelled with its IsEqual-equivalents any / true / false; in every third plan ONE injected defect: key collision plain or shortcut, plain \"@k1\" next to shortcut @k1 (no collision), conflicting additionalProperties, cycle, non-object base, unknown base, empty allOf list, allOf on a scalar / array), 2 of 5 are random as in sem-allof with key shortcuts, every additionalProperties spelling, allOf lists of 0-3 names incl. the unknown @zz and repeats, allOf on scalars and arrays; JSight text -> real AddType/Check/Validate, same IR -> Lean AOK.compileAll + VK.validateT (driver word semao); compared: the error CODE of a failing expansion (both directions, for the codes 402 703 704 705 809 1117 1302), else the verdict on 12 documents per table (5 sampled incl. transitively inherited members, 5 sampled then mutated, 2 random); nontrivial = an object with allOf is reachable from the root; a real Check failure with another code on a table the model expands is outside the model (counted); K-C09-cycle class as in sem-allof")
	r := vh.NewRand(salt)
	nTables := vh.Pick(8000, 240000)
	const batch = 4000
	for done := 0; done < nTables; done += batch {
		n := batch
		if nTables-done < n {
			n = nTables - done
		}
		seeds := make([]int64, n)
		for i := range seeds {
			seeds[i] = r.Int63()
		}
		results := make([]tableResult, n)
		var wg sync.WaitGroup
		next := make(chan int, n)
		for i := 0; i < n; i++ {
			next <- i
		}
		close(next)
		for w := runtime.NumCPU(); w > 0; w-- {
			wg.Add(1)
			go func() {
				defer wg.Done()
				for i := range next {
					results[i] = oneTable(seeds[i])
				}
			}()
		}
		wg.Wait()
		var reqs, impl, inputs, classes []string
		var probes, probeCodes, probeInputs []string
		for _, res := range results {
			rep.Stat("tables_generated")
			for _, s := range res.stats {
				rep.Stat(s)
			}
			if res.probe != "" {
				probes = append(probes, res.probe)
				probeCodes = append(probeCodes, res.probeCode)
				probeInputs = append(probeInputs, res.probeInput)
				rep.Case(res.probe, true)
			}
			for _, c := range res.cases {
				for _, s := range c.stats {
					rep.Stat(s)
				}
				rep.Case(c.line, c.nontrivial)
				reqs = append(reqs, c.line)
				impl = append(impl, c.impl)
				inputs = append(inputs, c.input)
				classes = append(classes, c.class)
			}
		}
		for i, m := range vh.AskModelSharded(reqs, 16) {
			if impl[i] != m {
				rep.AddDiff(vh.Diff{Input: inputs[i], Impl: impl[i], Model: m, Class: classes[i], Note: reqs[i]})
			}
		}
		for i, m := range vh.AskModelSharded(probes, 16) {
			c := probeCodes[i]
			switch {
			case m == "ERR "+c:
				rep.Stat("expansion_error_same_code")
				rep.Stat("expansion_error_same_code_" + c)
			case strings.HasPrefix(m, "ERR ") || expansionCodes[c] || strings.HasPrefix(c, "ADDERR") || strings.HasPrefix(c, "PANIC"):
				rep.AddDiff(vh.Diff{Component: "sem-allof-full-check", Input: probeInputs[i],
					Impl: "Check() fails with " + c, Model: m, Note: probes[i]})
			default:
				rep.Stat("check_failed_outside_allOf_model_code_" + c)
			}
		}
	}
	rep.Finish()
}
