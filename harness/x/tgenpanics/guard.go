package tgenpanics

// P3: which public entry points are guarded, and the reachability questions of P4 / P5.
//
// GUARDED. A function body B is *guarded* when every call in B that is lexically before B's first top-level
// GUARDING defer (all calls of B when it has none) is SAFE. A guarding defer is a top-level recover defer whose
// handler stops every recovered error value (P2: onError within return / wrap / prior / swallow); a handler that
// re-panics what it recovers is not a guard. `defer`red calls registered before the recover defer run
// after the handler and count as "before"; so do the argument expressions of the recover defer itself. A top-level
// recover defer is a statement of B's own statement list (not nested in if / for / a literal) `defer h(…)` whose
// handler h - a function literal or a declared library function - calls the builtin recover() directly.
// A call is SAFE when it cannot let a panic out of library code unrecovered, which the analysis accepts in these cases:
//
//	(a) builtins other than panic, conversions;
//	(b) standard-library functions, provided every function-typed argument is a safe function value;
//	(c) a declared library function (or an immediately called literal) that is PANIC-FREE: no explicit `panic`
//	    call and no opaque call (third-party module, function value / interface method without a library
//	    candidate) is reachable from it in the call graph;
//	(d) a declared library function whose own body is guarded (with its function-typed parameters assumed safe:
//	    this is what makes the once cells `ErrOnce.Do(fn)` transparent), provided every function-typed
//	    argument at this call is a safe function value;
//	(e) a call of a function-typed parameter that (d) assumed safe;
//	(f) an interface method call or a call of a function value all of whose (≥ 1) library candidates are
//	    panic-free; an interface method call without any library candidate when the interface is declared outside
//	    the library (io.Writer of a buffer); NOT when the library declares the interface (the implementation is
//	    the caller's) and NOT a function value without candidate.
//
// A safe function value is nil, a literal whose body is guarded (same definition, same assumptions), a declared
// library function that is panic-free or guarded, or a parameter assumed safe. Everything else - explicit panic,
// third-party call, unresolvable call - is unsafe: the analysis fails closed.
//
// "Guarded" is about panics that carry an ERROR value (the library's way of reporting). The boundary handlers re-panic a
// value that is not an error (P2), so a guarded entry still lets a string panic through: which string panics exist and
// from where they are reachable is P4.
//
// Not covered: run-time panics of the language itself (nil dereference, index out of range, failed type
// assertion) in the handful of statements before a defer. They carry `runtime.Error` values, which are errors.
//
// An ENTRY is guarded when its body is guarded. `callsLibrary`: the body (including its literals) contains at least one
// call that is not a builtin, a conversion or a standard-library call.

import (
	"go/ast"
	"go/types"
	"sort"
	"strings"
)

type bodyInfo struct {
	n        *node
	deferIdx int // top-level statement index of the first recover defer, -1 if none
	handler  *node
	ok       bool     // guarded
	unsafe   []string // the unsafe calls (printable)
	libCalls int
}

type guardAnalysis struct {
	g       *graph
	memo    map[*node]*bodyInfo
	busy    map[*node]bool
	funcOK  map[*node]int // 0 unknown, 1 yes, 2 no
	handler map[*node]*handlerInfo
	hcache  map[*node]*handlerInfo
}

func newGuardAnalysis(g *graph) *guardAnalysis {
	return &guardAnalysis{g: g, memo: map[*node]*bodyInfo{}, busy: map[*node]bool{}, funcOK: map[*node]int{}, handler: map[*node]*handlerInfo{}, hcache: map[*node]*handlerInfo{}}
}

// firstRecoverDefer: index and handler of the first top-level recover defer of n's body (whatever the handler does).
func (a *guardAnalysis) firstRecoverDefer(n *node) (int, *node) {
	if n.body == nil {
		return -1, nil
	}
	for i, st := range n.body.List {
		if ds, ok := st.(*ast.DeferStmt); ok {
			if h := a.g.handlerOfDefer(n, ds); h != nil {
				return i, h
			}
		}
	}
	return -1, nil
}

// outcomes of a handler, cached per handler node
func (a *guardAnalysis) outcomes(h *node) *handlerInfo {
	if hi, ok := a.hcache[h]; ok {
		return hi
	}
	hi := &handlerInfo{h: h}
	hi.onNonErr, hi.onErr, hi.perKind, hi.via = a.g.classifyHandler(h)
	a.hcache[h] = hi
	return hi
}

// stopsErrors: every outcome of the handler for a recovered ERROR value ends the panic (the error is returned, wrapped
// and returned, dropped in favour of an earlier error, or swallowed). Only such a handler is a GUARD: a handler that
// re-panics what it recovers (checkSchema.checkType, lexeme.CatchLexEventError) protects nobody above it.
func (a *guardAnalysis) stopsErrors(h *node) bool {
	return onlyIn(a.outcomes(h).onErr, "return", "wrap", "prior", "swallow")
}

// guardDefer: index and handler of the first top-level recover defer whose handler stops errors.
func (a *guardAnalysis) guardDefer(n *node) (int, *node) {
	if n.body == nil {
		return -1, nil
	}
	for i, st := range n.body.List {
		if ds, ok := st.(*ast.DeferStmt); ok {
			if h := a.g.handlerOfDefer(n, ds); h != nil && a.stopsErrors(h) {
				return i, h
			}
		}
	}
	return -1, nil
}

func funcTypedParams(n *node) map[types.Object]bool {
	out := map[types.Object]bool{}
	var ft *ast.FuncType
	if n.decl != nil {
		ft = n.decl.Type
	} else if n.lit != nil {
		ft = n.lit.Type
	}
	if ft == nil || ft.Params == nil {
		return out
	}
	for _, fld := range ft.Params.List {
		for _, nm := range fld.Names {
			if obj := n.p.info.Defs[nm]; obj != nil {
				if _, ok := obj.Type().Underlying().(*types.Signature); ok {
					out[obj] = true
				}
			}
		}
	}
	return out
}

// funcGuarded: rule (d) - the declared function's body is guarded with its function-typed parameters assumed safe.
func (a *guardAnalysis) funcGuarded(n *node) bool {
	switch a.funcOK[n] {
	case 1:
		return true
	case 2:
		return false
	}
	if a.busy[n] {
		return false // recursion: fail closed
	}
	a.busy[n] = true
	bi := a.body(n, funcTypedParams(n))
	a.busy[n] = false
	if bi.ok {
		a.funcOK[n] = 1
	} else {
		a.funcOK[n] = 2
	}
	return bi.ok
}

func (a *guardAnalysis) safeFuncValue(n *node, e ast.Expr, env map[types.Object]bool) bool {
	e = ast.Unparen(e)
	info := n.p.info
	if tv, ok := info.Types[e]; ok && tv.IsNil() {
		return true
	}
	switch x := e.(type) {
	case *ast.FuncLit:
		k := a.g.byLit[x]
		if k == nil {
			return false
		}
		env2 := map[types.Object]bool{}
		for o := range env {
			env2[o] = true
		}
		for o := range funcTypedParams(k) {
			env2[o] = true
		}
		return a.body(k, env2).ok
	case *ast.Ident:
		if obj := info.Uses[x]; obj != nil {
			if env[obj] {
				return true
			}
			if f, ok := obj.(*types.Func); ok {
				if k := a.g.byObj[f.Origin()]; k != nil {
					return !k.mayPanic || a.funcGuarded(k)
				}
			}
		}
	case *ast.SelectorExpr:
		if f := funcOfExpr(info, x); f != nil {
			if k := a.g.byObj[f]; k != nil {
				return !k.mayPanic || a.funcGuarded(k)
			}
		}
	}
	return false
}

func isFuncTyped(info *types.Info, e ast.Expr) bool {
	tv, ok := info.Types[e]
	if !ok || tv.Type == nil {
		return false
	}
	_, isSig := tv.Type.Underlying().(*types.Signature)
	return isSig
}

func (a *guardAnalysis) funcArgsSafe(n *node, cs *callSite, env map[types.Object]bool) bool {
	for _, arg := range cs.call.Args {
		if isFuncTyped(n.p.info, arg) && !a.safeFuncValue(n, arg, env) {
			return false
		}
	}
	return true
}

func (a *guardAnalysis) safeCall(n *node, cs *callSite, env map[types.Object]bool) bool {
	switch cs.kind {
	case cBuiltin, cConv, cRecover:
		return true
	case cPanic, cThird:
		return false
	case cStd:
		if !a.funcArgsSafe(n, cs, env) {
			return false
		}
		for _, k := range cs.targets { // Error / String methods fmt may call
			if k.mayPanic {
				return false
			}
		}
		return true
	case cStatic:
		if len(cs.targets) != 1 {
			return false
		}
		k := cs.targets[0]
		if k.lit != nil { // immediately called literal
			return !k.mayPanic || a.body(k, env).ok
		}
		if !a.funcArgsSafe(n, cs, env) {
			return false
		}
		if !k.mayPanic {
			return true
		}
		return a.funcGuarded(k)
	case cDynamic:
		if cs.param != nil && env[cs.param] {
			return true
		}
		fallthrough
	case cIface:
		if len(cs.targets) == 0 {
			// an interface of the standard library without a library implementation is harmless; a function value without
			// any candidate is not understood
			return cs.kind == cIface && !a.g.libraryInterfaceCall(n, cs)
		}
		for _, k := range cs.targets {
			if k.mayPanic {
				return false
			}
		}
		return a.funcArgsSafe(n, cs, env)
	}
	return false
}

// libraryInterfaceCall: the interface whose method is called is declared by the library (so an implementation the
// analysis does not see - the user's - may be behind it).
func (g *graph) libraryInterfaceCall(n *node, cs *callSite) bool {
	se, ok := ast.Unparen(cs.call.Fun).(*ast.SelectorExpr)
	if !ok {
		return true
	}
	sel, ok := n.p.info.Selections[se]
	if !ok {
		return true
	}
	if f, ok := sel.Obj().(*types.Func); ok && f.Pkg() != nil {
		return isLibPath(g.w, f.Pkg().Path())
	}
	return false
}

func (a *guardAnalysis) body(n *node, env map[types.Object]bool) *bodyInfo {
	idx, h := a.guardDefer(n)
	return a.bodyAt(n, env, idx, h)
}

// bodyAt: are the calls before top-level statement idx (all calls when idx < 0) safe?
func (a *guardAnalysis) bodyAt(n *node, env map[types.Object]bool, idx int, h *node) *bodyInfo {
	bi := &bodyInfo{n: n, deferIdx: idx, handler: h, ok: true}
	for _, cs := range n.calls {
		if cs.kind == cStatic || cs.kind == cIface || cs.kind == cDynamic || cs.kind == cThird {
			bi.libCalls++
		}
		if idx >= 0 {
			if cs.stmt > idx {
				continue
			}
			if cs.stmt == idx && cs.inDefer {
				continue // the call of the handler itself
			}
		}
		if !a.safeCall(n, cs, env) {
			bi.ok = false
			bi.unsafe = append(bi.unsafe, cs.what)
		}
	}
	return bi
}

func (n *node) libCallsDeep() int {
	c := 0
	for _, cs := range n.calls {
		if cs.kind == cStatic || cs.kind == cIface || cs.kind == cDynamic || cs.kind == cThird {
			if cs.kind == cStatic && len(cs.targets) == 1 && cs.targets[0].lit != nil {
				continue
			}
			c++
		}
	}
	for _, k := range n.kids {
		c += k.libCallsDeep()
	}
	return c
}

// ---- entries ------------------------------------------------------------------------------------------------------

type entry struct {
	ty, method string
	n          *node
	guarded    bool
	calls      bool
	how        string
	unsafe     []string
}

func (e *entry) label() string { return e.ty + "." + e.method }

var publicTypes = map[string]string{"notations/jschema": "Schema", "formats/json": "Document", "rules/enum": "Enum", "notations/regex": "Schema"}

func (a *guardAnalysis) entries() []*entry {
	var out []*entry
	for _, n := range a.g.nodes {
		if n.decl == nil || n.obj == nil || !n.obj.Exported() {
			continue
		}
		var e *entry
		if tname, ok := publicTypes[n.p.rel]; ok {
			if n.decl.Recv != nil {
				if recvTypeName(n.decl.Recv.List[0].Type) == tname {
					e = &entry{ty: n.p.rel + "." + tname, method: n.decl.Name.Name, n: n}
				}
			} else {
				e = &entry{ty: n.p.rel, method: n.decl.Name.Name, n: n}
			}
		}
		for _, x := range extraEntryFuncs {
			if n.p.rel == x[0] && n.decl.Recv == nil && n.decl.Name.Name == x[1] {
				e = &entry{ty: n.p.rel, method: n.decl.Name.Name, n: n}
			}
		}
		if e == nil {
			continue
		}
		bi := a.body(n, map[types.Object]bool{})
		e.guarded = bi.ok
		e.calls = n.libCallsDeep() > 0
		e.unsafe = bi.unsafe
		switch {
		case !e.calls:
			e.how = "no library call"
		case !bi.ok:
			e.how = "unguarded"
		case bi.deferIdx >= 0:
			e.how = "own defer"
		default:
			e.how = "guarded callees"
		}
		out = append(out, e)
	}
	sort.Slice(out, func(i, j int) bool {
		if out[i].ty != out[j].ty {
			return out[i].ty < out[j].ty
		}
		return out[i].method < out[j].method
	})
	return out
}

// ---- recover sites (P2) -------------------------------------------------------------------------------------------

func (a *guardAnalysis) recoverSites() []*handlerInfo {
	var out []*handlerInfo
	for _, n := range a.g.nodes {
		if n.body == nil {
			continue
		}
		top := map[ast.Stmt]int{}
		for i, st := range n.body.List {
			top[st] = i
		}
		var visit func(x ast.Node) bool
		visit = func(x ast.Node) bool {
			switch s := x.(type) {
			case *ast.FuncLit:
				return false
			case *ast.DeferStmt:
				h := a.g.handlerOfDefer(n, s)
				if h == nil {
					return true
				}
				hi := &handlerInfo{inst: n, h: h, stmt: -1}
				if i, ok := top[s]; ok {
					hi.stmt = i
				}
				c := a.outcomes(h)
				hi.onNonErr, hi.onErr, hi.perKind, hi.via = c.onNonErr, c.onErr, c.perKind, c.via
				out = append(out, hi)
			}
			return true
		}
		ast.Inspect(n.body, visit)
	}
	sort.SliceStable(out, func(i, j int) bool {
		if out[i].inst.p.rel != out[j].inst.p.rel {
			return out[i].inst.p.rel < out[j].inst.p.rel
		}
		return out[i].inst.label < out[j].inst.label
	})
	for _, hi := range out {
		if _, dup := a.handler[hi.inst]; !dup {
			a.handler[hi.inst] = hi
		}
	}
	return out
}

func onlyIn(l []string, allowed ...string) bool {
	for _, x := range l {
		ok := false
		for _, y := range allowed {
			if x == y {
				ok = true
			}
		}
		if !ok {
			return false
		}
	}
	return len(l) > 0
}

// ---- reachability with barriers -----------------------------------------------------------------------------------

// A BARRIER for a class of panic values is a function whose first top-level recover defer has a handler that never
// lets such a value continue upwards as it is: only what the function does before the defer is installed (and
// what its deferred calls do) stays visible above it.
type barrierKind int

const (
	noBarrier barrierKind = iota
	nonErrorBarrier
	errorBarrier
)

func (a *guardAnalysis) isBarrier(n *node, bk barrierKind) (bool, int) {
	if bk == noBarrier {
		return false, 0
	}
	hi := a.handler[n]
	if hi == nil || hi.stmt < 0 {
		return false, 0
	}
	idx, h := a.firstRecoverDefer(n)
	if h == nil || idx != hi.stmt {
		return false, 0
	}
	switch bk {
	case nonErrorBarrier:
		// converts (and then re-panics an error, or returns it) or drops: the raw value does not travel on
		return onlyIn(hi.onNonErr, "convert", "convertRepanic", "swallow", "prior"), idx
	case errorBarrier:
		return onlyIn(hi.onErr, "return", "wrap", "prior", "swallow"), idx
	}
	return false, 0
}

func (a *guardAnalysis) succ(n *node, bk barrierKind) []*node {
	isB, idx := a.isBarrier(n, bk)
	if !isB {
		return sortedNodes(n.succ)
	}
	m := map[*node]bool{}
	for _, cs := range n.calls {
		if cs.stmt <= idx {
			for _, k := range cs.targets {
				m[k] = true
			}
			for _, k := range cs.argTargets {
				m[k] = true
			}
		}
	}
	for _, k := range n.kids {
		if k.stmt <= idx && k.written {
			m[k] = true
		}
	}
	for i, k := range n.taken {
		if n.takenAt[i] <= idx {
			m[k] = true
		}
	}
	// the handler and every deferred function run outside the guard
	for i, st := range n.body.List {
		if i > idx {
			break // later defers run before the handler: still under the guard
		}
		if ds, ok := st.(*ast.DeferStmt); ok {
			if lit, ok := ast.Unparen(ds.Call.Fun).(*ast.FuncLit); ok {
				if k := a.g.byLit[lit]; k != nil {
					m[k] = true
				}
			} else if f := calleeOf(n.p.info, ds.Call); f != nil {
				if k := a.g.byObj[f]; k != nil {
					m[k] = true
				}
			}
		}
	}
	return sortedNodes(m)
}

func (a *guardAnalysis) reach(from *node, bk barrierKind) map[*node]bool {
	seen := map[*node]bool{from: true}
	work := []*node{from}
	for len(work) > 0 {
		n := work[len(work)-1]
		work = work[:len(work)-1]
		for _, k := range a.succ(n, bk) {
			if !seen[k] {
				seen[k] = true
				work = append(work, k)
			}
		}
	}
	return seen
}

func shortList(l []string, max int) string {
	if len(l) > max {
		return strings.Join(l[:max], "; ") + "; …"
	}
	return strings.Join(l, "; ")
}
