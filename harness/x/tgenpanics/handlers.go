package tgenpanics

// P2: what a deferred recover handler does with the recovered value.
//
// A handler is the function literal of `defer func() {…}()` or the declared library function of `defer f(…)`,
// provided its body calls the builtin recover() DIRECTLY (recover works only there). The handler body is executed
// symbolically once per KIND of recovered (non-nil) value:
//
//	non-error          a value whose dynamic type does not implement `error` (string panics …)
//	T                  for every named type T (or *T) of the live library that implements `error`
//	foreign error      an error value of a type the library does not declare (runtime.Error, fmt.Errorf …)
//
// Type assertions and type switches on the recovered value are decided by the kind (three-valued: a test that the
// kind does not decide forks the path); other conditions fork. Library functions that receive the recovered value
// (panics.Handle(recover(), err), a shared helper) are executed inline. Each path ends in one OUTCOME:
//
//	repanic          panic(r) with the recovered value itself
//	pass             the deferred function returns without having called recover() ITSELF on this path (recover() one call
//	                 deeper returns nil and recovers nothing): the panic goes on unchanged
//	convertRepanic   (non-error kinds) panic(e) with an error-typed value built from r
//	wrapRepanic      (error kinds)     panic(e) with an error-typed value built from r
//	repanicNonError  panic(x) with a value built from r whose static type is not an error
//	panicOther       panic(x) with a value that does not depend on r
//	return           r itself is stored into a variable that outlives the handler (named result, *err, captured variable)
//	convert / wrap   an error-typed value built from r is stored there (non-error kinds / error kinds)
//	prior            an error value that was there before wins (`if originErr != nil { return originErr }`)
//	swallow          the handler ends normally and nothing that depends on r was stored
//	unknown          the handler uses a construct the interpreter does not understand (fail closed)

import (
	"go/ast"
	"go/token"
	"go/types"
	"sort"
)

type tri int

const (
	triU tri = iota
	triT
	triF
)

func (t tri) not() tri {
	switch t {
	case triT:
		return triF
	case triF:
		return triT
	}
	return triU
}

type hk int

const (
	hUnknown hk = iota
	hRec
	hDerived
	hPrior
	hNil
	hTrue
	hFalse
)

type hval struct {
	k   hk
	err bool
}

type vkind struct {
	name    string
	nonErr  bool
	foreign bool
	typ     types.Type
}

type henv struct {
	vars      map[types.Object]hval
	stored    hval
	storedSet bool
	recovered bool // recover() has been called directly by the deferred function on this path
}

func (e *henv) clone() *henv {
	c := &henv{vars: make(map[types.Object]hval, len(e.vars)), stored: e.stored, storedSet: e.storedSet, recovered: e.recovered}
	for k, v := range e.vars {
		c.vars[k] = v
	}
	return c
}

type retPath struct {
	env  *henv
	vals []hval
}

type frame struct {
	p       *pkg
	inlined bool
	rets    []retPath
	results []types.Object
	nres    int
	lo, hi  token.Pos // extent of the function: objects declared inside are local
	up      *frame
}

type hctx struct {
	g        *graph
	kind     vkind
	outcomes map[string]bool
	depth    int
	steps    int
}

func (c *hctx) out(s string) { c.outcomes[s] = true }

func (c *hctx) isLocal(fr *frame, obj types.Object) bool {
	if obj == nil {
		return true
	}
	for f := fr; f != nil; f = f.up {
		if obj.Pos() >= f.lo && obj.Pos() <= f.hi {
			// named results and parameters of the top handler literal are local too; named results of an inlined callee are
			// handled through `results`
			return true
		}
	}
	return false
}

func (c *hctx) finishPanic(v hval) {
	switch v.k {
	case hRec:
		c.out("repanic")
	case hDerived:
		if v.err {
			if c.kind.nonErr {
				c.out("convertRepanic")
			} else {
				c.out("wrapRepanic")
			}
		} else {
			c.out("repanicNonError")
		}
	default:
		c.out("panicOther")
	}
}

func (c *hctx) finishReturn(env *henv) {
	if !env.recovered {
		// the deferred function returned without having called recover() itself: the panic goes on unchanged
		c.out("pass")
		return
	}
	if !env.storedSet {
		c.out("swallow")
		return
	}
	switch env.stored.k {
	case hRec:
		c.out("return")
	case hDerived:
		if !env.stored.err {
			c.out("swallow")
		} else if c.kind.nonErr {
			c.out("convert")
		} else {
			c.out("wrap")
		}
	case hPrior:
		c.out("prior")
	default:
		c.out("swallow")
	}
}

func (c *hctx) typeTest(t types.Type) tri {
	if t == nil {
		return triU
	}
	k := c.kind
	if iface, ok := t.Underlying().(*types.Interface); ok {
		if iface.NumMethods() == 0 && iface.NumEmbeddeds() == 0 {
			return triT
		}
		hasError := false
		for i := 0; i < iface.NumMethods(); i++ {
			if iface.Method(i).Name() == "Error" {
				hasError = true
			}
		}
		switch {
		case k.nonErr:
			if hasError {
				return triF
			}
			return triU
		case k.foreign:
			if hasError && iface.NumMethods() == 1 {
				return triT
			}
			return triU
		default:
			if types.Implements(k.typ, iface) {
				return triT
			}
			return triF
		}
	}
	// concrete type
	switch {
	case k.nonErr:
		if c.g.implementsError(t) {
			return triF
		}
		return triU
	case k.foreign:
		if n := namedOf(t); n != nil && n.Obj().Pkg() != nil && isLibPath(c.g.w, n.Obj().Pkg().Path()) {
			return triF
		}
		return triU
	default:
		if types.Identical(k.typ, t) {
			return triT
		}
		return triF
	}
}

func (c *hctx) isRecoverCall(p *pkg, e ast.Expr) bool {
	call, ok := ast.Unparen(e).(*ast.CallExpr)
	if !ok {
		return false
	}
	id, ok := ast.Unparen(call.Fun).(*ast.Ident)
	if !ok {
		return false
	}
	b, ok := p.info.Uses[id].(*types.Builtin)
	return ok && b.Name() == "recover"
}

func (c *hctx) isPanicCall(p *pkg, call *ast.CallExpr) bool {
	id, ok := ast.Unparen(call.Fun).(*ast.Ident)
	if !ok {
		return false
	}
	b, ok := p.info.Uses[id].(*types.Builtin)
	return ok && b.Name() == "panic"
}

// mentions: does the expression read the recovered value or something built from it?
func (c *hctx) mentions(fr *frame, e ast.Expr, env *henv) bool {
	found := false
	ast.Inspect(e, func(x ast.Node) bool {
		if found {
			return false
		}
		switch y := x.(type) {
		case *ast.FuncLit:
			return false
		case *ast.Ident:
			obj := fr.p.info.Uses[y]
			if obj == nil {
				obj = fr.p.info.Defs[y]
			}
			if v, ok := env.vars[obj]; ok && (v.k == hRec || v.k == hDerived) {
				found = true
			}
		case *ast.CallExpr:
			if c.isRecoverCall(fr.p, y) && c.depth == 0 {
				found = true
			}
		}
		return true
	})
	return found
}

func (c *hctx) staticErr(fr *frame, e ast.Expr) bool {
	tv, ok := fr.p.info.Types[e]
	return ok && tv.Type != nil && c.g.implementsError(tv.Type)
}

func (c *hctx) eval(fr *frame, e ast.Expr, env *henv) hval {
	e = ast.Unparen(e)
	switch x := e.(type) {
	case *ast.Ident:
		switch x.Name {
		case "nil":
			if _, ok := fr.p.info.Uses[x].(*types.Nil); ok {
				return hval{k: hNil}
			}
		case "true", "false":
			if cst, ok := fr.p.info.Uses[x].(*types.Const); ok && cst.Pkg() == nil {
				if x.Name == "true" {
					return hval{k: hTrue}
				}
				return hval{k: hFalse}
			}
		}
		obj := fr.p.info.Uses[x]
		if v, ok := env.vars[obj]; ok {
			return v
		}
		if _, isVar := obj.(*types.Var); isVar && c.staticErr(fr, x) {
			return hval{k: hPrior, err: true}
		}
		return hval{}
	case *ast.CallExpr:
		if c.isRecoverCall(fr.p, x) {
			if c.depth > 0 {
				// not called directly by the deferred function: returns nil and recovers nothing
				return hval{k: hNil}
			}
			env.recovered = true
			return hval{k: hRec}
		}
	case *ast.TypeAssertExpr:
		if x.Type != nil {
			if v := c.eval(fr, x.X, env); v.k == hRec {
				return v
			}
		}
	}
	if c.mentions(fr, e, env) {
		return hval{k: hDerived, err: c.staticErr(fr, e)}
	}
	return hval{}
}

func (c *hctx) cond(fr *frame, e ast.Expr, env *henv) tri {
	e = ast.Unparen(e)
	switch x := e.(type) {
	case *ast.UnaryExpr:
		if x.Op == token.NOT {
			return c.cond(fr, x.X, env).not()
		}
	case *ast.BinaryExpr:
		switch x.Op {
		case token.LAND:
			a, b := c.cond(fr, x.X, env), c.cond(fr, x.Y, env)
			if a == triF || b == triF {
				return triF
			}
			if a == triT && b == triT {
				return triT
			}
			return triU
		case token.LOR:
			a, b := c.cond(fr, x.X, env), c.cond(fr, x.Y, env)
			if a == triT || b == triT {
				return triT
			}
			if a == triF && b == triF {
				return triF
			}
			return triU
		case token.EQL, token.NEQ:
			a, b := c.eval(fr, x.X, env), c.eval(fr, x.Y, env)
			var r tri = triU
			isNil := func(v hval) bool { return v.k == hNil }
			nonNil := func(v hval) bool { return v.k == hRec }
			switch {
			case isNil(a) && isNil(b):
				r = triT
			case (isNil(a) && nonNil(b)) || (isNil(b) && nonNil(a)):
				r = triF
			}
			if x.Op == token.NEQ {
				r = r.not()
			}
			return r
		}
	case *ast.Ident:
		switch c.eval(fr, x, env).k {
		case hTrue:
			return triT
		case hFalse:
			return triF
		}
	}
	return triU
}

func (c *hctx) setVar(fr *frame, lhs ast.Expr, v hval, env *henv, define bool) {
	lhs = ast.Unparen(lhs)
	switch x := lhs.(type) {
	case *ast.Ident:
		if x.Name == "_" {
			return
		}
		obj := fr.p.info.Defs[x]
		if obj == nil {
			obj = fr.p.info.Uses[x]
		}
		if obj == nil {
			return
		}
		env.vars[obj] = v
		isResult := false
		for _, r := range fr.results {
			if r == obj {
				isResult = true
			}
		}
		_ = isResult
		if !c.isLocal(fr, obj) {
			env.stored, env.storedSet = v, true
		}
	case *ast.StarExpr, *ast.SelectorExpr, *ast.IndexExpr:
		// store through a pointer / into a field: local when the base variable is a local non-pointer value
		base := lhs
		for {
			switch y := base.(type) {
			case *ast.StarExpr:
				base = ast.Unparen(y.X)
				continue
			case *ast.SelectorExpr:
				base = ast.Unparen(y.X)
				continue
			case *ast.IndexExpr:
				base = ast.Unparen(y.X)
				continue
			}
			break
		}
		if id, ok := base.(*ast.Ident); ok {
			obj := fr.p.info.Uses[id]
			if vv, isVar := obj.(*types.Var); isVar && c.isLocal(fr, obj) {
				if _, isPtr := vv.Type().Underlying().(*types.Pointer); !isPtr {
					if _, isMap := vv.Type().Underlying().(*types.Map); !isMap {
						if v.k == hRec || v.k == hDerived {
							old := env.vars[obj]
							env.vars[obj] = hval{k: hDerived, err: old.err || c.g.implementsError(vv.Type())}
						}
						return
					}
				}
			}
		}
		env.stored, env.storedSet = v, true
	}
}

// inlineCall executes a declared library function with abstract arguments; ok=false when it cannot.
func (c *hctx) inlineCall(fr *frame, call *ast.CallExpr, env *henv) (paths []retPath, ok bool) {
	if c.depth >= 5 {
		return nil, false
	}
	f := calleeOf(fr.p.info, call)
	if f == nil {
		return nil, false
	}
	k := c.g.byObj[f]
	if k == nil || k.decl == nil || k.decl.Body == nil {
		return nil, false
	}
	sig := k.sig
	if sig == nil || sig.Variadic() {
		return nil, false
	}
	argv := make([]hval, len(call.Args))
	for j, a := range call.Args {
		argv[j] = c.eval(fr, a, env)
	}
	env2 := env.clone()
	// bind parameters
	i := 0
	for _, fld := range k.decl.Type.Params.List {
		for _, nm := range fld.Names {
			if i < len(call.Args) {
				if obj := k.p.info.Defs[nm]; obj != nil {
					env2.vars[obj] = argv[i]
				}
			}
			i++
		}
		if len(fld.Names) == 0 {
			i++
		}
	}
	if i != len(call.Args) {
		return nil, false
	}
	nf := &frame{p: k.p, inlined: true, lo: k.decl.Pos(), hi: k.decl.End(), up: nil, nres: sig.Results().Len()}
	// objects of the CALLER stay what they are (outer or local) through `up`
	nf.up = fr
	if k.decl.Type.Results != nil {
		for _, fld := range k.decl.Type.Results.List {
			for _, nm := range fld.Names {
				if obj := k.p.info.Defs[nm]; obj != nil {
					nf.results = append(nf.results, obj)
					env2.vars[obj] = hval{}
				}
			}
		}
	}
	c.depth++
	outs, good := c.execList(nf, k.decl.Body.List, []*henv{env2})
	c.depth--
	if !good {
		return nil, false
	}
	for _, e := range outs { // fell off the end
		var vals []hval
		for _, r := range nf.results {
			vals = append(vals, e.vars[r])
		}
		nf.rets = append(nf.rets, retPath{e, vals})
	}
	return nf.rets, true
}

// execList runs the statements on every incoming environment; returns the environments that fall through.
func (c *hctx) execList(fr *frame, stmts []ast.Stmt, envs []*henv) ([]*henv, bool) {
	for _, st := range stmts {
		var next []*henv
		for _, env := range envs {
			out, ok := c.exec(fr, st, env)
			if !ok {
				return nil, false
			}
			next = append(next, out...)
		}
		envs = next
		if len(envs) > 64 {
			return nil, false
		}
		if len(envs) == 0 {
			break
		}
	}
	return envs, true
}

func (c *hctx) argsMention(fr *frame, call *ast.CallExpr, env *henv) bool {
	for _, a := range call.Args {
		if v := c.eval(fr, a, env); v.k == hRec || v.k == hDerived {
			return true
		}
	}
	return false
}

func (c *hctx) exec(fr *frame, st ast.Stmt, env *henv) ([]*henv, bool) {
	c.steps++
	if c.steps > 20000 {
		return nil, false
	}
	info := fr.p.info
	switch s := st.(type) {
	case nil:
		return []*henv{env}, true
	case *ast.EmptyStmt, *ast.IncDecStmt:
		return []*henv{env}, true
	case *ast.BlockStmt:
		return c.execList(fr, s.List, []*henv{env})
	case *ast.LabeledStmt:
		return c.exec(fr, s.Stmt, env)
	case *ast.DeclStmt:
		gd, ok := s.Decl.(*ast.GenDecl)
		if !ok {
			return nil, false
		}
		for _, sp := range gd.Specs {
			vs, ok := sp.(*ast.ValueSpec)
			if !ok {
				continue
			}
			for i, nm := range vs.Names {
				v := hval{}
				if i < len(vs.Values) {
					v = c.eval(fr, vs.Values[i], env)
				}
				if obj := info.Defs[nm]; obj != nil {
					env.vars[obj] = v
				}
			}
		}
		return []*henv{env}, true
	case *ast.AssignStmt:
		define := s.Tok == token.DEFINE
		if len(s.Rhs) == 1 && len(s.Lhs) == 2 {
			if ta, ok := ast.Unparen(s.Rhs[0]).(*ast.TypeAssertExpr); ok && ta.Type != nil {
				xv := c.eval(fr, ta.X, env)
				if xv.k == hRec {
					var t types.Type
					if tv, ok := info.Types[ta.Type]; ok {
						t = tv.Type
					}
					var outs []*henv
					tt := c.typeTest(t)
					if tt != triF {
						e := env
						if tt == triU {
							e = env.clone()
						}
						c.setVar(fr, s.Lhs[0], hval{k: hRec, err: c.g.implementsError(t)}, e, define)
						c.setVar(fr, s.Lhs[1], hval{k: hTrue}, e, define)
						outs = append(outs, e)
					}
					if tt != triT {
						// the zero value: nothing of r is kept. A store of the zero value into an outer variable does not count.
						saved, savedSet := env.stored, env.storedSet
						c.setVar(fr, s.Lhs[0], hval{}, env, define)
						env.stored, env.storedSet = saved, savedSet
						c.setVar(fr, s.Lhs[1], hval{k: hFalse}, env, define)
						outs = append(outs, env)
					}
					return outs, true
				}
			}
		}
		if len(s.Rhs) == 1 {
			if call, ok := ast.Unparen(s.Rhs[0]).(*ast.CallExpr); ok && !c.isRecoverCall(fr.p, call) && c.argsMention(fr, call, env) {
				if paths, ok := c.inlineCall(fr, call, env); ok {
					var outs []*henv
					for _, rp := range paths {
						if len(rp.vals) != len(s.Lhs) {
							return nil, false
						}
						for i, l := range s.Lhs {
							c.setVar(fr, l, rp.vals[i], rp.env, define)
						}
						outs = append(outs, rp.env)
					}
					return outs, true
				}
				// opaque call fed with r: every result of an error type is "built from r"
				for _, l := range s.Lhs {
					v := hval{}
					if tv, ok := info.Types[l]; ok && tv.Type != nil && c.g.implementsError(tv.Type) {
						v = hval{k: hDerived, err: true}
					} else if id, ok := l.(*ast.Ident); ok {
						if obj := info.Defs[id]; obj != nil && c.g.implementsError(obj.Type()) {
							v = hval{k: hDerived, err: true}
						}
					}
					c.setVar(fr, l, v, env, define)
				}
				return []*henv{env}, true
			}
		}
		if len(s.Lhs) == len(s.Rhs) {
			vals := make([]hval, len(s.Rhs))
			for i, r := range s.Rhs {
				vals[i] = c.eval(fr, r, env)
			}
			for i, l := range s.Lhs {
				c.setVar(fr, l, vals[i], env, define)
			}
			return []*henv{env}, true
		}
		for _, l := range s.Lhs {
			c.setVar(fr, l, hval{}, env, define)
		}
		return []*henv{env}, true
	case *ast.ExprStmt:
		call, ok := ast.Unparen(s.X).(*ast.CallExpr)
		if !ok {
			return []*henv{env}, true
		}
		if c.isPanicCall(fr.p, call) {
			if len(call.Args) == 1 {
				c.finishPanic(c.eval(fr, call.Args[0], env))
			} else {
				c.out("unknown")
			}
			return nil, true
		}
		if c.isRecoverCall(fr.p, call) {
			return []*henv{env}, true
		}
		if c.argsMention(fr, call, env) {
			if paths, ok := c.inlineCall(fr, call, env); ok {
				var outs []*henv
				for _, rp := range paths {
					outs = append(outs, rp.env)
				}
				return outs, true
			}
		}
		return []*henv{env}, true
	case *ast.ReturnStmt:
		if fr.inlined {
			var vals []hval
			if len(s.Results) == 0 {
				for _, r := range fr.results {
					vals = append(vals, env.vars[r])
				}
			} else if len(s.Results) == 1 && fr.nres > 1 {
				// return f(): give up on precision
				for i := 0; i < fr.nres; i++ {
					vals = append(vals, c.eval(fr, s.Results[0], env))
				}
			} else {
				for _, r := range s.Results {
					vals = append(vals, c.eval(fr, r, env))
				}
			}
			fr.rets = append(fr.rets, retPath{env, vals})
			return nil, true
		}
		// the deferred function itself returns: results of a deferred call are discarded
		c.finishReturn(env)
		return nil, true
	case *ast.IfStmt:
		envs := []*henv{env}
		if s.Init != nil {
			var ok bool
			envs, ok = c.exec(fr, s.Init, env)
			if !ok {
				return nil, false
			}
		}
		var outs []*henv
		for _, e := range envs {
			t := c.cond(fr, s.Cond, e)
			if t != triF {
				e1 := e
				if t == triU {
					e1 = e.clone()
				}
				o, ok := c.exec(fr, s.Body, e1)
				if !ok {
					return nil, false
				}
				outs = append(outs, o...)
			}
			if t != triT {
				if s.Else != nil {
					o, ok := c.exec(fr, s.Else, e)
					if !ok {
						return nil, false
					}
					outs = append(outs, o...)
				} else {
					outs = append(outs, e)
				}
			}
		}
		return outs, true
	case *ast.TypeSwitchStmt:
		envs := []*henv{env}
		if s.Init != nil {
			var ok bool
			envs, ok = c.exec(fr, s.Init, env)
			if !ok {
				return nil, false
			}
		}
		var subject ast.Expr
		switch a := s.Assign.(type) {
		case *ast.AssignStmt:
			if len(a.Rhs) == 1 {
				if ta, ok := ast.Unparen(a.Rhs[0]).(*ast.TypeAssertExpr); ok {
					subject = ta.X
				}
			}
		case *ast.ExprStmt:
			if ta, ok := ast.Unparen(a.X).(*ast.TypeAssertExpr); ok {
				subject = ta.X
			}
		}
		if subject == nil {
			return nil, false
		}
		var outs []*henv
		for _, e := range envs {
			sv := c.eval(fr, subject, e)
			decided := false
			var dflt *ast.CaseClause
			for _, cl := range s.Body.List {
				cc := cl.(*ast.CaseClause)
				if cc.List == nil {
					dflt = cc
					continue
				}
				if decided {
					continue
				}
				take := triF
				if sv.k != hRec {
					take = triU
				} else {
					for _, te := range cc.List {
						var t types.Type
						if tv, ok := info.Types[te]; ok {
							t = tv.Type
						}
						if tv, ok := info.Types[te]; ok && tv.IsNil() {
							continue
						}
						switch c.typeTest(t) {
						case triT:
							take = triT
						case triU:
							if take == triF {
								take = triU
							}
						}
					}
				}
				if take == triF {
					continue
				}
				e1 := e.clone()
				if obj := info.Implicits[cc]; obj != nil {
					e1.vars[obj] = sv
				}
				o, ok := c.execList(fr, cc.Body, []*henv{e1})
				if !ok {
					return nil, false
				}
				outs = append(outs, o...)
				if take == triT {
					decided = true
				}
			}
			if !decided {
				if dflt != nil {
					e1 := e.clone()
					if obj := info.Implicits[dflt]; obj != nil {
						e1.vars[obj] = sv
					}
					o, ok := c.execList(fr, dflt.Body, []*henv{e1})
					if !ok {
						return nil, false
					}
					outs = append(outs, o...)
				} else {
					outs = append(outs, e)
				}
			}
		}
		return outs, true
	case *ast.SwitchStmt:
		envs := []*henv{env}
		if s.Init != nil {
			var ok bool
			envs, ok = c.exec(fr, s.Init, env)
			if !ok {
				return nil, false
			}
		}
		var outs []*henv
		for _, e := range envs {
			hasDefault := false
			for _, cl := range s.Body.List {
				cc := cl.(*ast.CaseClause)
				if cc.List == nil {
					hasDefault = true
				}
				for _, st2 := range cc.Body {
					if b, ok := st2.(*ast.BranchStmt); ok && b.Tok == token.FALLTHROUGH {
						return nil, false
					}
				}
				o, ok := c.execList(fr, cc.Body, []*henv{e.clone()})
				if !ok {
					return nil, false
				}
				outs = append(outs, o...)
			}
			if !hasDefault {
				outs = append(outs, e)
			}
		}
		return outs, true
	case *ast.ForStmt, *ast.RangeStmt:
		var body *ast.BlockStmt
		if f, ok := s.(*ast.ForStmt); ok {
			if f.Init != nil || f.Post != nil {
				// loop variables: harmless, treated as unknown
			}
			body = f.Body
		} else {
			body = s.(*ast.RangeStmt).Body
		}
		hasBranch := false
		ast.Inspect(body, func(x ast.Node) bool {
			if _, ok := x.(*ast.BranchStmt); ok {
				hasBranch = true
			}
			return true
		})
		if hasBranch {
			return nil, false
		}
		o, ok := c.exec(fr, body, env.clone())
		if !ok {
			return nil, false
		}
		return append(o, env), true
	}
	return nil, false
}

// ---- handler discovery ------------------------------------------------------------------------------------------

// callsRecoverDirectly: the body (not its nested literals) contains a call of the builtin recover.
func callsRecoverDirectly(n *node) bool {
	for _, cs := range n.calls {
		if cs.kind == cRecover {
			return true
		}
	}
	return false
}

type handlerInfo struct {
	inst     *node // the function (or literal) whose body contains the defer statement
	h        *node // the handler: literal or declared function
	stmt     int   // top-level statement index of the defer in inst's body; -1 when the defer is nested
	via      string
	onNonErr []string
	onErr    []string
	perKind  map[string][]string
}

// handlerOfDefer: the recover handler a defer statement installs, or nil.
func (g *graph) handlerOfDefer(n *node, ds *ast.DeferStmt) *node {
	fun := ast.Unparen(ds.Call.Fun)
	if lit, ok := fun.(*ast.FuncLit); ok {
		if k := g.byLit[lit]; k != nil && callsRecoverDirectly(k) {
			return k
		}
		return nil
	}
	if f := calleeOf(n.p.info, ds.Call); f != nil {
		if k := g.byObj[f]; k != nil && callsRecoverDirectly(k) {
			return k
		}
	}
	return nil
}

func (g *graph) valueKinds() []vkind {
	ks := []vkind{{name: "non-error", nonErr: true}}
	for _, nt := range g.named {
		if types.IsInterface(nt) || nt.TypeParams().Len() > 0 {
			continue
		}
		var t types.Type
		if g.implementsError(nt) {
			t = nt
		} else if g.implementsError(types.NewPointer(nt)) {
			t = types.NewPointer(nt)
		} else {
			continue
		}
		ks = append(ks, vkind{name: g.typeStr(t), typ: t})
	}
	ks = append(ks, vkind{name: "foreign error", foreign: true})
	return ks
}

func setToList(m map[string]bool) []string {
	var out []string
	for k := range m {
		out = append(out, k)
	}
	sort.Strings(out)
	return out
}

func (g *graph) classifyHandler(h *node) (onNonErr, onErr []string, perKind map[string][]string, via string) {
	perKind = map[string][]string{}
	errSet := map[string]bool{}
	for _, k := range g.valueKinds() {
		c := &hctx{g: g, kind: k, outcomes: map[string]bool{}}
		var lo, hi token.Pos
		var body *ast.BlockStmt
		fr := &frame{p: h.p}
		if h.lit != nil {
			lo, hi, body = h.lit.Pos(), h.lit.End(), h.lit.Body
		} else {
			lo, hi, body = h.decl.Pos(), h.decl.End(), h.decl.Body
			// parameters of a deferred helper: pointers to the caller's variables -> outer (handled by setVar on *p);
			if h.decl.Type.Results != nil {
				for _, fld := range h.decl.Type.Results.List {
					for _, nm := range fld.Names {
						if obj := h.p.info.Defs[nm]; obj != nil {
							fr.results = append(fr.results, obj) // results of a deferred call are discarded: storing there keeps nothing
						}
					}
				}
			}
		}
		fr.lo, fr.hi = lo, hi
		outs, ok := c.execList(fr, body.List, []*henv{{vars: map[types.Object]hval{}}})
		if !ok {
			c.out("unknown")
		}
		for _, e := range outs {
			c.finishReturn(e)
		}
		l := setToList(c.outcomes)
		perKind[k.name] = l
		if k.nonErr {
			onNonErr = l
		} else {
			for _, o := range l {
				errSet[o] = true
			}
		}
	}
	onErr = setToList(errSet)
	// via: the library function the recovered value is handed to
	via = "inline"
	if h.decl != nil {
		via = h.full()
	}
	for _, cs := range h.calls {
		if cs.kind == cStatic && len(cs.targets) == 1 {
			for _, a := range cs.call.Args {
				if (&hctx{g: g}).isRecoverCall(h.p, a) {
					via = cs.targets[0].full()
				}
			}
		}
	}
	return
}

// markRecovered: variables that hold a recovered value (for the `origin` column of P1).
func (g *graph) markRecovered() {
	c := &hctx{g: g}
	for _, n := range g.nodes {
		if n.body == nil {
			continue
		}
		info := n.p.info
		// parameters fed with recover()
		for _, cs := range n.calls {
			if cs.kind != cStatic || len(cs.targets) != 1 || cs.targets[0].decl == nil {
				continue
			}
			k := cs.targets[0]
			i := 0
			for _, fld := range k.decl.Type.Params.List {
				for _, nm := range fld.Names {
					if i < len(cs.call.Args) && c.isRecoverCall(n.p, cs.call.Args[i]) {
						if obj := k.p.info.Defs[nm]; obj != nil {
							g.recVars[obj] = true
						}
					}
					i++
				}
			}
		}
		ast.Inspect(n.body, func(x ast.Node) bool {
			if as, ok := x.(*ast.AssignStmt); ok && len(as.Rhs) == 1 && len(as.Lhs) >= 1 {
				if c.isRecoverCall(n.p, as.Rhs[0]) {
					if id, ok := as.Lhs[0].(*ast.Ident); ok {
						obj := info.Defs[id]
						if obj == nil {
							obj = info.Uses[id]
						}
						if obj != nil {
							g.recVars[obj] = true
						}
					}
				}
			}
			return true
		})
	}
	// aliases: v, ok := r.(T) ; switch v := r.(type)
	for changed := true; changed; {
		changed = false
		for _, n := range g.nodes {
			if n.body == nil || n.lit != nil {
				continue
			}
			info := n.p.info
			isRec := func(e ast.Expr) bool {
				id, ok := ast.Unparen(e).(*ast.Ident)
				return ok && g.recVars[info.Uses[id]]
			}
			ast.Inspect(n.body, func(x ast.Node) bool {
				switch s := x.(type) {
				case *ast.AssignStmt:
					if len(s.Rhs) == 1 {
						if ta, ok := ast.Unparen(s.Rhs[0]).(*ast.TypeAssertExpr); ok && isRec(ta.X) {
							if id, ok := s.Lhs[0].(*ast.Ident); ok {
								obj := info.Defs[id]
								if obj == nil {
									obj = info.Uses[id]
								}
								if obj != nil && !g.recVars[obj] {
									g.recVars[obj] = true
									changed = true
								}
							}
						}
					}
				case *ast.TypeSwitchStmt:
					if as, ok := s.Assign.(*ast.AssignStmt); ok && len(as.Rhs) == 1 {
						if ta, ok := ast.Unparen(as.Rhs[0]).(*ast.TypeAssertExpr); ok && isRec(ta.X) {
							for _, cl := range s.Body.List {
								if obj := info.Implicits[cl]; obj != nil && !g.recVars[obj] {
									g.recVars[obj] = true
									changed = true
								}
							}
						}
					}
				}
				return true
			})
		}
	}
	for _, ps := range g.sites {
		if len(ps.call.Args) == 1 {
			if id, ok := ast.Unparen(ps.call.Args[0]).(*ast.Ident); ok {
				if g.recVars[ps.n.p.info.Uses[id]] {
					ps.origin = "repanic"
				}
			}
		}
	}
}
