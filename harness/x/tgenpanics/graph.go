package tgenpanics

// The static call graph of the library (C07 part 4).
//
// Nodes: every declared function / method with a body, every function literal (its own node, child of the
// node it is written in), and one pseudo node per package for the initialisers of package-level variables.
//
// Edges (all conservative, i.e. a superset of what can happen at run time inside the library):
//   - a call whose callee go/types resolves to a declared library function or method (generic functions:
//     their origin);
//   - a call of a method through an interface value (or a type parameter): every method of that name of every
//     named type T or *T of the LIVE library packages that implements the interface;
//   - a call of a function value (field, variable, parameter, result of a call): every declared function whose
//     value is taken somewhere in the live library and every function literal, with an identical signature;
//   - the node a function literal is written in -> the literal (covers literals handed to the standard library:
//     sync.Once.Do, sort.Slice, sync.Pool.New, and `defer func() {…}()`);
//   - the node that takes the value of a declared function (method value, function passed as an argument) -> it;
//   - a call of a formatting function of the standard library (fmt, log, errors): the Error / String / Format /
//     GoString methods of the static type of each argument, or - when that type is an interface - of every live
//     library type that implements the interface (fmt calls them behind the library's back);
//   - calls into third-party modules are opaque: they add no edge and mark the node `opaque` (never panic-free).
//
// LIVE packages: the import closure of the public packages (those with entries). Test doubles (`mocks`), the
// test helpers (`test`) and the code generator are not imported from there; their panic sites are still listed in
// P1 but their types are not candidates of interface dispatch.

import (
	"fmt"
	"go/ast"
	"go/token"
	"go/types"
	"sort"
	"strconv"
	"strings"
)

type callKind int

const (
	cBuiltin callKind = iota
	cPanic
	cRecover
	cConv
	cStd
	cThird
	cStatic
	cIface
	cDynamic
)

type callSite struct {
	call       *ast.CallExpr
	kind       callKind
	targets    []*node
	what       string // printable callee
	stmt       int    // index of the top-level statement of the node's body that contains the call
	inDefer    bool   // the call IS the call of a top-level `defer` statement (runs at function exit)
	param      types.Object
	bound      bool    // call of a function-typed parameter accounted for at the callers (bindParams)
	argTargets []*node // functions passed to a parameter-calling callee at this call
}

type panicSite struct {
	n      *node
	call   *ast.CallExpr
	pkg    string
	fn     string
	typ    string
	isErr  bool
	origin string
	msg    string
	pos    token.Position
	id     int
}

type node struct {
	id       int
	p        *pkg
	decl     *ast.FuncDecl
	lit      *ast.FuncLit
	obj      *types.Func
	top      *node
	parent   *node
	stmt     int // for literals: index of the parent's top-level statement the literal is written in
	label    string
	body     *ast.BlockStmt
	sig      *types.Signature
	calls    []*callSite
	kids     []*node
	succ     map[*node]bool
	taken    []*node // declared functions whose value is taken here, with the statement index
	takenAt  []int
	panics   []*panicSite
	opaque   bool
	written  bool // literal: the node it is written in has an edge to it
	mayPanic bool // an explicit panic site or an opaque / unresolvable call is reachable
	live     bool
}

type graph struct {
	w         *world
	nodes     []*node
	byObj     map[*types.Func]*node
	byLit     map[*ast.FuncLit]*node
	addrTaken []*node
	named     []*types.Named // named types of the live packages
	live      map[string]bool
	errIface  *types.Interface
	sites     []*panicSite
	nUnres    int
	external  int // interface calls without a library implementation
	unres     []string
	recVars   map[types.Object]bool // variables bound to the result of recover() (or parameters fed with it)
}

func (n *node) pkgRel() string { return n.p.rel }

func (n *node) fnLabel() string { return n.top.label }

func (n *node) full() string { return n.p.rel + ":" + n.label }

func (g *graph) newNode(p *pkg) *node {
	n := &node{id: len(g.nodes), p: p, succ: map[*node]bool{}}
	g.nodes = append(g.nodes, n)
	return n
}

func isLibPath(w *world, path string) bool {
	return path == w.module || strings.HasPrefix(path, w.module+"/")
}

func isStdPath(path string) bool {
	first := path
	if i := strings.Index(path, "/"); i >= 0 {
		first = path[:i]
	}
	return !strings.Contains(first, ".")
}

// publicPkgs: packages that carry the public object types.
var publicPkgs = []string{"notations/jschema", "formats/json", "rules/enum", "notations/regex"}

// extraEntryFuncs: exported package-level functions outside the four packages that belong to the API surface a
// caller needs to build inputs and to read errors.
var extraEntryFuncs = [][2]string{{"kit", "ConvertError"}, {"fs", "NewFile"}}

func buildGraph(w *world) *graph {
	g := &graph{w: w, byObj: map[*types.Func]*node{}, byLit: map[*ast.FuncLit]*node{}, live: map[string]bool{}, recVars: map[types.Object]bool{}}
	g.errIface = types.Universe.Lookup("error").Type().Underlying().(*types.Interface)

	// live packages
	var mark func(rel string)
	mark = func(rel string) {
		if g.live[rel] {
			return
		}
		var p *pkg
		for _, q := range w.order {
			if q.rel == rel {
				p = q
			}
		}
		if p == nil {
			return
		}
		g.live[rel] = true
		for _, f := range p.files {
			for _, im := range f.Imports {
				path, _ := strconv.Unquote(im.Path.Value)
				if path == w.module {
					mark("")
				} else if strings.HasPrefix(path, w.module+"/") {
					mark(strings.TrimPrefix(path, w.module+"/"))
				}
			}
		}
	}
	for _, r := range publicPkgs {
		mark(r)
	}
	for _, e := range extraEntryFuncs {
		mark(e[0])
	}

	// nodes
	for _, p := range w.order {
		for _, f := range p.files {
			for _, d := range f.Decls {
				switch x := d.(type) {
				case *ast.FuncDecl:
					if x.Body == nil {
						continue
					}
					n := g.newNode(p)
					n.decl, n.body, n.top, n.label = x, x.Body, n, funcLabel(x)
					n.live = g.live[p.rel]
					if obj, ok := p.info.Defs[x.Name].(*types.Func); ok {
						n.obj = obj
						g.byObj[obj] = n
						n.sig, _ = obj.Type().(*types.Signature)
					}
				}
			}
		}
	}
	// package-level initialisers
	for _, p := range w.order {
		var init *node
		for _, f := range p.files {
			for _, d := range f.Decls {
				gd, ok := d.(*ast.GenDecl)
				if !ok || gd.Tok != token.VAR {
					continue
				}
				for _, sp := range gd.Specs {
					vs := sp.(*ast.ValueSpec)
					for _, v := range vs.Values {
						if init == nil {
							init = g.newNode(p)
							init.top, init.label, init.live = init, "<package variables>", g.live[p.rel]
						}
						g.walk(init, v, 0)
					}
				}
			}
		}
	}
	for _, n := range append([]*node(nil), g.nodes...) {
		if n.decl != nil {
			for i, st := range n.body.List {
				g.walk(n, st, i)
			}
		}
	}
	// named types of the live packages (for interface dispatch)
	for _, p := range w.order {
		if !g.live[p.rel] || p.tpkg == nil {
			continue
		}
		sc := p.tpkg.Scope()
		for _, name := range sc.Names() {
			if tn, ok := sc.Lookup(name).(*types.TypeName); ok && !tn.IsAlias() {
				if nt, ok := tn.Type().(*types.Named); ok {
					g.named = append(g.named, nt)
				}
			}
		}
	}
	g.resolve()
	g.propagate()
	sort.Slice(g.sites, func(i, j int) bool {
		a, b := g.sites[i], g.sites[j]
		if a.pkg != b.pkg {
			return a.pkg < b.pkg
		}
		if a.fn != b.fn {
			return a.fn < b.fn
		}
		return a.pos.Offset < b.pos.Offset
	})
	for i, s := range g.sites {
		s.id = i
	}
	return g
}

// walk attributes the calls, literals and function values under root to node n (statement index stmt).
//
// A function value (literal or declared function used as a value) that only FLOWS INSIDE the library - right-hand side
// of an assignment, returned, element of a composite literal of a library type, argument of a call of library code or
// of a builtin - gets no edge from the place where it is written: the calls of function values resolve to it by
// signature. Anywhere else (argument of a standard-library or third-party call such as once.Do / sort.Slice, field
// of a foreign struct such as sync.Pool.New, deferred or immediately called) the writer gets an edge to it.
func (g *graph) walk(n *node, root ast.Node, stmt int) {
	info := n.p.info
	callFun := map[ast.Expr]bool{}
	skip := map[*ast.Ident]bool{}
	siteOf := map[*ast.CallExpr]*callSite{}
	var deferCall *ast.CallExpr
	if ds, ok := root.(*ast.DeferStmt); ok {
		deferCall = ds.Call
	}
	var stack []ast.Node
	flowsInside := func(e ast.Expr) bool {
		// stack[len-1] is e itself
		i := len(stack) - 2
		for i >= 0 {
			if _, ok := stack[i].(*ast.ParenExpr); ok {
				i--
				continue
			}
			break
		}
		if i < 0 {
			return false
		}
		switch p := stack[i].(type) {
		case *ast.AssignStmt, *ast.ValueSpec, *ast.ReturnStmt:
			return true
		case *ast.KeyValueExpr, *ast.CompositeLit:
			cl, _ := p.(*ast.CompositeLit)
			if cl == nil && i >= 1 {
				cl, _ = stack[i-1].(*ast.CompositeLit)
			}
			if cl == nil {
				return false
			}
			if tv, ok := info.Types[cl]; ok && tv.Type != nil {
				t := tv.Type
				for {
					switch u := t.(type) {
					case *types.Pointer:
						t = u.Elem()
						continue
					case *types.Slice:
						t = u.Elem()
						continue
					case *types.Array:
						t = u.Elem()
						continue
					case *types.Map:
						t = u.Elem()
						continue
					}
					break
				}
				if nt := namedOf(t); nt != nil && nt.Obj().Pkg() != nil {
					return isLibPath(g.w, nt.Obj().Pkg().Path())
				}
				return true // unnamed composite (slice / map of functions) written in library code
			}
			return false
		case *ast.CallExpr:
			cs := siteOf[p]
			if cs == nil {
				return false
			}
			isArg := false
			for _, a := range p.Args {
				if ast.Unparen(a) == e {
					isArg = true
				}
			}
			if !isArg {
				return false
			}
			switch cs.kind {
			case cStatic, cIface, cDynamic, cBuiltin, cConv:
				return true
			}
			return false
		}
		return false
	}
	ast.Inspect(root, func(x ast.Node) bool {
		if x == nil {
			stack = stack[:len(stack)-1]
			return true
		}
		stack = append(stack, x)
		switch e := x.(type) {
		case *ast.FuncLit:
			k := g.newNode(n.p)
			k.lit, k.body, k.top, k.parent, k.stmt, k.live = e, e.Body, n.top, n, stmt, n.live
			k.label = fmt.Sprintf("%s$%d", n.label, len(n.kids)+1)
			if tv, ok := info.Types[e]; ok {
				k.sig, _ = tv.Type.(*types.Signature)
			}
			n.kids = append(n.kids, k)
			g.byLit[e] = k
			if !flowsInside(e) {
				n.succ[k] = true
				k.written = true
			}
			g.addrTaken = append(g.addrTaken, k)
			for i, st := range e.Body.List {
				g.walk(k, st, i)
			}
			stack = stack[:len(stack)-1]
			return false
		case *ast.CallExpr:
			fun := ast.Unparen(e.Fun)
			callFun[fun] = true
			switch ix := fun.(type) {
			case *ast.IndexExpr:
				callFun[ast.Unparen(ix.X)] = true
			case *ast.IndexListExpr:
				callFun[ast.Unparen(ix.X)] = true
			}
			cs := &callSite{call: e, stmt: stmt, inDefer: e == deferCall}
			g.classify(n, cs)
			siteOf[e] = cs
			n.calls = append(n.calls, cs)
		case *ast.SelectorExpr:
			skip[e.Sel] = true
			if callFun[e] {
				return true
			}
			if f := funcOfExpr(info, e); f != nil {
				g.noteTaken(n, f, stmt, !flowsInside(e))
			}
		case *ast.Ident:
			if skip[e] || callFun[e] {
				return true
			}
			if f, ok := info.Uses[e].(*types.Func); ok {
				g.noteTaken(n, f.Origin(), stmt, !flowsInside(e))
			}
		}
		return true
	})
}

func funcOfExpr(info *types.Info, e *ast.SelectorExpr) *types.Func {
	if sel, ok := info.Selections[e]; ok {
		if f, ok := sel.Obj().(*types.Func); ok && (sel.Kind() == types.MethodVal || sel.Kind() == types.MethodExpr) {
			return f.Origin()
		}
		return nil
	}
	if f, ok := info.Uses[e.Sel].(*types.Func); ok {
		return f.Origin()
	}
	return nil
}

type takenRef struct {
	from *node
	f    *types.Func
	stmt int
	edge bool
}

var pendingTaken []takenRef

func (g *graph) noteTaken(n *node, f *types.Func, stmt int, edge bool) {
	if f.Pkg() == nil || !isLibPath(g.w, f.Pkg().Path()) {
		return
	}
	pendingTaken = append(pendingTaken, takenRef{n, f, stmt, edge})
}

func (g *graph) classify(n *node, cs *callSite) {
	info := n.p.info
	call := cs.call
	fun := ast.Unparen(call.Fun)
	cs.what = types.ExprString(fun)
	// conversion
	if tv, ok := info.Types[fun]; ok && tv.IsType() {
		cs.kind = cConv
		return
	}
	switch ix := fun.(type) {
	case *ast.IndexExpr:
		if tv, ok := info.Types[ix.X]; ok && !tv.IsType() {
			if _, isSig := tv.Type.Underlying().(*types.Signature); isSig {
				if calleeOf(info, call) != nil {
					fun = ast.Unparen(ix.X)
				}
			}
		}
	case *ast.IndexListExpr:
		if calleeOf(info, call) != nil {
			fun = ast.Unparen(ix.X)
		}
	}
	if id, ok := fun.(*ast.Ident); ok {
		if b, ok := info.Uses[id].(*types.Builtin); ok {
			switch b.Name() {
			case "panic":
				cs.kind = cPanic
				g.notePanic(n, cs)
			case "recover":
				cs.kind = cRecover
			default:
				cs.kind = cBuiltin
			}
			return
		}
	}
	if lit, ok := fun.(*ast.FuncLit); ok {
		// immediately invoked literal: the literal's node is created by walk (child); resolved later
		cs.kind = cStatic
		cs.what = "func literal"
		_ = lit
		return
	}
	// interface method?
	if se, ok := fun.(*ast.SelectorExpr); ok {
		if sel, ok := info.Selections[se]; ok && sel.Kind() == types.MethodVal {
			rt := sel.Recv()
			if _, isTP := rt.(*types.TypeParam); isTP || types.IsInterface(rt) {
				cs.kind = cIface
				return
			}
		}
	}
	if f := calleeOf(info, call); f != nil {
		if f.Pkg() == nil { // error.Error and friends of the universe
			cs.kind = cIface
			return
		}
		path := f.Pkg().Path()
		switch {
		case isLibPath(g.w, path):
			cs.kind = cStatic
		case isStdPath(path):
			cs.kind = cStd
		default:
			cs.kind = cThird
		}
		return
	}
	cs.kind = cDynamic
	if id, ok := fun.(*ast.Ident); ok {
		if v, ok := info.Uses[id].(*types.Var); ok {
			cs.param = v
		}
	}
}

func (g *graph) typeStr(t types.Type) string {
	return types.TypeString(t, func(p *types.Package) string {
		if p == nil {
			return ""
		}
		if isLibPath(g.w, p.Path()) {
			r := strings.TrimPrefix(strings.TrimPrefix(p.Path(), g.w.module), "/")
			if r == "" {
				return "jschema(root)"
			}
			return r
		}
		return p.Path()
	})
}

func (g *graph) implementsError(t types.Type) bool {
	if t == nil {
		return false
	}
	return types.Implements(t, g.errIface)
}

func firstStringLit(e ast.Expr) string {
	out := ""
	ast.Inspect(e, func(x ast.Node) bool {
		if out != "" {
			return false
		}
		if bl, ok := x.(*ast.BasicLit); ok && bl.Kind == token.STRING {
			if s, err := strconv.Unquote(bl.Value); err == nil {
				out = s
			}
		}
		return true
	})
	return out
}

func (g *graph) notePanic(n *node, cs *callSite) {
	info := n.p.info
	ps := &panicSite{n: n, call: cs.call, pkg: n.p.rel, fn: n.top.label, pos: g.w.fset.Position(cs.call.Pos())}
	if len(cs.call.Args) == 1 {
		arg := ast.Unparen(cs.call.Args[0])
		tv := info.Types[arg]
		if tv.Type != nil {
			ps.typ = g.typeStr(tv.Type)
			ps.isErr = g.implementsError(tv.Type)
		} else {
			ps.typ = "?"
		}
		ps.origin = "other"
		if tv.Type != nil {
			if b, ok := tv.Type.Underlying().(*types.Basic); ok && b.Info()&types.IsString != 0 {
				ps.origin = "string"
				ps.msg = firstStringLit(arg)
			} else if ps.isErr {
				switch {
				case strings.HasSuffix(ps.typ, "errors.ErrorCode"):
					ps.origin = "errorCode"
				case strings.HasSuffix(ps.typ, "errors.Errorf"):
					ps.origin = "format"
				case strings.HasSuffix(ps.typ, "errors.DocumentError"):
					ps.origin = "documentError"
				default:
					ps.origin = "errorValue"
				}
			}
		}
	}
	n.panics = append(n.panics, ps)
	g.sites = append(g.sites, ps)
}

func (g *graph) unresolved(n *node, cs *callSite, why string) {
	g.nUnres++
	pos := g.w.fset.Position(cs.call.Pos())
	if n.live {
		g.unres = append(g.unres, fmt.Sprintf("%s %s: %s (%s:%d)", n.p.rel, n.label, why, shortFile(g.w, pos.Filename), pos.Line))
	}
	n.opaque = true
}

func shortFile(w *world, f string) string {
	return strings.TrimPrefix(strings.TrimPrefix(f, w.root), "/")
}

// formatting entry points of the standard library that call methods of their arguments
func stdCallsBack(f *types.Func) bool {
	if f == nil || f.Pkg() == nil {
		return false
	}
	switch f.Pkg().Path() {
	case "fmt", "log":
		return true
	case "errors":
		return true
	}
	return false
}

var callbackMethods = []string{"Error", "String", "Format", "GoString", "Unwrap", "Is", "As"}

// methodsOf: the node of method `name` of T and of *T, for every live named type (or only `only`) that implements iface.
func (g *graph) dispatch(iface *types.Interface, name string) []*node {
	var out []*node
	seen := map[*node]bool{}
	for _, nt := range g.named {
		if types.IsInterface(nt) {
			continue
		}
		if nt.TypeParams().Len() > 0 {
			// generic named type: look the method up on the origin without checking the constraint
			for i := 0; i < nt.NumMethods(); i++ {
				m := nt.Method(i)
				if m.Name() == name {
					if k := g.byObj[m.Origin()]; k != nil && !seen[k] && iface.NumMethods() > 0 {
						seen[k] = true
						out = append(out, k)
					}
				}
			}
			continue
		}
		for _, t := range []types.Type{nt, types.NewPointer(nt)} {
			if !types.Implements(t, iface) {
				continue
			}
			ms := types.NewMethodSet(t)
			for i := 0; i < ms.Len(); i++ {
				m := ms.At(i)
				if m.Obj().Name() != name {
					continue
				}
				if f, ok := m.Obj().(*types.Func); ok {
					if k := g.byObj[f.Origin()]; k != nil && !seen[k] {
						seen[k] = true
						out = append(out, k)
					}
				}
			}
		}
	}
	return out
}

func (g *graph) callbacksOfType(t types.Type) []*node {
	var out []*node
	if t == nil {
		return nil
	}
	if tp, ok := t.(*types.TypeParam); ok {
		t = tp.Constraint()
	}
	if types.IsInterface(t) {
		iface, _ := t.Underlying().(*types.Interface)
		if iface == nil {
			return nil
		}
		for _, nt := range g.named {
			if types.IsInterface(nt) || nt.TypeParams().Len() > 0 {
				continue
			}
			for _, tt := range []types.Type{nt, types.NewPointer(nt)} {
				if !types.Implements(tt, iface) {
					continue
				}
				out = append(out, g.callbackMethodsOf(tt)...)
			}
		}
		return out
	}
	return g.callbackMethodsOf(t)
}

func (g *graph) callbackMethodsOf(t types.Type) []*node {
	var out []*node
	ms := types.NewMethodSet(t)
	for i := 0; i < ms.Len(); i++ {
		f, ok := ms.At(i).Obj().(*types.Func)
		if !ok {
			continue
		}
		for _, nm := range callbackMethods {
			if f.Name() == nm {
				if k := g.byObj[f.Origin()]; k != nil {
					out = append(out, k)
				}
			}
		}
	}
	// slices / variadic ...interface{} handed through: element type
	switch u := t.Underlying().(type) {
	case *types.Slice:
		out = append(out, g.callbacksOfType(u.Elem())...)
	}
	return out
}

// resolve fills the targets of every call site and the edges.
func (g *graph) resolve() {
	// address-taken declared functions
	takenSet := map[*node]bool{}
	for _, tr := range pendingTaken {
		k := g.byObj[tr.f]
		if k == nil {
			continue
		}
		if tr.edge {
			tr.from.succ[k] = true
			tr.from.taken = append(tr.from.taken, k)
			tr.from.takenAt = append(tr.from.takenAt, tr.stmt)
		}
		if tr.from.live && !takenSet[k] {
			takenSet[k] = true
			g.addrTaken = append(g.addrTaken, k)
		}
	}
	pendingTaken = nil
	for _, n := range g.nodes {
		info := n.p.info
		for _, cs := range n.calls {
			switch cs.kind {
			case cStatic:
				fun := ast.Unparen(cs.call.Fun)
				if lit, ok := fun.(*ast.FuncLit); ok {
					if k := g.byLit[lit]; k != nil {
						cs.targets = []*node{k}
					}
					break
				}
				f := calleeOf(info, cs.call)
				if k := g.byObj[f]; k != nil {
					cs.targets = []*node{k}
					cs.what = k.full()
				} else {
					g.unresolved(n, cs, "library function without a body: "+cs.what)
				}
			case cIface:
				se, ok := ast.Unparen(cs.call.Fun).(*ast.SelectorExpr)
				if !ok {
					g.unresolved(n, cs, "interface call of unknown shape")
					break
				}
				var iface *types.Interface
				if sel, ok := info.Selections[se]; ok {
					rt := sel.Recv()
					if tp, ok := rt.(*types.TypeParam); ok {
						iface, _ = tp.Constraint().Underlying().(*types.Interface)
					} else {
						iface, _ = rt.Underlying().(*types.Interface)
					}
				}
				if iface == nil {
					g.unresolved(n, cs, "interface call with unknown receiver: "+cs.what)
					break
				}
				cs.targets = g.dispatch(iface, se.Sel.Name)
				cs.what = "interface " + cs.what
				// An interface no live library type implements (io.Writer of a bytes.Buffer, an ad-hoc
				// `interface{ WriteRune(rune) (int, error) }` around a buffer, a callback interface only the caller implements)
				// leads out of the library: no edge. The guard analysis still treats such a call as unsafe when the interface
				// is declared by the library (guard.go, rule (f)).
				if len(cs.targets) == 0 {
					g.external++
				}
			case cDynamic:
				tv, ok := info.Types[ast.Unparen(cs.call.Fun)]
				var sig *types.Signature
				if ok && tv.Type != nil {
					sig, _ = tv.Type.Underlying().(*types.Signature)
				}
				if sig == nil {
					g.unresolved(n, cs, "call of a value of unknown type: "+cs.what)
					break
				}
				for _, k := range g.addrTaken {
					if k.sig != nil && k.sig.TypeParams().Len() == 0 && sameSig(k.sig, sig) {
						cs.targets = append(cs.targets, k)
					}
				}
				cs.what = "func value " + cs.what
			case cThird:
				n.opaque = true
			case cStd:
				f := calleeOf(info, cs.call)
				if stdCallsBack(f) {
					for _, a := range cs.call.Args {
						if tv, ok := info.Types[a]; ok {
							cs.targets = append(cs.targets, g.callbacksOfType(tv.Type)...)
						}
					}
				}
			}
		}
	}
	g.bindParams()
	for _, n := range g.nodes {
		for _, cs := range n.calls {
			if cs.kind == cDynamic && len(cs.targets) == 0 && !cs.bound {
				g.unresolved(n, cs, "function value without a candidate: "+cs.what)
			}
			for _, k := range cs.targets {
				n.succ[k] = true
			}
			for _, k := range cs.argTargets {
				n.succ[k] = true
			}
		}
	}
}

// bindParams: calls of a function-typed PARAMETER. When the declared function G the parameter belongs to is only ever
// called statically (its value is never taken, it is no candidate of an interface call) and G uses the parameter
// only by calling it, the call inside G gets no target; instead every static caller of G gets an edge to the function
// it passes (literal, declared function; a function value of unknown origin falls back to all candidates by
// signature). This keeps `ErrOnce.Do(func() error {…})` from connecting every once closure with every other.
func (g *graph) bindParams() {
	taken := map[*node]bool{}
	for _, k := range g.addrTaken {
		taken[k] = true
	}
	ifaceTarget := map[*node]bool{}
	callers := map[*node][]struct {
		n  *node
		cs *callSite
	}{}
	for _, n := range g.nodes {
		for _, cs := range n.calls {
			switch cs.kind {
			case cIface:
				for _, k := range cs.targets {
					ifaceTarget[k] = true
				}
			case cStatic:
				if len(cs.targets) == 1 && cs.targets[0].decl != nil {
					callers[cs.targets[0]] = append(callers[cs.targets[0]], struct {
						n  *node
						cs *callSite
					}{n, cs})
				}
			}
		}
	}
	// parameter index of every function-typed parameter of a declared function
	type pinfo struct {
		g   *node
		idx int
	}
	params := map[types.Object]pinfo{}
	for _, n := range g.nodes {
		if n.decl == nil || n.sig == nil || n.sig.Variadic() || taken[n] || ifaceTarget[n] {
			continue
		}
		i := 0
		for _, fld := range n.decl.Type.Params.List {
			if len(fld.Names) == 0 {
				i++
				continue
			}
			for _, nm := range fld.Names {
				if obj := n.p.info.Defs[nm]; obj != nil {
					if _, ok := obj.Type().Underlying().(*types.Signature); ok && onlyCalled(n, obj) {
						params[obj] = pinfo{n, i}
					}
				}
				i++
			}
		}
	}
	done := map[types.Object]bool{}
	for _, n := range g.nodes {
		for _, cs := range n.calls {
			if cs.kind != cDynamic || cs.param == nil {
				continue
			}
			pi, ok := params[cs.param]
			if !ok || n.top != pi.g {
				continue
			}
			cs.targets = nil
			cs.bound = true
			if done[cs.param] {
				continue
			}
			done[cs.param] = true
			for _, c := range callers[pi.g] {
				if pi.idx >= len(c.cs.call.Args) {
					continue
				}
				arg := ast.Unparen(c.cs.call.Args[pi.idx])
				info := c.n.p.info
				switch a := arg.(type) {
				case *ast.FuncLit:
					if k := g.byLit[a]; k != nil {
						c.cs.argTargets = append(c.cs.argTargets, k)
					}
					continue
				case *ast.Ident:
					if tv, ok := info.Types[a]; ok && tv.IsNil() {
						continue
					}
					if f, ok := info.Uses[a].(*types.Func); ok {
						if k := g.byObj[f.Origin()]; k != nil {
							c.cs.argTargets = append(c.cs.argTargets, k)
							continue
						}
					}
				case *ast.SelectorExpr:
					if f := funcOfExpr(info, a); f != nil {
						if k := g.byObj[f]; k != nil {
							c.cs.argTargets = append(c.cs.argTargets, k)
							continue
						}
					}
				}
				// a function value of unknown origin: every candidate by signature
				if tv, ok := info.Types[arg]; ok && tv.Type != nil {
					if sig, ok := tv.Type.Underlying().(*types.Signature); ok {
						for _, k := range g.addrTaken {
							if k.sig != nil && k.sig.TypeParams().Len() == 0 && sameSig(k.sig, sig) {
								c.cs.argTargets = append(c.cs.argTargets, k)
							}
						}
					}
				}
			}
		}
	}
}

// onlyCalled: every use of the parameter inside the function (literals included) is in call position.
func onlyCalled(n *node, p types.Object) bool {
	ok := true
	callee := map[*ast.Ident]bool{}
	ast.Inspect(n.decl.Body, func(x ast.Node) bool {
		switch e := x.(type) {
		case *ast.CallExpr:
			if id, isId := ast.Unparen(e.Fun).(*ast.Ident); isId {
				callee[id] = true
			}
		case *ast.Ident:
			if n.p.info.Uses[e] == p && !callee[e] {
				ok = false
			}
		}
		return true
	})
	return ok
}

func sameSig(a, b *types.Signature) bool {
	if a.Variadic() != b.Variadic() || a.Params().Len() != b.Params().Len() || a.Results().Len() != b.Results().Len() {
		return false
	}
	for i := 0; i < a.Params().Len(); i++ {
		if !types.Identical(a.Params().At(i).Type(), b.Params().At(i).Type()) {
			return false
		}
	}
	for i := 0; i < a.Results().Len(); i++ {
		if !types.Identical(a.Results().At(i).Type(), b.Results().At(i).Type()) {
			return false
		}
	}
	return true
}

// propagate computes mayPanic: an explicit panic site or an opaque call is reachable.
func (g *graph) propagate() {
	pred := map[*node][]*node{}
	for _, n := range g.nodes {
		for k := range n.succ {
			pred[k] = append(pred[k], n)
		}
	}
	var work []*node
	for _, n := range g.nodes {
		if len(n.panics) > 0 || n.opaque {
			n.mayPanic = true
			work = append(work, n)
		}
	}
	for len(work) > 0 {
		n := work[len(work)-1]
		work = work[:len(work)-1]
		for _, p := range pred[n] {
			if !p.mayPanic {
				p.mayPanic = true
				work = append(work, p)
			}
		}
	}
}

func sortedNodes(m map[*node]bool) []*node {
	out := make([]*node, 0, len(m))
	for k := range m {
		out = append(out, k)
	}
	sort.Slice(out, func(i, j int) bool { return out[i].id < out[j].id })
	return out
}
