package tgenpanics

// `vh c07-entries`: the dynamic half of C07 part 4.
//
// Every P3 entry (read from the source tree by the same analysis as `tgen-panics`) is called through a hand-written,
// reflection-free stub on malformed and well-formed inputs. Checked per call:
//
//	(1) no panic escapes (whatever P3 says about `guarded`: P3 is the static claim, this is its dynamic confirmation),
//	(2) the call returns within the deadline,
//	(3) Error() of a returned error can be produced without panicking,
//	(4) the text of a returned error does not read "ERROR: <message of one of the library's NON-ERROR panic sites (P1)>"
//	    and carries no "runtime error:": that would be an internal-invariant panic (or a run-time panic) that an
//	    interior handler converted into an ErrGeneric error, i.e. a panic that is dynamically reachable,
//	(5) the inventory of stubs equals the inventory of P3 entries, compared as sets: a new public method needs a
//	    new stub, a stub without entry is stale.
//
// Input stream: a fixed list of malformed texts (empty, `{`, `@`, `"`, …), a list of well-formed schemas / documents /
// enum rules / regex types, every prefix of the well-formed ones, and seeded byte mutations of them.

import (
	"fmt"
	"io"
	"regexp"
	"sort"
	"strings"
	"time"

	jlib "github.com/jsightapi/jsight-schema-go-library"
	jbytes "github.com/jsightapi/jsight-schema-go-library/bytes"
	jerrors "github.com/jsightapi/jsight-schema-go-library/errors"
	"github.com/jsightapi/jsight-schema-go-library/formats/json"
	"github.com/jsightapi/jsight-schema-go-library/fs"
	"github.com/jsightapi/jsight-schema-go-library/kit"
	"github.com/jsightapi/jsight-schema-go-library/notations/jschema"
	"github.com/jsightapi/jsight-schema-go-library/notations/regex"
	"github.com/jsightapi/jsight-schema-go-library/rules/enum"

	"verifharness/vh"
)

const (
	fixedSchema = "{\n  \"a\": 1, // {min: 0}\n  \"b\": [\"x\"],\n  \"c\": @t\n}"
	fixedType   = "{\"k\": \"v\" // {optional: true}\n}"
	fixedDoc    = `{"a": 1, "b": ["x"], "c": {"k": "v"}}`
	fixedEnum   = `["a", 1, null]`
	fixedRegex  = `/a+b/`
)

var malformed = []string{
	"", " ", "\n", "{", "}", "[", "]", "@", "\"", "/", "//", "/*", "#", "##", "###", ":", ",", "|", "-", "1e", "01", "tru", "nul", "\\",
	"{\"a\":", "{\"a\":1", "{\"a\" 1}", "{,}", "[,]", "[1,", "[1 2]", "\"\\", "\"\\u", "\"\\u12", "\x00", "\xff", "\xef\xbb\xbf", "@a", "@a |", "@a | @b", "@ | @",
	"1 //", "1 // {", "1 // {min:", "1 // {min: 1", "1 // {type: \"@", "1 // {type: \"@t\"}", "1 // {enum: @", "1 // {enum: @e}", "1 // {or: [", "1 // {allOf: \"@", "1 ##", "1 /* a *", "[1] /* a *",
	"{} x", "{} // {allOf: \"@t\"}", "{} // {allOf: [\"@t\", \"@t\"]}", "{ @t : 1 }", "{ \"k\": @t }", "{ \"k\": @nope }", "@t // {nullable: true}", "1 // {regex: \"(\"}", "\"a\" // {regex: \"(\"}",
	"/", "/a", "/a/", "/(/", "/\\", "/\\/", "//", "/a/ b", "[\"a\",", "[\"a\" \"b\"]", "[1,1]", "[{}]", "[[]]", "[1 // c\n]", "[1, //\n2]",
	"0e1", "-0e0", "[0E5]", "{\"a\": 0e1}", "1e5", "[1e5, 1E-2]",
	"1 // {min: 2}", "\"s\" // {minLength: 9}", "1.5 // {precision: 0}", "[] // {minItems: 1}", "{} // {additionalProperties: \"@t\"}", "1 // {const: true, min: 1}", "{\"a\":1,\"a\":2}",
}

var wellFormed = []string{
	fixedSchema, fixedType, fixedDoc, fixedEnum, fixedRegex,
	"[1, \"a\"] // {minItems: 1}",
	"5 // {or: [{type: \"integer\"}, {type: \"string\"}]}",
	"\"x\" // {enum: @e}",
	"@t | @u",
	"{ @t : 1 }",
	"{\"a\": 1} // {allOf: \"@t\"}",
	"{} // {additionalProperties: \"string\"}",
	"\"2021-01-02\" // {type: \"date\"}",
	"12.50 // {precision: 2}",
	"[\n  \"a\", // first\n  2 /* second */\n]",
	"/^[a-z]+\\/$/",
	"{\"a\": null, \"b\": true, \"c\": -1.5e3, \"d\": \"\\u00e9\"}",
}

// the message of GuessData.LiteralJsonType's panic with a zero-exponent numeral in the parentheses
var zeroExpLeak = regexp.MustCompile(`Node type can't be guessed by value \(-?0[eE][+-]?[0-9]+\)`)

type dynCtx struct {
	rep      *vh.Report
	leakMsgs []string
	entry    string
	input    string
	ncalls   int
}

// call runs f under recover with a deadline and inspects the error it returns.
func (c *dynCtx) call(what string, f func() error) {
	c.ncalls++
	type result struct {
		err   error
		panic string
	}
	ch := make(chan result, 1)
	go func() {
		var r result
		defer func() {
			if p := recover(); p != nil {
				if e, ok := p.(error); ok {
					r.panic = fmt.Sprintf("panic with an error value %T: %v", p, safeText(e))
				} else {
					r.panic = fmt.Sprintf("panic with a non-error value %T: %v", p, p)
				}
			}
			ch <- r
		}()
		r.err = f()
	}()
	var r result
	select {
	case r = <-ch:
	case <-time.After(20 * time.Second):
		c.rep.AddDiff(vh.Diff{Component: "C07-entries", Input: c.entry + " " + what + " on " + vh.Hex([]byte(c.input)), Impl: "no result after 20 s", Model: "the call terminates"})
		return
	}
	if r.panic != "" {
		c.rep.AddDiff(vh.Diff{Component: "C07-entries", Input: c.entry + " " + what + " on " + vh.Hex([]byte(c.input)), Impl: r.panic, Model: "no panic escapes a public entry"})
		c.rep.Stat("escaped_panic")
		return
	}
	if r.err == nil || r.err == io.EOF {
		c.rep.Stat("result:ok")
		return
	}
	c.rep.Stat("result:error")
	text, p := errorText(r.err)
	if p != "" {
		c.rep.AddDiff(vh.Diff{Component: "C07-entries", Input: c.entry + " " + what + " on " + vh.Hex([]byte(c.input)), Impl: fmt.Sprintf("Error() of %T panics: %s", r.err, p), Model: "Error() can be produced without panicking"})
		return
	}
	for _, m := range c.leakMsgs {
		// an interior handler converts a non-error panic into Format(ErrGeneric, "%s" of the value): the text reads
		// "ERROR: <message of the panic>" (no "(code N)"); a template of the library that merely shares words with a panic
		// message ("Incorrect value in \"allOf\" rule …", code 808) does not match
		if strings.Contains(text, "ERROR: "+m) {
			if zeroExpLeak.MatchString(text) {
				// K-C10-zeroexp (known finding of C10): `0e1` is a JSON numeral the document scanner accepts and internal/json
				// does not recognise as a number; LiteralJsonType panics with a string below literalValidator.feed's
				// CatchLexEventError, which converts it into a DocumentError. For C07 this is a structured error, not a
				// panic: counted, not reported. It is the dynamic evidence that this site IS reachable.
				c.rep.Stat("known:K-C10-zeroexp string panic converted by an interior handler")
				continue
			}
			c.rep.AddDiff(vh.Diff{Component: "C07-entries", Input: c.entry + " " + what + " on " + vh.Hex([]byte(c.input)), Impl: fmt.Sprintf("error text carries the message of a non-error panic site: %q in %q", m, short(text, 200)), Model: "internal-invariant panics are not reachable"})
			c.rep.Stat("converted_internal_panic")
		}
	}
	if strings.Contains(text, "runtime error:") {
		c.rep.AddDiff(vh.Diff{Component: "C07-entries", Input: c.entry + " " + what + " on " + vh.Hex([]byte(c.input)), Impl: fmt.Sprintf("error text carries a run-time panic that a handler converted: %q", short(text, 200)), Model: "no run-time panic inside the library"})
		c.rep.Stat("converted_runtime_panic")
	}
	switch r.err.(type) {
	case jerrors.DocumentError:
		c.rep.Stat("error:DocumentError")
	case jlib.ValidationError:
		c.rep.Stat("error:ValidationError")
	default:
		c.rep.Stat("error:plain")
	}
}

func short(s string, n int) string {
	if len(s) > n {
		return s[:n] + "…"
	}
	return s
}

func safeText(e error) (s string) {
	defer func() {
		if p := recover(); p != nil {
			s = fmt.Sprintf("<Error() panics: %v>", p)
		}
	}()
	return e.Error()
}

func errorText(e error) (s, p string) {
	defer func() {
		if r := recover(); r != nil {
			p = fmt.Sprint(r)
		}
	}()
	return e.Error(), ""
}

type stub func(c *dynCtx, t []byte)

func newSchema(t []byte, oo ...jschema.Option) *jschema.Schema {
	return jschema.New("schema", t, oo...)
}

// withType: a schema that references @t / @u / @e, with the types and the rule added (errors of the set-up are
// checked as calls of their own).
func (c *dynCtx) prepared(root, typ, rule []byte) *jschema.Schema {
	s := newSchema(root)
	c.call("setup AddRule(@e)", func() error { return s.AddRule("@e", enum.New("@e", rule)) })
	c.call("setup AddType(@t)", func() error { return s.AddType("@t", jschema.New("@t", typ)) })
	c.call("setup AddType(@u)", func() error { return s.AddType("@u", jschema.New("@u", []byte(`"u"`))) })
	return s
}

// stubs: one per P3 entry, keyed by "ty.method".
var stubs = map[string]stub{
	"formats/json.New": func(c *dynCtx, t []byte) {
		c.call("New(string)", func() error { json.New("doc", string(t)); return nil })
		c.call("New([]byte)", func() error { json.New("doc", t); return nil })
		c.call("New(bytes.Bytes)", func() error { json.New("", jbytes.Bytes(t)); return nil })
	},
	"formats/json.FromFile": func(c *dynCtx, t []byte) {
		c.call("FromFile", func() error { return json.FromFile(fs.NewFile("doc", t)).Check() })
	},
	"formats/json.AllowTrailingNonSpaceCharacters": func(c *dynCtx, t []byte) {
		c.call("option+Check", func() error { return json.New("doc", t, json.AllowTrailingNonSpaceCharacters()).Check() })
		c.call("option+Len", func() error { _, err := json.New("doc", t, json.AllowTrailingNonSpaceCharacters()).Len(); return err })
	},
	"formats/json.Document.Check": func(c *dynCtx, t []byte) {
		d := json.New("doc", t)
		c.call("Check", func() error { return d.Check() })
		c.call("Check(again)", func() error { return d.Check() })
	},
	"formats/json.Document.Len": func(c *dynCtx, t []byte) {
		d := json.New("doc", t)
		c.call("Len", func() error { _, err := d.Len(); return err })
		c.call("Len(after Check)", func() error { d.Check(); _, err := d.Len(); return err }) //nolint:errcheck
	},
	"formats/json.Document.NextLexeme": func(c *dynCtx, t []byte) {
		d := json.New("doc", t)
		for i := 0; i < len(t)+3; i++ {
			var got error
			c.call("NextLexeme", func() error { _, err := d.NextLexeme(); got = err; return err })
			if got != nil {
				break
			}
		}
		c.call("NextLexeme(after the end)", func() error { _, err := d.NextLexeme(); return err })
	},
	"fs.NewFile": func(c *dynCtx, t []byte) {
		c.call("NewFile", func() error {
			_ = fs.NewFile("f", string(t)).Content()
			_ = fs.NewFile("", t).Name()
			_ = fs.NewFile("f", jbytes.Bytes(t)).Content()
			return nil
		})
	},
	"kit.ConvertError": func(c *dynCtx, t []byte) {
		f := fs.NewFile("schema", t)
		errs := []error{io.ErrUnexpectedEOF, jerrors.ErrEmptySchema, jerrors.NewDocumentError(f, jerrors.ErrEmptySchema)}
		if err := jschema.FromFile(f).Check(); err != nil {
			errs = append(errs, err)
		}
		if err := newSchema([]byte(fixedType)).Validate(json.New("doc", t)); err != nil {
			errs = append(errs, err)
		}
		if err := json.New("doc", t).Check(); err != nil {
			errs = append(errs, err)
		}
		for _, e := range errs {
			e := e
			c.call("ConvertError", func() error {
				ke := kit.ConvertError(f, e)
				_, _, _, _, _ = ke.Filename(), ke.Position(), ke.Message(), ke.ErrCode(), ke.IncorrectUserType()
				if ee, ok := ke.(error); ok {
					return ee
				}
				return nil
			})
		}
	},
	"notations/jschema.New": func(c *dynCtx, t []byte) {
		c.call("New(string)", func() error { return jschema.New("schema", string(t)).Check() })
		c.call("New([]byte)", func() error { return jschema.New("", t).Check() })
	},
	"notations/jschema.FromFile": func(c *dynCtx, t []byte) {
		c.call("FromFile", func() error { return jschema.FromFile(fs.NewFile("schema", t)).Check() })
	},
	"notations/jschema.KeysAreOptionalByDefault": func(c *dynCtx, t []byte) {
		c.call("option+Check", func() error { return newSchema(t, jschema.KeysAreOptionalByDefault()).Check() })
		c.call("option+Validate", func() error {
			return newSchema(t, jschema.KeysAreOptionalByDefault()).Validate(json.New("doc", []byte(fixedDoc)))
		})
	},
	"notations/jschema.Schema.AddRule": func(c *dynCtx, t []byte) {
		c.call("AddRule(enum = input)", func() error { return newSchema([]byte(`"a" // {enum: @e}`)).AddRule("@e", enum.New("@e", t)) })
		c.call("AddRule(root = input)", func() error {
			s := newSchema(t)
			if err := s.AddRule("@e", enum.New("@e", []byte(fixedEnum))); err != nil {
				return err
			}
			return s.Check()
		})
		c.call("AddRule(nil)", func() error { return newSchema(t).AddRule("@e", nil) })
		c.call("AddRule(late)", func() error {
			s := newSchema(t)
			s.Check() //nolint:errcheck
			return s.AddRule("@e", enum.New("@e", []byte(fixedEnum)))
		})
	},
	"notations/jschema.Schema.AddType": func(c *dynCtx, t []byte) {
		c.call("AddType(type = input)", func() error {
			s := newSchema([]byte(fixedSchema))
			if err := s.AddType("@t", jschema.New("@t", t)); err != nil {
				return err
			}
			return s.Check()
		})
		c.call("AddType(root = input)", func() error {
			s := newSchema(t)
			if err := s.AddType("@t", jschema.New("@t", []byte(fixedType))); err != nil {
				return err
			}
			return s.Check()
		})
		c.call("AddType(regex = input)", func() error {
			s := newSchema([]byte(`{"c": @t}`))
			if err := s.AddType("@t", regex.New("@t", t)); err != nil {
				return err
			}
			return s.Check()
		})
		c.call("AddType(nil)", func() error { return newSchema(t).AddType("@t", nil) })
		c.call("AddType(empty name, type = input)", func() error {
			s := newSchema([]byte(`{"c": @t}`))
			if err := s.AddType("@t", jschema.New("", t)); err != nil {
				return err
			}
			return s.Check()
		})
	},
	"notations/jschema.Schema.Build": func(c *dynCtx, t []byte) {
		c.call("Build", func() error { return newSchema(t).Build() })
		c.call("Build(prepared)", func() error { return c.prepared(t, []byte(fixedType), []byte(fixedEnum)).Build() })
	},
	"notations/jschema.Schema.Check": func(c *dynCtx, t []byte) {
		c.call("Check", func() error { return newSchema(t).Check() })
		c.call("Check(prepared root)", func() error { return c.prepared(t, []byte(fixedType), []byte(fixedEnum)).Check() })
		c.call("Check(prepared type)", func() error { return c.prepared([]byte(fixedSchema), t, []byte(fixedEnum)).Check() })
		c.call("Check(prepared rule)", func() error { return c.prepared([]byte(`"a" // {enum: @e}`), []byte(fixedType), t).Check() })
	},
	"notations/jschema.Schema.Example": func(c *dynCtx, t []byte) {
		c.call("Example", func() error { _, err := newSchema(t).Example(); return err })
		c.call("Example(prepared root)", func() error { _, err := c.prepared(t, []byte(fixedType), []byte(fixedEnum)).Example(); return err })
		c.call("Example(prepared type)", func() error { _, err := c.prepared([]byte(fixedSchema), t, []byte(fixedEnum)).Example(); return err })
	},
	"notations/jschema.Schema.GetAST": func(c *dynCtx, t []byte) {
		c.call("GetAST", func() error { _, err := newSchema(t).GetAST(); return err })
		c.call("GetAST(prepared)", func() error { _, err := c.prepared(t, []byte(fixedType), []byte(fixedEnum)).GetAST(); return err })
	},
	"notations/jschema.Schema.Len": func(c *dynCtx, t []byte) {
		c.call("Len", func() error { _, err := newSchema(t).Len(); return err })
		c.call("Len(embedded)", func() error {
			_, err := newSchema(append(append([]byte{}, t...), " trailing text"...)).Len()
			return err
		})
	},
	"notations/jschema.Schema.UsedUserTypes": func(c *dynCtx, t []byte) {
		c.call("UsedUserTypes", func() error { _, err := newSchema(t).UsedUserTypes(); return err })
	},
	"notations/jschema.Schema.Validate": func(c *dynCtx, t []byte) {
		c.call("Validate(schema = input)", func() error { return newSchema(t).Validate(json.New("doc", []byte(fixedDoc))) })
		c.call("Validate(document = input)", func() error {
			return c.prepared([]byte(fixedSchema), []byte(fixedType), []byte(fixedEnum)).Validate(json.New("doc", t))
		})
		c.call("Validate(both = input)", func() error { return newSchema(t).Validate(json.New("doc", t)) })
		for _, sc := range []string{"1 // {min: 0}", "[1.5, \"s\"]", "{\"a\": 1}", "1 // {type: \"any\"}"} {
			sc := sc
			c.call("Validate("+sc+", document = input)", func() error { return newSchema([]byte(sc)).Validate(json.New("doc", t)) })
		}
		c.call("Validate(prepared root = input)", func() error {
			return c.prepared(t, []byte(fixedType), []byte(fixedEnum)).Validate(json.New("doc", []byte(fixedDoc)))
		})
		c.call("Validate(nil)", func() error { return newSchema(t).Validate(nil) })
	},
	"notations/regex.New": func(c *dynCtx, t []byte) {
		c.call("New(string)", func() error { return regex.New("r", string(t)).Check() })
		c.call("New([]byte)", func() error { return regex.New("", t).Check() })
	},
	"notations/regex.FromFile": func(c *dynCtx, t []byte) {
		c.call("FromFile", func() error { return regex.FromFile(fs.NewFile("r", t)).Check() })
	},
	"notations/regex.WithGeneratorSeed": func(c *dynCtx, t []byte) {
		c.call("option+Example", func() error { _, err := regex.New("r", t, regex.WithGeneratorSeed(7)).Example(); return err })
	},
	"notations/regex.Schema.AddRule": func(c *dynCtx, t []byte) {
		c.call("AddRule", func() error { return regex.New("r", t).AddRule("@e", enum.New("@e", t)) })
	},
	"notations/regex.Schema.AddType": func(c *dynCtx, t []byte) {
		c.call("AddType", func() error { return regex.New("r", t).AddType("@t", nil) })
	},
	"notations/regex.Schema.Check": func(c *dynCtx, t []byte) {
		c.call("Check", func() error { return regex.New("r", t).Check() })
	},
	"notations/regex.Schema.Example": func(c *dynCtx, t []byte) {
		c.call("Example", func() error { _, err := regex.New("r", t).Example(); return err })
	},
	"notations/regex.Schema.GetAST": func(c *dynCtx, t []byte) {
		c.call("GetAST", func() error { _, err := regex.New("r", t).GetAST(); return err })
	},
	"notations/regex.Schema.Len": func(c *dynCtx, t []byte) {
		c.call("Len", func() error { _, err := regex.New("r", t).Len(); return err })
	},
	"notations/regex.Schema.Pattern": func(c *dynCtx, t []byte) {
		c.call("Pattern", func() error { _, err := regex.New("r", t).Pattern(); return err })
	},
	"notations/regex.Schema.UsedUserTypes": func(c *dynCtx, t []byte) {
		c.call("UsedUserTypes", func() error { _, err := regex.New("r", t).UsedUserTypes(); return err })
	},
	"notations/regex.Schema.Validate": func(c *dynCtx, t []byte) {
		c.call("Validate", func() error {
			if err := regex.New("r", t).Validate(json.New("doc", t)); err == nil {
				return fmt.Errorf("regex.Validate returned nil")
			}
			return nil
		})
	},
	"rules/enum.New": func(c *dynCtx, t []byte) {
		c.call("New(string)", func() error { return enum.New("e", string(t)).Check() })
		c.call("New([]byte)", func() error { return enum.New("", t).Check() })
	},
	"rules/enum.FromFile": func(c *dynCtx, t []byte) {
		c.call("FromFile", func() error { return enum.FromFile(fs.NewFile("e", t)).Check() })
	},
	"rules/enum.Enum.Check": func(c *dynCtx, t []byte) {
		e := enum.New("e", t)
		c.call("Check", func() error { return e.Check() })
		c.call("Check(again)", func() error { return e.Check() })
	},
	"rules/enum.Enum.GetAST": func(c *dynCtx, t []byte) {
		c.call("GetAST", func() error { _, err := enum.New("e", t).GetAST(); return err })
	},
	"rules/enum.Enum.Len": func(c *dynCtx, t []byte) {
		c.call("Len", func() error { _, err := enum.New("e", t).Len(); return err })
		c.call("Len(embedded)", func() error { _, err := enum.New("e", append(append([]byte{}, t...), " x"...)).Len(); return err })
	},
	"rules/enum.Enum.Values": func(c *dynCtx, t []byte) {
		c.call("Values", func() error { _, err := enum.New("e", t).Values(); return err })
	},
}

// RunEntries is the `c07-entries` command.
func RunEntries(args []string) {
	root := defaultRoot()
	if len(args) > 0 && args[0] != "" {
		root = args[0]
	}
	rep := vh.NewReport("c07-entries", "every public entry point of P3 called through a hand-written stub on malformed and well-formed inputs: no panic escapes, the call terminates, Error() does not panic, no error text carries the message of a non-error panic site; the stub inventory equals the P3 inventory read from "+root)
	rep.Extra["root"] = root
	f, err := analyse(root)
	if err != nil {
		rep.AddDiff(vh.Diff{Component: "C07-entries", Input: root, Impl: "cannot load the library: " + err.Error(), Model: "parsable source tree"})
		rep.Finish()
		return
	}
	// (5) inventory
	p3 := map[string]*entry{}
	for _, e := range f.entries {
		p3[e.label()] = e
		if _, ok := stubs[e.label()]; !ok {
			rep.AddDiff(vh.Diff{Component: "C07-entries", Input: e.label(), Impl: "public entry without a stub", Model: "the stub table covers P3"})
		}
	}
	var names []string
	for n := range stubs {
		names = append(names, n)
		if _, ok := p3[n]; !ok {
			rep.AddDiff(vh.Diff{Component: "C07-entries", Input: n, Impl: "stub without a public entry in P3", Model: "the stub table equals P3"})
		}
	}
	sort.Strings(names)
	rep.Stats["p3_entries"] = len(f.entries)
	rep.Stats["stubs"] = len(stubs)

	// (4) messages of the non-error panic sites of live packages (long enough to be specific)
	var msgs []string
	seen := map[string]bool{}
	for _, s := range f.g.sites {
		m := s.msg
		if i := strings.IndexByte(m, '%'); i >= 0 {
			m = m[:i] // the constant prefix of a Sprintf format
		}
		m = strings.TrimRight(m, " ")
		if !s.isErr && s.n.live && s.origin == "string" && len(m) >= 12 && !seen[m] {
			seen[m] = true
			msgs = append(msgs, m)
		}
	}
	sort.Strings(msgs)
	rep.Stats["leak_messages"] = len(msgs)

	// inputs
	var inputs []string
	inputs = append(inputs, malformed...)
	inputs = append(inputs, wellFormed...)
	rep.Stats["inputs:malformed"] = len(malformed)
	rep.Stats["inputs:wellformed"] = len(wellFormed)
	for _, w := range wellFormed {
		step := 1
		if len(w) > 40 {
			step = vh.Pick(3, 1)
		}
		for i := 1; i < len(w); i += step {
			inputs = append(inputs, w[:i])
			rep.Stat("inputs:prefix")
		}
	}
	rnd := vh.NewRand(707)
	alphabet := []byte("{}[]\",:@|/*#\\ \n-0a1e.tfn\x00\xff")
	nmut := vh.Pick(150, 30000)
	for i := 0; i < nmut; i++ {
		base := wellFormed[rnd.Intn(len(wellFormed))]
		if rnd.Intn(4) == 0 {
			base = malformed[rnd.Intn(len(malformed))]
		}
		inputs = append(inputs, string(vh.Mutate(rnd, []byte(base), alphabet)))
		rep.Stat("inputs:mutation")
	}
	// dedupe, keep order
	uniq := map[string]bool{}
	var in2 []string
	for _, s := range inputs {
		if !uniq[s] {
			uniq[s] = true
			in2 = append(in2, s)
		}
	}
	inputs = in2
	rep.Stats["inputs:distinct"] = len(inputs)

	c := &dynCtx{rep: rep, leakMsgs: msgs}
	for _, n := range names {
		st := stubs[n]
		c.entry = n
		before := c.ncalls
		for _, in := range inputs {
			c.input = in
			func() {
				// a stub's own set-up (building the objects, collecting errors to convert) calls the library too
				defer func() {
					if p := recover(); p != nil {
						rep.AddDiff(vh.Diff{Component: "C07-entries", Input: n + " (set-up of the stub) on " + vh.Hex([]byte(in)), Impl: fmt.Sprintf("panic %T: %v", p, p), Model: "no panic escapes a public entry"})
						rep.Stat("escaped_panic")
					}
				}()
				st(c, []byte(in))
			}()
			rep.Case(n+"\x00"+in, in != "")
		}
		e := p3[n]
		g := "?"
		if e != nil {
			g = fmt.Sprintf("guarded=%v callsLibrary=%v", e.guarded, e.calls)
		}
		rep.Extra["entry "+n] = fmt.Sprintf("%s, %d calls", g, c.ncalls-before)
	}
	rep.Stats["calls"] = c.ncalls
	fmt.Printf("c07-entries: %d entries in P3, %d stubs, %d inputs, %d calls, %d diffs\n", len(f.entries), len(stubs), len(inputs), c.ncalls, rep.NDiffs)
	rep.Finish()
}
