// Package c18model: harness command `c18-model` — correspondence of the Lean models `RegexT.pattern`,
// `RegexT.len` and `GoQuote.q` (lean/JSight/RegexQuote.lean; theorems C18_regex_extract, C18_goquote_roundtrip)
// with the real code: notations/regex/regex.go (Pattern, Len) and Go's `%q` as used by jschema.AddType.
//
//	(a) every string of length <= 7 over {'/', '\\', 'a', '.', ' '}, each also with an extra leading '/', plus random
//	    longer printable-ASCII texts with and without a leading '/': regex.New("r", text).Pattern() / .Len().
//	    success → model `rgx P` = `P <hex>` and `rgx L` = `LEN n`; error 1500 / 1501 (unexpected start / end) →
//	    model NONE; error 1502 (Go's regexp rejects the extracted pattern) → skipped, the model has no regex engine.
//	(b) random printable-ASCII strings (0x20..0x7e, length 0..20, dense in `"` and `\`): fmt.Sprintf("%q", s) = `rgx Q`.
//
// Disagreements: Component "C18-model", Level "correspondence".
package c18model

import (
	stderrors "errors"
	"fmt"
	"math/rand"

	jlib "github.com/jsightapi/jsight-schema-go-library"
	"github.com/jsightapi/jsight-schema-go-library/notations/regex"

	"verifharness/vh"
)

func errCode(err error) int {
	var pe jlib.ParsingError
	if stderrors.As(err, &pe) {
		return pe.ErrCode()
	}
	return -1
}

// realPL: canonical answers of the real code in the model's vocabulary; skip = invalid-regex error.
func realPL(text []byte) (p, l string, skip bool) {
	res := vh.Recover(func() string {
		rt := regex.New("r", append([]byte(nil), text...))
		pat, err := rt.Pattern()
		if err != nil {
			switch errCode(err) {
			case 1500, 1501:
				p = "NONE"
			case 1502:
				skip = true
			default:
				p = "ERROR " + err.Error()
			}
		} else {
			p = "P " + vh.Hex([]byte(pat))
		}
		n, err := rt.Len()
		if err != nil {
			switch errCode(err) {
			case 1500, 1501:
				l = "NONE"
			case 1502:
				skip = true
			default:
				l = "ERROR " + err.Error()
			}
		} else {
			l = fmt.Sprintf("LEN %d", n)
		}
		return ""
	})
	if res != "" {
		p, l = res, res
	}
	return
}

func Run(args []string) {
	rep := vh.NewReport("c18-model", "regex type texts: all strings of length <= 7 over {/,\\,a,.,space}, each also with an extra leading '/', "+
		"plus random printable-ASCII texts (length <= 40, dense in / and \\) with and without a leading '/': real Pattern()/Len() vs RegexT.pattern/len "+
		"(invalid-regex errors skipped); %q: random printable-ASCII strings of length 0..20 dense in \" and \\ vs GoQuote.q. "+
		"nontrivial = text containing '/' (regex part) / string containing \" or \\ (quote part)")
	var reqs, impl, inputs []string
	add := func(text []byte) {
		p, l, skip := realPL(text)
		has := false
		for _, c := range text {
			has = has || c == '/'
		}
		rep.Case("rgx "+string(text), has)
		if skip {
			rep.Stat("regex_invalid_for_go_skipped")
			return
		}
		if p == "NONE" {
			rep.Stat("regex_none")
		} else {
			rep.Stat("regex_pattern")
		}
		h := vh.Hex(text)
		in := fmt.Sprintf("regex.New(\"r\", %q)", text)
		reqs = append(reqs, "rgx P "+h, "rgx L "+h)
		impl = append(impl, p, l)
		inputs = append(inputs, in+".Pattern()", in+".Len()")
	}
	vh.AllStrings([]byte{'/', '\\', 'a', '.', ' '}, 7, func(b []byte) {
		add(b)
		add(append([]byte{'/'}, b...))
	})
	r := vh.NewRand(18101)
	const dense = "//\\\\ab.()[]*+?|^$ \"'x/"
	for i := vh.Pick(20000, 400000); i > 0; i-- {
		n := r.Intn(40)
		b := make([]byte, 0, n+1)
		if r.Intn(3) != 0 {
			b = append(b, '/')
		}
		for j := 0; j < n; j++ {
			if r.Intn(2) == 0 {
				b = append(b, dense[r.Intn(len(dense))])
			} else {
				b = append(b, byte(0x20+r.Intn(0x5f)))
			}
		}
		add(b)
	}
	// %q
	for i := vh.Pick(20000, 400000); i > 0; i-- {
		s := randPrintable(r)
		has := false
		for _, c := range []byte(s) {
			has = has || c == '"' || c == '\\'
		}
		rep.Case("q "+s, has)
		rep.Stat("quote_cases")
		reqs = append(reqs, "rgx Q "+vh.Hex([]byte(s)))
		impl = append(impl, vh.Hex([]byte(fmt.Sprintf("%q", s))))
		inputs = append(inputs, fmt.Sprintf("fmt.Sprintf(\"%%q\", %q)", s))
	}
	rep.Compare(reqs, impl, inputs, 8)
	for i := range rep.Diffs {
		rep.Diffs[i].Component, rep.Diffs[i].Level = "C18-model", "correspondence"
	}
	rep.Finish()
}

func randPrintable(r *rand.Rand) string {
	n := r.Intn(21)
	b := make([]byte, n)
	for j := range b {
		switch r.Intn(4) {
		case 0:
			b[j] = '"'
		case 1:
			b[j] = '\\'
		default:
			b[j] = byte(0x20 + r.Intn(0x5f))
		}
	}
	return string(b)
}
