// Package enumdiff: T-diff of the enum-rule scanner (rules/enum, through the verif hooks
// VerifEnumEvents / VerifEnumLen) against the Lean model (driver requests `escan E <hex>` /
// `escan L <hex>`): seeds, byte-level mutations, random strings and bounded-exhaustive alphabets.
// The hook stops at the end-of-stream sentinel, so "EOS" never shows up in an event list; both
// sides are compared as exact strings (event list with spans, or `ERR code index`, or `LEN n`).
package enumdiff

import (
	stdjson "encoding/json"
	"fmt"
	"regexp"
	"strconv"
	"strings"
	"sync"

	"github.com/jsightapi/jsight-schema-go-library/rules/enum"

	"verifharness/vh"
)

var seeds = []string{`[]`, `[1]`, `[1, 2.5, "a", true, false, null]`, "[\n  1, // one\n  \"a\" /* multi\n line */, true\n]",
	`["a", "a"]`, `[1, 1]`, `["1", 1]`, `["a", "a"]`, `[1.0, 1.00]`, "[1] // trailing note", "[1] /* c */ x", `[ "x y" , -3 ]`,
	"[1]\n\nGET /x", `[1] x`, `[[1]]`, `[{}]`, ` [1]`, "[\"é\", \"\\u00e9\"]", `[1,]`, "// c\n[1]", "[1 // c\n, 2]",
	`[true, true]`, `[null,null]`, `[1, 1.0]`, `["a\"b", "a\"b"]`, "[1, # user comment\n 2]", "[\r\n1,\r\n2\r\n]", `[-0, 0]`, `[1e2, 100]`}

var alphabet = []byte("[]:,\"\\/*-+01.eEtrufalsn xy \t\n\r\x01\xc3{}#")

var (
	alpha13 = []byte("[],\"1a/*\n \\-.") // 13 bytes, length <= 4 / 5 / 6
	alpha8  = []byte("[],\"1/\n ")       // 8 bytes, length <= 6 / 7 / 8
	alphaD  = []byte("[],1\"a")          // 6 bytes (duplicates), length <= 7 / 9
)

var spanRe = regexp.MustCompile(`(literal-end|array-end)\[(-?\d+):(-?\d+)\]`)

// one JSON scalar token (the enum scanner's literals: strings, numbers, true / false / null)
func scalarToken(t []byte) bool {
	if len(t) == 0 || t[0] == '[' || t[0] == '{' || t[0] == ' ' || t[len(t)-1] == ' ' {
		return false
	}
	return stdjson.Valid(t) && !strings.ContainsAny(string(t[:1]), " \t\r\n") && !strings.ContainsAny(string(t[len(t)-1:]), " \t\r\n")
}

type runner struct {
	rep    *vh.Report
	stream string
	inputs [][]byte
}

func (x *runner) add(b []byte) {
	x.inputs = append(x.inputs, append([]byte(nil), b...))
	if len(x.inputs) >= 200000 {
		x.flush()
	}
}

func head(s string) string {
	f := strings.Fields(s)
	if len(f) >= 1 {
		switch f[0] {
		case "ERR":
			if len(f) >= 2 {
				return "err_" + f[1]
			}
		case "CRASH", "PANIC", "OTHER", "EOS":
			return strings.ToLower(f[0])
		}
	}
	return "ok"
}

func (x *runner) flush() {
	n := len(x.inputs)
	if n == 0 {
		return
	}
	impl := make([]string, 2*n)
	reqs := make([]string, 2*n)
	var wg sync.WaitGroup
	const workers = 16
	for w := 0; w < workers; w++ {
		wg.Add(1)
		go func(w int) {
			defer wg.Done()
			for i := w; i < n; i += workers {
				b := x.inputs[i]
				h := vh.Hex(b)
				reqs[2*i] = "escan E " + h
				reqs[2*i+1] = "escan L " + h
				impl[2*i] = vh.Recover(func() string { return enum.VerifEnumEvents(b) })
				impl[2*i+1] = vh.Recover(func() string { return enum.VerifEnumLen(b) })
			}
		}(w)
	}
	wg.Wait()
	model := vh.AskModelSharded(reqs, 16)
	for i := 0; i < n; i++ {
		b := x.inputs[i]
		ev, ln := impl[2*i], impl[2*i+1]
		he := head(ev)
		// nontrivial: the scanner got past the opening bracket (an item, an annotation or the end was seen)
		x.rep.Case(string(b), (he == "ok" && ev != "") || (he != "ok" && !strings.HasSuffix(ev, " 0") && len(b) >= 3))
		x.rep.Stat("in_" + x.stream)
		x.rep.Stat("events_" + he)
		if strings.HasPrefix(ln, "LEN ") {
			x.rep.Stat("len_ok")
			if ln != fmt.Sprintf("LEN %d", len(b)) {
				x.rep.Stat("len_shorter_than_input")
			}
		} else {
			x.rep.Stat("len_" + head(ln))
		}
		if he == "ok" && strings.Contains(ev, "annotation") {
			x.rep.Stat("events_with_annotation")
		}
		// property level (C06: the spans of the events delimit what they name): every literal span is one JSON scalar
		// token, every array span runs from its '[' to its ']' — whatever comes directly behind it (a comment, a comma)
		if he == "ok" {
			for _, m := range spanRe.FindAllStringSubmatch(ev, -1) {
				bi, _ := strconv.Atoi(m[2])
				ei, _ := strconv.Atoi(m[3])
				bad := ""
				switch {
				case bi < 0 || ei >= len(b) || bi > ei:
					bad = "span outside the text"
				case m[1] == "literal-end" && !scalarToken(b[bi:ei+1]):
					bad = fmt.Sprintf("literal span holds %q, which is not one JSON scalar token", b[bi:ei+1])
				case m[1] == "array-end" && (b[bi] != '[' || b[ei] != ']'):
					bad = fmt.Sprintf("array span holds %q", b[bi:ei+1])
				}
				if bad != "" {
					x.rep.AddDiff(vh.Diff{Component: "C06-enum-spans", Input: fmt.Sprintf("enum rule text %q", b), Impl: bad + "; events: " + ev,
						Model: "spans delimit the tokens they name"})
					break
				}
			}
		}
		for k := 0; k < 2; k++ {
			if impl[2*i+k] != model[2*i+k] {
				x.rep.AddDiff(vh.Diff{Component: "enum-scanner-" + []string{"events", "len"}[k], Input: fmt.Sprintf("%q", b),
					Impl: impl[2*i+k], Model: model[2*i+k], Level: "correspondence", Note: reqs[2*i+k] + " (stream " + x.stream + ")"})
			}
		}
	}
	x.inputs = x.inputs[:0]
}

func Run(args []string) {
	n13, n8, nD := vh.Pick(5, 6), vh.Pick(6, 8), vh.Pick(7, 9)
	nMut, nRnd := vh.Pick(25000, 400000), vh.Pick(5000, 100000)
	rep := vh.NewReport("enum-diff", fmt.Sprintf("enum-rule scanner hook vs model, per input: full event list with spans or error code+index incl. duplicate detection (escan E) and length mode (escan L); streams: %d seeds, %d 0-2-edit byte mutations of them, %d random strings (<8 bytes) over a %d-byte alphabet, bounded-exhaustive: all strings s with |s|<=n-1 and all [+s with |s|<=n for n=%d over %q, n=%d over %q, n=%d over %q; nontrivial = events produced, or an error beyond index 0 on an input of >= 3 bytes",
		len(seeds), nMut, nRnd, len(alphabet), n13, alpha13, n8, alpha8, nD, alphaD))
	r := vh.NewRand(22)
	x := &runner{rep: rep}

	x.stream = "seed"
	for _, s := range seeds {
		x.add([]byte(s))
	}
	x.flush()
	// every byte value at every position of every seed (the enum scanner has no product-state exploration)
	x.stream = "byte_sweep"
	for _, s := range seeds {
		for i := 0; i < len(s); i++ {
			for b := 0; b < 256; b++ {
				m := []byte(s)
				if m[i] == byte(b) {
					continue
				}
				m[i] = byte(b)
				x.add(m)
			}
		}
	}
	x.flush()
	x.stream = "mutation"
	for i := 0; i < nMut; i++ {
		b := []byte(seeds[r.Intn(len(seeds))])
		if r.Intn(3) > 0 { // the prototype applied 0..2 edits
			b = vh.Mutate(r, b, alphabet)
		}
		x.add(b)
	}
	x.flush()
	x.stream = "random"
	for i := 0; i < nRnd; i++ {
		b := make([]byte, r.Intn(8))
		for j := range b {
			b[j] = alphabet[r.Intn(len(alphabet))]
		}
		x.add(b)
	}
	x.flush()
	for _, e := range []struct {
		name  string
		alpha []byte
		n     int
	}{{"exh_13", alpha13, n13}, {"exh_8", alpha8, n8}, {"exh_dup", alphaD, nD}} {
		// most strings do not start with '[' and fail at index 0 (error 1600): all strings up to n-1 as they
		// are, and all strings up to n behind an opening bracket
		x.stream = e.name
		vh.AllStrings(e.alpha, e.n-1, x.add)
		x.flush()
		x.stream = e.name + "_bracket"
		vh.AllStrings(e.alpha, e.n, func(b []byte) { x.add(append([]byte{'['}, b...)) })
		x.flush()
	}
	rep.Finish()
}
