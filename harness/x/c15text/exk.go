package c15text

// Harness command `c15-exk`: the tie of the EXTENDED example-builder model `EXK.build` (Lean, request `exk`):
// the IR of example-diff (scalars of five kinds, any, arrays, objects with required / optional properties, references
// @a | @b incl. recursive and nullable ones over four named types) plus what `EXK` adds to `EX`: key-shortcut
// properties `@k: v` over two key types (string literal types, rarely an alias of one: K-C15-keyalias — the builder
// still emits the aliased example, and so does the model) and empty object / array nodes that carry an `or` rule
// (K-C15-orcontainer: Example() returns an error, and so does the model). Printed as JSight text → real
// AddType / Check / Example(); the same IR as S-expressions → `EXK.build`. Compared byte for byte, or ERROR / ABSENT.
//
// Property level (the tie of `Props.C15.C15_self_valid_ext_partial`): the driver also says whether the case lies INSIDE
// the class for which self-validation is proved (`VK.exDoc false … = some (some d)`: every recursion cut-off at an
// optional property or at a suffix of an array's elements, key shortcuts on directly-literal key types whose example
// is not a literal key of the object). INSIDE ⇒ the real Validate must accept the real Example(): a rejection is an
// unclassified diff. OUTSIDE the class nothing is claimed here (`c15-example` examines those with its structural
// classification); a rejected example there is counted, and reported with class K-C15-keyclash when the schema shows
// that situation: an object, in the root or a type, with a key shortcut whose key type's example equals a literal key
// of the same object or the example of another key shortcut of that object.

import (
	"encoding/json"
	stderrors "errors"
	"fmt"
	"math/rand"
	"runtime"
	"strings"
	"sync"

	jlib "github.com/jsightapi/jsight-schema-go-library"
	jsondoc "github.com/jsightapi/jsight-schema-go-library/formats/json"
	"github.com/jsightapi/jsight-schema-go-library/notations/jschema"

	"verifharness/vh"
)

type xnode struct {
	kind     string // lit any arr obj ref tarr tobj
	lit      string // i f s sa sb b n
	nullable bool
	items    []*xnode
	props    []*xprop
	names    []string
}
type xprop struct {
	key      string
	short    bool // key is a type name
	required bool
	val      *xnode
}

var xTypeNames = []string{"t0", "t1", "t2", "t3"}
var xKeyTypes = []string{"k0", "k1"}
var xLitText = map[string]string{"i": "1", "f": "1.1", "s": `"s"`, "sa": `"a"`, "sb": `"b"`, "b": "true", "n": "null"}

func xgen(r *rand.Rand, depth int) *xnode {
	k := r.Intn(22)
	if depth <= 0 && k >= 8 && k <= 14 {
		k = 0
	}
	switch {
	case k <= 7:
		return &xnode{kind: "lit", lit: []string{"i", "f", "s", "b", "n", "sa"}[r.Intn(6)], nullable: r.Intn(4) == 0}
	case k <= 10:
		n := &xnode{kind: "arr"}
		for i := r.Intn(5); i > 0; i-- {
			n.items = append(n.items, xgen(r, depth-1))
		}
		return n
	case k <= 14:
		n := &xnode{kind: "obj"}
		cnt := r.Intn(4)
		for i := 0; i < cnt; i++ {
			n.props = append(n.props, &xprop{key: string("abcf"[i]), required: r.Intn(3) != 0, val: xgen(r, depth-1)})
		}
		// key shortcuts: each key type at most once per object (a repeated key shortcut is error 402)
		perm := r.Perm(len(xKeyTypes))
		for i := 0; i < len(xKeyTypes) && r.Intn(3) == 0; i++ {
			p := &xprop{key: xKeyTypes[perm[i]], short: true, required: r.Intn(3) != 0, val: xgen(r, depth-1)}
			pos := r.Intn(len(n.props) + 1)
			n.props = append(n.props[:pos], append([]*xprop{p}, n.props[pos:]...)...)
		}
		return n
	case k <= 18:
		n := &xnode{kind: "ref", nullable: r.Intn(4) == 0}
		cnt := 1 + r.Intn(3)
		for i := 0; i < cnt; i++ {
			nm := xTypeNames[r.Intn(len(xTypeNames))]
			dup := false
			for _, x := range n.names {
				dup = dup || x == nm
			}
			if !dup {
				n.names = append(n.names, nm)
			}
		}
		return n
	case k == 19:
		return &xnode{kind: []string{"tarr", "tobj"}[r.Intn(2)]}
	default:
		return &xnode{kind: "any"}
	}
}

func xrules(n *xnode, optional bool) string {
	var rs []string
	switch n.kind {
	case "any":
		rs = append(rs, `type: "any"`)
	case "tarr":
		rs = append(rs, `or: [{type: "array"}, {type: "string"}]`)
	case "tobj":
		rs = append(rs, `or: [{type: "object"}, {type: "string"}]`)
	}
	if optional {
		rs = append(rs, "optional: true")
	}
	if n.nullable {
		rs = append(rs, "nullable: true")
	}
	if len(rs) == 0 {
		return ""
	}
	return " // {" + strings.Join(rs, ", ") + "}"
}

func xprint(n *xnode, indent int, prefix, comma string, optional bool) []string {
	pad := strings.Repeat("  ", indent)
	switch n.kind {
	case "lit":
		return []string{pad + prefix + xLitText[n.lit] + comma + xrules(n, optional)}
	case "any":
		return []string{pad + prefix + "1" + comma + xrules(n, optional)}
	case "tarr":
		return []string{pad + prefix + "[]" + comma + xrules(n, optional)}
	case "tobj":
		return []string{pad + prefix + "{}" + comma + xrules(n, optional)}
	case "ref":
		var nm []string
		for _, x := range n.names {
			nm = append(nm, "@"+x)
		}
		return []string{pad + prefix + strings.Join(nm, " | ") + comma + xrules(n, optional)}
	case "arr":
		if len(n.items) == 0 {
			return []string{pad + prefix + "[]" + comma + xrules(n, optional)}
		}
		out := []string{pad + prefix + "[" + xrules(n, optional)}
		for i, it := range n.items {
			c := ","
			if i == len(n.items)-1 {
				c = ""
			}
			out = append(out, xprint(it, indent+1, "", c, false)...)
		}
		return append(out, pad+"]"+comma)
	default:
		if len(n.props) == 0 {
			return []string{pad + prefix + "{}" + comma + xrules(n, optional)}
		}
		out := []string{pad + prefix + "{" + xrules(n, optional)}
		for i, p := range n.props {
			c := ","
			if i == len(n.props)-1 {
				c = ""
			}
			key := `"` + p.key + `": `
			if p.short {
				key = "@" + p.key + ": "
			}
			out = append(out, xprint(p.val, indent+1, key, c, !p.required)...)
		}
		return append(out, pad+"}"+comma)
	}
}

func xsx(n *xnode) string {
	switch n.kind {
	case "lit":
		return "(lit " + n.lit + " " + b01(n.nullable) + ")"
	case "any":
		return "(any)"
	case "tarr":
		return "(tarr)"
	case "tobj":
		return "(tobj)"
	case "ref":
		return "(ref " + b01(n.nullable) + " " + strings.Join(n.names, " ") + ")"
	case "arr":
		s := "(arr"
		for _, it := range n.items {
			s += " " + xsx(it)
		}
		return s + ")"
	default:
		s := "(obj"
		for _, p := range n.props {
			tag := "P"
			if p.short {
				tag = "K"
			}
			s += " (" + tag + " " + p.key + " " + b01(p.required) + " " + xsx(p.val) + ")"
		}
		return s + ")"
	}
}

func b01(v bool) string {
	if v {
		return "1"
	}
	return "0"
}

func xfeatures(n *xnode, f map[string]bool) {
	switch n.kind {
	case "tarr", "tobj":
		f["typed_container"] = true
	case "ref":
		f["ref"] = true
	}
	for _, it := range n.items {
		xfeatures(it, f)
	}
	for _, p := range n.props {
		if p.short {
			f["key_shortcut"] = true
		}
		xfeatures(p.val, f)
	}
}

// xexample: the example text | ERROR | ABSENT | ADDERR … | CHECKERR … | PANIC …, and for a built example the verdict
// of Validate on it ("OK" / the error).
func xexample(rootText string, typeTexts map[string]string, order []string) (out, verdict string) {
	out = vh.Recover(func() string {
		s := jschema.New("root", rootText)
		for _, nm := range order {
			if err := s.AddType("@"+nm, jschema.New("@"+nm, typeTexts[nm])); err != nil {
				return "ADDERR " + xcode(err) + " " + err.Error()
			}
		}
		if err := s.Check(); err != nil {
			return "CHECKERR " + xcode(err) + " " + err.Error()
		}
		b, err := s.Example()
		if err != nil {
			return "ERROR"
		}
		if b == nil {
			return "ABSENT"
		}
		verdict = "OK"
		if err := s.Validate(jsondoc.New("example", b)); err != nil {
			verdict = err.Error()
		}
		return string(b)
	})
	return out, verdict
}

func xcode(err error) string {
	var pe jlib.ParsingError
	if stderrors.As(err, &pe) {
		return fmt.Sprint(pe.ErrCode())
	}
	return "other"
}

type xres struct {
	stats                      []string
	line, impl, input, verdict string
	nontrivial, ok, keyclash   bool
}

var xKeyText = map[string]string{"sa": "a", "sb": "b", "s": "s"}

// xclash: some object below n has a key shortcut whose key type's example equals a literal key of that object or the
// example of another key shortcut of it (keyEx: example key of each key type, "" = not a string literal type).
func xclash(n *xnode, keyEx map[string]string) bool {
	if n.kind == "obj" {
		seen := map[string]bool{}
		for _, p := range n.props {
			if !p.short {
				seen[p.key] = true
			}
		}
		for _, p := range n.props {
			if p.short {
				e := keyEx[p.key]
				if e != "" && seen[e] {
					return true
				}
				seen[e] = true
			}
		}
	}
	for _, it := range n.items {
		if xclash(it, keyEx) {
			return true
		}
	}
	for _, p := range n.props {
		if xclash(p.val, keyEx) {
			return true
		}
	}
	return false
}

func xTable(seed int64) xres {
	r := rand.New(rand.NewSource(seed))
	var res xres
	typeTexts := map[string]string{}
	order := []string{}
	env := "(env"
	// key types: string literal types; k1 rarely an alias of k0
	k0 := &xnode{kind: "lit", lit: []string{"sa", "sb", "s"}[r.Intn(3)]}
	k1 := &xnode{kind: "lit", lit: []string{"sb", "s", "sa"}[r.Intn(3)]}
	if r.Intn(8) == 0 {
		k1 = &xnode{kind: "ref", names: []string{"k0"}}
		res.stats = append(res.stats, "key_type_alias")
	}
	feats := map[string]bool{}
	keyEx := map[string]string{"k0": xKeyText[k0.lit], "k1": xKeyText[k1.lit]}
	if k1.kind == "ref" {
		keyEx["k1"] = keyEx["k0"]
	}
	for i, kt := range []*xnode{k0, k1} {
		nm := xKeyTypes[i]
		typeTexts[nm] = strings.Join(xprint(kt, 0, "", "", false), "\n")
		env += " (t " + nm + " " + xsx(kt) + ")"
		order = append(order, nm)
	}
	for _, nm := range xTypeNames {
		t := xgen(r, 2)
		xfeatures(t, feats)
		res.keyclash = res.keyclash || xclash(t, keyEx)
		typeTexts[nm] = strings.Join(xprint(t, 0, "", "", false), "\n")
		env += " (t " + nm + " " + xsx(t) + ")"
		order = append(order, nm)
	}
	env += ")"
	root := xgen(r, 3)
	xfeatures(root, feats)
	res.keyclash = res.keyclash || xclash(root, keyEx)
	rootText := strings.Join(xprint(root, 0, "", "", false), "\n")
	v, verdict := xexample(rootText, typeTexts, order)
	res.verdict = verdict
	if strings.HasPrefix(v, "CHECKERR") || strings.HasPrefix(v, "ADDERR") || strings.HasPrefix(v, "PANIC") {
		w := strings.SplitN(v, " ", 3)
		res.stats = append(res.stats, "check_failed", "check_failed_"+w[0]+"_"+w[1])
		return res
	}
	res.ok = true
	res.stats = append(res.stats, "tables_checked")
	for f := range feats {
		res.stats = append(res.stats, "table_uses_"+f)
	}
	switch v {
	case "ERROR", "ABSENT":
		res.stats = append(res.stats, "example_"+v)
	default:
		res.stats = append(res.stats, "example_built")
	}
	res.line = "exk " + env + " " + xsx(root)
	res.impl = v
	var sb strings.Builder
	sb.WriteString("SCHEMA:\n" + rootText + "\nTYPES (AddType name = text):")
	for _, nm := range order {
		sb.WriteString("\n@" + nm + " = " + typeTexts[nm])
	}
	res.input = sb.String()
	res.nontrivial = feats["key_shortcut"] || feats["typed_container"]
	return res
}

func RunExK(args []string) {
	rep := vh.NewReport("c15-exk", "random type tables (4 named types of depth<=2, two key types: string literal types, rarely an alias; root of depth<=3: scalars, any, arrays, objects with required/optional properties AND key-shortcut properties @k: v, references @a|@b incl. recursive / nullable ones, empty objects / arrays carrying an or rule) printed as JSight text -> real AddType/Check/Example(), same IR as S-expressions -> Lean EXK.build (request exk); one case per table that passes Check; compared: example text byte for byte, or ERROR / ABSENT; nontrivial = the table uses a key shortcut or a typed container")
	r := vh.NewRand(salt + 1)
	nTables := vh.Pick(40000, 1200000)
	const batch = 50000
	for done := 0; done < nTables; done += batch {
		n := batch
		if nTables-done < n {
			n = nTables - done
		}
		seeds := make([]int64, n)
		for i := range seeds {
			seeds[i] = r.Int63()
		}
		results := make([]xres, n)
		var wg sync.WaitGroup
		next := make(chan int, n)
		for i := 0; i < n; i++ {
			next <- i
		}
		close(next)
		for w := runtime.NumCPU(); w > 0; w-- {
			wg.Add(1)
			go func() {
				defer wg.Done()
				for i := range next {
					results[i] = xTable(seeds[i])
				}
			}()
		}
		wg.Wait()
		var reqs []string
		var kept []xres
		for _, res := range results {
			rep.Stat("tables_generated")
			for _, s := range res.stats {
				rep.Stat(s)
			}
			if !res.ok {
				continue
			}
			rep.Case(res.line, res.nontrivial)
			reqs = append(reqs, res.line)
			kept = append(kept, res)
		}
		model := vh.AskModelSharded(reqs, 16)
		for i, res := range kept {
			w := strings.SplitN(model[i], " ", 2)
			if len(w) != 2 || (w[0] != "IN" && w[0] != "OUT") {
				rep.AddDiff(vh.Diff{Component: "C15-exk-builder", Level: "correspondence", Input: res.input, Impl: res.impl, Model: model[i], Note: reqs[i]})
				continue
			}
			inside, text := w[0] == "IN", w[1]
			if text != res.impl {
				rep.AddDiff(vh.Diff{Component: "C15-exk-builder", Level: "correspondence", Input: res.input, Impl: res.impl, Model: text, Note: reqs[i]})
			}
			built := res.impl != "ERROR" && res.impl != "ABSENT"
			switch {
			case inside:
				rep.Stat("inside_proved_class")
				switch {
				case !built:
					rep.AddDiff(vh.Diff{Component: "C15-exk-self-valid", Input: res.input, Impl: "Example() = " + res.impl, Model: "inside the proved class: an example is built"})
				case !json.Valid([]byte(res.impl)):
					rep.AddDiff(vh.Diff{Component: "C15-exk-wellformed", Input: res.input, Impl: "Example() = " + res.impl, Model: "encoding/json.Valid"})
				case res.verdict != "OK":
					rep.AddDiff(vh.Diff{Component: "C15-exk-self-valid", Input: res.input, Impl: "Example() = " + res.impl + " ; Validate = " + res.verdict, Model: "inside the proved class (C15_self_valid_ext_partial): Validate(Example()) == nil"})
				default:
					rep.Stat("inside_class_example_valid")
				}
			case built && res.verdict != "OK":
				if res.keyclash {
					rep.Stat("outside_class_invalid_keyclash")
					rep.AddDiff(vh.Diff{Component: "C15-exk-self-valid", Input: res.input, Impl: "Example() = " + res.impl + " ; Validate = " + res.verdict, Model: "Validate(Example()) == nil", Class: "K-C15-keyclash"})
				} else {
					rep.Stat("outside_class_invalid_other_known_situations")
				}
			case built:
				rep.Stat("outside_class_example_valid")
			default:
				rep.Stat("outside_class_" + res.impl)
			}
		}
	}
	rep.Finish()
}
