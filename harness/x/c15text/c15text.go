// Package c15text: harness command `c15-text` — the tie of the text-level C15 theorem
// (`Props.C15.C15_plain_text_roundtrip`): for a schema TEXT that is plain JSON written with any layout,
//
//	real jschema.New(text).Example()  ==  compact rendering computed here  ==  Lean `Loader.exampleText`
//
// (driver request `extext <hex>`: schema scanner model, loader model, example builder on the node table).
//
// Streams
//
//	A  random JSON trees × white-space layouts (blank, tab, LF / CR / CRLF at every place the grammar allows
//	   white space, also around the value) — the domain of the theorem;
//	B  the same trees with user comments (`# …`, `### … ###`) and notes (`// text`, `/* text */`) in the layout —
//	   covered by the model, not by the theorem;
//	C  objects with a repeated key (same spelling or another spelling of the same decoded key): error 402 at
//	   the repeated key, in model and code;
//	D  1–3 byte mutations of texts of A / B (the malformed stream): whatever the model answers — bytes, or a
//	   scanner / loader error `ERR code pos` — the code must answer the same; texts the mutation moved outside
//	   the text-level fragment (a rule, a type shortcut, a key shortcut → model `UNSUPPORTED`) are only counted.
//	   Property level: whenever the code returns an example for a mutant, it must be well-formed JSON.
//	T  (x/c15text/atree.go) ANNOTATED trees of the generator of `c13-tree`, printed with their layout in the grammar of
//	   the Lean type `AT.ATree` (driver `atreeex`): `ATree.compact` = compact value computed in Go = model
//	   (`Loader.exampleTextR`) = real Example() whenever real Check() accepts; real Validate(Example()) == nil and
//	   `E2E.validateText text [] Example()` = ACC on the model — the tie of `C15_annotated_text_roundtrip_*` and of the
//	   statement `C15_annotated_self_valid_full`.
//	E  three fixed texts with a bare `@` as object key (`{@: 1}`; found by stream D of this command: the scanner
//	   accepts the empty type name, Example() used to re-emit the token unquoted, `{@:1}`): since the fix in /repo the
//	   loader rejects it with error 701 at the `@`, in model and code.
package c15text

import (
	"encoding/hex"
	"encoding/json"
	stderrors "errors"
	"fmt"
	"math/rand"
	"runtime"
	"strings"
	"sync"

	jlib "github.com/jsightapi/jsight-schema-go-library"
	"github.com/jsightapi/jsight-schema-go-library/notations/jschema"

	"verifharness/vh"
)

const (
	command = "c15-text"
	salt    = 15151
)

type node struct {
	kind  byte // 's' scalar, 'a' array, 'o' object
	tok   string
	keys  []string
	elems []*node
}

var (
	ints    = []string{"0", "1", "-1", "12", "-305", "7000000", "-0", "123456789012345678901234567890", "9"}
	floats  = []string{"2.50", "-0.5", "10.0", "0.00", "3.14159", "-0.0", "1.000000000000000000001", "0.1"}
	strs    = []string{`"a"`, `""`, `"a\"b"`, `"\\"`, `"é"`, `"é😀"`, `"a b"`, `"\n\t"`, `"/"`, `"\/"`, `"#x"`, `"// no comment"`, `"{x: 1}"`, `"@t"`, `"a|b"`, `"[,]:"`, `"A"`, `"😀"`, `"\b\f\r"`, `"/* x */"`, `"###"`, `" "`, `"\u0000"`, `"1"`, `"true"`, `"a.b"`}
	keyPool = []string{`"k"`, `"a\"b"`, `"\\"`, `"é"`, `" "`, `"a/b"`, `"#"`, `"@x"`, `"key two"`, `"A"`, `"\t"`, `"1"`, `""`, `"//"`, `"{"`, `"a:b"`,
		`"\u0001"`, `"a\u000bb"`, `"\u001f"`, `"\u007f"`, `"\/"`, `"😀"`, `"󠀁"`, `"\u0000"`, `"é\b\f"`, `" "`, `"b"`, `"c"`, `"/*"`, `"x y z"`}
	// pairs of spellings of one decoded key
	twins = [][2]string{{`"a"`, `"a"`}, {`"/"`, `"\/"`}, {`"k"`, `"k"`}, {`"é"`, `"é"`}, {`"\t"`, `"\u0009"`}, {`""`, `""`}}
)

func randDigits(r *rand.Rand) string {
	n := 1 + r.Intn(6)
	b := make([]byte, n)
	for i := range b {
		b[i] = byte('0' + r.Intn(10))
	}
	if n > 1 && b[0] == '0' {
		b[0] = '1'
	}
	return string(b)
}

func randString(r *rand.Rand) string {
	parts := []string{"a", "Z", "0", " ", "é", "😀", `\"`, `\\`, `\/`, `\b`, `\f`, `\n`, `\r`, `\t`, `é`, `\u0000`, `😀`, "#", "/", "//", "@", "|", "{", "}", "[", "]", ":", ",", "*", "_", "-", ".", "\x7f"}
	var sb strings.Builder
	sb.WriteByte('"')
	for i := r.Intn(6); i > 0; i-- {
		sb.WriteString(parts[r.Intn(len(parts))])
	}
	sb.WriteByte('"')
	return sb.String()
}

func scalar(r *rand.Rand) *node {
	switch r.Intn(10) {
	case 0:
		return &node{kind: 's', tok: ints[r.Intn(len(ints))]}
	case 1:
		s := randDigits(r)
		if r.Intn(3) == 0 {
			s = "-" + s
		}
		return &node{kind: 's', tok: s}
	case 2:
		return &node{kind: 's', tok: floats[r.Intn(len(floats))]}
	case 3:
		s := randDigits(r) + "." + fmt.Sprintf("%0*d", 1+r.Intn(4), r.Intn(1000))
		return &node{kind: 's', tok: s}
	case 4, 5:
		return &node{kind: 's', tok: strs[r.Intn(len(strs))]}
	case 6:
		return &node{kind: 's', tok: randString(r)}
	case 7:
		return &node{kind: 's', tok: []string{"true", "false"}[r.Intn(2)]}
	case 8:
		return &node{kind: 's', tok: "null"}
	}
	return &node{kind: 's', tok: ints[r.Intn(len(ints))]}
}

func value(r *rand.Rand, depth int) *node {
	if depth == 0 || r.Intn(5) < 2 {
		return scalar(r)
	}
	n := r.Intn(5)
	if r.Intn(2) == 0 {
		a := &node{kind: 'a'}
		for i := 0; i < n; i++ {
			a.elems = append(a.elems, value(r, depth-1))
		}
		return a
	}
	o := &node{kind: 'o'}
	perm := r.Perm(len(keyPool))
	seen := map[string]bool{}
	for i := 0; i < n; i++ {
		k := keyPool[perm[i]]
		if r.Intn(6) == 0 {
			k = randString(r)
		}
		// keys of one object pairwise distinct after decoding (stream C has the repeated ones)
		var dec string
		if json.Unmarshal([]byte(k), &dec) != nil {
			dec = k
		}
		if seen[dec] {
			continue
		}
		seen[dec] = true
		o.keys = append(o.keys, k)
		o.elems = append(o.elems, value(r, depth-1))
	}
	return o
}

func (n *node) compact(sb *strings.Builder) {
	switch n.kind {
	case 's':
		sb.WriteString(n.tok)
	case 'a':
		sb.WriteByte('[')
		for i, e := range n.elems {
			if i > 0 {
				sb.WriteByte(',')
			}
			e.compact(sb)
		}
		sb.WriteByte(']')
	case 'o':
		sb.WriteByte('{')
		for i, e := range n.elems {
			if i > 0 {
				sb.WriteByte(',')
			}
			sb.WriteString(n.keys[i])
			sb.WriteByte(':')
			e.compact(sb)
		}
		sb.WriteByte('}')
	}
}

func (n *node) containers() int {
	c := 0
	if n.kind != 's' {
		c = 1
	}
	for _, e := range n.elems {
		c += e.containers()
	}
	return c
}

// layout: the filler written at a place where the grammar allows white space.
type layout struct {
	r        *rand.Rand
	nl       []string // line-break spellings in use
	comments bool     // stream B
	dense    int      // 0..3: how much white space
	// the scanner's allowAnnotation flag, approximately: cleared by the `]` of a non-empty array, set again by a
	// line break that follows a comma and by `{`
	allow      bool
	afterComma bool
	used       map[string]bool
}

func (l *layout) brk() string { return l.nl[l.r.Intn(len(l.nl))] }

func (l *layout) blanks() string {
	var sb strings.Builder
	for i := l.r.Intn(3); i > 0; i-- {
		sb.WriteString([]string{" ", "\t", "  "}[l.r.Intn(3)])
	}
	return sb.String()
}

var commentTexts = []string{"", " c", " user comment", " {not: \"a rule\"}", " // x", " [1, 2]", " \"q", " @t | @u", " é😀", " #", " a # b"}
var noteTexts = []string{" note", " just a note", " a \"quoted\" note", " 1, 2", " é", " x: y", " - dash", " note # with hash", " (a) [b]"}

// ws: white space (stream A), or white space with comments / notes (stream B). afterNode: a value or key token
// has been written on the current line (a note binds to the node created last).
func (l *layout) ws(afterNode bool) string {
	r := l.r
	defer func() { l.afterComma = false }()
	if l.dense == 0 && r.Intn(3) != 0 {
		return ""
	}
	var sb strings.Builder
	sb.WriteString(l.blanks())
	for i := r.Intn(1 + l.dense); i > 0; i-- {
		if l.comments {
			switch r.Intn(8) {
			case 0, 1:
				sb.WriteString("#" + commentTexts[r.Intn(len(commentTexts))])
				l.used["comment"] = true
			case 2:
				if afterNode && l.allow {
					sb.WriteString("//" + noteTexts[r.Intn(len(noteTexts))])
					l.used["note"] = true
					afterNode = false
				}
			case 3:
				if afterNode && l.allow {
					sb.WriteString("/*" + noteTexts[r.Intn(len(noteTexts))] + " */" + l.blanks())
					if r.Intn(2) == 0 {
						sb.WriteString("#" + commentTexts[r.Intn(len(commentTexts))])
					}
					l.used["mlnote"] = true
					afterNode = false
				}
			case 4:
				if r.Intn(3) == 0 {
					sb.WriteString("###" + l.brk() + " block" + l.brk() + "comment " + l.brk() + "###" + l.blanks())
					l.used["block"] = true
				}
			}
		}
		b := l.brk()
		afterNode = false // a note must stand on the line of its node
		if l.afterComma {
			l.allow = true
		}
		l.used["brk"+fmt.Sprintf("%x", b)] = true
		sb.WriteString(b)
		sb.WriteString(l.blanks())
	}
	return sb.String()
}

func (n *node) render(l *layout, sb *strings.Builder) {
	// a note (annotation without rules) may follow, on the same line, the token that creates a node: a scalar or
	// an opening bracket; after a closing bracket / comma / at the start it is error 304
	switch n.kind {
	case 's':
		sb.WriteString(n.tok)
	case 'a':
		sb.WriteString("[")
		sb.WriteString(l.ws(true))
		for i, e := range n.elems {
			if i > 0 {
				sb.WriteString(",")
				l.afterComma = true
				sb.WriteString(l.ws(false))
			}
			e.render(l, sb)
			sb.WriteString(l.ws(e.kind == 's'))
		}
		sb.WriteString("]")
		if len(n.elems) > 0 {
			l.allow = false
		}
	case 'o':
		sb.WriteString("{")
		l.allow = true
		sb.WriteString(l.ws(true))
		for i, e := range n.elems {
			if i > 0 {
				sb.WriteString(",")
				l.afterComma = true
				sb.WriteString(l.ws(false))
			}
			sb.WriteString(n.keys[i])
			sb.WriteString(l.wsNoNote())
			sb.WriteString(":")
			sb.WriteString(l.wsNoNote())
			e.render(l, sb)
			sb.WriteString(l.ws(e.kind == 's'))
		}
		sb.WriteString("}")
	}
}

// between a key and its value the schema language admits white space only (a comment there is error 301)
func (l *layout) wsNoNote() string {
	c := l.comments
	l.comments = false
	s := l.ws(false)
	l.comments = c
	return s
}

func text(r *rand.Rand, n *node, comments bool) (string, map[string]bool) {
	l := &layout{r: r, comments: comments, dense: r.Intn(4), used: map[string]bool{}, allow: true}
	switch r.Intn(5) {
	case 0:
		l.nl = []string{"\n"}
	case 1:
		l.nl = []string{"\r\n"}
	case 2:
		l.nl = []string{"\r"}
	default:
		l.nl = []string{"\n", "\r\n", "\r", "\n"}
	}
	var sb strings.Builder
	sb.WriteString(l.ws(false))
	n.render(l, &sb)
	sb.WriteString(l.ws(n.kind == 's'))
	return sb.String(), l.used
}

var coveredCodes = map[int]bool{202: true, 701: true, 301: true, 302: true, 303: true, 304: true, 402: true, 801: true, 802: true, 803: true, 804: true}

// real: "EX <hex>" | "ERR code pos" | "ERROR <text>" (an error outside the scanner / loader classes) | "PANIC …"
func real(text string) string {
	return vh.Recover(func() string {
		b, err := jschema.New("schema", text).Example()
		if err != nil {
			var pe jlib.ParsingError
			if stderrors.As(err, &pe) {
				if pe.ErrCode() == 202 {
					return "EMPTY"
				}
				if coveredCodes[pe.ErrCode()] {
					return fmt.Sprintf("ERR %d %d", pe.ErrCode(), pe.Position())
				}
				return fmt.Sprintf("ERROR %d %s", pe.ErrCode(), pe.Message())
			}
			return "ERROR " + err.Error()
		}
		return "EX " + vh.Hex(b)
	})
}

type kase struct {
	stream, text, want string // want: "" = whatever the model says
	nontrivial         bool
	stats              []string
	impl               string
}

func oneCase(seed int64, i int) []kase {
	r := rand.New(rand.NewSource(seed*1000003 + salt + int64(i)*7919))
	var out []kase
	n := value(r, 1+r.Intn(4))
	var w strings.Builder
	n.compact(&w)
	want := "EX " + vh.Hex([]byte(w.String()))
	nt := n.containers() > 0
	stream := "A"
	if i%2 == 1 {
		stream = "B"
	}
	t, used := text(r, n, stream == "B")
	st := []string{"stream_" + stream, fmt.Sprintf("depth_containers_%d", min(n.containers(), 6))}
	for u := range used {
		st = append(st, "layout_"+u)
	}
	out = append(out, kase{stream: stream, text: t, want: want, nontrivial: nt, stats: st})
	if i%5 == 0 { // C: a repeated key somewhere
		o := &node{kind: 'o'}
		tw := twins[r.Intn(len(twins))]
		o.keys = []string{tw[0], `"zz"`, tw[1]}
		o.elems = []*node{scalar(r), value(r, 1), scalar(r)}
		if r.Intn(2) == 0 {
			o.keys[1], o.keys[2] = o.keys[2], o.keys[1]
		}
		root := o
		if r.Intn(2) == 0 {
			root = &node{kind: 'a', elems: []*node{scalar(r), o}}
		}
		tc, _ := text(r, root, r.Intn(2) == 0)
		out = append(out, kase{stream: "C", text: tc, want: "402", nontrivial: true, stats: []string{"stream_C"}})
	}
	if i%3 == 0 { // D: malformed
		m := string(vh.Mutate(r, []byte(t), []byte("{}[]:,\"\\/#@*|-_01. \n\rtnue")))
		out = append(out, kase{stream: "D", text: m, nontrivial: nt, stats: []string{"stream_D"}})
	}
	if i < len(bareKeyTexts) {
		out = append(out, kase{stream: "E", text: bareKeyTexts[i], nontrivial: true, stats: []string{"stream_E"}})
	}
	for k := range out {
		out[k].impl = real(out[k].text)
	}
	return out
}

var bareKeyTexts = []string{"{@: 1}", "{@ : 1}", "[{\"a\": 1,\n@\n:\t[] }]"}

func min(a, b int) int {
	if a < b {
		return a
	}
	return b
}

func Run(args []string) {
	rep := vh.NewReport(command, "random JSON trees (depth <= 4, width <= 4; integers and fractions of any length without exponent, strings and keys with every escape spelling, multi-byte UTF-8, bytes that are syntax elsewhere: # / @ | { } [ ] : , *; true / false / null) written as schema TEXT with (A) white-space layout: blanks, tabs, LF / CR / CRLF (one style or mixed) at every place the grammar allows white space, (B) the same plus user comments (# …, ### … ###) and notes (// text, /* text */), (C) a repeated key (same or different spelling of one decoded key), (D) 1-3 byte mutations; compared: real Example() bytes = compact rendering computed in Go = Lean Loader.exampleText (request extext), or the same scanner / loader error (code, position); nontrivial = the tree has at least one container; stream T (x/c15text/atree.go): annotated trees (generator of c13-tree: 0-3 literal rules per node from per-kind pools plus type any / mixed, const, nullable, optional, enum, or, allOf; notes; inline / multi-line; before / behind the comma; LF / CRLF; # comments) sent as AT.ATree S-expressions to the driver (atreeex): ATree.compact (Lean) = compact value (Go) always; lineOK && exClass && container root => model Loader.exampleTextR = EX compact; real Example() = model whenever it returns bytes or a scanner / loader error; real Check() ok => real Example() = EX compact, json.Valid, real Validate(Example()) == nil, model E2E.validateText(text, [], example) = ACC or UNSUP; real Check() error => Example() fails with the same code; nontrivial = in class, container root, at least one rule")
	seed := vh.Seed()
	total := vh.Pick(80000, 2000000)
	const batch = 50000
	for done := 0; done < total; done += batch {
		n := batch
		if total-done < n {
			n = total - done
		}
		results := make([][]kase, n)
		var wg sync.WaitGroup
		next := make(chan int, n)
		for i := 0; i < n; i++ {
			next <- i
		}
		close(next)
		for w := runtime.NumCPU(); w > 0; w-- {
			wg.Add(1)
			go func() {
				defer wg.Done()
				for i := range next {
					results[i] = oneCase(seed, done+i)
				}
			}()
		}
		wg.Wait()
		var reqs []string
		var cases []kase
		for _, ks := range results {
			for _, k := range ks {
				reqs = append(reqs, "extext "+vh.Hex([]byte(k.text)))
				cases = append(cases, k)
			}
		}
		model := vh.AskModelSharded(reqs, 16)
		for i, k := range cases {
			m := model[i]
			for _, s := range k.stats {
				rep.Stat(s)
			}
			rep.Case(k.text, k.nontrivial)
			input := fmt.Sprintf("jschema.New(\"schema\", text).Example() with text = %q", k.text)
			switch k.stream {
			case "A", "B":
				if k.stream == "B" && m == k.impl && strings.HasPrefix(m, "ERR 304 ") {
					// the scanner's rule where an annotation may stand (after the end of a non-empty array none is
					// admitted before the next line break that follows a comma) is only approximated by the generator:
					// model and code reject the same note at the same byte — the text is not an accepted schema
					var p int
					fmt.Sscanf(m, "ERR 304 %d", &p)
					if p+1 < len(k.text) && k.text[p] == '/' && (k.text[p+1] == '/' || k.text[p+1] == '*') {
						rep.Stat("note_rejected_304_by_both")
						continue
					}
				}
				// three-way: code = expected compact form = model
				if k.impl != k.want {
					rep.AddDiff(vh.Diff{Component: "C15-text-compact-" + k.stream, Input: input, Impl: k.impl, Model: "compact form " + k.want})
				}
				if m != k.want {
					rep.AddDiff(vh.Diff{Component: "C15-text-model-" + k.stream, Level: "correspondence", Input: input, Impl: k.impl, Model: m, Note: "expected " + k.want})
				}
				if k.impl == k.want && m == k.want {
					rep.Stat("roundtrip_ok_" + k.stream)
				}
			case "C":
				if !strings.HasPrefix(k.impl, "ERR 402 ") {
					rep.AddDiff(vh.Diff{Component: "C15-text-dupkey", Input: input, Impl: k.impl, Model: "error 402 (duplicate key)"})
				}
				if m != k.impl {
					rep.AddDiff(vh.Diff{Component: "C15-text-model", Level: "correspondence", Input: input, Impl: k.impl, Model: m})
				} else {
					rep.Stat("dupkey_same_position")
				}
			case "E":
				if !strings.HasPrefix(k.impl, "ERR 701 ") {
					rep.AddDiff(vh.Diff{Component: "C15-text-barekey", Input: input, Impl: k.impl, Model: "error 701 at the bare @ (a key shortcut needs a type name)"})
				}
				if m != k.impl {
					rep.AddDiff(vh.Diff{Component: "C15-text-model-E", Level: "correspondence", Input: input, Impl: k.impl, Model: m})
				} else {
					rep.Stat("barekey_rejected_701")
				}
			default:
				if strings.HasPrefix(k.impl, "EX ") {
					// property level: an accepted schema's example is well-formed JSON
					b, _ := hex.DecodeString(k.impl[3:])
					if !json.Valid(b) {
						rep.AddDiff(vh.Diff{Component: "C15-text-wellformed", Input: input, Impl: fmt.Sprintf("Example() = %q", b), Model: "encoding/json.Valid"})
					}
				}
				switch {
				case m == "UNSUPPORTED":
					rep.Stat("mutant_outside_fragment")
				case strings.HasPrefix(m, "PANIC"):
					rep.AddDiff(vh.Diff{Component: "C15-text-model", Level: "correspondence", Input: input, Impl: k.impl, Model: m})
				case m != k.impl:
					rep.AddDiff(vh.Diff{Component: "C15-text-mutant", Level: "correspondence", Input: input, Impl: k.impl, Model: m})
				case strings.HasPrefix(m, "EX "):
					rep.Stat("mutant_still_example")
				case m == "EMPTY":
					rep.Stat("mutant_empty")
				default:
					rep.Stat("mutant_error_" + strings.Fields(m)[1])
				}
			}
		}
	}
	runT(rep)
	rep.Finish()
}
