package c15text

// Stream T of `c15-text`: the tie of `C15_annotated_text_roundtrip` / `C15_annotated_self_valid`. Annotated trees of
// the generator of `c13-tree` (x/c13tree/atree.go: every node annotated with probability 0 / 50 / 80 / 100 %, rule
// objects with 0-3 literal rules from per-kind pools, notes, inline / multi-line, before / behind the comma, blanks, LF /
// CRLF, # comments; a twelfth of the layouts breaks the line discipline on purpose) are sent WITH their layout in the
// grammar of the Lean type `AT.ATree` to the driver (`atreeex`), which answers with the text it renders
// (`AT.docText`), `AT.lineOK`, `ATree.exClass`, `ATree.compact` and the text-level model's answer for the text
// (`Loader.exampleTextR`). Compared:
//
//	ATree.compact (Lean)  ==  compact value computed by the generator in Go                       (always)
//	real Example() of the text  ==  model                  (whenever the real call returns bytes or a scanner / loader error)
//	lineOK && exClass  =>  model == EX compact                                                    (the theorem's claim)
//	real Check() == nil  =>  real Example() == EX compact, json.Valid, real Validate(Example()) == nil   (property level)
//	real Check() != nil  =>  real Example() fails with the same error code (the model has no checker: only counted)

import (
	"encoding/hex"
	"encoding/json"
	stderrors "errors"
	"fmt"
	"runtime"
	"strings"
	"sync"

	jlib "github.com/jsightapi/jsight-schema-go-library"
	"github.com/jsightapi/jsight-schema-go-library/notations/jschema"
	jsondoc "github.com/jsightapi/jsight-schema-go-library/formats/json"

	"verifharness/vh"
	"verifharness/x/c13tree"
)

func realCheckCode(text string) string {
	return vh.Recover(func() string {
		err := jschema.New("schema", text).Check()
		if err == nil {
			return "OK"
		}
		var pe jlib.ParsingError
		if stderrors.As(err, &pe) {
			return fmt.Sprintf("ERR %d", pe.ErrCode())
		}
		return "ERR ? " + err.Error()
	})
}

func realSelfValidate(text string, ex []byte) string {
	return vh.Recover(func() string {
		s := jschema.New("schema", text)
		err := s.Validate(jsondoc.New("example", ex))
		if err == nil {
			return "OK"
		}
		var pe jlib.ValidationError
		if stderrors.As(err, &pe) {
			return fmt.Sprintf("INVALID %d %s", pe.ErrCode(), pe.Message())
		}
		return "INVALID ? " + err.Error()
	})
}

func errCodeOf(impl string) string {
	f := strings.Fields(impl)
	if len(f) >= 2 && (f[0] == "ERR" || f[0] == "ERROR") {
		return f[1]
	}
	if impl == "EMPTY" {
		return "202"
	}
	return "?"
}

func runT(rep *vh.Report) {
	r := vh.NewRand(salt + 77)
	n := vh.Pick(20000, 400000)
	const batch = 20000
	for done := 0; done < n; done += batch {
		m := batch
		if n-done < m {
			m = n - done
		}
		reqs := make([]string, m)
		wants := make([]string, m)
		nann := make([]int, m)
		nrules := make([]int, m)
		cont := make([]bool, m)
		for i := 0; i < m; i++ {
			sx, compact, na, nr, c, feats := c13tree.ATreeCase(r, r.Intn(2) == 0)
			reqs[i] = "atreeex " + sx
			wants[i] = "EX " + vh.Hex([]byte(compact))
			nann[i], nrules[i], cont[i] = na, nr, c
			for k := range feats {
				rep.Stat("T_form_" + k)
			}
		}
		model := vh.AskModelSharded(reqs, 16)
		type res struct{ ex, chk, val string }
		reals := make([]res, m)
		texts := make([]string, m)
		parallelFor(m, func(i int) {
			parts := strings.SplitN(model[i], "|", 5)
			if len(parts) != 5 {
				return
			}
			tb, _ := hex.DecodeString(parts[0])
			texts[i] = string(tb)
			reals[i].ex = real(texts[i])
			reals[i].chk = realCheckCode(texts[i])
			if strings.HasPrefix(reals[i].ex, "EX ") {
				b, _ := hex.DecodeString(reals[i].ex[3:])
				reals[i].val = realSelfValidate(texts[i], b)
			}
		})
		// statement (3) on the model: E2E.validateText (schema text, no types, the example) must answer ACC
		var e2eReqs []string
		var e2eIdx []int
		for i := 0; i < m; i++ {
			if strings.HasPrefix(reals[i].ex, "EX ") && reals[i].chk == "OK" {
				e2eReqs = append(e2eReqs, "e2e "+vh.Hex([]byte(texts[i]))+" 0 "+reals[i].ex[3:])
				e2eIdx = append(e2eIdx, i)
			}
		}
		e2e := vh.AskModelSharded(e2eReqs, 16)
		for k, i := range e2eIdx {
			input := fmt.Sprintf("E2E.validateText(text, [], Example(text)) with text = %q", texts[i])
			switch {
			case e2e[k] == "ACC":
				rep.Stat("T_model_selfvalid_ACC")
			case strings.HasPrefix(e2e[k], "UNSUP"):
				rep.Stat("T_model_selfvalid_UNSUP")
			default:
				rep.AddDiff(vh.Diff{Component: "C15-text-T-model-selfvalid", Level: "correspondence", Input: input, Impl: "real Validate(Example()) = " + reals[i].val, Model: e2e[k]})
			}
		}
		for i := 0; i < m; i++ {
			parts := strings.SplitN(model[i], "|", 5)
			if len(parts) != 5 {
				rep.AddDiff(vh.Diff{Component: "C15-text-T-driver-reply", Level: "correspondence", Input: reqs[i], Impl: "text|ok|class|compact|ex", Model: model[i]})
				continue
			}
			text, ok, cl, compact, mex := texts[i], parts[1], parts[2], "EX "+parts[3], parts[4]
			rl := reals[i]
			rep.Stat("stream_T")
			rep.Case("T\x00"+text, nrules[i] > 0 && ok == "1" && cl == "1" && cont[i])
			rep.Stat("T_lineOK_" + ok + "_class_" + cl)
			rep.Stat(fmt.Sprintf("T_rules_%d", min(nrules[i], 6)))
			input := fmt.Sprintf("jschema.New(\"schema\", text).Example() with text = %q", text)
			if compact != wants[i] {
				rep.AddDiff(vh.Diff{Component: "C15-text-T-compact-spec", Level: "correspondence", Input: input, Impl: "generator's compact value " + wants[i], Model: "ATree.compact " + compact})
			}
			inClass := ok == "1" && cl == "1" && cont[i]
			if inClass && mex != compact {
				rep.AddDiff(vh.Diff{Component: "C15-text-T-theorem", Level: "correspondence", Input: input, Impl: rl.ex, Model: mex, Note: "C15_annotated_text_roundtrip claims " + compact})
			}
			if mex == "UNSUPPORTED" {
				rep.Stat("T_model_UNSUPPORTED")
			}
			switch {
			case strings.HasPrefix(rl.ex, "EX "):
				b, _ := hex.DecodeString(rl.ex[3:])
				if !json.Valid(b) {
					rep.AddDiff(vh.Diff{Component: "C15-text-T-wellformed", Input: input, Impl: fmt.Sprintf("Example() = %q", b), Model: "encoding/json.Valid"})
				}
				if rl.chk != "OK" {
					rep.AddDiff(vh.Diff{Component: "C15-text-T-example-without-check", Input: input, Impl: rl.ex, Model: "Check() = " + rl.chk})
				}
				if mex != "UNSUPPORTED" && mex != rl.ex {
					rep.AddDiff(vh.Diff{Component: "C15-text-T-model", Level: "correspondence", Input: input, Impl: rl.ex, Model: mex})
				}
				if rl.ex != wants[i] {
					rep.AddDiff(vh.Diff{Component: "C15-text-T-compact", Input: input, Impl: rl.ex, Model: "compact value " + wants[i]})
				}
				if rl.val != "OK" {
					rep.AddDiff(vh.Diff{Component: "C15-text-T-selfvalid", Input: input, Impl: "Validate(Example()) = " + rl.val, Model: "accepted (Check() = OK, no type references)"})
				} else {
					rep.Stat("T_selfvalid_ok")
				}
				if inClass {
					rep.Stat("T_roundtrip_ok_in_class")
				} else {
					rep.Stat("T_roundtrip_ok_outside_class")
				}
			case strings.HasPrefix(rl.ex, "ERR ") || rl.ex == "EMPTY":
				// scanner / loader error: inside the model
				if mex != rl.ex {
					rep.AddDiff(vh.Diff{Component: "C15-text-T-model-error", Level: "correspondence", Input: input, Impl: rl.ex, Model: mex})
				} else {
					rep.Stat("T_same_loader_error_" + errCodeOf(rl.ex))
				}
				if inClass {
					rep.AddDiff(vh.Diff{Component: "C15-text-T-theorem-vs-code", Input: input, Impl: rl.ex, Model: "lineOK && exClass: the text loads (C13_annotated_tree_loads)"})
				}
			case strings.HasPrefix(rl.ex, "ERROR "):
				// behind the loader: Compile / Check reject a rule; the text-level model has no checker
				if rl.chk == "OK" {
					rep.AddDiff(vh.Diff{Component: "C15-text-T-check-ok-example-fails", Input: input, Impl: rl.ex, Model: "Check() = OK"})
				} else if rl.chk != "ERR "+errCodeOf(rl.ex) {
					rep.AddDiff(vh.Diff{Component: "C15-text-T-check-vs-example-error", Input: input, Impl: rl.ex, Model: "Check() = " + rl.chk})
				} else {
					rep.Stat("T_rejected_by_check_" + errCodeOf(rl.ex))
				}
			default:
				rep.AddDiff(vh.Diff{Component: "C15-text-T-real", Input: input, Impl: rl.ex, Model: mex})
			}
		}
	}
}

func parallelFor(n int, f func(i int)) {
	var wg sync.WaitGroup
	next := make(chan int, n)
	for i := 0; i < n; i++ {
		next <- i
	}
	close(next)
	for w := runtime.NumCPU(); w > 0; w-- {
		wg.Add(1)
		go func() {
			defer wg.Done()
			for i := range next {
				f(i)
			}
		}()
	}
	wg.Wait()
}
