// Package c02text: harness command `c02-text`.
//
// TEXT-level tie of property C02 for the class of the theorems `C02_text_level`, `C02_text_rule_order`,
// `C02_text_check_rejects_bad_example` (lean/JSight/Props/C02.lean): a schema text that is ONE top-level scalar
// EXAMPLE with an inline (`// {…}`) or multi-line (`/* {…} */`) annotation whose rule object lists scalar rules, and
// a document text that is one JSON scalar with white space around it.
//
// Three answers are compared per case:
//
//	real   = jschema.New(text).Check() / Validate(document text)   → ACC | REJ | SERR code [pos] | DERR code pos
//	e2e    = driver `e2e <text> 0 <doc text>`  (E2E.validateText: scanner → loader → Compile → validator)
//	closed = driver `c02t <ex> <n> (<name> <value>)* <doc token>`   (C02T.closed: the CLOSED FORM of the theorems,
//	         from the STRUCTURED rule list and the document TOKEN; no text, no layout)
//
// The rule sets come from sem-rules-full's generators (every combination the checker accepts, bounds / lengths /
// precision around the example, const / nullable grid, enum, type names) with the rules that need the standard
// library removed (regex, email, uri, datetime: `Compile` answers UNSUP for them), plus two streams of this package:
// BAD EXAMPLE (a rule the example itself violates: Check must refuse with the validator's code at the offset of the
// example) and NOISE (unknown / duplicate rule, malformed value, exclusive without bound, min > max, wrong type name,
// `optional`, …: the creation / basic stages must refuse). Spelling: rule names bare, quoted or quoted with a \u
// escape, blanks before the colon, blanks (in the multi-line form also line breaks) between all tokens, trailing
// comma, type names with an escape, the tail (end of input / line break + white space / `*/` + white space), rules
// in the drawn order or shuffled (metamorphic: same outcome), the document with white space around it.
package c02text

import (
	stdjson "encoding/json"
	stderrors "errors"
	"fmt"
	"math/rand"
	"runtime"
	"strings"
	"sync"

	jdoc "github.com/jsightapi/jsight-schema-go-library/formats/json"
	"github.com/jsightapi/jsight-schema-go-library/notations/jschema"

	"verifharness/vh"
	srf "verifharness/x/sem-rules-full"
)

const (
	command = "c02-text"
	salt    = 20202
)

type coder interface{ ErrCode() int }
type positioner interface{ Position() uint }

func errClass(prefix string, err error) string {
	var pe coder
	if stderrors.As(err, &pe) {
		var pp positioner
		if stderrors.As(err, &pp) {
			return fmt.Sprintf("%s %d %d", prefix, pe.ErrCode(), pp.Position())
		}
		return fmt.Sprintf("%s %d ?", prefix, pe.ErrCode())
	}
	return prefix + " other " + err.Error()
}

func real(schema, doc string) string {
	return vh.Recover(func() string {
		s := jschema.New("root", schema)
		if err := s.Check(); err != nil {
			return errClass("SERR", err)
		}
		if err := s.Validate(jdoc.New("doc", doc)); err != nil {
			var pe coder
			if stderrors.As(err, &pe) {
				switch pe.ErrCode() {
				case 301, 303:
					return errClass("DERR", err)
				case 203:
					return "DERR 203 0"
				}
			}
			return "REJ"
		}
		return "ACC"
	})
}

func hx(s string) string {
	if s == "" {
		return "-"
	}
	return vh.Hex([]byte(s))
}

type rule struct{ name, value string }

// ---- spelling ---------------------------------------------------------------------------------------------

func blanks(r *rand.Rand, multi bool) string {
	pool := []string{"", "", "", " ", " ", "\t", "  "}
	if multi {
		pool = append(pool, "\n", " \n ", "\r\n", "\n\t")
	}
	return pool[r.Intn(len(pool))]
}

func ws(r *rand.Rand) string {
	return []string{"", "", " ", "\n", "\t ", " \r\n ", "\n\n"}[r.Intn(7)]
}

func u4(r *rand.Rand, c byte) string {
	if r.Intn(2) == 0 {
		return fmt.Sprintf("\\u%04x", c)
	}
	return fmt.Sprintf("\\u%04X", c)
}

// a rule name: bare, quoted, or quoted with one letter as a \u escape; `bare` reports the first form
func spellName(r *rand.Rand, name string) (string, bool) {
	switch r.Intn(6) {
	case 0, 1:
		return `"` + name + `"`, false
	case 2:
		i := r.Intn(len(name))
		return `"` + name[:i] + u4(r, name[i]) + name[i+1:] + `"`, false
	}
	return name, true
}

// a quoted type name with one letter as an escape (the value goes through Unquote)
func spellValue(r *rand.Rand, name, v string) (string, bool) {
	// (`"enum"` / `"mixed"` are compared as RAW text by compiler_basic.go: an escape there changes the meaning)
	if name == "type" && len(v) > 2 && v[0] == '"' && v != `"enum"` && v != `"mixed"` && r.Intn(6) == 0 {
		i := 1 + r.Intn(len(v)-2)
		return v[:i] + u4(r, v[i]) + v[i+1:], true
	}
	return v, false
}

type spelled struct {
	text   string
	sent   []rule // what the closed form gets: decoded names, value tokens as written
	inGram bool   // within the grammar of the theorems: bare names, literal values
	stats  []string
}

func spellSchema(r *rand.Rand, ex string, rules []rule) spelled {
	multi := r.Intn(3) == 0
	out := spelled{inGram: true}
	var b strings.Builder
	b.WriteString(ex)
	b.WriteString([]string{"", " ", " ", "  ", "\t"}[r.Intn(5)])
	if multi {
		b.WriteString("/*")
		out.stats = append(out.stats, "form_multiline")
	} else {
		b.WriteString("//")
		out.stats = append(out.stats, "form_inline")
	}
	b.WriteString(blanks(r, multi))
	b.WriteString("{")
	for i, ru := range rules {
		nm, bare := spellName(r, ru.name)
		if !bare {
			out.inGram = false
			out.stats = append(out.stats, "name_quoted")
		}
		v, esc := spellValue(r, ru.name, ru.value)
		if esc {
			out.stats = append(out.stats, "type_value_escaped")
		}
		if strings.HasPrefix(v, "[") {
			out.inGram = false
		}
		b.WriteString(blanks(r, multi) + nm + strings.Repeat(" ", r.Intn(3)/2) + ":" + blanks(r, multi) + v + blanks(r, multi))
		out.sent = append(out.sent, rule{ru.name, v})
		if i+1 < len(rules) {
			b.WriteString(",")
		} else if r.Intn(4) == 0 {
			b.WriteString("," + blanks(r, multi))
			out.stats = append(out.stats, "trailing_comma")
		}
	}
	if len(rules) == 0 {
		b.WriteString(blanks(r, multi))
	}
	b.WriteString("}")
	b.WriteString(blanks(r, multi))
	if multi {
		b.WriteString("*/" + ws(r))
	} else if r.Intn(2) == 0 {
		b.WriteString("\n" + ws(r))
	}
	out.text = b.String()
	return out
}

// ---- streams ----------------------------------------------------------------------------------------------

var needsStdlib = map[string]bool{"regex": true, "type_email": true, "type_uri": true, "type_datetime": true}

var noise = []rule{
	{"foo", "1"}, {"min", `"x"`}, {"min", "true"}, {"minLength", "-1"}, {"minLength", "1.5"}, {"maxLength", `"2"`},
	{"precision", "0"}, {"precision", "-2"}, {"nullable", "1"}, {"const", `"true"`}, {"exclusiveMinimum", "1"},
	{"exclusiveMinimum", "true"}, {"exclusiveMaximum", "true"}, {"exclusiveMaximum", "false"}, {"optional", "true"},
	{"optional", "false"}, {"type", `"wrong"`}, {"type", "5"}, {"type", `"integer"`}, {"type", `"float"`}, {"type", `"string"`},
	{"type", `"boolean"`}, {"type", `"null"`}, {"type", `"object"`}, {"type", `"array"`}, {"type", `"decimal"`},
	{"type", `"uuid"`}, {"type", `"date"`}, {"type", `"enum"`}, {"type", `"any"`}, {"type", `"mixed"`}, {"type", `"@t"`},
	{"min", "100"}, {"max", "-100"}, {"min", "0"}, {"max", "0"}, {"minLength", "0"}, {"maxLength", "0"}, {"minLength", "9"},
	{"precision", "1"}, {"precision", "3"}, {"const", "true"}, {"const", "false"}, {"nullable", "true"}, {"nullable", "false"},
	{"minItems", "1"}, {"additionalProperties", "true"}, {"allOf", `"@t"`}, {"min", "12345678901234567890"},
	{"maxLength", "1234567890123456789"}, {"maxLength", "12345678901234567890"},
}

// a rule the example (probably) violates
func badRule(r *rand.Rand, kind, ex string) rule {
	switch kind {
	case "i", "f":
		switch r.Intn(5) {
		case 0:
			return rule{"min", "1000000"}
		case 1:
			return rule{"max", "-1000000"}
		case 2:
			return rule{"min", ex} // with exclusiveMinimum: true added by the caller
		case 3:
			return rule{"max", ex}
		}
		return rule{"precision", "1"}
	case "s":
		switch r.Intn(4) {
		case 0:
			return rule{"minLength", "999"}
		case 1:
			return rule{"maxLength", "0"}
		case 2:
			return rule{"type", `"uuid"`}
		}
		return rule{"type", `"date"`}
	}
	return rule{"min", "0"}
}

type oneCase struct {
	schema, doc, docTok string
	sent                []rule
	ex                  string
	impl                string
	class               string
	stats               []string
	nontrivial          bool
	inGram              bool
}

type nodeResult struct {
	stats []string
	cases []oneCase
}

func zeroExp(tok string) bool {
	t := strings.TrimPrefix(tok, "-")
	return len(t) >= 2 && t[0] == '0' && (t[1] == 'e' || t[1] == 'E')
}

func oneNode(seed int64) nodeResult {
	r := rand.New(rand.NewSource(seed))
	var res nodeResult
	var n srf.TextNode
	for tries := 0; ; tries++ {
		n = srf.GenForText(r)
		ok := true
		for _, ru := range n.Rules {
			if needsStdlib[ru.Stat] {
				ok = false
			}
		}
		if ok || tries > 20 {
			break
		}
	}
	var rules []rule
	hasEnum := false
	for _, ru := range n.Rules {
		if needsStdlib[ru.Stat] {
			continue
		}
		if ru.Name == "enum" {
			hasEnum = true
		}
		rules = append(rules, rule{ru.Name, ru.Value})
	}
	stream := "accepted"
	switch k := r.Intn(12); {
	case k == 0 || k == 1:
		stream = "bad_example"
		br := badRule(r, n.Kind, n.Ex)
		// drop a rule of the same name so that the set stays duplicate-free
		var kept []rule
		for _, ru := range rules {
			if ru.name != br.name {
				kept = append(kept, ru)
			}
		}
		rules = append(kept, br)
		if (br.name == "min" || br.name == "max") && br.value == n.Ex {
			x := "exclusiveMinimum"
			if br.name == "max" {
				x = "exclusiveMaximum"
			}
			var k2 []rule
			for _, ru := range rules {
				if ru.name != x {
					k2 = append(k2, ru)
				}
			}
			rules = append(k2, rule{x, "true"})
		}
		r.Shuffle(len(rules), func(i, j int) { rules[i], rules[j] = rules[j], rules[i] })
	case k == 2:
		stream = "noise"
		nr := noise[r.Intn(len(noise))]
		i := r.Intn(len(rules) + 1)
		rules = append(rules[:i:i], append([]rule{nr}, rules[i:]...)...)
	}
	if n.Inapplicable {
		stream += "+inapplicable"
	}
	res.stats = append(res.stats, "nodes", "stream_"+stream, "kind_"+n.Kind, fmt.Sprintf("rules_in_set_%d", len(rules)))
	if hasEnum {
		res.stats = append(res.stats, "node_with_enum")
	}
	for _, ru := range rules {
		res.stats = append(res.stats, "rule_"+ru.name)
	}
	sp := spellSchema(r, n.Ex, rules)
	res.stats = append(res.stats, sp.stats...)
	if sp.inGram {
		res.stats = append(res.stats, "schema_in_theorem_grammar")
	}
	// metamorphic partner: the same rules in another order, spelled anew
	var sp2 *spelled
	if len(rules) >= 2 && r.Intn(3) == 0 {
		sh := append([]rule{}, rules...)
		r.Shuffle(len(sh), func(i, j int) { sh[i], sh[j] = sh[j], sh[i] })
		s2 := spellSchema(r, n.Ex, sh)
		sp2 = &s2
		res.stats = append(res.stats, "with_permuted_partner")
	}
	docs := n.Docs
	if len(docs) > 8 {
		r.Shuffle(len(docs), func(i, j int) { docs[i], docs[j] = docs[j], docs[i] })
		docs = docs[:8]
	}
	for j, d := range docs {
		dt := ws(r) + d.Tok + ws(r)
		v := real(sp.text, dt)
		st := []string{"doc_" + d.Class, "impl_" + strings.Fields(v)[0]}
		if strings.HasPrefix(v, "SERR") {
			st = append(st, "impl_SERR_"+strings.Fields(v)[1])
		}
		cls := ""
		if zeroExp(d.Tok) {
			cls = "K-C10-zeroexp"
			st = append(st, "class_K-C10-zeroexp")
		}
		res.cases = append(res.cases, oneCase{schema: sp.text, doc: dt, docTok: d.Tok, sent: sp.sent, ex: n.Ex, impl: v, class: cls,
			stats: st, nontrivial: len(rules) > 0, inGram: sp.inGram})
		if sp2 != nil {
			v2 := real(sp2.text, dt)
			res.cases = append(res.cases, oneCase{schema: sp2.text, doc: dt, docTok: d.Tok, sent: sp2.sent, ex: n.Ex, impl: v2, class: cls,
				stats: []string{"permuted_case"}, nontrivial: true, inGram: sp2.inGram})
			// rule order: the outcome class must not change (error CODE may: the first offending rule is reported)
			if (v == "ACC" || v == "REJ" || v2 == "ACC" || v2 == "REJ") && v != v2 {
				res.cases[len(res.cases)-1].stats = append(res.cases[len(res.cases)-1].stats, "ORDERDIFF "+v+" / "+v2+" | "+sp.text)
			}
		}
		if strings.HasPrefix(v, "SERR") && j == 0 {
			break // the schema is refused: one document is enough
		}
	}
	return res
}

// what is compared of a reply: verdicts as they are; schema errors by code, the position too when it is stated by
// all three (the example's own violation: offset of the example; scanner errors of the document)
func reduce(m string, withPos bool) string {
	w := strings.Fields(m)
	if len(w) >= 3 && (w[0] == "SERR" || w[0] == "DERR") {
		if withPos || w[0] == "DERR" {
			return w[0] + " " + w[1] + " " + w[2]
		}
		return w[0] + " " + w[1]
	}
	if len(w) >= 1 && (w[0] == "ACC" || w[0] == "REJ") {
		return w[0]
	}
	return m
}

// codes ValidateLiteralValue raises on the example inside Check: their position is the offset of the example
var exampleCodes = map[string]bool{"602": true, "603": true, "610": true, "614": true, "615": true, "616": true, "210": true}

func Run(args []string) {
	rep := vh.NewReport(command, "one top-level scalar EXAMPLE with an annotation `// {rules}` or `/* {rules} */` and one document scalar with white space around it; rule sets from sem-rules-full's generators (numbers: min / max around the example with exclusiveMinimum / exclusiveMaximum true or false, precision with / without type decimal; strings: minLength / maxLength around the decoded length, uuid / date; const / nullable 3 x 3 grid on every kind; enum sets; plain type names; one node in 25 with a rule of another family) minus the rules that need the standard library (regex, email, uri, datetime), streams: accepted 9/12, BAD EXAMPLE 2/12 (a bound / length / precision / format the example violates: Check must answer the validator's code at offset 0), NOISE 1/12 (unknown, duplicate, malformed, orphan exclusive, wrong type name, optional, huge numbers: creation / basic stage errors); spelling: names bare / quoted / quoted with a \\u escape, 0-1 spaces before the colon, blanks between all tokens (line breaks in the multi-line form), trailing comma, type name with an escape, tail = end of input | line break + white space | */ + white space; one node in three also with its rules permuted and re-spelled (same verdict demanded); up to 8 documents per node from sem-rules-full's probes (boundary values in odd RFC 8259 spellings, strings at the length bounds in random escapes, other kinds, null); compared: real Check+Validate = driver e2e (text) = driver c02t (closed form of the theorems from the structured rule list); schema errors by code, the example's own violation also by position (= offset of the example); nontrivial = the rule set is not empty")
	r := vh.NewRand(salt)
	nNodes := vh.Pick(12000, 150000)
	const batch = 6000
	for done := 0; done < nNodes; done += batch {
		k := batch
		if nNodes-done < k {
			k = nNodes - done
		}
		seeds := make([]int64, k)
		for i := range seeds {
			seeds[i] = r.Int63()
		}
		results := make([]nodeResult, k)
		var wg sync.WaitGroup
		next := make(chan int, k)
		for i := 0; i < k; i++ {
			next <- i
		}
		close(next)
		for w := runtime.NumCPU(); w > 0; w-- {
			wg.Add(1)
			go func() {
				defer wg.Done()
				for i := range next {
					results[i] = oneNode(seeds[i])
				}
			}()
		}
		wg.Wait()
		var reqs []string
		var cases []oneCase
		for _, res := range results {
			for _, s := range res.stats {
				rep.Stat(s)
			}
			for _, c := range res.cases {
				for _, s := range c.stats {
					if strings.HasPrefix(s, "ORDERDIFF ") {
						rep.AddDiff(vh.Diff{Component: command + ":rule-order", Input: "SCHEMA:\n" + c.schema + "\nDOCUMENT: " + c.doc,
							Impl: s, Model: "same verdict for every order of the rules", Class: c.class})
						continue
					}
					rep.Stat(s)
				}
				var sb strings.Builder
				fmt.Fprintf(&sb, "c02t %s %d", hx(c.ex), len(c.sent))
				for _, ru := range c.sent {
					sb.WriteString(" " + hx(ru.name) + " " + hx(ru.value))
				}
				sb.WriteString(" " + hx(c.docTok))
				e2e := "e2e " + hx(c.schema) + " 0 " + hx(c.doc)
				rep.Case(e2e, c.nontrivial)
				reqs = append(reqs, e2e, sb.String())
				cases = append(cases, c)
			}
		}
		ans := vh.AskModelSharded(reqs, 16)
		for i, c := range cases {
			m, cl := ans[2*i], ans[2*i+1]
			input := "SCHEMA:\n" + c.schema + "\nDOCUMENT: " + c.doc
			inClass := strings.HasSuffix(cl, " CLASS 1")
			cl = strings.TrimSuffix(strings.TrimSuffix(cl, " CLASS 1"), " CLASS 0")
			if inClass {
				rep.Stat("rules_meet_okRules")
				if c.inGram {
					rep.Stat("case_inside_theorem_class")
				}
			}
			iw := strings.Fields(c.impl)
			withPos := len(iw) >= 2 && iw[0] == "SERR" && exampleCodes[iw[1]]
			if withPos {
				rep.Stat("example_violation_with_position")
			}
			if strings.HasPrefix(m, "UNSUP") {
				rep.Stat("model_UNSUP")
				rep.Stat("model_" + strings.ReplaceAll(m, " ", "_"))
			} else {
				rep.Stat("model_answered")
				if reduce(m, withPos) != reduce(c.impl, withPos) {
					rep.AddDiff(vh.Diff{Component: command + ":real/e2e", Input: input, Impl: c.impl, Model: m, Class: c.class, Note: reqs[2*i]})
				}
			}
			if !stdjson.Valid([]byte(c.docTok)) {
				// the closed form speaks about a document TOKEN: a probe that is no JSON scalar (the unquoted
				// look-alike of a string example such as 0252…) is outside it; real/e2e above still compares it
				rep.Stat("closed_skipped_probe_is_not_json")
			} else if strings.HasPrefix(cl, "UNSUP") {
				rep.Stat("closed_UNSUP")
			} else {
				rep.Stat("closed_answered")
				if reduce(cl, withPos) != reduce(c.impl, withPos) {
					rep.AddDiff(vh.Diff{Component: command + ":real/closed", Input: input, Impl: c.impl, Model: cl, Class: c.class, Note: reqs[2*i+1]})
				}
			}
		}
	}
	rep.Finish()
}
