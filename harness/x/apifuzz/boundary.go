package apifuzz

// The "boundary" stream: well-formed annotated schemas — every node kind, every rule that node kind admits,
// inline and multi-line annotation, at top level / on an object property / on an array item / nested / inside an
// item object of an `or` rule — in which the VALUE of exactly one rule is replaced by a boundary value of its
// kind: for string-valued rules (type, regex, additionalProperties, allOf names, or items, enum items) the empty
// string, a blank, "@", "#", "|", names of one byte, names spelled with an escape, unions with an empty side; for
// numeric rules 0, -0, 0.0, 1e0, the neighbours of the integer ranges, huge and tiny; for list rules the empty
// list and lists of one empty element; for boolean rules both values and their quoted spellings; for references
// to an enum rule the bare "@" and unknown names. With a lower probability the value comes from the pool of
// another kind (a number where a name is expected, ...), a property name or a key shortcut gets a boundary spelling,
// and the same values are put into the texts of the added types, of the enum rule and of the document.
//
// Byte mutation of seeds rarely produces exactly `""` behind `type:` inside an otherwise intact annotation; the
// grammar stream writes rule values from a fixed list of sensible ones.

import (
	"math/rand"
	"strconv"
	"strings"
)

// value kinds of rules
const (
	bkName    = iota // a type name in quotes: type, additionalProperties, allOf, or items
	bkRegex          // a pattern in quotes
	bkNum            // a number
	bkBool           // true / false
	bkList           // a list of names: allOf, or
	bkLits           // a list of literals: enum
	bkEnumRef        // @name of an enum rule
	bkCount
)

var boundaryPool = [bkCount][]string{
	bkName: {`""`, `" "`, `"@"`, `"#"`, `"|"`, `"a"`, `"@a"`, `"@k"`, `"@ "`, `" @a"`, `"@a "`, `"@@"`, `"@a|"`, `"|@a"`, `"@a | "`, `" | "`, `"@a|@b"`,
		`"@a"`, `"a"`, `"@a"`, `"\n"`, `"\""`, `"\\"`, `"@\""`, `"é"`, `"@é"`, `"\u0000"`, `"integer "`, `" integer"`, `"Integer"`, `"@zz"`,
		`"any"`, `"mixed"`, `"enum"`, `"null"`, `"object"`, `"array"`, `"0"`, `"-"`, `"."`, `"/"`, `"//"`, `"{"`, `"}"`, `"["`, `","`, `":"`, `"*/"`},
	bkRegex: {`""`, `" "`, `"@"`, `"#"`, `"a"`, `"."`, `"^"`, `"$"`, `"^$"`, `"|"`, `"()"`, `"[]"`, `"("`, `"["`, `"*"`, `"?"`, `"{"`, `"\\"`, `"\\\\"`, `"\/"`, `"/"`,
		`"//"`, `"/a/"`, `"\n"`, `"\u0000"`, `"a"`, `"a{0}"`, `"a{0,0}"`, `"a*"`, `"é"`, `"\""`, `"(?i)"`, `".{1000}"`, `"\\d"`, `"\\"`},
	bkNum: {`0`, `-0`, `0.0`, `-0.0`, `1e0`, `0e0`, `-0e0`, `0E-0`, `1`, `-1`, `1.0`, `0.1`, `1e1`, `1E+1`, `1e-1`, `10e-1`, `0.10`, `100e-2`,
		`255`, `256`, `65535`, `65536`, `2147483647`, `2147483648`, `-2147483649`, `4294967295`, `4294967296`, `9223372036854775807`, `9223372036854775808`,
		`-9223372036854775808`, `-9223372036854775809`, `18446744073709551615`, `18446744073709551616`, `1e19`, `1e20`, `1e308`, `1e309`, `1e400`, `-1e400`,
		`1e-400`, `1e9999999999`, `1e-9999999999`, `0.0000000000000000000000000000000000000001`, `123456789012345678901234567890`,
		`0.5`, `-0.5`, `1.5`, `9999999999999999.9`, `1e`, `1.`, `.1`, `-`, `+1`, `00`, `01`, `0x1`, `"0"`, `"1"`},
	bkBool:    {`true`, `false`, `"true"`, `"false"`, `True`, `TRUE`, `0`, `1`, `null`, `""`, `t`, `tru`, `truee`},
	bkList:    {`[]`, `[ ]`, `[""]`, `[" "]`, `["@"]`, `["#"]`, `["a"]`, `["@a"]`, `["@a", "@a"]`, `["@a", ""]`, `[[]]`, `[[""]]`, `[{}]`, `[null]`, `[0]`, `[@a]`, `["@a"]`, `["@zz"]`, `[,]`, `["@a",]`, `[{type: ""}]`, `[{type: "@"}]`, `[{}, {}]`, `[{type: "integer"}]`, `["integer"]`, `["integer", "integer"]`, `["any"]`, `["mixed"]`, `["enum"]`, `["@a | @b"]`},
	bkLits:    {`[]`, `[ ]`, `[""]`, `[" "]`, `["@"]`, `["#"]`, `[0]`, `[-0]`, `[0.0]`, `[1e0]`, `[0, -0]`, `[0, 0.0]`, `[1, 1.0]`, `[1, 1e0]`, `[null]`, `[null, null]`, `[true]`, `[[]]`, `[{}]`, `[""]`, `["", ""]`, `["\u0000"]`, `["a", "a"]`, `[1e400]`, `[123456789012345678901234567890]`, `[@e]`, `[,]`, `[1,]`, `[\n]`, `[ // c\n]`, `[1 // c\n]`, `[-]`, `["]`},
	bkEnumRef: {`@`, `@e`, `@ `, `@zz`, `@a`, `@k`, `"@e"`, `""`, `"@"`, `@@`, `@e e`, `@e|@e`, `@é`, `@0`, `@-`, `@_`, `@e1`, `0`, `null`},
}

// values of another syntactic shape, valid for no rule kind in particular
var boundaryForeign = []string{`null`, `{}`, `[]`, `{a: 1}`, `{"": ""}`, `{type: ""}`, `@`, `@a`, `a`, `-`, ``, ` `, `""`, `''`, `'a'`, `"a" "b"`, `[[[[[[[[]]]]]]]]`}

type bRule struct {
	name string
	kind int
	val  string
}

func (r bRule) String() string { return r.name + ": " + r.val }

// bNode: a node kind with a value and the rules it admits, with sensible values.
type bNode struct {
	kind  string
	value string
	rules []bRule
}

var bTypedStrings = map[string]string{"email": "x@y.z", "date": "2020-02-29", "datetime": "2021-01-01T10:00:00+03:00",
	"uuid": "550e8400-e29b-41d4-a716-446655440000", "uri": "http://a.b/c"}

func (g *gen) orList() string {
	items := []string{`"integer"`, `"string"`, `"@a"`, `"@b"`, `{type: "integer", min: 0}`, `{type: "string", minLength: 1}`, `{type: "@a"}`, `{min: 1}`, `{type: "array"}`, `{type: "object"}`, `{enum: [1, "a"]}`, `{type: "enum", enum: @e}`, `"null"`, `"boolean"`, `"float"`}
	n := 2 + g.r.Intn(2)
	out := make([]string, n)
	for i := range out {
		out[i] = items[g.r.Intn(len(items))]
	}
	return "[" + strings.Join(out, ", ") + "]"
}

// bnode returns a node of a random kind with ALL the rules the kind admits (the caller keeps a subset).
func (g *gen) bnode() bNode {
	common := []bRule{{"nullable", bkBool, g.pick("true", "false")}}
	scalar := append([]bRule{{"const", bkBool, g.pick("true", "false")}}, common...)
	switch g.r.Intn(12) {
	case 0, 1:
		n := g.r.Intn(200) - 20
		return bNode{"int", strconv.Itoa(n), append([]bRule{{"type", bkName, `"integer"`}, {"min", bkNum, strconv.Itoa(n - g.r.Intn(3))}, {"max", bkNum, strconv.Itoa(n + g.r.Intn(3))},
			{"exclusiveMinimum", bkBool, "false"}, {"exclusiveMaximum", bkBool, "false"}}, scalar...)}
	case 2:
		v := g.pick("1.5", "0.25", "-3.75", "12.0", "0.0")
		return bNode{"float", v, append([]bRule{{"type", bkName, g.pick(`"float"`, `"decimal"`)}, {"precision", bkNum, strconv.Itoa(1 + g.r.Intn(3))}, {"min", bkNum, "-10"}, {"max", bkNum, "1e3"},
			{"exclusiveMaximum", bkBool, "true"}}, scalar...)}
	case 3, 4:
		s := g.pick("abc", "a", "", "kk", "é")
		return bNode{"str", `"` + s + `"`, append([]bRule{{"type", bkName, `"string"`}, {"minLength", bkNum, "0"}, {"maxLength", bkNum, strconv.Itoa(5 + g.r.Intn(3))}, {"regex", bkRegex, `"^.*$"`}}, scalar...)}
	case 5:
		t := g.pick("email", "date", "datetime", "uuid", "uri")
		return bNode{"typed", `"` + bTypedStrings[t] + `"`, append([]bRule{{"type", bkName, `"` + t + `"`}}, scalar...)}
	case 6:
		if g.r.Intn(2) == 0 {
			return bNode{"bool", g.pick("true", "false"), append([]bRule{{"type", bkName, `"boolean"`}}, scalar...)}
		}
		return bNode{"null", "null", append([]bRule{{"type", bkName, g.pick(`"null"`, `"any"`)}}, scalar...)}
	case 7:
		v := g.pick("1", `"a"`, "true", "null", "1.5")
		return bNode{"enum", v, append([]bRule{{"enum", bkLits, `[1, "a", true, null, 1.5]`}}, common...)}
	case 8:
		v := g.pick("1", "2")
		rs := []bRule{{"enum", bkEnumRef, "@e"}}
		if g.r.Intn(2) == 0 {
			rs = append(rs, bRule{"type", bkName, `"enum"`})
		}
		return bNode{"enumref", v, append(rs, common...)}
	case 9:
		v := g.pick("1", `"a"`, "[]", "{}", "@a", "@a | @b")
		rs := []bRule{{"or", bkList, g.orList()}}
		if g.r.Intn(2) == 0 {
			rs = append(rs, bRule{"type", bkName, `"mixed"`})
		}
		return bNode{"or", v, append(rs, common...)}
	case 10:
		v := g.pick("@a", "@b", "@o", "@k", "@a | @b", "@a|@o", "@zz")
		return bNode{"ref", v, append([]bRule{{"type", bkName, g.pick(`"mixed"`, `"@a"`)}}, common...)}
	}
	return bNode{"any", g.pick("1", `"a"`, "null", "[]", "{}"), append([]bRule{{"type", bkName, g.pick(`"any"`, `"@a"`, `"@b"`, `"@o"`)}}, common...)}
}

func (g *gen) bobj() []bRule {
	return []bRule{{"type", bkName, `"object"`}, {"additionalProperties", bkName, g.pick(`"any"`, `"string"`, `"integer"`, `"@a"`, `"@o"`)},
		{"additionalProperties", bkBool, g.pick("true", "false")}, {"allOf", bkName, g.pick(`"@o"`, `"@a"`)}, {"allOf", bkList, g.pick(`["@o"]`, `["@o", "@b"]`)},
		{"nullable", bkBool, g.pick("true", "false")}}
}

func (g *gen) barr() []bRule {
	return []bRule{{"type", bkName, `"array"`}, {"minItems", bkNum, "0"}, {"maxItems", bkNum, strconv.Itoa(3 + g.r.Intn(3))}, {"nullable", bkBool, g.pick("true", "false")}}
}

// subset keeps each rule with probability 1/2 (at least one; one rule per name), in a random order.
func (g *gen) subset(all []bRule) []bRule {
	var rs []bRule
	seen := map[string]bool{}
	for _, k := range g.r.Perm(len(all)) {
		if !seen[all[k].name] && g.r.Intn(2) == 0 {
			seen[all[k].name] = true
			rs = append(rs, all[k])
		}
	}
	if len(rs) == 0 {
		rs = append(rs, all[g.r.Intn(len(all))])
	}
	return rs
}

// boundaryValue: a boundary value for a rule of the kind (three in four from the kind's own pool).
func (g *gen) boundaryValue(kind int) string {
	switch x := g.r.Intn(16); {
	case x < 12:
	case x < 14:
		kind = g.r.Intn(bkCount)
	default:
		return boundaryForeign[g.r.Intn(len(boundaryForeign))]
	}
	p := boundaryPool[kind]
	return p[g.r.Intn(len(p))]
}

// bannot renders the rules inline or on several lines.
func (g *gen) bannot(rs []bRule) string {
	if len(rs) == 0 {
		return ""
	}
	ss := make([]string, len(rs))
	q := g.r.Intn(8) == 0 // rule names in quotes
	for i, r := range rs {
		ss[i] = r.String()
		if q {
			ss[i] = `"` + r.name + `": ` + r.val
		}
	}
	switch g.r.Intn(8) {
	case 0:
		return " /* {" + strings.Join(ss, ", ") + "} */"
	case 1:
		return " /* {\n   " + strings.Join(ss, ",\n   ") + "\n } */"
	case 2:
		return " /*\n {" + strings.Join(ss, ",\n  ") + "}\n - note\n*/"
	case 3:
		return " //{" + strings.Join(ss, ",") + "}"
	case 4:
		return " // {" + strings.Join(ss, " , ") + "} - note"
	}
	return " // {" + strings.Join(ss, ", ") + "}"
}

// genBoundary writes one schema; exactly one rule value of it (the `hot` one) is a boundary value.
func genBoundary(r *rand.Rand) string {
	g := &gen{r: r}
	// the node that carries the hot rule: a leaf, an object or an array
	var value string
	var all []bRule
	container := ""
	switch r.Intn(6) {
	case 0:
		all, container = g.bobj(), "obj"
	case 1:
		all, container = g.barr(), "arr"
	default:
		n := g.bnode()
		value, all = n.value, n.rules
	}
	place := r.Intn(6) // 0,1 top level; 2 property; 3 item; 4 nested property of an item; 5 inside an or item
	if place == 2 || place == 4 {
		all = append(all, bRule{"optional", bkBool, g.pick("true", "false")})
	}
	rs := g.subset(all)
	hot := r.Intn(len(rs))
	rs[hot].val = g.boundaryValue(rs[hot].kind)
	if r.Intn(10) == 0 { // the same rule twice: the ordinary value and the boundary one
		for _, a := range all {
			if a.name == rs[hot].name {
				rs = append(rs, a)
				break
			}
		}
	}
	ann := g.bannot(rs)

	other := func(after string) string { // an ordinary sibling
		n := g.bnode()
		return n.value + after + g.bannot(g.subset(n.rules)[:1])
	}
	node := func(ind, after string) string {
		switch container {
		case "obj":
			s := "{" + ann + "\n"
			if r.Intn(2) == 0 {
				s += ind + "  " + g.pick(`"o"`, `"q"`, `"a"`, "@k", "@a") + ": " + other("") + "\n"
			}
			return s + ind + "}" + after
		case "arr":
			s := "[" + ann + "\n"
			if r.Intn(2) == 0 {
				s += ind + "  " + other("") + "\n"
			}
			return s + ind + "]" + after
		}
		return value + after + ann
	}
	key := func() string {
		if r.Intn(10) == 0 { // a boundary spelling of the property name / the key shortcut
			return g.pick(`""`, `" "`, `"@"`, `"#"`, `"@a"`, `"a"`, `"\n"`, `"\""`, "@", "@a", "@k", "@zz", "@ ", `"a"`, `"//"`, `"*/"`)
		}
		return g.pick(`"a"`, `"b"`, `"o"`, `"id"`, `"kk"`, "@k")
	}
	var sb strings.Builder
	switch place {
	case 0, 1:
		sb.WriteString(node("", ""))
	case 2:
		sb.WriteString("{\n")
		if r.Intn(2) == 0 {
			sb.WriteString("  \"p\": " + other(",") + "\n")
		}
		last := r.Intn(2) == 0
		c := ","
		if last {
			c = ""
		}
		sb.WriteString("  " + key() + g.pick(": ", ":", " : ") + node("  ", c) + "\n")
		if !last {
			sb.WriteString("  \"z\": " + other("") + "\n")
		}
		sb.WriteString("}")
	case 3:
		sb.WriteString("[" + g.pick("", " // {minItems: 0}", " # c") + "\n")
		last := r.Intn(2) == 0
		c := ","
		if last {
			c = ""
		}
		sb.WriteString("  " + node("  ", c) + "\n")
		if !last {
			sb.WriteString("  " + other("") + "\n")
		}
		sb.WriteString("]")
	case 4:
		sb.WriteString("[\n  {\n    " + key() + ": " + node("    ", "") + "\n  }\n]")
	default: // the rules of an item object of an `or` rule (objects of rules do not nest comments)
		ss := make([]string, len(rs))
		for i, x := range rs {
			ss[i] = x.String()
		}
		v := value
		if container == "obj" {
			v = "{}"
		} else if container == "arr" {
			v = "[]"
		}
		item := "{" + strings.Join(ss, ", ") + "}"
		list := []string{item, g.pick(`"string"`, `"@a"`, `{type: "integer"}`, `"null"`)}
		if r.Intn(2) == 0 {
			list[0], list[1] = list[1], list[0]
		}
		sb.WriteString(v + " // {or: [" + strings.Join(list, ", ") + "]}")
	}
	if r.Intn(12) == 0 {
		sb.WriteString(g.pick("\n", " ", "\n# tail"))
	}
	return sb.String()
}

// genBoundaryEnum: the text of an enum rule with a boundary item / boundary list.
func genBoundaryEnum(r *rand.Rand) string {
	g := &gen{r: r}
	if r.Intn(3) == 0 {
		return g.boundaryValue(bkLits) + g.pick("", "", " // c", "\n")
	}
	items := []string{`1`, `"a"`, `true`}
	lit := []string{`""`, `" "`, `"@"`, `"#"`, `0`, `-0`, `0.0`, `1e0`, `-0.0`, `1.0`, `"a"`, `"\n"`, `null`, `1e400`, `123456789012345678901234567890`, `[]`, `{}`, `@e`, `"1"`, `1`, `"a"`}
	items[r.Intn(len(items))] = lit[r.Intn(len(lit))]
	sep := g.pick(",", ", ", ", // c\n ", ",\n")
	return "[" + strings.Join(items, sep) + "]" + g.pick("", "", " // c", "\n")
}

// genBoundaryDoc: a document at the boundaries of the JSON value kinds.
func genBoundaryDoc(r *rand.Rand) string {
	g := &gen{r: r}
	v := g.pick(`""`, `" "`, `"@"`, `"#"`, `0`, `-0`, `0.0`, `-0.0`, `1e0`, `0e0`, `1`, `-1`, `1e400`, `1e-400`, `9223372036854775808`, `18446744073709551616`,
		`123456789012345678901234567890`, `[]`, `[[]]`, `[""]`, `{}`, `{"":""}`, `{"":{}}`, `{"@":1}`, `{" ":1}`, `null`, `true`, `false`, `"\u0000"`, `"a"`, `"a"`, `"abc"`, `2`, `1.5`)
	switch r.Intn(6) {
	case 0:
		return "[" + v + "]"
	case 1:
		return `{"a": ` + v + `}`
	case 2:
		return `[{"a": ` + v + `}]`
	}
	return v
}
