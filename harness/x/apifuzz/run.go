package apifuzz

// The command. Iterations run in child processes (re-exec of this binary with
// the hidden sub-command `api-fuzz-child`): a fatal runtime error of the
// library — stack overflow, concurrent map access, out of memory — cannot be
// recovered in-process, but it kills only the child; the parent then replays
// the iteration that was running alone, records a property-level diff with its
// inputs (Impl "FATAL: …") and re-schedules the rest of the child's range.

import (
	"bytes"
	"context"
	"crypto/sha1"
	"encoding/json"
	"fmt"
	"math/rand"
	"os"
	"os/exec"
	"path/filepath"
	"runtime/debug"
	"sort"
	"strconv"
	"strings"
	"sync"
	"time"

	"verifharness/vh"
)

const childMaxStack = 128 << 20 // a runaway recursion ends in a fraction of a second instead of at 1 GB

type options struct {
	n        int64
	src      string
	replay   int64
	show     string
	from, to int64
	pass     []string // arguments handed on to the children
}

func parseArgs(args []string) (*config, *options) {
	cfg := &config{seed: vh.Seed(), maxLen: vh.Pick(600, 4096), truncAll: vh.Tier() == "thorough"}
	o := &options{n: boundaryBase() + int64(vh.Pick(7000, 200000)), src: vh.RepoRoot(), replay: -1}
	for _, a := range args {
		switch {
		case strings.HasPrefix(a, "iter="):
			o.replay, _ = strconv.ParseInt(a[5:], 10, 64)
		case strings.HasPrefix(a, "n="):
			o.n, _ = strconv.ParseInt(a[2:], 10, 64)
		case strings.HasPrefix(a, "from="):
			o.from, _ = strconv.ParseInt(a[5:], 10, 64)
		case strings.HasPrefix(a, "to="):
			o.to, _ = strconv.ParseInt(a[3:], 10, 64)
		case a == "trace=1":
			cfg.trace = true
		case strings.HasPrefix(a, "src="):
			o.src = a[4:]
			o.pass = append(o.pass, a)
		case strings.HasPrefix(a, "selftest="):
			cfg.selftest = a[9:]
			o.pass = append(o.pass, a)
		case strings.HasPrefix(a, "show="): // log up to 5 unclassified diffs whose Impl contains the text
			o.show = a[5:]
		}
	}
	cfg.corpus = loadCorpus(o.src, cfg.maxLen)
	gr := rand.New(rand.NewSource(cfg.seed*7919 + 5))
	for i := 0; i < vh.Pick(40, 400); i++ {
		cfg.generated = append(cfg.generated, genSchema(gr, 25))
	}
	cfg.trunc = buildTruncCases(cfg.corpus, cfg.generated)
	if cfg.truncAll && o.n < int64(len(cfg.trunc)) {
		o.n = int64(len(cfg.trunc))
	}
	return cfg, o
}

// childResult is what a child prints as its last line ("RESULT {json}").
type childResult struct {
	From, To     int64
	Next         int64 // first iteration not done (== To unless the child stopped at a timeout)
	Stats        map[string]int
	Unclassified []vh.Diff
	Classified   []vh.Diff // at most 6 per class
	ClassCount   map[string]int
	Calls, Errs  int64
	Keys         []string // hash of the canonical text of every evaluated case
	Nontrivial   string   // '0'/'1' per case
	Samples      []string
}

func newChildResult(from, to int64) *childResult {
	return &childResult{From: from, To: to, Next: from, Stats: map[string]int{}, ClassCount: map[string]int{}}
}

func (cr *childResult) addDiff(d vh.Diff) {
	if d.Class == "" {
		cr.Unclassified = append(cr.Unclassified, d)
		return
	}
	cr.ClassCount[d.Class]++
	if cr.ClassCount[d.Class] <= 6 {
		cr.Classified = append(cr.Classified, d)
	}
}

func (cr *childResult) add(res *result) {
	h := sha1.Sum([]byte(res.key))
	cr.Keys = append(cr.Keys, vh.Hex(h[:8]))
	if res.errs > 0 {
		cr.Nontrivial += "1"
	} else {
		cr.Nontrivial += "0"
	}
	if len(cr.Samples) < 2 && res.errs > 0 {
		cr.Samples = append(cr.Samples, short(res.key, 300))
	}
	for _, s := range res.stats {
		cr.Stats[s]++
	}
	for _, d := range res.diffs {
		cr.addDiff(d)
	}
	cr.Calls += int64(res.calls)
	cr.Errs += int64(res.errs)
}

// RunChild is the hidden sub-command `api-fuzz-child from=<a> to=<b> [trace=1]`: runs the iterations
// of the range one after the other, prints "B <n>" before each and "RESULT {json}" at the end.
func RunChild(args []string) {
	debug.SetMaxStack(childMaxStack)
	cfg, o := parseArgs(args)
	cr := newChildResult(o.from, o.to)
	var mu sync.Mutex // guards cr
	w := &worker{}
	emit := func() {
		b, _ := json.Marshal(cr)
		os.Stdout.WriteString("RESULT " + string(b) + "\n")
	}
	go func() { // the deadline: a hung call cannot be killed, so report what is done and leave
		for {
			time.Sleep(50 * time.Millisecond)
			w.mu.Lock()
			hung := w.active && time.Since(w.start) > callDeadline
			input, method := w.input, w.method
			w.mu.Unlock()
			if hung {
				mu.Lock()
				cr.addDiff(vh.Diff{Component: component, Input: input + " method=" + method, Impl: "TIMEOUT", Model: fmt.Sprintf("the call returns within %v", callDeadline)})
				cr.Next++ // skip the hanging iteration
				emit()
				os.Exit(0)
			}
		}
	}()
	for it := o.from; it < o.to; it++ {
		os.Stdout.WriteString("B " + strconv.FormatInt(it, 10) + "\n")
		res := runIter(it, cfg, w)
		mu.Lock()
		cr.add(res)
		cr.Next = it + 1
		mu.Unlock()
	}
	mu.Lock()
	emit()
	os.Exit(0)
}

type childRun struct {
	res    *childResult
	lastB  int64  // last iteration begun (-1: none)
	lastM  string // last method begun (trace mode)
	stderr string
	err    error
}

func runChild(exe string, o *options, from, to int64, trace bool) childRun {
	args := append([]string{"api-fuzz-child", fmt.Sprintf("from=%d", from), fmt.Sprintf("to=%d", to)}, o.pass...)
	if trace {
		args = append(args, "trace=1")
	}
	ctx, cancel := context.WithTimeout(context.Background(), 15*time.Minute)
	defer cancel()
	cmd := exec.CommandContext(ctx, exe, args...)
	var out bytes.Buffer
	errBuf := &tailBuffer{max: 1 << 20}
	cmd.Stdout, cmd.Stderr = &out, errBuf
	err := cmd.Run()
	cr := childRun{lastB: -1, err: err, stderr: errBuf.String()}
	for _, l := range strings.Split(out.String(), "\n") {
		switch {
		case strings.HasPrefix(l, "B "):
			cr.lastB, _ = strconv.ParseInt(l[2:], 10, 64)
		case strings.HasPrefix(l, "M "):
			cr.lastM = l[2:]
		case strings.HasPrefix(l, "RESULT "):
			var r childResult
			if json.Unmarshal([]byte(l[7:]), &r) == nil {
				cr.res = &r
			}
		}
	}
	return cr
}

// tailBuffer keeps the first max bytes written to it (the head of a fatal error's report is what matters).
type tailBuffer struct {
	mu  sync.Mutex
	buf []byte
	max int
}

func (t *tailBuffer) Write(p []byte) (int, error) {
	t.mu.Lock()
	defer t.mu.Unlock()
	if room := t.max - len(t.buf); room > 0 {
		if len(p) < room {
			room = len(p)
		}
		t.buf = append(t.buf, p[:room]...)
	}
	return len(p), nil
}

func (t *tailBuffer) String() string { t.mu.Lock(); defer t.mu.Unlock(); return string(t.buf) }

// fatalSummary extracts the kind of a fatal runtime error and the library frames from a child's stderr.
func fatalSummary(stderr string) (kind, frames string) {
	lines := strings.Split(stderr, "\n")
	for _, l := range lines {
		if strings.HasPrefix(l, "fatal error: ") {
			kind = strings.TrimPrefix(l, "fatal error: ")
			break
		}
		if strings.HasPrefix(l, "panic: ") && kind == "" {
			kind = l
		}
	}
	if kind == "" {
		kind = "process died: " + short(strings.TrimSpace(stderr), 200)
	}
	var fs []string
	seen := map[string]bool{}
	for i := 0; i+1 < len(lines) && len(fs) < 8; i++ {
		if strings.Contains(lines[i], "jsight-schema-go-library") && strings.HasPrefix(lines[i+1], "\t") {
			f := lines[i]
			if j := strings.LastIndexByte(f, '('); j > 0 {
				f = f[:j]
			}
			loc := strings.TrimSpace(lines[i+1])
			if j := strings.IndexByte(loc, ' '); j > 0 {
				loc = loc[:j]
			}
			if !seen[f+loc] {
				seen[f+loc] = true
				fs = append(fs, f+" @ "+loc)
			}
		}
	}
	return kind, strings.Join(fs, "\n")
}

type task struct{ from, to int64 }

// Run is the `api-fuzz` command.
func Run(args []string) {
	cfg, o := parseArgs(args)
	rep := vh.NewReport("api-fuzz", fmt.Sprintf("root schema, 0-3 added user types (+ fixed @k, optionally the regex type as @rg), enum rule, regex type, JSON document, each under its own file name (the empty name included); streams: byte-level mutation of %d embedded seeds (1-3 edits: truncate/insert/delete/replace over a %d-byte alphabet), grammar-aware generated schemas (rules, annotations, comments, shortcuts, key shortcuts, allOf between objects and added types with shared key pools, or-types referring to each other; schema's own example as document), truncation at every offset of the seeds/%d generated schemas/%d corpus sets of %s/testdata (%d cases; all of them in the thorough tier), corpus sets with mutations, large inputs up to %d bytes, and (the last 7000 iterations; 200000 in the thorough tier) well-formed annotated schemas of every node kind and placement - top level, property, item, nested, item object of an or rule; inline and multi-line annotation - in which ONE rule value is a boundary value of its kind (names: empty, blank, \"@\", \"#\", one byte, escapes, unions with an empty side; numbers: 0, -0, 0.0, 1e0, range neighbours, huge, tiny; lists: [], [\"\"], [[]]; booleans: both and their quoted spellings; enum references: @, unknown; a value of another kind), likewise in an added type, in the text of the enum rule and in the document, boundary spellings of property names / key shortcuts; regex types with one special atom (a control character, DEL, an invalid UTF-8 byte or a non-printable rune, which Go's %%q spells unlike JSON, quantified so that the example may omit it) in one iteration of six; every public method of jschema.Schema, regex.Schema, enum.Enum, json.Document under recover and a %v deadline; every error also through kit.ConvertError for the caller holding the root file, the file the error names and one more source in turn: the result names the caller's file or a source with the position inside it, and a result presenting the positioned error keeps that error's file and position; in child processes so that a fatal runtime error is attributed to its iteration; per-iteration PRNG from (VERIF_SEED, iteration)", len(rootSeeds)+len(typeSeeds)+len(enumSeeds)+len(regexSeeds)+len(docSeeds), len(alphabet), len(cfg.generated), len(cfg.corpus), o.src, len(cfg.trunc), cfg.maxLen, callDeadline))
	rep.Extra["corpus_sets"] = strconv.Itoa(len(cfg.corpus))
	rep.Extra["trunc_cases"] = strconv.Itoa(len(cfg.trunc))
	if len(cfg.corpus) == 0 {
		fmt.Println("api-fuzz: WARNING no corpus found under", filepath.Join(o.src, "testdata"))
	}

	if o.replay >= 0 { // one iteration, in this process, verbosely
		debug.SetMaxStack(childMaxStack)
		cfg.trace = true
		w := &worker{}
		in, _ := cfg.makeInputs(o.replay)
		fmt.Println("INPUT", in.dump())
		res := runIter(o.replay, cfg, w)
		sort.Strings(res.stats)
		fmt.Println("STATS", strings.Join(res.stats, " "))
		for _, d := range res.diffs {
			fmt.Printf("DIFF class=%q method/input=%s\n  impl=%s\n  model=%s\n", d.Class, d.Input, d.Impl, d.Model)
			rep.AddDiff(d)
		}
		rep.Case(res.key, true)
		rep.Finish()
		return
	}

	exe, err := os.Executable()
	if err != nil {
		rep.AddDiff(vh.Diff{Component: component, Impl: "cannot find the own executable: " + err.Error()})
		rep.Finish()
		return
	}
	const nprocs = 16
	chunk := int64(vh.Pick(1000, 5000))
	budget := time.Duration(vh.Pick(25, 540)) * time.Second
	started := time.Now()

	var (
		mu           sync.Mutex // guards everything below
		queue        []task
		pending      int // tasks queued or running
		unclassified []vh.Diff
		classified   []vh.Diff
		classCount   = map[string]int{}
		calls, errs  int64
		samples      []string
		fatals       int
		shown        int
		stopped      bool
	)
	cond := sync.NewCond(&mu)
	for a := int64(0); a < o.n; a += chunk {
		b := a + chunk
		if b > o.n {
			b = o.n
		}
		queue = append(queue, task{a, b})
	}
	pending = len(queue)
	push := func(t task) { // mu held
		if t.from < t.to {
			queue = append(queue, t)
			pending++
		}
	}
	merge := func(r *childResult) { // mu held
		for i, k := range r.Keys {
			rep.Case(k, i < len(r.Nontrivial) && r.Nontrivial[i] == '1')
		}
		for k, v := range r.Stats {
			rep.Stats[k] += v
		}
		for _, d := range r.Unclassified {
			unclassified = append(unclassified, d)
			if o.show != "" && shown < 5 && strings.Contains(d.Impl, o.show) {
				shown++
				fmt.Printf("SHOW %s\n  impl=%s\n", d.Input, d.Impl)
			}
		}
		seenHere := map[string]int{}
		for _, d := range r.Classified {
			seenHere[d.Class]++
			if classCount[d.Class]+seenHere[d.Class] <= 6 {
				classified = append(classified, d)
			}
		}
		for c, n := range r.ClassCount {
			classCount[c] += n
		}
		calls += r.Calls
		errs += r.Errs
		if len(samples) < 6 {
			samples = append(samples, r.Samples...)
		}
	}
	var wg sync.WaitGroup
	for p := 0; p < nprocs; p++ {
		wg.Add(1)
		go func() {
			defer wg.Done()
			for {
				mu.Lock()
				for len(queue) == 0 && pending > 0 && !stopped {
					cond.Wait()
				}
				if len(queue) == 0 || stopped {
					mu.Unlock()
					cond.Broadcast()
					return
				}
				if time.Since(started) > budget {
					stopped = true
					rep.Extra["stopped_by_time_budget_before_iteration"] = strconv.FormatInt(queue[0].from, 10)
					mu.Unlock()
					cond.Broadcast()
					return
				}
				t := queue[0]
				queue = queue[1:]
				mu.Unlock()

				cr := runChild(exe, o, t.from, t.to, false)

				mu.Lock()
				switch {
				case cr.res != nil: // finished, or stopped at a timeout
					merge(cr.res)
					push(task{cr.res.Next, t.to})
				case cr.lastB < 0:
					unclassified = append(unclassified, vh.Diff{Component: component, Input: fmt.Sprintf("child for iterations %d..%d", t.from, t.to), Impl: fmt.Sprintf("child process produced nothing: %v; %s", cr.err, short(cr.stderr, 500)), Model: "the harness's own child process runs"})
				default: // the child died while iteration lastB was running
					k := cr.lastB
					fatals++
					mu.Unlock()
					solo := runChild(exe, o, k, k+1, true)
					in, _ := cfg.makeInputs(k)
					mu.Lock()
					if solo.res != nil {
						merge(solo.res)
						kind, _ := fatalSummary(cr.stderr)
						unclassified = append(unclassified, vh.Diff{Component: component, Input: in.dump(), Impl: "FATAL (in a batch of iterations only; alone the iteration passes): " + kind, Model: "no fatal runtime error", Note: short(cr.stderr, 1500)})
					} else {
						kind, frames := fatalSummary(solo.stderr)
						unclassified = append(unclassified, vh.Diff{Component: component, Input: in.dump() + " method=" + solo.lastM, Impl: "FATAL: " + kind + "\n" + frames, Model: "no fatal runtime error: the call returns a library error or nil", Note: "the process dies; replay alone with: vh api-fuzz iter=" + strconv.FormatInt(k, 10)})
						rep.Stat("fatal:" + solo.lastM + ": " + kind)
					}
					if fatals <= 40 {
						push(task{t.from, k})
						push(task{k + 1, t.to})
					} else {
						rep.Extra["aborted"] = "more than 40 fatal errors; the remaining iterations of the affected ranges were not run"
					}
				}
				pending--
				mu.Unlock()
				cond.Broadcast()
			}
		}()
	}
	wg.Wait()

	for _, d := range unclassified {
		rep.AddDiff(d)
	}
	for _, d := range classified {
		rep.AddDiff(d)
	}
	var classes []string
	for c := range classCount {
		classes = append(classes, c)
	}
	sort.Strings(classes)
	for _, c := range classes {
		n := classCount[c]
		rep.Stats["diffs_class:"+c] = n
		stored := 0
		for _, d := range classified {
			if d.Class == c {
				stored++
			}
		}
		for i := stored; i < n; i++ { // counted, not stored
			rep.AddDiff(vh.Diff{Component: component, Class: c, Impl: "(further diffs of this class)"})
		}
	}
	rep.Stats["diffs_unclassified"] = len(unclassified)
	rep.Stats["fatal_errors"] = fatals
	rep.Stats["calls_total"] = int(calls)
	rep.Stats["errors_checked_total"] = int(errs)
	if len(samples) > 6 {
		samples = samples[:6]
	}
	rep.Samples = samples
	rep.Finish()
}
