// Package apifuzz: property C07, part 4 — every public method of every public
// object of the library is called on byte strings obtained by byte-level and
// grammar-aware mutation of valid inputs; each call runs under recover and a
// deadline. Violations are reported as vh.Diff with Component "C07-api".
//
// Replay of one iteration: `vh api-fuzz iter=<n>` (same VERIF_SEED / VERIF_TIER);
// `n=<count>` overrides the number of iterations, `src=<dir>` the source root
// whose testdata/ directory is used as an additional corpus (default /repo);
// `selftest=hang` / `selftest=panic` / `selftest=overflow` plant a hanging /
// panicking / stack-overflowing call into iteration 3 to check the deadline,
// recover and child-process plumbing of the command itself.
//
// Iterations run in child processes (see run.go), so a fatal runtime error
// (stack overflow) is attributed to its iteration and reported as a diff.
package apifuzz

import (
	stderrors "errors"
	"fmt"
	"io"
	"math/rand"
	"os"
	"path/filepath"
	"regexp"
	"runtime"
	"runtime/debug"
	"sort"
	"strconv"
	"strings"
	"sync"
	"time"

	jlib "github.com/jsightapi/jsight-schema-go-library"
	liberrors "github.com/jsightapi/jsight-schema-go-library/errors"
	jdoc "github.com/jsightapi/jsight-schema-go-library/formats/json"
	"github.com/jsightapi/jsight-schema-go-library/fs"
	"github.com/jsightapi/jsight-schema-go-library/kit"
	"github.com/jsightapi/jsight-schema-go-library/notations/jschema"
	"github.com/jsightapi/jsight-schema-go-library/notations/regex"
	"github.com/jsightapi/jsight-schema-go-library/rules/enum"

	"verifharness/vh"
)

const (
	component    = "C07-api"
	callDeadline = 5 * time.Second
	fixedKType   = `"kk" // {regex: "k+"}`
)

// namedSrc: a named source; file is the name of its fs.File (by default the type / rule name itself).
type namedSrc struct{ name, text, file string }

// inputs is everything one iteration feeds to the library.
type inputs struct {
	it           int64
	stream       string
	root         string
	rootFile     string     // file name of the root schema ("" is what most callers pass)
	types        []namedSrc // added user types
	enumName     string
	enumFile     string
	enum         string
	regex        string
	doc          string
	keysOpt      bool  // jschema.KeysAreOptionalByDefault()
	fromFile     bool  // FromFile(fs.NewFile(name, []byte)) instead of New(name, string)
	trailing     bool  // json.AllowTrailingNonSpaceCharacters()
	regexType    bool  // the regex schema is added as type @rg
	regexSpecial bool  // the regex text got a special atom (addSpecialAtom)
	misuse       bool  // API misuse calls (nil arguments, AddRule after compilation, foreign Document)
	nested       bool  // the first added type gets the other types added to itself first
	dupType      bool  // the first type is added twice
	order        []int // order of the root schema's methods

	useExample bool // the document is the schema's own example (doc holds a placeholder until then)
}

// key is the canonical text of the case (without the iteration number).
func (in *inputs) key() string {
	var sb strings.Builder
	fmt.Fprintf(&sb, "stream=%s root[file %q]=%q", in.stream, in.rootFile, in.root)
	for _, t := range in.types {
		fmt.Fprintf(&sb, " type %s[file %q]=%q", t.name, t.file, t.text)
	}
	fmt.Fprintf(&sb, " enum %s[file %q]=%q regex=%q doc=%q", in.enumName, in.enumFile, in.enum, in.regex, in.doc)
	fmt.Fprintf(&sb, " opts[keysOpt=%v fromFile=%v trailing=%v regexType=%v misuse=%v nested=%v dupType=%v order=%v]",
		in.keysOpt, in.fromFile, in.trailing, in.regexType, in.misuse, in.nested, in.dupType, in.order)
	return sb.String()
}

func (in *inputs) dump() string { return fmt.Sprintf("it=%d ", in.it) + in.key() }

// ---- corpus ----

type corpusSet struct {
	dir    string
	schema string
	types  []namedSrc
	enums  []namedSrc
	docs   []string
}

// loadCorpus reads <src>/testdata: one set per directory holding a .jschema file.
func loadCorpus(src string, maxLen int) []corpusSet {
	var sets []corpusSet
	byDir := map[string]*corpusSet{}
	var dirs []string
	filepath.WalkDir(filepath.Join(src, "testdata"), func(path string, d os.DirEntry, err error) error {
		if err != nil || d.IsDir() {
			return nil
		}
		ext := filepath.Ext(path)
		if ext != ".jschema" && ext != ".json" && ext != ".type" && ext != ".enum" {
			return nil
		}
		b, err := os.ReadFile(path)
		if err != nil || len(b) > maxLen {
			return nil
		}
		dir := filepath.Dir(path)
		cs, ok := byDir[dir]
		if !ok {
			cs = &corpusSet{dir: dir}
			byDir[dir] = cs
			dirs = append(dirs, dir)
		}
		name := "@" + strings.TrimSuffix(filepath.Base(path), ext)
		switch ext {
		case ".jschema":
			cs.schema = string(b)
		case ".json":
			cs.docs = append(cs.docs, string(b))
		case ".type":
			cs.types = append(cs.types, namedSrc{name: name, text: string(b)})
		case ".enum":
			cs.enums = append(cs.enums, namedSrc{name: name, text: string(b)})
		}
		return nil
	})
	sort.Strings(dirs)
	for _, d := range dirs {
		cs := byDir[d]
		if cs.schema == "" {
			continue
		}
		sets = append(sets, *cs)
	}
	return sets
}

// ---- truncation cases: every offset of every valid seed ----

type truncCase struct {
	slot string // root | type | enum | regex | doc
	set  int    // corpus set (-1: embedded seeds)
	text string
	off  int
}

func buildTruncCases(corpus []corpusSet, generated []string) []truncCase {
	var out []truncCase
	add := func(slot string, set int, text string) {
		for k := 0; k <= len(text); k++ {
			out = append(out, truncCase{slot, set, text, k})
		}
	}
	for _, s := range rootSeeds {
		add("root", -1, s)
	}
	for _, s := range generated {
		add("root", -1, s)
	}
	for _, s := range typeSeeds {
		add("type", -1, s)
	}
	for _, s := range enumSeeds {
		add("enum", -1, s)
	}
	for _, s := range regexSeeds {
		add("regex", -1, s)
	}
	for _, s := range docSeeds {
		add("doc", -1, s)
	}
	for i, cs := range corpus {
		add("root", i, cs.schema)
		for _, t := range cs.types {
			add("type:"+t.name, i, t.text)
		}
		for _, e := range cs.enums {
			add("enum", i, e.text)
		}
	}
	return out
}

// ---- input construction ----

type config struct {
	seed      int64
	maxLen    int // upper bound for every single input
	corpus    []corpusSet
	trunc     []truncCase
	generated []string // schemas generated once per run (truncation corpus)
	truncAll  bool     // iterations 0..len(trunc)-1 enumerate the truncation cases
	trace     bool     // children replaying one iteration print the method names
	selftest  string   // "hang" / "panic": iteration 3 makes a call that never returns / panics (checks the harness itself)
}

func splitmix(x uint64) uint64 {
	x += 0x9E3779B97F4A7C15
	x = (x ^ (x >> 30)) * 0xBF58476D1CE4E5B9
	x = (x ^ (x >> 27)) * 0x94D049BB133111EB
	return x ^ (x >> 31)
}

func iterRand(seed, it int64) *rand.Rand {
	return rand.New(rand.NewSource(int64(splitmix(uint64(seed)*0x2545F4914F6CDD1D+splitmix(uint64(it)+77)) >> 1)))
}

// boundaryBase: the first iteration of the boundary stream (a function of the tier only, so that parent, children
// and a replay agree on it whatever n= says).
func boundaryBase() int64 { return int64(vh.Pick(40000, 1200000)) }

func g0(r *rand.Rand) *gen { return &gen{r: r} }

func defaultTypes() []namedSrc {
	return []namedSrc{{name: "@a", text: `1`}, {name: "@b", text: `"s"`}, {name: "@o", text: `{"o": 1}`}}
}

func (cfg *config) fromCorpus(r *rand.Rand, set int) inputs {
	cs := cfg.corpus[set]
	in := inputs{root: cs.schema, types: append([]namedSrc(nil), cs.types...), enumName: "@e", enum: `[1,2]`, regex: `/a+/`, doc: `1`}
	if len(cs.enums) > 0 {
		e := cs.enums[r.Intn(len(cs.enums))]
		in.enumName, in.enum = e.name, e.text
	}
	if len(cs.docs) > 0 {
		in.doc = cs.docs[r.Intn(len(cs.docs))]
	}
	return in
}

func (cfg *config) applyTrunc(r *rand.Rand, tc truncCase) inputs {
	var in inputs
	if tc.set >= 0 {
		in = cfg.fromCorpus(r, tc.set)
	} else {
		in = inputs{root: "{\n \"id\": 1, // {min: 0}\n \"x\": @a | @b, // {optional: true}\n \"e\": 1 // {enum: @e}\n}",
			types: defaultTypes(), enumName: "@e", enum: `[1,2]`, regex: `/a+/`, doc: `{"id":1,"e":2}`}
	}
	cut := tc.text[:tc.off]
	switch {
	case tc.slot == "root":
		in.root = cut
	case tc.slot == "type":
		in.types[r.Intn(len(in.types))].text = cut
	case strings.HasPrefix(tc.slot, "type:"):
		for i := range in.types {
			if in.types[i].name == tc.slot[5:] {
				in.types[i].text = cut
			}
		}
	case tc.slot == "enum":
		in.enum = cut
	case tc.slot == "regex":
		in.regex = cut
		in.regexType = true
	case tc.slot == "doc":
		in.doc = cut
	}
	return in
}

func (cfg *config) makeInputs(it int64) (inputs, *rand.Rand) {
	r := iterRand(cfg.seed, it)
	var in inputs
	pickMut := func(ss []string) string {
		s := ss[r.Intn(len(ss))]
		if r.Intn(3) > 0 {
			return string(mutate(r, []byte(s), 1+r.Intn(3)))
		}
		return s
	}
	stream := ""
	if cfg.truncAll && it < int64(len(cfg.trunc)) {
		stream = "trunc-all"
	} else {
		switch x := r.Intn(100); {
		case x < 32:
			stream = "seed-mut"
		case x < 67:
			stream = "grammar"
		case x < 77:
			stream = "trunc"
		case x < 89:
			stream = "corpus"
		default:
			stream = "big"
		}
		if stream == "corpus" && len(cfg.corpus) == 0 {
			stream = "seed-mut"
		}
		// the boundary stream (boundary.go) has the iterations behind the ones of the other streams (run.go), which
		// stay what they are without it
		if it >= boundaryBase() {
			stream = "boundary"
		}
	}
	switch stream {
	case "trunc-all":
		in = cfg.applyTrunc(r, cfg.trunc[it])
	case "trunc":
		in = cfg.applyTrunc(r, cfg.trunc[r.Intn(len(cfg.trunc))])
	case "seed-mut":
		in = inputs{root: pickMut(rootSeeds), enumName: "@e", enum: pickMut(enumSeeds), regex: pickMut(regexSeeds), doc: pickMut(docSeeds)}
		for _, n := range []string{"@a", "@b", "@o"}[:r.Intn(4)] {
			in.types = append(in.types, namedSrc{name: n, text: pickMut(typeSeeds)})
		}
	case "grammar":
		in = inputs{root: genSchema(r, 40), enumName: "@e", enum: genEnum(r), regex: genRegex(r)}
		for _, n := range []string{"@a", "@b", "@o"}[:r.Intn(4)] {
			if r.Intn(4) == 0 {
				in.types = append(in.types, namedSrc{name: n, text: pickMut(typeSeeds)})
			} else {
				in.types = append(in.types, namedSrc{name: n, text: genSchema(r, 12)})
			}
		}
		switch r.Intn(3) {
		case 0:
			in.doc = genJSON(r, 4)
		case 1:
			in.doc = pickMut(docSeeds)
		default:
			in.doc = "\x00example" // replaced by the schema's own example, when there is one
		}
		if r.Intn(2) == 0 {
			mutSlot(r, &in, 1+r.Intn(2))
		}
	case "boundary":
		// one rule value of an otherwise well-formed schema is a boundary value of its kind - in the root schema, or
		// (one time in four each) in an added type, in the text of the enum rule; boundary documents
		in = inputs{root: genBoundary(r), types: defaultTypes(), enumName: "@e", enum: `[1,2]`, regex: genRegex(r)}
		switch r.Intn(8) {
		case 0, 1:
			in.root = g0(r).pick("{\n \"a\": @a,\n \"b\": @b | @o // {optional: true}\n}", "@a", "[@a, @b, @o]", "{ // {allOf: \"@o\"}\n \"a\": @a\n}", "1 // {or: [\"@a\", \"@b\", \"@o\"]}", "{\n \"a\": 1 // {type: \"@a\"}\n}")
			in.types[r.Intn(len(in.types))].text = genBoundary(r)
		case 2:
			in.types[r.Intn(len(in.types))].text = genBoundary(r)
		case 3:
			in.types = in.types[:r.Intn(3)]
		}
		if r.Intn(4) == 0 {
			in.enum = genBoundaryEnum(r)
			if r.Intn(2) == 0 {
				in.root = g0(r).pick("1 // {enum: @e}", "{\n \"e\": \"a\" // {enum: @e, optional: true}\n}", "[\n 1 // {type: \"enum\", enum: @e}\n]", "1 // {or: [{enum: @e}, \"string\"]}")
			}
		}
		switch r.Intn(3) {
		case 0:
			in.doc = genBoundaryDoc(r)
		case 1:
			in.doc = pickMut(docSeeds)
		default:
			in.doc = "\x00example"
		}
	case "corpus":
		in = cfg.fromCorpus(r, r.Intn(len(cfg.corpus)))
		if r.Intn(3) > 0 {
			mutSlot(r, &in, 1+r.Intn(3))
		}
		if r.Intn(4) == 0 {
			in.doc = "\x00example"
		}
	case "big":
		in = inputs{root: pickMut(rootSeeds), types: defaultTypes(), enumName: "@e", enum: `[1,2]`, regex: `/a+/`, doc: pickMut(docSeeds)}
		size := cfg.maxLen/8 + r.Intn(cfg.maxLen*7/8)
		switch r.Intn(8) {
		case 0, 1, 2:
			in.root = genBig(r, "root", size)
		case 3:
			in.types[r.Intn(3)].text = genBig(r, "type", size)
		case 4:
			in.enum = genBig(r, "enum", size)
			in.root = "1 // {enum: @e}"
		case 5:
			in.regex = genBig(r, "regex", size/4)
			in.regexType = true
		case 6:
			in.doc = genBig(r, "doc", size)
		default: // the same big text as schema and document
			in.root = genBig(r, "doc", size)
			in.doc = in.root
		}
		if r.Intn(3) == 0 {
			mutSlot(r, &in, 1)
		}
	}
	in.it, in.stream = it, stream
	clip := func(s string) string {
		if len(s) > cfg.maxLen {
			return s[:cfg.maxLen]
		}
		return s
	}
	in.root, in.enum, in.regex, in.doc = clip(in.root), clip(in.enum), clip(in.regex), clip(in.doc)
	for i := range in.types {
		in.types[i].text = clip(in.types[i].text)
	}
	in.keysOpt = r.Intn(5) == 0
	in.fromFile = r.Intn(4) == 0
	in.trailing = r.Intn(5) == 0
	in.regexType = in.regexType || r.Intn(4) == 0
	// the special-atom class of regex types (gen.go: addSpecialAtom), decided by a PRNG of its own so that every
	// other choice of the iteration stays what it is without this class
	if r2 := iterRand(cfg.seed^0x7e9e5, it); stream != "trunc-all" && r2.Intn(6) == 0 {
		in.regex = clip(addSpecialAtom(r2, in.regex))
		in.regexSpecial = true
		in.regexType = true
	}
	in.misuse = r.Intn(8) == 0
	in.nested = len(in.types) > 1 && r.Intn(8) == 0
	in.dupType = len(in.types) > 0 && r.Intn(16) == 0
	in.order = r.Perm(6)
	if r.Intn(2) == 0 { // the natural order half of the time
		sort.Ints(in.order)
	}
	in.chooseFileNames(r)
	if in.doc == "\x00example" {
		in.useExample, in.doc = true, "1"
	}
	return in, r
}

// reserved file names of the fixed sources of an iteration
var reservedFiles = map[string]bool{"doc": true, "ex": true, "rg": true, "@rg": true, "@k": true, "@late": true}

// chooseFileNames gives every source its own file name; the empty name (the usual argument of
// jschema.New in client code) is given to at most one source so that an error's file stays identifiable.
func (in *inputs) chooseFileNames(r *rand.Rand) {
	used := map[string]bool{}
	for k := range reservedFiles {
		used[k] = true
	}
	take := func(candidates ...string) string {
		for _, c := range candidates {
			if !used[c] {
				used[c] = true
				return c
			}
		}
		panic("no free file name")
	}
	switch r.Intn(8) {
	case 0, 1, 2:
		in.rootFile = take("root")
	case 3, 4:
		in.rootFile = take("")
	case 5:
		in.rootFile = take("root.jschema")
	case 6:
		in.rootFile = take("dir/sub/r.jschema")
	default:
		in.rootFile = take("é schema", "root")
	}
	for i := range in.types {
		t := &in.types[i]
		uniq := fmt.Sprintf("%s#%d", t.name, i)
		switch r.Intn(8) {
		case 0:
			t.file = take("", t.name, uniq)
		case 1:
			t.file = take(t.name+".type", uniq)
		case 2:
			t.file = take("types/"+strings.TrimPrefix(t.name, "@")+".jschema", uniq)
		default:
			t.file = take(t.name, uniq)
		}
	}
	switch r.Intn(6) {
	case 0:
		in.enumFile = take("", in.enumName, "enum#")
	case 1:
		in.enumFile = take(strings.TrimPrefix(in.enumName, "@")+".enum", "enum#")
	default:
		in.enumFile = take(in.enumName, "enum#")
	}
}

// mutSlot applies n byte edits to one randomly chosen input.
func mutSlot(r *rand.Rand, in *inputs, n int) {
	k := r.Intn(6 + len(in.types))
	switch {
	case k < 3:
		in.root = string(mutate(r, []byte(in.root), n))
	case k == 3:
		in.enum = string(mutate(r, []byte(in.enum), n))
	case k == 4:
		in.regex = string(mutate(r, []byte(in.regex), n))
	case k == 5:
		if !strings.HasPrefix(in.doc, "\x00") {
			in.doc = string(mutate(r, []byte(in.doc), n))
		}
	default:
		t := &in.types[k-6]
		t.text = string(mutate(r, []byte(t.text), n))
	}
}

// ---- one iteration ----

type worker struct {
	mu     sync.Mutex
	active bool
	input  string
	method string
	start  time.Time
}

type result struct {
	key   string
	in    inputs
	diffs []vh.Diff
	stats []string
	calls int
	errs  int
}

type ictx struct {
	w     *worker
	in    *inputs
	dump  string
	res   *result
	src   map[string]int // file name -> length of the source (-1: synthesised text, unknown)
	root  *fs.File
	files []srcFile // the sources of the iteration that have a text of the user (callers of kit.ConvertError)

	trace bool // print "M <method>" before every call (child process replaying one iteration)
}

func (c *ictx) stat(s string) { c.res.stats = append(c.res.stats, s) }

var (
	numRe   = regexp.MustCompile(`[0-9]+`)
	quoteRe = regexp.MustCompile("\"(\\\\.|[^\"\\\\])*\"|`[^`]*`")
)

func (c *ictx) diff(method, impl, model, class string) {
	// distribution of the kinds of diffs (the report keeps only the first 25 diffs)
	k := impl
	if i := strings.IndexByte(k, '\n'); i >= 0 {
		k = k[:i]
	}
	k = numRe.ReplaceAllString(quoteRe.ReplaceAllString(k, "Q"), "N")
	if class != "" {
		k = class
	}
	c.stat("diff:" + method + ": " + short(k, 120))
	// one root cause shows in every later method of the iteration: report the first occurrence only
	for _, d := range c.res.diffs {
		if firstLine(d.Impl) == firstLine(impl) && d.Class == class {
			c.stat("diffs_repeated_within_iteration")
			return
		}
	}
	c.res.diffs = append(c.res.diffs, vh.Diff{Component: component, Input: c.dump + " method=" + method, Impl: impl, Model: model, Class: class})
}

func firstLine(s string) string {
	if i := strings.IndexByte(s, '\n'); i >= 0 {
		return s[:i]
	}
	return s
}

func short(s string, n int) string {
	if len(s) > n {
		return s[:n] + "…"
	}
	return s
}

// guard runs f under recover; returns the panic text (with the top of the stack) or "".
func guard(f func()) (p string) {
	defer func() {
		if r := recover(); r != nil {
			p = fmt.Sprintf("PANIC %v [%T]\n%s", r, r, short(panicSite(), 1500))
		}
	}()
	f()
	return ""
}

// panicSite returns the frames of the library that were on the stack at the panic.
func panicSite() string {
	lines := strings.Split(string(debug.Stack()), "\n")
	var out []string
	seenPanic := false
	for i := 0; i+1 < len(lines); i++ {
		if strings.HasPrefix(lines[i], "panic(") {
			seenPanic = true
			continue
		}
		if seenPanic && strings.HasPrefix(lines[i+1], "\t") && !strings.HasPrefix(lines[i], "\t") {
			out = append(out, strings.TrimSpace(lines[i])+" @ "+strings.TrimSpace(lines[i+1]))
			if len(out) >= 8 {
				break
			}
		}
	}
	if len(out) == 0 {
		return short(strings.Join(lines, "\n"), 1500)
	}
	return strings.Join(out, "\n")
}

// call runs one library call under recover and the deadline bookkeeping, then checks its error.
func (c *ictx) call(method string, f func() error) (err error, ok bool) {
	if c.trace {
		os.Stdout.WriteString("M " + method + "\n")
	}
	c.w.mu.Lock()
	c.w.active, c.w.method, c.w.start = true, method, time.Now()
	c.w.mu.Unlock()
	p := guard(func() { err = f() })
	c.w.mu.Lock()
	c.w.active = false
	c.w.mu.Unlock()
	c.res.calls++
	c.stat("call:" + method)
	if p != "" {
		c.diff(method, p, "no panic", "")
		return nil, false
	}
	c.checkErr(method, err)
	return err, true
}

// plain errors that the API documents for misuse / unsupported operations (not derived from the byte strings)
var acceptedPlain = []struct{ methodPrefix, textPrefix, stat string }{
	{"regex.Validate", "unimplemented", "plain:regex.Validate-unimplemented"},
	{"schema.Validate(foreign)", "support only JSON documents, but got", "plain:Validate-non-JSON-document"},
	{"schema.Validate(nil)", "support only JSON documents, but got", "plain:Validate-non-JSON-document"},
	{"schema.AddRule(late)", "schema is already compiled", "plain:AddRule-after-compilation"},
	{"schema.AddRule(nil)", "rule is nil", "plain:AddRule-nil"},
	{"schema.AddRule(nil)", "schema is already compiled", "plain:AddRule-after-compilation"},
	{"schema.AddType(nil)", "schema should be JSight or Regex schema, but", "plain:AddType-foreign-schema"},
}

func (c *ictx) checkErr(method string, err error) {
	if err == nil {
		return
	}
	if err == io.EOF && strings.HasPrefix(method, "doc.NextLexeme") {
		return
	}
	c.res.errs++
	p := guard(func() {
		var pe jlib.ParsingError
		var ve jlib.ValidationError
		isP := stderrors.As(err, &pe)
		isV := stderrors.As(err, &ve)
		if !isP && !isV {
			text := err.Error()
			var le liberrors.Err
			if stderrors.As(err, &le) && le.Code() == liberrors.ErrInfinityRecursionDetected && strings.HasPrefix(text, "Infinity recursion detected") {
				c.stat("known:K-C07-recerr")
				c.diff(method, fmt.Sprintf("non-library error %T %q", err, short(text, 200)), "ParsingError or ValidationError", "K-C07-recerr")
				return
			}
			var re runtime.Error
			isRuntime := stderrors.As(err, &re)
			isBare := stderrors.As(err, &le) // a bare errors.ErrorCode / errors.Errorf value
			// K-C07-dupname: a second AddType of a name the schema already has returns the bare code 403 value
			if isBare && !isRuntime && le.Code() == liberrors.ErrDuplicationOfNameOfTypes && strings.Contains(method, ".AddType") && (c.in.dupType || c.in.nested) {
				c.stat("known:K-C07-dupname")
				c.diff(method, fmt.Sprintf("non-library error %T %q", err, short(text, 200)), "ParsingError or ValidationError", "K-C07-dupname")
				return
			}
			// K-C07-exampleerr: Example() returns bare error codes / fmt errors, not DocumentErrors
			if strings.HasSuffix(method, ".Example") && !strings.HasPrefix(method, "regex.") && !isRuntime {
				tn := fmt.Sprintf("%T", err)
				if isBare || tn == "*fmt.wrapError" || tn == "*errors.errorString" {
					c.stat("known:K-C07-exampleerr")
					c.diff(method, fmt.Sprintf("non-library error %T %q", err, short(text, 200)), "ParsingError or ValidationError", "K-C07-exampleerr")
					return
				}
			}
			for _, a := range acceptedPlain {
				if strings.HasPrefix(method, a.methodPrefix) && strings.HasPrefix(text, a.textPrefix) {
					c.stat(a.stat)
					return
				}
			}
			kind := "non-library error"
			if isRuntime {
				kind = "leaked runtime error"
			}
			c.diff(method, fmt.Sprintf("%s %T %q", kind, err, short(text, 300)), "ParsingError or ValidationError", "")
			return
		}
		var code int
		var msg string
		if isP {
			code, msg = pe.ErrCode(), pe.Message()
			c.checkPosition(method, err, pe)
		} else {
			code, msg = ve.ErrCode(), ve.Message()
			c.stat("kind:validation-error-without-position")
		}
		c.stat("code:" + strconv.Itoa(code))
		if msg == "" {
			c.diff(method, fmt.Sprintf("%T code=%d: Message() is empty", err, code), "non-empty message", "")
		}
		if text := err.Error(); text == "" {
			c.diff(method, fmt.Sprintf("%T code=%d: Error() is empty", err, code), "non-empty text", "")
		}
	})
	if p != "" {
		c.diff(method, "inspecting the error: "+p, "Error()/Message()/ErrCode()/Position() do not panic", "")
	}
	// kit.ConvertError on the same error: for the caller that holds the root file (what client code usually passes),
	// and for a caller that holds the file the error names or another source of the iteration
	// (two conversions per error: the root file, and in turn the file the error names / the next source. An error
	// that IS the positioned error type comes back as itself whatever the caller holds: the second conversion is made
	// for one in eight of them, and for every error that is wrapped, a validation error or no library error)
	callers := append(make([]srcFile, 0, 2), c.files[0])
	if _, direct := err.(liberrors.DocumentError); direct && c.res.errs%8 != 0 {
		c.stat("converted:second-caller-skipped")
	} else if turn := c.res.errs / 8; turn%2 == 0 {
		var named interface{ Filename() string }
		if stderrors.As(err, &named) {
			name := ""
			if guard(func() { name = named.Filename() }) == "" {
				for _, f := range c.files[1:] {
					if f.name == name {
						callers = append(callers, f)
						break
					}
				}
			}
		}
	} else if f := c.files[1+(turn/2)%(len(c.files)-1)]; f.name != c.files[0].name {
		callers = append(callers, f)
	}
	for k, f := range callers {
		p = guard(func() { c.checkConverted(method, f, err, k == 0) })
		c.res.calls++
		if k == 0 {
			c.stat("call:kit.ConvertError")
		} else {
			c.stat("call:kit.ConvertError(another caller)")
		}
		if p != "" {
			c.diff(method+"+kit.ConvertError", p, "no panic", "")
		}
	}
}

// srcFile: a source of the iteration, by file name.
type srcFile struct {
	name, text string
	file       *fs.File
}

// checkConverted: what kit.ConvertError(file, err) hands to the caller. The clause of the property on it: a
// message; Filename() names the caller's file or a source of the iteration and Position() lies inside it (position
// 0 of an empty source is "no position"); and a result that presents the positioned error inside err (its code and
// message) describes that error's place - its position AND its file, not its position in the caller's file.
func (c *ictx) checkConverted(method string, f srcFile, err error, first bool) {
	m := method + "+kit.ConvertError"
	ke := kit.ConvertError(f.file, err)
	name, pos, code, msg := ke.Filename(), int(ke.Position()), ke.ErrCode(), ke.Message()
	_ = ke.IncorrectUserType()
	if msg == "" && first {
		var ve jlib.ValidationError
		if !(stderrors.As(err, &ve) && ve.Message() == "") { // else already reported by checkErr
			c.diff(m, "Message() is empty", "non-empty message", "")
		}
	}
	if e, ok := ke.(error); ok {
		_ = e.Error()
	}
	l, known := len(f.text), true
	if name != f.name {
		l, known = c.src[name]
	}
	call := func() string { return fmt.Sprintf("kit.ConvertError(file %q, err)", f.name) }
	switch {
	case !known:
		c.stat("converted:file-unknown")
		c.diff(m, fmt.Sprintf("%s: code=%d position %d in file %q which is neither the caller's file nor a source", call(), code, pos, name), "the result refers to a source", "")
	case l < 0:
		c.stat("converted:synthesised-source")
	default:
		lim := l
		if lim < 1 {
			lim = 1
		}
		if pos >= lim {
			c.diff(m, fmt.Sprintf("%s: code=%d position %d >= max(1,len)=%d of file %q", call(), code, pos, lim, name), "position inside the source the result refers to", "")
		}
	}
	var de liberrors.DocumentError
	if stderrors.As(err, &de) && code == de.ErrCode() && msg == de.Message() && code != int(liberrors.ErrGeneric) {
		if name != de.Filename() || pos != int(de.Position()) {
			c.diff(m, fmt.Sprintf("%s: presents the error code=%d of file %q position %d as file %q position %d", call(), code, de.Filename(), de.Position(), name, pos), "the place of the error it presents: its file and its position", "")
		}
	}
}

func (c *ictx) checkPosition(method string, err error, pe jlib.ParsingError) {
	pos := int(pe.Position())
	var fe interface{ Filename() string }
	if !stderrors.As(err, &fe) {
		c.stat("pos:no-filename")
		max := 0
		for _, l := range c.src {
			if l > max {
				max = l
			}
		}
		if pos != 0 && pos >= max {
			c.diff(method, fmt.Sprintf("code=%d position %d outside every source", pe.ErrCode(), pos), "position inside the source", "")
		}
		return
	}
	name := fe.Filename()
	l, known := c.src[name]
	switch {
	case !known:
		c.stat("pos:file-unknown")
		if pos != 0 {
			c.diff(method, fmt.Sprintf("code=%d position %d in file %q which is none of the sources", pe.ErrCode(), pos, name), "position inside the source it refers to", "")
		}
	case l < 0:
		c.stat("pos:synthesised-source")
	default:
		c.stat("pos:checked")
		lim := l
		if lim < 1 {
			lim = 1
		}
		if pos >= lim {
			c.diff(method, fmt.Sprintf("code=%d position %d >= max(1,len)=%d of file %q", pe.ErrCode(), pos, lim, name), "position inside the source it refers to", "")
		}
	}
}

// foreignDoc is a jschema.Document that is not a JSON document.
type foreignDoc struct{ jlib.Document }

func newSchema(in *inputs, name, text string) *jschema.Schema {
	var oo []jschema.Option
	if in.keysOpt {
		oo = append(oo, jschema.KeysAreOptionalByDefault())
	}
	if in.fromFile {
		return jschema.FromFile(fs.NewFile(name, []byte(text)), oo...)
	}
	return jschema.New(name, text, oo...)
}

func newDoc(in *inputs, name, text string) jlib.Document {
	var oo []jdoc.Option
	if in.trailing {
		oo = append(oo, jdoc.AllowTrailingNonSpaceCharacters())
	}
	if in.fromFile {
		return jdoc.FromFile(fs.NewFile(name, []byte(text)), oo...)
	}
	return jdoc.New(name, text, oo...)
}

//go:noinline
func runIter(it int64, cfg *config, w *worker) *result {
	in, r := cfg.makeInputs(it)
	res := &result{}
	c := &ictx{w: w, in: &in, res: res, src: map[string]int{}, trace: cfg.trace}
	// sources by file name
	c.src[in.rootFile] = len(in.root)
	c.src[in.enumFile] = len(in.enum)
	c.src["rg"] = len(in.regex)
	c.src["@rg"] = -1
	c.src["@k"] = len(fixedKType)
	for _, t := range in.types {
		c.src[t.file] = len(t.text)
	}
	c.root = fs.NewFile(in.rootFile, in.root)
	c.files = []srcFile{{name: in.rootFile, text: in.root}, {name: in.enumFile, text: in.enum}, {name: "rg", text: in.regex}, {name: "doc", text: in.doc}, {name: "@k", text: fixedKType}}
	for _, t := range in.types {
		c.files = append(c.files, srcFile{name: t.file, text: t.text})
	}
	for i := range c.files {
		c.files[i].file = fs.NewFile(c.files[i].name, c.files[i].text)
	}
	useExample := in.useExample
	c.src["doc"] = len(in.doc)
	c.dump = in.dump()
	w.mu.Lock()
	w.input = c.dump
	w.mu.Unlock()
	res.key = in.key()

	c.stat("stream:" + in.stream)
	c.stat("rootlen:" + bucket(len(in.root)))
	c.stat(fmt.Sprintf("rootfile:%q", in.rootFile))
	c.stat(fmt.Sprintf("ntypes:%d", len(in.types)))

	if it == 3 && cfg.selftest == "hang" {
		c.call("selftest.hang", func() error { select {} })
	}
	if it == 3 && cfg.selftest == "overflow" {
		var rec func(n int) int
		rec = func(n int) int { return rec(n+1) + 1 }
		c.call("selftest.overflow", func() error { rec(0); return nil })
	}
	if it == 3 && cfg.selftest == "panic" {
		c.call("selftest.panic", func() error { var m map[string]int; m["x"] = 1; return nil })
	}

	// ---- enum rule ----
	var e *enum.Enum
	if in.fromFile {
		e = enum.FromFile(fs.NewFile(in.enumFile, []byte(in.enum)))
	} else {
		e = enum.New(in.enumFile, in.enum)
	}
	enumCalls := []func(){
		func() { c.call("enum.Check", func() error { return e.Check() }) },
		func() { c.call("enum.Len", func() error { _, err := e.Len(); return err }) },
		func() { c.call("enum.Values", func() error { _, err := e.Values(); return err }) },
		func() { c.call("enum.GetAST", func() error { _, err := e.GetAST(); return err }) },
	}
	for _, i := range r.Perm(len(enumCalls)) {
		enumCalls[i]()
	}

	// ---- regex type ----
	var rg *regex.Schema
	if in.fromFile {
		rg = regex.FromFile(fs.NewFile("rg", []byte(in.regex)), regex.WithGeneratorSeed(it))
	} else {
		rg = regex.New("rg", in.regex)
	}
	regexCalls := []func(){
		func() { c.call("regex.Check", func() error { return rg.Check() }) },
		func() { c.call("regex.Len", func() error { _, err := rg.Len(); return err }) },
		func() { c.call("regex.Pattern", func() error { _, err := rg.Pattern(); return err }) },
		func() { c.call("regex.Example", func() error { _, err := rg.Example(); return err }) },
		func() { c.call("regex.GetAST", func() error { _, err := rg.GetAST(); return err }) },
		func() { c.call("regex.UsedUserTypes", func() error { _, err := rg.UsedUserTypes(); return err }) },
		func() { c.call("regex.AddType", func() error { return rg.AddType("@a", nil) }) },
		func() { c.call("regex.AddRule", func() error { return rg.AddRule("@e", e) }) },
		func() { c.call("regex.Validate", func() error { return rg.Validate(newDoc(&in, "doc", in.doc)) }) },
	}
	for _, i := range r.Perm(len(regexCalls)) {
		regexCalls[i]()
	}

	// ---- document ----
	c.exerciseDoc("doc", in.doc)

	// ---- user types on their own ----
	for _, t := range in.types {
		ts := newSchema(&in, t.file, t.text)
		c.call("type.Len", func() error { _, err := ts.Len(); return err })
		c.call("type.UsedUserTypes", func() error { _, err := ts.UsedUserTypes(); return err })
		if r.Intn(2) == 0 {
			c.call("type.Check", func() error { return ts.Check() })
			c.call("type.GetAST", func() error { _, err := ts.GetAST(); return err })
			c.call("type.Example", func() error { _, err := ts.Example(); return err })
		}
	}

	// ---- root schema ----
	s := newSchema(&in, in.rootFile, in.root)
	if r.Intn(2) == 0 {
		c.call("schema.Len", func() error { _, err := s.Len(); return err })
	}
	c.call("schema.AddRule", func() error { return s.AddRule(in.enumName, e) })
	for i, t := range in.types {
		ts := newSchema(&in, t.file, t.text)
		if in.nested && i == 0 {
			c.call("type.AddRule", func() error { return ts.AddRule(in.enumName, e) })
			for _, u := range in.types[1:] {
				us := newSchema(&in, u.file, u.text)
				c.call("type.AddType", func() error { return ts.AddType(u.name, us) })
			}
		}
		c.call("schema.AddType", func() error { return s.AddType(t.name, ts) })
		if in.dupType && i == 0 {
			c.call("schema.AddType(dup)", func() error { return s.AddType(t.name, newSchema(&in, t.file, t.text)) })
		}
	}
	c.call("schema.AddType", func() error { return s.AddType("@k", jschema.New("@k", fixedKType)) })
	if in.regexType {
		c.call("schema.AddType(regex)", func() error { return s.AddType("@rg", rg) })
	}
	var example []byte
	exampleOK := false
	rootCalls := []func(){
		func() {
			err, ok := c.call("schema.Check", func() error { return s.Check() })
			if ok && err == nil {
				c.stat("root:check-ok")
			} else {
				c.stat("root:check-err")
			}
		},
		func() {
			err, ok := c.call("schema.Validate", func() error { return s.Validate(newDoc(&in, "doc", in.doc)) })
			if ok && err == nil {
				c.stat("root:validate-ok")
			}
		},
		func() {
			err, ok := c.call("schema.Example", func() (err error) { example, err = s.Example(); return err })
			exampleOK = ok && err == nil
		},
		func() { c.call("schema.GetAST", func() error { _, err := s.GetAST(); return err }) },
		func() { c.call("schema.UsedUserTypes", func() error { _, err := s.UsedUserTypes(); return err }) },
		func() { c.call("schema.Len", func() error { _, err := s.Len(); return err }) },
	}
	for _, i := range in.order {
		rootCalls[i]()
	}
	c.call("schema.Build", func() error { return s.Build() })
	if exampleOK && (useExample || r.Intn(4) == 0) {
		c.src["ex"] = len(example)
		ex := string(example)
		if useExample && r.Intn(3) == 0 {
			ex = string(mutate(r, example, 1))
			c.src["ex"] = len(ex)
		}
		c.dump += fmt.Sprintf(" ex=%q", ex)
		err, ok := c.call("schema.Validate(example)", func() error { return s.Validate(newDoc(&in, "ex", ex)) })
		if ok && err == nil {
			c.stat("root:validate-example-ok")
		}
		c.exerciseDoc("ex", ex)
	}
	if in.misuse {
		c.call("schema.AddRule(late)", func() error { return s.AddRule("@late", e) })
		c.call("schema.AddRule(nil)", func() error { return s.AddRule("@nil", nil) })
		c.call("schema.AddType(nil)", func() error { return s.AddType("@nil", nil) })
		c.src["@late"] = len(in.root)
		c.call("schema.AddType(late)", func() error { return s.AddType("@late", jschema.New("@late", in.root)) })
		c.call("schema.Validate(foreign)", func() error { return s.Validate(foreignDoc{newDoc(&in, "doc", in.doc)}) })
		c.call("schema.Validate(nil)", func() error { return s.Validate(nil) })
		c.call("schema.Validate(again)", func() error { return s.Validate(newDoc(&in, "doc", in.doc)) })
		c.call("schema.Check(again)", func() error { return s.Check() })
		fresh := newSchema(&in, in.rootFile, in.root)
		c.call("schema.AddRule(nil)", func() error { return fresh.AddRule("@nil", nil) })
		c.call("schema.Validate(first)", func() error { return fresh.Validate(newDoc(&in, "doc", in.doc)) })
	}
	return res
}

func (c *ictx) exerciseDoc(name, text string) {
	d := newDoc(c.in, name, text)
	pre := name + "."
	if name == "ex" {
		pre = "doc."
	}
	c.call(pre+"Check", func() error { return d.Check() })
	c.call(pre+"Len", func() error { _, err := d.Len(); return err })
	limit := 4*len(text) + 16
	n := 0
	for {
		var got error
		_, ok := c.call(pre+"NextLexeme", func() error { _, err := d.NextLexeme(); got = err; return err })
		n++
		if !ok || got != nil {
			break
		}
		if n > limit {
			c.diff(pre+"NextLexeme", fmt.Sprintf("no io.EOF and no error after %d calls", n), "the event sequence ends", "")
			break
		}
	}
	c.call(pre+"Len", func() error { _, err := d.Len(); return err })
	c.call(pre+"Check", func() error { return d.Check() })
}

func bucket(n int) string {
	switch {
	case n == 0:
		return "0"
	case n < 16:
		return "1-15"
	case n < 64:
		return "16-63"
	case n < 256:
		return "64-255"
	case n < 1024:
		return "256-1023"
	}
	return "1024+"
}
