package apifuzz

import (
	"fmt"
	"math/rand"
	"strconv"
	"strings"
)

// ---- seed pools (valid and nearly valid inputs of every kind) ----

var rootSeeds = []string{
	`{}`, `[]`, `1`, `"a"`, `true`, `null`, `-1.5`, `@a`, `@a | @b`,
	"{\n  \"id\": 123, // {min: 1}\n  \"name\": \"Tom\"\n}",
	"[ // {minItems: 1}\n  1, // {min: 0} - note\n  \"s\"\n]",
	"42 /*\n\t{nullable: true}\n*/",
	"{\n  @k: 1,\n  \"x\": @a | @b // {optional: true}\n}",
	"1 // {or: [{type: \"integer\", min: 5}, \"string\", \"@a\"]}",
	"\"a\" // {enum: [\"a\", // first\n \"b\"]}",
	"1 // {enum: @e}",
	"{ // {allOf: \"@o\", additionalProperties: \"@a\"}\n \"q\": 1\n}",
	"{ # comment\n \"a\": 1 # c2\n}",
	"\"x@y.z\" // {type: \"email\"}", "\"2020-01-01\" // {type: \"date\"}", "1.5 // {precision: 1}",
	"{\"a\":{\"b\":{\"c\":[[],{}]}}}",
	"1 // {type: \"@a\"}",
	"[@a, @b | @a]",
	"\"2021-01-01T10:00:00+03:00\" // {type: \"datetime\"}",
	"\"550e8400-e29b-41d4-a716-446655440000\" // {type: \"uuid\"}",
	"\"http://a.b/c\" // {type: \"uri\"}",
	"1.50 // {type: \"decimal\", precision: 2}",
	"5 // {min: 1, max: 10, exclusiveMinimum: true, exclusiveMaximum: true}",
	"\"abc\" // {minLength: 1, maxLength: 5, regex: \"^[a-c]+$\"}",
	"\"abc\" // {const: true}",
	"[ // {maxItems: 2, type: \"array\"}\n 1\n]",
	"{ // {additionalProperties: true, nullable: true}\n}",
	"{ // {additionalProperties: \"integer\"}\n \"a\": 1 // {optional: true}\n}",
	"{ // {allOf: [\"@o\", \"@a\"]}\n}",
	"###\n block\n###\n{\n \"a\": [ # c\n  1\n ]\n}",
	"{\n \"a\": 1, /* {min: 0}\n   - multi */\n \"b\": null // {type: \"any\"}\n}",
	"1 // {type: \"mixed\", or: [\"integer\", \"string\"]}",
	"{\n @a: 1, // {optional: true}\n @k : \"v\"\n}",
	"@a // {nullable: true}",
	"{\"é\": \"😀\", \"\\u00e9\\n\": \"\\\"\"}",
	"[\r\n 1,\r\n 2 // {min: 2}\r\n]",
	"12 // just a note",
	"{\"a\": 1 // {serializeFormat: \"json\"}\n}",
	// allOf expansion: parents that are objects, scalars, unknown, recursive; keys that collide
	"{ // {allOf: \"@a\"}\n}", "{ // {allOf: \"@zz\"}\n \"q\": 1\n}", "{ // {allOf: \"@o\"}\n \"o\": 2\n}",
	"{ // {allOf: [\"@o\", \"@b\"]}\n}", "{ // {allOf: []}\n}", "{\n \"p\": { // {allOf: \"@a\"}\n }\n}",
	"{ // {allOf: \"@o\", additionalProperties: \"string\"}\n \"w\": [ // {allOf: \"@o\"}\n ]\n}",
	// or-types that refer to each other
	"{\"v\": @a}", "[@a | @o, @b]", "{\"v\": @b // {optional: true}\n}",
}

var typeSeeds = []string{`1`, `"s"`, `{"o": 1}`, `[1]`, `@b`, `@a | @b`, "{\n\"r\": @a // {optional: true}\n}", `"k" // {regex: "k+"}`,
	"{\n \"s\": @a\n}", "[@a]", "{ // {allOf: \"@b\"}\n \"t\": 1\n}", "1 // {enum: @e}", "{\n @k: @b\n}", "1 // {or: [\"@a\", \"@b\"]}",
	"{\"o\": 1, \"p\": \"x\" // {optional: true}\n}", "\"s\" // {minLength: 1}", ``, ` `, "# only a comment",
	// inheritance between added types; errors far from the start of the donor's text
	"{ // {allOf: \"@b\"}\n}", "{ // {allOf: [\"@b\", \"@o\"]}\n}", "{ // {allOf: \"@a\"}\n}", "{\"o\": 2}",
	"{ // {additionalProperties: \"integer\"}\n \"o\": 3\n}",
	// or-types referring to each other, with and without an alternative that ends the chain
	"@b | @o", "@a | @o", "@o | @a | @b", "@b|@b", "[@a | @b]", "{\"n\": @a | @o // {optional: true}\n}",
	"{\n\n\n\n\n\n\n\n\n\n\n\n\n\n\n\n \"k\": 1 // {min: 2}\n}", "\n\n\n\n\n\n\n\n\n\n\n\n\n\n\n\n{\n @zz: 1,\n \"u\": @zz | @a\n}",
	"                    @zz | @a", "[\n\n\n\n\n\n\n\n\n\n\n\n 1 // {or: [{type: \"@zz\"}, \"string\"]}\n]"}

var enumSeeds = []string{`[1,2]`, `["a", "b"] // c`, `[]`, "[1, /* x */ 2]", `[1,1]`, "[\n \"a\", // first\n \"b\" # second\n]",
	`[true, false, null, 1.5, -0, "x"]`, `["a", "b"] /* c`, `[1] ###`, `[ ]`, `[1, "1", 1.0]`, `@e`, `1`, `[[1]]`, `[{"a":1}]`, ``}

var regexSeeds = []string{`/a+/`, `/[a-z]/ x`, `/\//`, `/(/`, `//`, `/a`, `/`, ``, `a/`, `/\d{2,3}(x|y)*$/`, `/^.*$/`, `/é😀/`, `/\\/`, `/\`, `/a{1000}/`, `/[/`, `/(?i)ab/`, `/a\/b/ `}

var docSeeds = []string{`1`, `"a"`, `{}`, `[]`, `{"id":1,"name":"x"}`, `[1,"s"]`, `null`, `{"a":{"b":{"c":[[],{}]}}}`, `1.5`, `{"x":1,"kk":1}`,
	`true`, `"x@y.z"`, `"2020-01-01"`, `{"q":1}`, `{"a":1}`, `[2]`, `5`, `"abc"`, ``, ` `, `{"a":1,"a":2}`, `[1,]`, `{"a":1} x`, `-0`, `1e400`, `"\ud800"`, `{"o":1}`}

var alphabet = []byte("{}[]:,\"\\/#@*|-_+01.eEtrufalsnb xyzAF \t\n\r\x01\xc3")

// mutate applies n byte-level edits (truncate / insert / delete / replace).
func mutate(r *rand.Rand, b []byte, n int) []byte {
	b = append([]byte(nil), b...)
	for i := 0; i < n; i++ {
		switch r.Intn(4) {
		case 0:
			if len(b) > 0 {
				b = b[:r.Intn(len(b)+1)]
			}
		case 1:
			p := r.Intn(len(b) + 1)
			b = append(b[:p], append([]byte{alphabet[r.Intn(len(alphabet))]}, b[p:]...)...)
		case 2:
			if len(b) > 0 {
				p := r.Intn(len(b))
				b = append(b[:p], b[p+1:]...)
			}
		case 3:
			if len(b) > 0 {
				b[r.Intn(len(b))] = alphabet[r.Intn(len(alphabet))]
			}
		}
	}
	return b
}

// ---- grammar-aware generator of JSight schemas ----

type gen struct {
	r      *rand.Rand
	budget int  // remaining nodes
	wild   bool // allow deliberately wrong rules
	few    bool // keys from a two-element pool without index suffix: objects and their allOf parents share keys
}

var typeNames = []string{"@a", "@b", "@o", "@k", "@rg", "@a", "@b", "@zz"}

func (g *gen) pick(ss ...string) string { return ss[g.r.Intn(len(ss))] }

func (g *gen) typeName() string { return typeNames[g.r.Intn(len(typeNames))] }

func (g *gen) union() string {
	n := 1 + g.r.Intn(3)
	parts := make([]string, n)
	for i := range parts {
		parts[i] = g.typeName()
	}
	return strings.Join(parts, g.pick(" | ", "|", " |", "  |  "))
}

func (g *gen) str() string {
	parts := []string{"a", "b", "xyz", "é", "😀", `\"`, `\\`, `\/`, `\n`, `é`, " ", "/", "{", "]", ":", ",", "#", "@a", "//", "/*", "0", "k", "kk"}
	n := g.r.Intn(5)
	var sb strings.Builder
	for i := 0; i < n; i++ {
		sb.WriteString(parts[g.r.Intn(len(parts))])
	}
	return sb.String()
}

func (g *gen) key() string {
	if g.few {
		return g.pick("a", "b", "o")
	}
	if g.r.Intn(3) == 0 {
		return g.str()
	}
	return g.pick("a", "b", "id", "name", "q", "o", "r", "s", "kk", "x", "é")
}

var wrongRules = []string{`min: "x"`, `minLength: 1`, `precision: 0`, `foo: 1`, `optional: 5`, `type: "strnig"`, `min: 1, min: 2`, `max: -1e400`,
	`regex: "("`, `enum: []`, `enum: @zz`, `or: []`, `or: [1]`, `or: "@a"`, `allOf: 1`, `additionalProperties: 1`, `nullable: "yes"`, `const: 1`,
	`minItems: -1`, `maxItems: 1.5`, `type: "@zz"`, `type: 1`, `exclusiveMinimum: true`, `precision: 1`, `minLength: 5, maxLength: 1`, `min: 5, max: 1`,
	`{`, `}`, `: 1`, `a: {b: [1, {c: "d"}]}`, `serializeFormat: "x"`, `type: "enum"`, `type: "mixed"`, `type: "any", min: 1`, `"min": 1`, `enum: [1, 1]`}

// rules produces a rule list that is consistent with a value of the given kind most of the time.
func (g *gen) rules(kind string, n int, isProp bool) []string {
	var rs []string
	add := func(p int, s string) {
		if g.r.Intn(p) == 0 {
			rs = append(rs, s)
		}
	}
	switch kind {
	case "int":
		add(3, fmt.Sprintf("min: %d", n-g.r.Intn(3)))
		add(3, fmt.Sprintf("max: %d", n+g.r.Intn(3)))
		if len(rs) > 0 && strings.HasPrefix(rs[0], "min") {
			add(4, "exclusiveMinimum: "+g.pick("true", "false"))
		}
		add(6, `type: "integer"`)
		add(12, fmt.Sprintf("enum: [%d, %d, \"x\"]", n, n+1))
		add(14, "enum: @e")
		add(14, `or: [{type: "integer", min: 0}, "string", "`+g.typeName()+`"]`)
		add(20, `type: "any"`)
		add(20, `type: "`+g.typeName()+`"`)
	case "float":
		add(3, `precision: `+strconv.Itoa(1+g.r.Intn(3)))
		add(6, `type: "float"`)
		add(8, `type: "decimal", precision: 2`)
		add(4, "min: 0")
		add(8, "max: 1e3, exclusiveMaximum: true")
	case "str":
		add(3, fmt.Sprintf("minLength: %d", g.r.Intn(3)))
		add(3, fmt.Sprintf("maxLength: %d", n+g.r.Intn(3)))
		add(8, `regex: "^.*$"`)
		add(8, `type: "string"`)
		add(14, `or: ["string", "integer"]`)
		add(14, "enum: @e")
	case "bool", "null":
		add(5, `type: "`+map[string]string{"bool": "boolean", "null": "null"}[kind]+`"`)
		add(10, `type: "any"`)
	case "obj":
		add(4, `additionalProperties: `+g.pick("true", "false", `"any"`, `"string"`, `"integer"`, `"float"`, `"boolean"`, `"null"`, `"array"`, `"object"`, `"@a"`, `"@b"`, `"`+g.typeName()+`"`))
		add(6, `allOf: `+g.pick(`"@o"`, `"@a"`, `["@o", "@b"]`, `"`+g.typeName()+`"`, `[]`))
		add(8, `type: "object"`)
	case "arr":
		add(3, fmt.Sprintf("minItems: %d", g.r.Intn(2)))
		add(3, fmt.Sprintf("maxItems: %d", n+g.r.Intn(3)))
		add(8, `type: "array"`)
	case "ref":
		add(10, `type: "mixed"`)
	}
	add(8, "nullable: "+g.pick("true", "true", "false"))
	if kind != "obj" && kind != "arr" && kind != "ref" {
		add(14, "const: "+g.pick("true", "false"))
	}
	if isProp {
		add(4, "optional: "+g.pick("true", "true", "false"))
	}
	if g.wild && g.r.Intn(6) == 0 {
		rs = append(rs, wrongRules[g.r.Intn(len(wrongRules))])
	}
	g.r.Shuffle(len(rs), func(i, j int) { rs[i], rs[j] = rs[j], rs[i] })
	return rs
}

// annot renders the rules as an annotation (or a user comment, or nothing).
func (g *gen) annot(rs []string) string {
	if len(rs) == 0 {
		switch g.r.Intn(10) {
		case 0:
			return " # " + g.pick("c", "comment {x: 1}", "", "// x")
		case 1:
			return " // " + g.pick("note", "- note", "just text", "")
		case 2:
			return " /* note\n more */"
		case 3:
			return " // {}"
		}
		return ""
	}
	sep := g.pick(", ", ",", " , ")
	body := "{" + strings.Join(rs, sep) + "}"
	if g.r.Intn(8) == 0 {
		body = "{ " + strings.Join(rs, ",\n   ") + "\n }"
		return " /* " + body + g.pick("", " - note", "\n note") + " */"
	}
	switch g.r.Intn(6) {
	case 0:
		return " /* " + body + " */"
	case 1:
		return " // " + body + " - " + g.pick("note", "the {note}", "é")
	case 2:
		return " //" + body
	}
	return " // " + body
}

func (g *gen) scalar() (val, kind string, n int) {
	switch g.r.Intn(12) {
	case 0, 1, 2:
		n = g.r.Intn(200) - 20
		return strconv.Itoa(n), "int", n
	case 3:
		return g.pick("1.5", "0.25", "-3.75", "12.0", "1e2", "1.5E-1"), "float", 0
	case 4, 5:
		s := g.str()
		return `"` + s + `"`, "str", len([]rune(s))
	case 6:
		return g.pick("true", "false"), "bool", 0
	case 7:
		return "null", "null", 0
	case 8:
		t := g.pick("email", "date", "datetime", "uuid", "uri")
		v := map[string]string{"email": "x@y.z", "date": "2020-02-29", "datetime": "2021-01-01T10:00:00+03:00",
			"uuid": "550e8400-e29b-41d4-a716-446655440000", "uri": "http://a.b/c"}[t]
		return `"` + v + `" // {type: "` + t + `"}`, "typed", 0
	}
	return g.union(), "ref", 0
}

// write emits one value; `after` (a comma or nothing) follows the value, then the annotation.
func (g *gen) write(sb *strings.Builder, depth int, ind, after string, isProp bool) {
	g.budget--
	nl := "\n"
	if depth <= 0 || g.budget <= 0 || g.r.Intn(3) == 0 {
		val, kind, n := g.scalar()
		sb.WriteString(val)
		sb.WriteString(after)
		if kind != "typed" {
			sb.WriteString(g.annot(g.rules(kind, n, isProp)))
		}
		return
	}
	w := g.r.Intn(5)
	if g.r.Intn(2) == 0 {
		sb.WriteString("{" + g.annot(g.rules("obj", w, isProp)) + nl)
		for i := 0; i < w; i++ {
			sb.WriteString(ind + "  ")
			if g.r.Intn(7) == 0 {
				sb.WriteString(g.typeName())
			} else {
				if g.few { // distinct within the object, shared between objects
					sb.WriteString(`"` + []string{"a", "b", "o", "p", "q"}[i%5] + `"`)
				} else {
					sb.WriteString(`"` + g.key() + strconv.Itoa(i) + `"`)
				}
			}
			sb.WriteString(g.pick(": ", ":", " : "))
			c := ","
			if i == w-1 {
				c = ""
			}
			g.write(sb, depth-1, ind+"  ", c, true)
			sb.WriteString(nl)
			if g.r.Intn(12) == 0 {
				sb.WriteString(ind + "  " + g.pick("# line comment", "###\n block\n###", "") + nl)
			}
		}
		sb.WriteString(ind + "}" + after)
	} else {
		sb.WriteString("[" + g.annot(g.rules("arr", w, isProp)) + nl)
		for i := 0; i < w; i++ {
			sb.WriteString(ind + "  ")
			c := ","
			if i == w-1 {
				c = ""
			}
			g.write(sb, depth-1, ind+"  ", c, false)
			sb.WriteString(nl)
		}
		sb.WriteString(ind + "]" + after)
	}
}

func genSchema(r *rand.Rand, maxBudget int) string {
	g := &gen{r: r, budget: 1 + r.Intn(maxBudget), wild: r.Intn(3) == 0, few: r.Intn(4) == 0}
	var sb strings.Builder
	if r.Intn(10) == 0 {
		sb.WriteString(g.pick("# head\n", "###\nhead\n###\n", "\n\n", "  "))
	}
	g.write(&sb, 1+r.Intn(5), "", "", false)
	if r.Intn(10) == 0 {
		sb.WriteString(g.pick("\n", " ", "\n# tail", " # tail", "\n###\nx\n###"))
	}
	return sb.String()
}

func genEnum(r *rand.Rand) string {
	g := &gen{r: r}
	n := r.Intn(6)
	var sb strings.Builder
	sb.WriteString("[")
	if r.Intn(3) == 0 {
		sb.WriteString("\n")
	}
	for i := 0; i < n; i++ {
		v, _, _ := g.scalar()
		for strings.HasPrefix(v, "@") || strings.Contains(v, "//") {
			v = strconv.Itoa(r.Intn(5))
		}
		sb.WriteString(v)
		if i < n-1 {
			sb.WriteString(",")
		}
		sb.WriteString(g.pick("", " ", " // c\n", " /* c */ ", "\n", " # c\n"))
	}
	sb.WriteString("]")
	sb.WriteString(g.pick("", "", "", " // tail", "\n", " x"))
	return sb.String()
}

func genRegex(r *rand.Rand) string {
	g := &gen{r: r}
	parts := []string{"a", "[a-z]", `\d+`, "(x|y)", `\/`, ".*", "a{2,3}", "^", "$", `\\`, "é", "b?", "[^0-9]", `\w`, " ", `\.`, "(", "[", ")", "{", "*", "|"}
	n := r.Intn(6)
	var sb strings.Builder
	sb.WriteString("/")
	for i := 0; i < n; i++ {
		p := parts[r.Intn(len(parts))]
		// the last six parts are syntax errors on their own; take them rarely
		for strings.ContainsAny(p, "([){*|") && len(p) == 1 && r.Intn(4) != 0 {
			p = parts[r.Intn(len(parts)-6)]
		}
		sb.WriteString(p)
	}
	sb.WriteString("/")
	sb.WriteString(g.pick("", "", "", " ", " x", "\n", "/"))
	return sb.String()
}

// regexSpecials: one byte / one rune of every class whose spelling by Go's %q (which the library uses to build the
// source of a regex type: `"<example>" // {regex: "<pattern>"}`) differs from what a JSON string admits - control
// characters (\x00, \a, \v, \x1f ...), DEL, bytes that are invalid UTF-8, non-printable runes above U+FFFF
// (\U........) - or agrees with it (\n, \t, \b, \f, \u.... of non-printable runes up to U+FFFF, printable runes).
var regexSpecials = []string{"\x00", "\x01", "\x07", "\x08", "\t", "\n", "\x0b", "\x0c", "\r", "\x1b", "\x1f", "\x7f",
	"\x80", "\xa0", "\xc3", "\xff", "\u0085", "\u00a0", "\u00ad", "\u200b", "\u2028", "\ue000", "\ufeff", "\uffff", "\U0001f600", "\U000e0001", "\U0010ffff"}

// addSpecialAtom puts ONE special atom into a regex text at an atom boundary that exists in every text (behind
// the opening slash / in front of the closing one), under a quantifier that lets the generated example keep or
// omit it: the pattern is legal for the regexp engine, the synthesised source may still not load.
func addSpecialAtom(r *rand.Rand, text string) string {
	x, _ := strconv.Unquote(`"` + regexSpecials[r.Intn(len(regexSpecials))] + `"`)
	var slot string
	switch r.Intn(10) {
	case 0:
		slot = x
	case 1:
		slot = x + "{0}"
	case 2:
		slot = x + "*"
	case 3:
		slot = x + "?"
	case 4:
		slot = x + "{0,1}"
	case 5:
		slot = "(" + x + ")?"
	case 6:
		slot = "(a|" + x + ")"
	case 7:
		slot = "[" + x + "]?"
	case 8:
		slot = x + "+"
	default:
		slot = "(b" + x + "){0}"
	}
	at := 0
	if strings.HasPrefix(text, "/") {
		at = 1
	}
	if k := strings.LastIndexByte(text, '/'); k > 0 && r.Intn(2) == 0 {
		at = k
	}
	return text[:at] + slot + text[at:]
}

func genJSON(r *rand.Rand, depth int) string {
	g := &gen{r: r}
	if depth <= 0 || r.Intn(3) == 0 {
		switch r.Intn(6) {
		case 0:
			return strconv.Itoa(r.Intn(200) - 20)
		case 1:
			return g.pick("1.5", "0.25", "12.0", "1e2")
		case 2:
			return `"` + g.str() + `"`
		case 3:
			return g.pick("true", "false")
		case 4:
			return "null"
		}
		return g.pick(`"x@y.z"`, `"2020-02-29"`, `"k"`, `"kk"`, `"s"`)
	}
	n := r.Intn(4)
	parts := make([]string, n)
	if r.Intn(2) == 0 {
		for i := range parts {
			parts[i] = `"` + g.key() + strconv.Itoa(i) + `":` + genJSON(r, depth-1)
		}
		return "{" + strings.Join(parts, ",") + "}"
	}
	for i := range parts {
		parts[i] = genJSON(r, depth-1)
	}
	return "[" + strings.Join(parts, ", ") + "]"
}

// genBig builds a large structured input of about `size` bytes for the given slot.
func genBig(r *rand.Rand, slot string, size int) string {
	g := &gen{r: r}
	if size < 16 {
		size = 16
	}
	switch slot {
	case "enum":
		var sb strings.Builder
		sb.WriteString("[")
		for i := 0; sb.Len() < size-8; i++ {
			if i > 0 {
				sb.WriteString(",")
			}
			sb.WriteString(g.pick(strconv.Itoa(i), `"v`+strconv.Itoa(i)+`"`, strconv.Itoa(i)+" // c"+strconv.Itoa(i)+"\n"))
		}
		sb.WriteString("]")
		return sb.String()
	case "regex":
		return "/" + strings.Repeat(g.pick("a", "[a-z]", "(ab|c)", `\d`, "x?"), size/6) + "/"
	}
	json := slot == "doc"
	switch r.Intn(8) {
	case 0: // deep arrays
		k := size / 2
		return strings.Repeat("[", k) + strings.Repeat("]", k)
	case 1: // deep objects
		k := size / 7
		return strings.Repeat(`{"a":`, k) + "1" + strings.Repeat("}", k)
	case 2: // long string
		return `"` + strings.Repeat(g.pick("a", "é", `\n`, "😀"), size/4) + `"`
	case 3: // wide object
		var sb strings.Builder
		sb.WriteString("{")
		for i := 0; sb.Len() < size-16; i++ {
			if i > 0 {
				sb.WriteString(",")
			}
			sb.WriteString(`"k` + strconv.Itoa(i) + `":` + strconv.Itoa(i))
			if !json && r.Intn(3) == 0 {
				sb.WriteString(" // {optional: true}")
			}
			if !json {
				sb.WriteString("\n")
			}
		}
		sb.WriteString("}")
		return sb.String()
	case 4: // wide array
		var sb strings.Builder
		sb.WriteString("[")
		for i := 0; sb.Len() < size-8; i++ {
			if i > 0 {
				sb.WriteString(",")
			}
			sb.WriteString(strconv.Itoa(i))
			if !json {
				sb.WriteString("\n")
			}
		}
		sb.WriteString("]")
		return sb.String()
	case 5: // long number
		return g.pick("", "-") + "1" + strings.Repeat("0", size/2) + g.pick("", ".5", "e5", "."+strings.Repeat("0", size/3)+"1")
	}
	if json {
		var sb strings.Builder
		sb.WriteString("[")
		for i := 0; sb.Len() < size-64; i++ {
			if i > 0 {
				sb.WriteString(",")
			}
			sb.WriteString(genJSON(r, 4))
		}
		sb.WriteString("]")
		return sb.String()
	}
	switch r.Intn(4) {
	case 0: // long union
		var sb strings.Builder
		for i := 0; sb.Len() < size-8; i++ {
			if i > 0 {
				sb.WriteString(" | ")
			}
			sb.WriteString(g.typeName())
		}
		return sb.String()
	case 1: // many rules / long annotation
		var sb strings.Builder
		sb.WriteString("1 // {or: [")
		for i := 0; sb.Len() < size-8; i++ {
			if i > 0 {
				sb.WriteString(", ")
			}
			sb.WriteString(g.pick(`"integer"`, `{type: "string", minLength: `+strconv.Itoa(i)+`}`, `"@a"`, `{min: `+strconv.Itoa(i)+`}`))
		}
		sb.WriteString("]}")
		return sb.String()
	case 2: // long comment
		return "1 " + g.pick("# ", "// ", "/* ", "###\n") + strings.Repeat(g.pick("x", "é ", "{a: 1} "), size/3)
	}
	// several generated schemas nested in one array
	var sb strings.Builder
	sb.WriteString("[\n")
	for sb.Len() < size-200 {
		g.budget = 1 + r.Intn(30)
		sb.WriteString("  ")
		g.write(&sb, 3, "  ", ",", false)
		sb.WriteString("\n")
	}
	sb.WriteString("  1\n]")
	return sb.String()
}
