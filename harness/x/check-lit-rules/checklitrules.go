// Package checklitrules: harness command `check-lit-rules`.
//
// Bounded-exhaustive look at what the real Check accepts for single-node schemas of the scalar rule family:
// a number example with every combination of min / max bounds from a pool of spellings and the exclusive
// flags, and a string example with every minLength / maxLength pair. Model (driver `semc chk <lit> <example>`,
// DSemC.checkLit): the example satisfies its own rules, min <= max (strictly if either bound is exclusive),
// minLength <= maxLength. Compared verdict: real Check() == nil  ⇔  model reply OK.
//
// One class is outside the model and is checked against its own expectation instead: a bound spelled with an
// exponent (1e1, 15e-1) is a lexical error of the schema scanner (code 301: `e` is not allowed in schema
// numbers), whatever the other rules say — exponent spellings reach the number model only through documents.
package checklitrules

import (
	stderrors "errors"
	"fmt"
	"strings"

	jlib "github.com/jsightapi/jsight-schema-go-library"
	"github.com/jsightapi/jsight-schema-go-library/notations/jschema"

	"verifharness/vh"
)

const command = "check-lit-rules"

func check(text string) string {
	return vh.Recover(func() string {
		err := jschema.New("root", text).Check()
		if err == nil {
			return "OK"
		}
		var e jlib.ParsingError
		if stderrors.As(err, &e) {
			return fmt.Sprintf("FAIL %d", e.ErrCode())
		}
		return "FAIL ?"
	})
}

func b01(v bool) string {
	if v {
		return "1"
	}
	return "0"
}

func hasExp(s string) bool { return strings.ContainsAny(s, "eE") }

func Run(args []string) {
	// quick tier = the prototype's set; the thorough tier adds more spellings of bounds and more examples
	nums := []string{"", "-5", "0", "-0", "1", "1.0", "1.5", "1.50", "2", "7", "1e1", "15e-1", "0.5"}
	examples := []struct{ k, tok string }{{"i", "1"}, {"f", "1.5"}, {"i", "0"}, {"f", "1.0"}, {"i", "-0"}}
	// string examples: plain, and spelled with escapes / multi-byte characters (decoded length in bytes, which is
	// what the length rules count, below the raw length of the token)
	strs := []string{`"s"`, `""`, `"sss"`, `"a\n"`, `"\u0041"`, `"\""`, `"\/\\"`, `"é"`, `"\u00e9s"`, `"\ud83d\ude00"`, `"€"`}
	maxLen := 3
	if vh.Tier() == "thorough" {
		nums = append(nums, "-1", "0.0", "-0.0", "1.05", "2.0", "10", "100", "-5.5", "1E1", "2e0", "0.50")
		examples = append(examples, []struct{ k, tok string }{{"i", "2"}, {"i", "-5"}, {"i", "7"}, {"i", "10"}, {"f", "0.5"}, {"f", "-0.0"}, {"f", "1.50"}, {"f", "2.0"}, {"f", "-5.5"}}...)
		strs = append(strs, `"ss"`, `"ssss"`, `"\t\r\n"`, `"😀"`, `"\uD83D"`, `"a\u20acb"`, `"\u0073\u0073\u0073\u0073"`)
		maxLen = 5
	}
	rep := vh.NewReport(command, fmt.Sprintf("every single-node schema `<example> // {min, exclusiveMinimum, max, exclusiveMaximum}` over %d number examples x %d^2 bound spellings (absent included) x the exclusive flags (each absent / true / false), and `<string> // {minLength, maxLength}` over %d strings (plain and with escapes / multi-byte characters; length = bytes of the unquoted value) x lengths absent,0..%d squared; real Check()==nil vs model (example satisfies its rules, min<=max strict if exclusive, minLength<=maxLength); schemas with an exponent-spelled bound are expected to fail with lexical error 301 and are not given to the model verdict; nontrivial = at least one rule present", len(examples), len(nums), len(strs), maxLen))
	rep.Exhaustive = true
	var reqs, impl, inputs []string
	var expBound []bool
	add := func(line, text string, exponent bool) {
		v := check(text)
		reqs = append(reqs, "semc "+line)
		impl = append(impl, v)
		inputs = append(inputs, "SCHEMA (no added types): "+text)
		expBound = append(expBound, exponent)
		rep.Case(text, strings.Contains(text, "//"))
		rep.Stat("check_" + strings.ReplaceAll(v, " ", "_"))
	}
	for _, ex := range examples {
		for _, mn := range nums {
			for _, mx := range nums {
				// each exclusive flag: absent, true, or written out with the value false (which must be inert)
				for xs := 0; xs < 9; xs++ {
					mnS, mxS := xs%3, xs/3
					mnx, mxx := mnS == 1, mxS == 1
					if (mnS != 0 && mn == "") || (mxS != 0 && mx == "") {
						continue
					}
					var rs, at []string
					if mn != "" {
						rs = append(rs, "min: "+mn)
						at = append(at, "(min "+mn+" "+b01(mnx)+")")
						rep.Stat("rule_min")
						if mnx {
							rs = append(rs, "exclusiveMinimum: true")
							rep.Stat("rule_exclusiveMinimum")
						} else if mnS == 2 {
							rs = append(rs, "exclusiveMinimum: false")
							rep.Stat("rule_exclusiveMinimum_false")
						}
					}
					if mx != "" {
						rs = append(rs, "max: "+mx)
						at = append(at, "(max "+mx+" "+b01(mxx)+")")
						rep.Stat("rule_max")
						if mxx {
							rs = append(rs, "exclusiveMaximum: true")
							rep.Stat("rule_exclusiveMaximum")
						} else if mxS == 2 {
							rs = append(rs, "exclusiveMaximum: false")
							rep.Stat("rule_exclusiveMaximum_false")
						}
					}
					text := ex.tok
					if len(rs) > 0 {
						text += " // {" + strings.Join(rs, ", ") + "}"
					}
					rep.Stat("example_kind_" + ex.k)
					add("chk (lit "+ex.k+" 0 "+strings.Join(at, " ")+") "+ex.tok, text, hasExp(mn) || hasExp(mx))
				}
			}
		}
	}
	// decoded length by the Lean model of Bytes.Unquote; the request to the rule model carries a stand-in token of
	// that length, because its length rules count the characters between the quotes
	unq := make([]string, len(strs))
	for i, t := range strs {
		unq[i] = "unq " + vh.Hex([]byte(t))
	}
	standIn := map[string]string{}
	for i, m := range vh.AskModel(unq) {
		standIn[strs[i]] = `"` + strings.Repeat("s", len(m)/2) + `"`
		rep.Stat(fmt.Sprintf("string_example_decoded_length_%d", len(m)/2))
	}
	for _, tok := range strs {
		for mn := -1; mn <= maxLen; mn++ {
			for mx := -1; mx <= maxLen; mx++ {
				var rs, at []string
				if mn >= 0 {
					rs = append(rs, fmt.Sprintf("minLength: %d", mn))
					at = append(at, fmt.Sprintf("(minl %d)", mn))
					rep.Stat("rule_minLength")
				}
				if mx >= 0 {
					rs = append(rs, fmt.Sprintf("maxLength: %d", mx))
					at = append(at, fmt.Sprintf("(maxl %d)", mx))
					rep.Stat("rule_maxLength")
				}
				text := tok
				if len(rs) > 0 {
					text += " // {" + strings.Join(rs, ", ") + "}"
				}
				rep.Stat("example_kind_s")
				add("chk (lit s 0 "+strings.Join(at, " ")+") "+standIn[tok], text, false)
			}
		}
	}
	model := vh.AskModelSharded(reqs, 16)
	for i, m := range model {
		switch {
		case expBound[i]:
			// outside the model: the schema text itself is lexically invalid
			rep.Stat("exponent_bound")
			if m == "OK" {
				rep.Stat("exponent_bound_model_rule_logic_would_accept")
			}
			if impl[i] != "FAIL 301" {
				rep.AddDiff(vh.Diff{Component: "check-lit-rules-exponent", Input: inputs[i], Impl: impl[i], Model: "FAIL 301 (a bound spelled with an exponent is a lexical error of the schema scanner)", Note: reqs[i]})
			}
		case m != "OK" && m != "FAIL":
			rep.AddDiff(vh.Diff{Input: inputs[i], Impl: impl[i], Model: m, Note: reqs[i]})
		case (impl[i] == "OK") != (m == "OK") || strings.HasPrefix(impl[i], "PANIC"):
			rep.AddDiff(vh.Diff{Input: inputs[i], Impl: impl[i], Model: m, Note: reqs[i]})
		default:
			rep.Stat("compared_with_model")
			if m == "OK" {
				rep.Stat("compared_accepted")
			} else {
				rep.Stat("compared_refused")
			}
		}
	}
	rep.Finish()
}
