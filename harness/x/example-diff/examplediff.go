// Package examplediff: harness command `example-diff`.
//
// Example-builder differential: the abstract schema IR of sem-types (scalars of the five kinds, any, arrays,
// objects with required / optional properties, references to four named — possibly recursive — types,
// nullable) is printed as JSight text and given to the real Check / Example(); the same IR is sent as
// S-expressions to the Lean model EX.build (request `ex <env> <schema>`, Driver/Ex.lean).
// Compared: the example text byte for byte, or ERROR (Example() returns an error) / ABSENT (nil without error).
package examplediff

import (
	stderrors "errors"
	"fmt"
	"math/rand"
	"runtime"
	"strings"
	"sync"

	jlib "github.com/jsightapi/jsight-schema-go-library"
	"github.com/jsightapi/jsight-schema-go-library/notations/jschema"

	"verifharness/vh"
)

const (
	command = "example-diff"
	salt    = 3107
)

type Node struct {
	Kind     string // lit any arr obj ref
	Lit      string // i f s b n
	Nullable bool
	Items    []*Node
	Props    []*Prop
	Names    []string
}
type Prop struct {
	Key      string
	Required bool
	Val      *Node
}

var typeNames = []string{"t0", "t1", "t2", "t3"}

// gen carries the PRNG of one type table (all random choices of the table and its documents).
type gen struct {
	r *rand.Rand
}

func (g *gen) genNode(depth int, allowRef bool) *Node {
	r := g.r
	k := r.Intn(20)
	if depth <= 0 && k >= 8 && k <= 14 {
		k = 0
	}
	switch {
	case k <= 7:
		return &Node{Kind: "lit", Lit: []string{"i", "f", "s", "b", "n"}[r.Intn(5)], Nullable: r.Intn(4) == 0}
	case k <= 10:
		n := &Node{Kind: "arr"}
		for i := r.Intn(5); i > 0; i-- {
			n.Items = append(n.Items, g.genNode(depth-1, allowRef))
		}
		return n
	case k <= 14:
		n := &Node{Kind: "obj"}
		cnt := r.Intn(4)
		for i := 0; i < cnt; i++ {
			n.Props = append(n.Props, &Prop{Key: string("abcf"[i]), Required: r.Intn(3) != 0, Val: g.genNode(depth-1, allowRef)})
		}
		return n
	case k <= 18 && allowRef:
		n := &Node{Kind: "ref", Nullable: r.Intn(4) == 0}
		cnt := 1 + r.Intn(3)
		for i := 0; i < cnt; i++ {
			nm := typeNames[r.Intn(len(typeNames))]
			dup := false
			for _, x := range n.Names {
				dup = dup || x == nm
			}
			if !dup {
				n.Names = append(n.Names, nm)
			}
		}
		return n
	default:
		return &Node{Kind: "any"}
	}
}

var litText = map[string]string{"i": "1", "f": "1.1", "s": `"s"`, "b": "true", "n": "null"}

func rules(n *Node, optional bool) string {
	var rs []string
	if n.Kind == "any" {
		rs = append(rs, `type: "any"`)
	}
	if optional {
		rs = append(rs, "optional: true")
	}
	if n.Nullable {
		rs = append(rs, "nullable: true")
	}
	if len(rs) == 0 {
		return ""
	}
	return " // {" + strings.Join(rs, ", ") + "}"
}

// printNode returns the lines of the node; the first line gets `prefix`, a single-line node gets the comma
// before its annotation.
func printNode(n *Node, indent int, prefix, comma string, optional bool) []string {
	pad := strings.Repeat("  ", indent)
	switch n.Kind {
	case "lit":
		return []string{pad + prefix + litText[n.Lit] + comma + rules(n, optional)}
	case "any":
		return []string{pad + prefix + "1" + comma + rules(n, optional)}
	case "ref":
		var nm []string
		for _, x := range n.Names {
			nm = append(nm, "@"+x)
		}
		return []string{pad + prefix + strings.Join(nm, " | ") + comma + rules(n, optional)}
	case "arr":
		if len(n.Items) == 0 {
			return []string{pad + prefix + "[]" + comma + rules(n, optional)}
		}
		out := []string{pad + prefix + "[" + rules(n, optional)}
		for i, it := range n.Items {
			c := ","
			if i == len(n.Items)-1 {
				c = ""
			}
			out = append(out, printNode(it, indent+1, "", c, false)...)
		}
		return append(out, pad+"]"+comma)
	default:
		if len(n.Props) == 0 {
			return []string{pad + prefix + "{}" + comma + rules(n, optional)}
		}
		out := []string{pad + prefix + "{" + rules(n, optional)}
		for i, p := range n.Props {
			c := ","
			if i == len(n.Props)-1 {
				c = ""
			}
			out = append(out, printNode(p.Val, indent+1, `"`+p.Key+`": `, c, !p.Required)...)
		}
		return append(out, pad+"}"+comma)
	}
}

func b01(v bool) string {
	if v {
		return "1"
	}
	return "0"
}

func sx(n *Node) string {
	switch n.Kind {
	case "lit":
		return "(lit " + n.Lit + " " + b01(n.Nullable) + ")"
	case "any":
		return "(any)"
	case "ref":
		return "(ref " + b01(n.Nullable) + " " + strings.Join(n.Names, " ") + ")"
	case "arr":
		s := "(arr"
		for _, it := range n.Items {
			s += " " + sx(it)
		}
		return s + ")"
	default:
		s := "(obj"
		for _, p := range n.Props {
			s += " (P " + p.Key + " " + b01(p.Required) + " " + sx(p.Val) + ")"
		}
		return s + ")"
	}
}

func errCode(err error) string {
	var pe jlib.ParsingError
	if stderrors.As(err, &pe) {
		return fmt.Sprint(pe.ErrCode())
	}
	return "other"
}

// example: a fresh schema object per call; every library call under recover.
// Result: the example text | ERROR | ABSENT | ADDERR <code> … | CHECKERR <code> … | PANIC …
func example(rootText string, typeTexts map[string]string, order []string) string {
	return vh.Recover(func() string {
		s := jschema.New("root", rootText)
		for _, nm := range order {
			if err := s.AddType("@"+nm, jschema.New("@"+nm, typeTexts[nm])); err != nil {
				return "ADDERR " + errCode(err) + " " + err.Error()
			}
		}
		if err := s.Check(); err != nil {
			return "CHECKERR " + errCode(err) + " " + err.Error()
		}
		b, err := s.Example()
		if err != nil {
			return "ERROR"
		}
		if b == nil {
			return "ABSENT"
		}
		return string(b)
	})
}

// features of the schema reachable from the root (through references).
type feat struct {
	refs, multiRef, nullable, nullableRef, recursive bool
	nodes                                            int
}

func (f *feat) walk(n *Node, types map[string]*Node, open map[string]bool, done map[string]bool) {
	f.nodes++
	if n.Nullable {
		f.nullable = true
	}
	switch n.Kind {
	case "ref":
		f.refs = true
		if len(n.Names) > 1 {
			f.multiRef = true
		}
		if n.Nullable {
			f.nullableRef = true
		}
		for _, nm := range n.Names {
			if open[nm] {
				f.recursive = true
			}
			if done[nm] {
				continue
			}
			done[nm] = true
			open[nm] = true
			f.walk(types[nm], types, open, done)
			open[nm] = false
		}
	case "arr":
		for _, it := range n.Items {
			f.walk(it, types, open, done)
		}
	case "obj":
		for _, p := range n.Props {
			f.walk(p.Val, types, open, done)
		}
	}
}

type oneCase struct {
	line, impl, input string
	nontrivial        bool
	stats             []string
}

type tableResult struct {
	stats []string
	cases []oneCase
}

func showInput(rootText string, typeTexts map[string]string) string {
	var sb strings.Builder
	sb.WriteString("SCHEMA:\n" + rootText + "\nTYPES (AddType name = text):")
	for _, nm := range typeNames {
		sb.WriteString("\n@" + nm + " = " + typeTexts[nm])
	}
	return sb.String()
}

// oneTable generates one type table + root, checks it, and asks for its example.
func oneTable(seed int64) tableResult {
	g := &gen{r: rand.New(rand.NewSource(seed))}
	var res tableResult
	types := map[string]*Node{}
	typeTexts := map[string]string{}
	env := "(env"
	for _, nm := range typeNames {
		types[nm] = g.genNode(2, true)
		typeTexts[nm] = strings.Join(printNode(types[nm], 0, "", "", false), "\n")
		env += " (t " + nm + " " + sx(types[nm]) + ")"
	}
	env += ")"
	root := g.genNode(3, true)
	rootText := strings.Join(printNode(root, 0, "", "", false), "\n")
	v := example(rootText, typeTexts, typeNames)
	if strings.HasPrefix(v, "CHECKERR") || strings.HasPrefix(v, "ADDERR") || strings.HasPrefix(v, "PANIC") {
		w := strings.SplitN(v, " ", 3)
		res.stats = append(res.stats, "check_failed")
		if w[0] == "PANIC" {
			res.stats = append(res.stats, "check_failed_PANIC")
		} else {
			res.stats = append(res.stats, "check_failed_"+w[0]+"_"+w[1])
		}
		return res
	}
	var f feat
	f.walk(root, types, map[string]bool{}, map[string]bool{})
	res.stats = append(res.stats, "tables_checked", "root_"+root.Kind)
	for _, fl := range []struct {
		on bool
		nm string
	}{{f.refs, "table_uses_ref"}, {f.multiRef, "table_uses_ref_alternatives"}, {f.nullable, "table_uses_nullable"},
		{f.nullableRef, "table_uses_nullable_ref"}, {f.recursive, "table_recursive_types"}} {
		if fl.on {
			res.stats = append(res.stats, fl.nm)
		}
	}
	st := []string{"example_built"}
	if v == "ERROR" || v == "ABSENT" {
		st = []string{"example_" + v}
	}
	res.cases = append(res.cases, oneCase{
		line:  "ex " + env + " " + sx(root),
		impl:  v,
		input: showInput(rootText, typeTexts),
		// the example is built below the root node or through a named type
		nontrivial: root.Kind == "arr" || root.Kind == "obj" || root.Kind == "ref",
		stats:      st,
	})
	return res
}

func Run(args []string) {
	rep := vh.NewReport(command, "random type tables as in sem-types (4 named types of depth<=2, root of depth<=3: scalars of 5 kinds, any, arrays, objects with required/optional properties, references @a|@b|@c incl. recursive ones, nullable) printed as JSight text -> real AddType/Check/Example(), same IR as S-expressions -> Lean EX.build; one case per table that passes Check; compared: example text byte for byte, or ERROR / ABSENT; nontrivial = root is an array, object or reference (the example is built below the root / through a named type)")
	r := vh.NewRand(salt)
	nTables := vh.Pick(30000, 900000)
	const batch = 50000
	for done := 0; done < nTables; done += batch {
		n := batch
		if nTables-done < n {
			n = nTables - done
		}
		seeds := make([]int64, n)
		for i := range seeds {
			seeds[i] = r.Int63()
		}
		results := make([]tableResult, n)
		var wg sync.WaitGroup
		next := make(chan int, n)
		for i := 0; i < n; i++ {
			next <- i
		}
		close(next)
		for w := runtime.NumCPU(); w > 0; w-- {
			wg.Add(1)
			go func() {
				defer wg.Done()
				for i := range next {
					results[i] = oneTable(seeds[i])
				}
			}()
		}
		wg.Wait()
		var reqs, impl, inputs []string
		for _, res := range results {
			rep.Stat("tables_generated")
			for _, s := range res.stats {
				rep.Stat(s)
			}
			for _, c := range res.cases {
				for _, s := range c.stats {
					rep.Stat(s)
				}
				rep.Case(c.line, c.nontrivial)
				reqs = append(reqs, c.line)
				impl = append(impl, c.impl)
				inputs = append(inputs, c.input)
			}
		}
		rep.Compare(reqs, impl, inputs, 16)
	}
	rep.Finish()
}
