package c14

// Second schema stream of c14-len: accepted schemas whose STRINGS carry the byte sequences that delimit the other
// syntactic constructs of the notation.
//
// C14 quantifies over ALL accepted schemas S. A scanner that only looks for the end of S (length mode) is tempted
// to pass over the inside of a construct "because only its end matters"; that is sound only as long as the bytes
// that end the construct cannot occur inside it in another role. The places where they can are the strings:
// a regex pattern, a const / enum item, a type name or an or-alternative inside the rule-set of an annotation, the
// free note of an annotation, an example string, a key. So this stream builds every string from parts, the parts
// being drawn from the delimiters of the notation (annotation open / close `/*` `*/` `//`, user comment `#` `###`,
// the quote and the backslash in their escaped spellings — also a backslash as the LAST character of a string —,
// brackets and braces, `@` and `|` of type shortcuts, `,` `:` and the ` - ` that opens a note, escaped line breaks)
// next to ordinary letters, in every JSON spelling (`/` and `\/`, `\u00XX`), and puts them
//   - into rules (regex built from the parts of the example so that it matches; const; enum; type / or with type
//     names and nested rule-sets; additionalProperties) of INLINE and of MULTI-LINE annotations (one line, or with
//     line breaks between and inside the rules, enum items with their own inline comments),
//   - into notes (inline notes: every delimiter but `#`, which opens a user comment there; multi-line notes: every
//     delimiter but `*/`),
//   - into example strings and keys,
// on a root scalar, on properties, on array items and on the containers themselves.
// Only what Check accepts is kept (the rest is counted and dropped); how S ends (for the side condition on the
// trailing text) is known from the construction. The demand is the one of the first stream, unchanged.

import (
	"fmt"
	"math/rand"
	stdregexp "regexp"
	"strings"
	"unicode/utf8"

	"verifharness/x/c13"
)

// delimiter parts (decoded text) and the name under which their use is counted
var delimParts = []struct{ name, dec string }{
	{"close-multi", "*/"}, {"open-multi", "/*"}, {"open-inline", "//"}, {"hash", "#"}, {"block", "###"}, {"quote", `"`}, {"backslash", `\`},
	{"brace-open", "{"}, {"brace-close", "}"}, {"bracket-open", "["}, {"bracket-close", "]"}, {"at", "@"}, {"bar", "|"}, {"LF", "\n"}, {"CRLF", "\r\n"},
	{"slash", "/"}, {"star", "*"}, {"comma", ","}, {"colon", ":"}, {"note-dash", " - "}, {"tab", "\t"}, {"apostrophe", "'"},
	// short combinations that look like a whole construct
	{"close-multi", "*/ "}, {"close-multi", " */"}, {"open-multi", "/* x */"}, {"open-inline", " // "}, {"brace-open", "{}"}, {"brace-close", "\"}"}, {"at", "@t | @u"},
	{"quote", `\"`}, {"bracket-close", "\"]"}, {"block", "### c ###"}, {"brace-open", `{min: 1}`}, {"close-multi", "**/"}, {"close-multi", "*/*"},
}

var fillParts = []string{"a", "b", "x1", "api", "v1", " ", "é", "0", "Z", "cat", "_"}

type dgen struct {
	r     *rand.Rand
	stats map[string]bool
	nodes int
	keyNo int
}

func (g *dgen) chance(p float64) bool { return g.r.Float64() < p }

// parts draws the decoded parts of one string; ctx names the place for the input-distribution counters.
func (g *dgen) parts(ctx string) []string {
	var ps []string
	for n := 1 + g.r.Intn(4); n > 0; n-- {
		if g.chance(0.6) {
			d := delimParts[g.r.Intn(len(delimParts))]
			ps = append(ps, d.dec)
			g.stats[d.name+"_in_"+ctx] = true
		} else {
			ps = append(ps, fillParts[g.r.Intn(len(fillParts))])
		}
	}
	return ps
}

// spell writes a decoded string as a JSON string literal in a random spelling.
func (g *dgen) spell(dec string) string {
	var sb strings.Builder
	sb.WriteByte('"')
	for _, c := range dec {
		switch {
		case c == '"':
			sb.WriteString(`\"`)
		case c == '\\':
			sb.WriteString(`\\`)
		case c == '\n':
			sb.WriteString(`\n`)
		case c == '\r':
			sb.WriteString(`\r`)
		case c == '\t':
			sb.WriteString(`\t`)
		case c == '/' && g.chance(0.2):
			sb.WriteString(`\/`)
		case c < 0x80 && g.chance(0.03):
			sb.WriteString(fmt.Sprintf([]string{`\u%04x`, `\u%04X`}[g.r.Intn(2)], c))
		default:
			sb.WriteRune(c)
		}
	}
	sb.WriteByte('"')
	return sb.String()
}

// regex atoms that match the empty string and look like delimiters
var zeroAtoms = []string{`/*`, `(\*/)?`, `(//)*`, `[*/]*`, `[{}]?`, `[\[\]]*`, `[#@|]*`, `"?`, `\\*`, `(###)?`, `#*`, `\n?`, `'{0,2}`, `(/\*)*`,
	`(@t \| @u)?`, `,?`, `(a|\|)?`, `( - )?`, `(\{min: 1\})?`, `("\})?`}

// regexFor builds a pattern that matches the string made of the parts ps: every part literally, as a run of dots
// or as `.*`, with empty-matching atoms in between. Confirmed with Go's regexp (the engine of the library); the
// quoted whole is the fall-back.
func (g *dgen) regexFor(ps []string) string {
	dec := strings.Join(ps, "")
	var sb strings.Builder
	if g.chance(0.7) {
		sb.WriteByte('^')
	}
	for _, p := range ps {
		if g.chance(0.3) {
			sb.WriteString(zeroAtoms[g.r.Intn(len(zeroAtoms))])
		}
		nl := strings.ContainsAny(p, "\r\n")
		switch k := g.r.Intn(5); {
		case k == 3 && !nl:
			sb.WriteString(strings.Repeat(".", utf8.RuneCountInString(p)))
		case k == 4 && !nl:
			sb.WriteString(".*")
		default:
			sb.WriteString(stdregexp.QuoteMeta(p))
		}
	}
	if g.chance(0.3) {
		sb.WriteString(zeroAtoms[g.r.Intn(len(zeroAtoms))])
	}
	if g.chance(0.7) {
		sb.WriteByte('$')
	}
	pat := sb.String()
	if re, err := stdregexp.Compile(pat); err != nil || !re.MatchString(dec) {
		pat = "^" + stdregexp.QuoteMeta(dec) + "$"
	}
	for _, d := range delimParts[:15] {
		if strings.Contains(pat, d.dec) {
			g.stats[d.name+"_in_regex"] = true
		}
	}
	return pat
}

type drule struct{ name, val string }

// arr spells an array value of a rule; in a multi-line annotation possibly one item per line, items possibly
// with an inline comment of their own.
func (g *dgen) arr(items []string, multi bool, ind string) string {
	if multi && g.chance(0.35) {
		comments := g.chance(0.4)
		var sb strings.Builder
		sb.WriteString("[\n")
		for i, it := range items {
			sb.WriteString(ind + "    " + it)
			if i+1 < len(items) {
				sb.WriteByte(',')
			}
			if comments && g.chance(0.6) {
				sb.WriteString(" // " + g.note("inline", "item-comment"))
			}
			sb.WriteByte('\n')
		}
		sb.WriteString(ind + "  ]")
		return sb.String()
	}
	sep := ", "
	if g.chance(0.2) {
		sep = ","
	}
	return "[" + strings.Join(items, sep) + "]"
}

func (g *dgen) ruleSet(rules []drule, multi bool, ind string) string {
	brk := multi && g.chance(0.4)
	var sb strings.Builder
	sb.WriteByte('{')
	if brk {
		sb.WriteString("\n" + ind + "  ")
	} else if g.chance(0.2) {
		sb.WriteByte(' ')
	}
	for i, ru := range rules {
		if i > 0 {
			if brk {
				sb.WriteString(",\n" + ind + "  ")
			} else {
				sb.WriteString(", ")
			}
		}
		name := ru.name
		if g.chance(0.25) {
			name = `"` + name + `"`
		}
		sb.WriteString(name + ":" + []string{" ", " ", "", "  "}[g.r.Intn(4)] + ru.val)
	}
	if brk {
		sb.WriteString("\n" + ind)
	} else if g.chance(0.2) {
		sb.WriteByte(' ')
	}
	sb.WriteByte('}')
	return sb.String()
}

// note draws free annotation text. Inline notes keep clear of `#` (a user comment starts there) and of line
// breaks; multi-line notes keep clear of `*/` (the note ends there) and may run over several lines.
func (g *dgen) note(style, ctx string) string {
	var sb strings.Builder
	for n := 1 + g.r.Intn(4); n > 0; n-- {
		if g.chance(0.55) {
			d := delimParts[g.r.Intn(len(delimParts))]
			p := d.dec
			if style == "inline" && strings.ContainsAny(p, "#\r\n") {
				continue
			}
			if style == "multi" && p == "\r\n" { // (a CR inside a note is kept out: line ends of S are LF)
				continue
			}
			sb.WriteString(p)
			g.stats[d.name+"_in_"+style+"_"+ctx] = true
		} else {
			sb.WriteString(fillParts[g.r.Intn(len(fillParts))])
		}
		if g.chance(0.3) {
			sb.WriteByte(' ')
		}
	}
	s := strings.Trim(sb.String(), " \t\r\n")
	if style == "multi" {
		for strings.Contains(s, "*/") {
			s = strings.Replace(s, "*/", "* /", 1)
		}
		s = strings.TrimSuffix(s, "*") // `**/` would still close
	}
	if s == "" || s[0] == '{' { // (a note that starts with `{` would be read as a rule-set)
		s = "n " + s
	}
	return strings.TrimRight(s, " ")
}

// annotation spells rules and / or a note as an inline or a multi-line annotation; "" when there is nothing.
func (g *dgen) annotation(rules []drule, multi, withNote bool, ind string) string {
	if len(rules) == 0 && !withNote {
		return ""
	}
	style := "inline"
	if multi {
		style = "multi"
	}
	var body string
	if len(rules) > 0 {
		g.stats[style+"_annotation_with_rules"] = true
		body = g.ruleSet(rules, multi, ind)
		if withNote {
			body += []string{" - ", " -", "- ", "  -  "}[g.r.Intn(4)] + g.note(style, "note")
		}
	} else {
		body = g.note(style, "note")
	}
	if !multi {
		return "//" + []string{" ", "", "  "}[g.r.Intn(3)] + body
	}
	open, cl := "/* ", " */"
	switch g.r.Intn(5) {
	case 0:
		open = "/*\n" + ind + "  "
	case 1:
		open = "/*"
	}
	switch g.r.Intn(5) {
	case 0:
		cl = "\n" + ind + "*/"
	case 1:
		cl = "*/"
		if strings.HasSuffix(body, "*") || strings.HasSuffix(body, "/") {
			cl = " */"
		}
	}
	return open + body + cl
}

// strItems: enum items around the example item `own`, strings with delimiter parts and a few other literals.
func (g *dgen) strItems(own, ownDec string) []string {
	items := []string{own}
	seen := map[string]bool{ownDec: true}
	for n := g.r.Intn(4); n > 0; n-- {
		if g.chance(0.75) {
			d := strings.Join(g.parts("enum-item"), "")
			if !seen[d] {
				seen[d] = true
				items = append(items, g.spell(d))
			}
		} else {
			l := []string{"7", "null", "true", "-1.5"}[g.r.Intn(4)]
			if !seen["\x00"+l] && l != own {
				seen["\x00"+l] = true
				items = append(items, l)
			}
		}
	}
	g.r.Shuffle(len(items), func(i, j int) { items[i], items[j] = items[j], items[i] })
	return items
}

// scalar returns the value text, its rules, and the ending kind of the bare value.
func (g *dgen) scalar(multi bool, ind string) (val string, rules []drule, end string) {
	r := g.r
	g.nodes++
	switch k := r.Intn(20); {
	case k < 13: // string
		var ps []string
		if g.chance(0.7) {
			ps = g.parts("example-string")
		} else {
			ps = []string{fillParts[r.Intn(len(fillParts))], fillParts[r.Intn(len(fillParts))]}
		}
		dec := strings.Join(ps, "")
		val, end = g.spell(dec), "quote"
		switch r.Intn(9) {
		case 0, 1, 2:
			rules = append(rules, drule{"regex", g.spell(g.regexFor(ps))})
			if g.chance(0.3) {
				rules = append(rules, drule{"minLength", "0"})
			}
		case 3:
			rules = append(rules, drule{"const", "true"})
		case 4, 5:
			rules = append(rules, drule{"enum", g.arr(g.strItems(val, dec), multi, ind)})
		case 6:
			alt := []string{
				g.ruleSet([]drule{{"type", `"string"`}, {"regex", g.spell(g.regexFor(ps))}}, false, ind),
				[]string{`{type: "integer"}`, `"@t"`, `{type: "@t"}`, `"boolean"`, g.ruleSet([]drule{{"enum", g.arr(g.strItems("1", "\x001"), false, ind)}}, false, ind)}[r.Intn(5)],
			}
			if g.chance(0.5) {
				alt[0], alt[1] = alt[1], alt[0]
			}
			rules = append(rules, drule{"or", g.arr(alt, multi, ind)})
		case 7:
			rules = append(rules, drule{"type", `"string"`})
			if g.chance(0.5) {
				rules = append(rules, drule{"regex", g.spell(g.regexFor(ps))})
			}
		}
	case k < 16: // integer
		v := r.Intn(30) - 5
		val, end = fmt.Sprint(v), "number"
		switch r.Intn(5) {
		case 0, 1:
			rules = append(rules, drule{"enum", g.arr(g.strItems(val, "\x00"+val), multi, ind)})
		case 2:
			ps := g.parts("or-member-regex")
			rules = append(rules, drule{"or", g.arr([]string{`{type: "integer"}`, g.ruleSet([]drule{{"type", `"string"`}, {"regex", g.spell(g.regexFor(ps))}}, false, ind)}, multi, ind)})
		case 3:
			rules = append(rules, drule{"min", fmt.Sprint(v - 1)})
		}
	case k < 18: // type shortcut
		val, end = []string{"@t", "@u", "@t | @u", "@u|@t"}[r.Intn(4)], "shortcut"
		if g.chance(0.3) {
			rules = append(rules, drule{"nullable", "true"})
		}
	default:
		val, end = []string{"true", "false", "null"}[r.Intn(3)], "word"
		if val != "null" && g.chance(0.4) {
			rules = append(rules, drule{"enum", g.arr(g.strItems(val, "\x00"+val), multi, ind)})
		}
	}
	if g.chance(0.15) && end != "shortcut" {
		rules = append(rules, drule{"nullable", "true"})
	}
	r.Shuffle(len(rules), func(i, j int) { rules[i], rules[j] = rules[j], rules[i] })
	return
}

func (g *dgen) key(used map[string]bool) string {
	for {
		var dec string
		if g.chance(0.5) {
			dec = strings.Join(g.parts("key"), "")
		} else {
			g.keyNo++
			dec = fmt.Sprintf("k%d", g.keyNo)
		}
		if dec != "" && !used[dec] && dec[0] != '@' {
			used[dec] = true
			return g.spell(dec)
		}
	}
}

// member prints one property / item (prefix = `"key": ` or ""), with its comma, on its own line(s).
func (g *dgen) member(sb *strings.Builder, depth int, ind, prefix, comma string, inObj bool) {
	r := g.r
	multi := g.chance(0.5)
	withNote := g.chance(0.35)
	if depth > 0 && r.Intn(4) == 0 {
		open, cl, rules := g.container(depth-1, ind)
		ann := g.annotation(rules, multi && g.chance(0.5), withNote && g.chance(0.5), ind)
		if ann != "" {
			ann = " " + ann
		}
		sb.WriteString(ind + prefix + open[0] + ann + "\n" + open[1] + ind + cl + comma + "\n")
		return
	}
	val, rules, _ := g.scalar(multi, ind)
	if inObj && g.chance(0.2) {
		rules = append(rules, drule{"optional", "true"})
	}
	ann := g.annotation(rules, multi, withNote, ind)
	switch {
	case ann == "":
		sb.WriteString(ind + prefix + val + comma + "\n")
	case multi && comma != "" && g.chance(0.15): // the annotation between the value and its comma
		sb.WriteString(ind + prefix + val + " " + ann + comma + "\n")
	default:
		sb.WriteString(ind + prefix + val + comma + []string{" ", "  ", "\t", ""}[r.Intn(4)] + ann + "\n")
	}
}

// container returns {opening bracket, inner lines}, the closing bracket, and the rules of the container itself.
func (g *dgen) container(depth int, ind string) (open [2]string, cl string, rules []drule) {
	r := g.r
	g.nodes++
	var sb strings.Builder
	n := 1 + r.Intn(3)
	if r.Intn(2) == 0 {
		used := map[string]bool{}
		for i := 0; i < n; i++ {
			comma := ","
			if i+1 == n {
				comma = ""
			}
			g.member(&sb, depth, ind+"  ", g.key(used)+[]string{": ", ":", " : "}[r.Intn(3)], comma, true)
		}
		if g.chance(0.3) {
			rules = append(rules, drule{"additionalProperties", []string{`"@t"`, `"string"`, "true", `"any"`}[r.Intn(4)]})
		}
		return [2]string{"{", sb.String()}, "}", rules
	}
	for i := 0; i < n; i++ {
		comma := ","
		if i+1 == n {
			comma = ""
		}
		g.member(&sb, depth, ind+"  ", "", comma, false)
	}
	if g.chance(0.3) {
		rules = append(rules, drule{"minItems", "0"})
	}
	return [2]string{"[", sb.String()}, "]", rules
}

// genDelimSchema: one candidate schema text (a root scalar with its annotation, or a container of depth <= 3) (to be filtered by Check) with the user types @t and @u of
// smallTypes, how it ends, and the places where delimiter parts were put.
func genDelimSchema(seed int64, rootScalar bool) (st c13.SchemaText, stats []string) {
	g := &dgen{r: rand.New(rand.NewSource(seed)), stats: map[string]bool{}}
	r := g.r
	st.Types = smallTypes.Types
	multi := g.chance(0.5)
	withNote := g.chance(0.35)
	switch {
	case rootScalar: // a root scalar and its annotation
		val, rules, end := g.scalar(multi, "")
		ann := g.annotation(rules, multi, withNote, "")
		st.Root, st.End = val, end
		if ann != "" {
			st.Root = val + []string{" ", "  ", "\t", ""}[r.Intn(4)] + ann
			st.End = "inline-annotation"
			if multi {
				st.End = "multiline-annotation"
			}
		}
		g.stats["root_scalar"] = true
	default:
		open, cl, rules := g.container(r.Intn(3), "")
		ann := g.annotation(rules, multi && g.chance(0.5), withNote, "")
		if ann != "" {
			ann = " " + ann
		}
		st.Root, st.End = open[0]+ann+"\n"+open[1]+cl, "bracket"
		g.stats["root_container"] = true
	}
	st.Nodes = g.nodes
	for s := range g.stats {
		stats = append(stats, s)
	}
	return st, stats
}
