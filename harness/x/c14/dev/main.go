package main

import (
	"os"

	c14 "verifharness/x/c14"
)

func main() { c14.Run(os.Args[1:]) }
