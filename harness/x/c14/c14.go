// Package c14: harness command `c14-len`.
//
// Property C14 — Len reports exactly where an embedded schema, document or enum ends.
//
// For an accepted text S (schema / JSON document / enum rule / regex type) with no trailing blanks, a
// separator sep (none, spaces, tabs, LF / CRLF runs, mixes) and a trailing text T over a directive-like
// alphabet, under the property's side condition "T cannot continue S":
//
//	Len(S+sep+T) = len(S), no error; the prefix of that length passes Check and means what S means.
//
// Side condition as generated:
//   - T = "", or
//   - sep != "" and T starts with a non-blank byte, or
//   - sep = "" and S ends with `}` `]` or `"` (JSON documents: also with a scalar whose token the first
//     byte of T cannot extend) and T's first byte is foreign;
//   - schemas and enums: the first byte of T is neither `/` nor `#` (an annotation or a comment on a following
//     line DOES continue a schema), and not `|` after a type shortcut;
//   - a schema that ends with an inline annotation / an enum that ends with a `//` comment needs a line break
//     in sep (otherwise T is part of the annotation);
//   - never a foreign byte directly after a number or a type shortcut in schema mode (`1x` is one token
//     there), never a byte of [0-9.eE] directly after a number in JSON mode;
//   - a schema that ends with a `#` line comment needs a line break in sep (otherwise T is comment text; and a
//     trailing user comment that runs into the END OF INPUT is not counted by Len at all: `{} # c` -> 2 but
//     `{} # c` + LF -> 6 — recorded as an observation, nothing demanded); one that ends with a `### … ###` block
//     needs a line break in sep or a non-empty T for the same reason.
//
// History independence of Len (every case): the same text is also measured on ONE object after a short random
// history of loading calls (schema: Check / AddType / GetAST / Validate / Example / UsedUserTypes; JSON document:
// Check / NextLexeme; enum: Check / Values / GetAST; regex: Pattern / Check / Example / GetAST) and must give
// what a fresh object gives — number or error. Schema texts are also generated with leading layout (blanks, line
// breaks, user comments before the root value) and with endings that carry no content: empty inline annotation
// `//`, empty multi-line annotation `/**/`, empty `#` comment, empty block comment, each followed by LF / CRLF
// runs and foreign text.
//
// Second schema stream (delim.go): accepted schemas whose strings — rule values inside inline and multi-line
// annotations, notes, example strings, keys — are built from the byte sequences that delimit the other constructs of
// the notation; same demand.
//
// Malformed starts: a proper prefix of S that contains the first byte of the root value but not its last
// (cut inside a string, inside an object / array, after a ':', inside an annotation of an unclosed root)
// must make Len return an error. Texts with no value at all (empty, blanks, only user comments): nothing
// is demanded, see below.
package c14

import (
	stderrors "errors"
	"fmt"
	"io"
	"math/rand"
	stdregexp "regexp"
	"strings"

	jlib "github.com/jsightapi/jsight-schema-go-library"
	jdoc "github.com/jsightapi/jsight-schema-go-library/formats/json"
	"github.com/jsightapi/jsight-schema-go-library/notations/jschema"
	"github.com/jsightapi/jsight-schema-go-library/notations/regex"
	"github.com/jsightapi/jsight-schema-go-library/rules/enum"

	"verifharness/vh"
	"verifharness/x/c13"
)

const (
	command = "c14-len"
	salt    = 1401
)

// Texts with no value at all (empty, only blanks, only user comments): the statement does not define them
// ("Len returns an error when the text does not begin with a lexically complete schema" speaks about malformed
// starts; the repository's own TestEnum_Len pins Len("") = 0 without error). Nothing is demanded about them:
// they are evaluated and counted in the stats only (a panic escaping the API would still be a diff).

func perr(e error) string {
	var pe jlib.ParsingError
	if stderrors.As(e, &pe) {
		return fmt.Sprintf("ERR %d@%d", pe.ErrCode(), pe.Position())
	}
	return "ERR other: " + strings.SplitN(e.Error(), "\n", 2)[0]
}

type lenRes struct {
	n   int
	err string // "" = no error; "PANIC …"
}

func (l lenRes) String() string {
	if l.err != "" {
		return l.err
	}
	return fmt.Sprintf("LEN %d", l.n)
}

func guard(f func() lenRes) (out lenRes) {
	defer func() {
		if r := recover(); r != nil {
			out = lenRes{err: fmt.Sprintf("PANIC %v", r)}
		}
	}()
	return f()
}

func lenOf(kind, text string) lenRes {
	return guard(func() lenRes {
		var n uint
		var err error
		switch kind {
		case "schema":
			n, err = jschema.New("s", text).Len()
		case "json":
			n, err = jdoc.New("d", text, jdoc.AllowTrailingNonSpaceCharacters()).Len()
		case "enum":
			n, err = enum.New("e", text).Len()
		case "regex":
			n, err = regex.New("r", text).Len()
		}
		if err != nil {
			return lenRes{err: perr(err)}
		}
		return lenRes{n: int(n)}
	})
}

// ---------------------------------------------------------------------------------------------------------
// separators and trailing texts

var seps = []string{"", "", "", " ", "  ", "\t", " \t ", "\n", "\r\n", "\n\n", "\r\n\r\n", " \n", "\n  ", "\t\r\n \n", "\r", "\n\r\n\t", "    \n\n\n"}

func sepClass(s string) string {
	switch {
	case s == "":
		return "none"
	case strings.Trim(s, " ") == "":
		return "spaces"
	case strings.Trim(s, "\t") == "":
		return "tabs"
	case strings.Trim(s, " \t") == "":
		return "spaces+tabs"
	case strings.Trim(s, "\n") == "":
		return "LF-run"
	case strings.Trim(s, "\r\n") == "" && strings.Contains(s, "\r\n"):
		return "CRLF-run"
	}
	return "mix"
}

var directives = []string{"GET /x", "TYPE @a", "Path", "POST /cats/{id}", "200 @cat", "Body", ": x", "{", "}", "a", "Z9", "0",
	"\"q\"", "@a", "URL /", "Request", "Query {\"a\": 1}", "GET /x\n  200 {}\n", "x", "]", "[", ":", "9 lives", "e", "E5", ".5", "-", "+1",
	"MACRO @m", "PASTE @m", "JSIGHT 0.3", "INFO", "Title \"x\"", "#not", "/path", "|", ",", "true", "null", "@", "TYPE @a\n{\n  \"id\": 1 // {min: 1}\n}",
	"}}", "{}", "1", "ünï", "\x00", "*/", "//", "###", "=", "\\", "'"}

const tAlphabet = "GETYPath0123456789:{}[]\"@/# \n\t.,-_|eE*"

// shortAlphabet: very short trailing texts (1-3 bytes) exercise the byte right AFTER the first foreign byte
// (line break, annotation / comment start, bracket) — the place where a delayed end-of-value decision lives.
const shortAlphabet = "ax9:{}\"\n\r/# ,@|]*"

func genT(r *rand.Rand) string {
	if r.Intn(3) == 0 {
		b := make([]byte, 1+r.Intn(3))
		for i := range b {
			b[i] = shortAlphabet[r.Intn(len(shortAlphabet))]
		}
		return string(b)
	}
	if r.Intn(3) != 0 {
		return directives[r.Intn(len(directives))]
	}
	n := 1 + r.Intn(8)
	b := make([]byte, n)
	for i := range b {
		b[i] = tAlphabet[r.Intn(len(tAlphabet))]
	}
	return string(b)
}

func isBlank(c byte) bool { return c == ' ' || c == '\t' || c == '\n' || c == '\r' }

// pickTail draws (sep, T) that satisfy the side condition for a text of the given kind ending as `end`.
// end: bracket quote number word shortcut inline-annotation multiline-annotation
func pickTail(r *rand.Rand, kind, end string) (sep, t string) {
	for {
		sep = seps[r.Intn(len(seps))]
		if r.Intn(7) == 0 {
			t = ""
		} else {
			t = genT(r)
		}
		if (end == "quote" || end == "shortcut" || end == "number" || end == "word") && r.Intn(2) == 0 {
			// the endings whose end-of-value decision waits for the next byte: more very short tails
			t = t[:0] + string(shortAlphabet[r.Intn(len(shortAlphabet))])
			for r.Intn(2) == 0 && len(t) < 3 {
				t += string(shortAlphabet[r.Intn(len(shortAlphabet))])
			}
		}
		if tailOK(kind, end, sep, t) {
			return
		}
	}
}

// tailOK: the side condition "T (after sep) cannot continue a text of this kind that ends as `end`".
func tailOK(kind, end, sep, t string) bool {
	lineBreak := strings.ContainsAny(sep, "\r\n")
	if end == "line-comment" && !lineBreak {
		return false // T would be comment text; at end of input the comment is not counted (observation)
	}
	if end == "block-comment" && !lineBreak && t == "" {
		return false // a trailing block comment that runs into the end of input is not counted (observation)
	}
	if t == "" {
		return true
	}
	if end == "inline-annotation" && !lineBreak {
		return false
	}
	c := t[0]
	if isBlank(c) {
		return false
	}
	switch kind {
	case "schema", "enum":
		if c == '/' || c == '#' {
			return false
		}
		if end == "shortcut" && c == '|' {
			return false
		}
		if sep == "" && end != "bracket" && end != "quote" {
			return false
		}
	case "json":
		if sep == "" && end == "number" && strings.IndexByte("0123456789.eE", c) >= 0 {
			return false
		}
	}
	return true
}

// smallTexts: short accepted texts of every ending kind, for the bounded-exhaustive short-tail pass.
var smallTexts = map[string][][2]string{
	"schema": {{`"abc"`, "quote"}, {`""`, "quote"}, {`"a\"b"`, "quote"}, {"1", "number"}, {"-2.5", "number"}, {"0", "number"}, {"true", "word"},
		{"false", "word"}, {"null", "word"}, {"@t", "shortcut"}, {"@t | @u", "shortcut"}, {"@t|@u", "shortcut"}, {"{}", "bracket"}, {"[]", "bracket"},
		{"[1, 2]", "bracket"}, {"{\n  \"a\": @t\n}", "bracket"}, {`"abc" // {minLength: 1}`, "inline-annotation"}, {"1 // note", "inline-annotation"},
		{"@t // {nullable: true}", "inline-annotation"}, {"1 /* {min: 0} */", "multiline-annotation"}, {"@t /* note */", "multiline-annotation"},
		{"# c\n\"abc\"", "quote"}, {"\n@u", "shortcut"},
		// content-less annotations / comments of every kind at the end (and inside)
		{"{} //", "inline-annotation"}, {"[] //", "inline-annotation"}, {`"abc" //`, "inline-annotation"}, {"1 //", "inline-annotation"},
		{"true\t//", "inline-annotation"}, {"@t //", "inline-annotation"}, {"@t | @u //", "inline-annotation"}, {"{}//", "inline-annotation"},
		{"{} /**/", "multiline-annotation"}, {`"abc" /* */`, "multiline-annotation"}, {"1 /*\n*/", "multiline-annotation"}, {"@t /*\r\n\t*/", "multiline-annotation"},
		{"{} #", "line-comment"}, {`"abc" #`, "line-comment"}, {"1 #", "line-comment"}, {"@t #", "line-comment"}, {"[1, 2]#", "line-comment"},
		{"{} #####", "block-comment"}, {`"abc" ### ###`, "block-comment"}, {"1 ######", "line-comment"}, {"@t ###\n###", "block-comment"},
		{"{} # c", "line-comment"}, {"1 ### b ###", "block-comment"},
		{"{\n  \"a\": 1 //\n}", "bracket"}, {"[\n  1, //\n  2 //\n]", "bracket"}, {"{ //\n}", "bracket"}, {"[ //\n  1 #\n]", "bracket"},
		{"  {}", "bracket"}, {"\r\n\t\"abc\"", "quote"}, {"#\n1", "number"}, {"### ###\n  true", "word"}},
	"json": {{"{}", "bracket"}, {"[1]", "bracket"}, {`"ab"`, "quote"}, {`""`, "quote"}, {"1", "number"}, {"-2.5e3", "number"}, {"0", "number"}, {"1.50", "number"},
		{"true", "word"}, {"false", "word"}, {"null", "word"}, {`{"a": [1, "x"]}`, "bracket"}, {" 7", "number"}, {"\n\n{}", "bracket"}, {"\t\"ab\"", "quote"}},
	"enum": {{"[]", "bracket"}, {`[1, "a"]`, "bracket"}, {"[\n  1, // one\n  2\n]", "bracket"}, {"[1] /* c */", "multiline-annotation"}, {"[1] // c", "inline-annotation"},
		{"[1] /**/", "multiline-annotation"}, {"[] /* */", "multiline-annotation"}, {"[1] //", "inline-annotation"}, {"[] //", "inline-annotation"},
		{"\n [1]", "bracket"}, {"  []", "bracket"}},
}

var smallTypes = c13.SchemaText{Types: map[string]string{"t": "1", "u": `"x"`}}

// shortTails: every accepted small text x every separator x EVERY trailing text of length 1 and 2 over
// shortAlphabet (length 3: sampled in the quick tier, exhaustive in the thorough tier) that satisfies the side
// condition; the trailing text ends the input. This is where a one-byte correction of a delayed end-of-value
// decision is visible: `"abc"}` , `"abc",` , `@t x` with nothing after the single foreign byte.
func (x *runner) shortTails(r *rand.Rand) {
	rep := x.rep
	distinctSeps := []string{}
	seen := map[string]bool{}
	for _, sp := range seps {
		if !seen[sp] {
			seen[sp] = true
			distinctSeps = append(distinctSeps, sp)
		}
	}
	for _, kind := range []string{"schema", "json", "enum"} {
		for _, se := range smallTexts[kind] {
			s, end := se[0], se[1]
			accepted := false
			switch kind {
			case "schema":
				accepted = strings.HasPrefix(schemaCheckAST(smallTypes, s), "OK ")
			case "json":
				_, e := jsonEvents(s, false)
				accepted = e == ""
			case "enum":
				accepted = strings.HasPrefix(enumValues(s), "VALUES")
			}
			if !accepted {
				rep.Stat("short_" + kind + "_small_text_not_accepted")
				rep.AddDiff(vh.Diff{Component: "C14-" + kind, Input: fmt.Sprintf("S=%q (small text, ends with %s)", s, end), Impl: "not accepted by Check", Model: "accepted"})
				continue
			}
			x.types = smallTypes
			x.histOnly("C14-"+kind, kind, s, "")
			try := func(sep, t string) {
				if !tailOK(kind, end, sep, t) {
					return
				}
				rep.Stat(fmt.Sprintf("short_%s_T_len_%d", kind, len(t)))
				x.triple("C14-"+kind, kind, s, end, sep, t, "")
			}
			for _, sep := range distinctSeps {
				for i := 0; i < len(shortAlphabet); i++ {
					try(sep, shortAlphabet[i:i+1])
					for j := 0; j < len(shortAlphabet); j++ {
						t2 := string([]byte{shortAlphabet[i], shortAlphabet[j]})
						try(sep, t2)
						if vh.Tier() == "thorough" {
							for k := 0; k < len(shortAlphabet); k++ {
								try(sep, t2+shortAlphabet[k:k+1])
							}
						}
					}
				}
				if vh.Tier() != "thorough" {
					for n := 0; n < 40; n++ {
						try(sep, string([]byte{shortAlphabet[r.Intn(len(shortAlphabet))], shortAlphabet[r.Intn(len(shortAlphabet))], shortAlphabet[r.Intn(len(shortAlphabet))]}))
					}
				}
			}
		}
	}
}

// ---------------------------------------------------------------------------------------------------------
// JSON documents

type jgen struct {
	r      *rand.Rand
	budget int
}

func (g *jgen) ws() string {
	switch g.r.Intn(6) {
	case 0, 1, 2:
		return ""
	case 3:
		return " "
	}
	return []string{"\n", "\t", "\r\n", "  ", " \n "}[g.r.Intn(5)]
}

func (g *jgen) str() string {
	parts := []string{"a", "b", "xyz", "é", "😀", `\"`, `\\`, `\/`, `\n`, `\t`, `A`, `😀`, " ", "/", "{", "]", ":", ",", "e", "0", "#", "//"}
	var sb strings.Builder
	sb.WriteByte('"')
	for i := g.r.Intn(5); i > 0; i-- {
		sb.WriteString(parts[g.r.Intn(len(parts))])
	}
	sb.WriteByte('"')
	return sb.String()
}

func (g *jgen) num() string {
	r := g.r
	var sb strings.Builder
	if r.Intn(3) == 0 {
		sb.WriteByte('-')
	}
	zero := r.Intn(4) == 0
	if zero {
		sb.WriteByte('0')
	} else {
		sb.WriteByte("123456789"[r.Intn(9)])
		for i := r.Intn(4); i > 0; i-- {
			sb.WriteByte("0123456789"[r.Intn(10)])
		}
	}
	frac := r.Intn(3) == 0
	if frac {
		sb.WriteByte('.')
		for i := 1 + r.Intn(3); i > 0; i-- {
			sb.WriteByte("0123456789"[r.Intn(10)])
		}
	}
	// (integer part 0 directly followed by an exponent is known finding K-C10-zeroexp: not generated)
	if r.Intn(4) == 0 && !(zero && !frac) {
		sb.WriteByte("eE"[r.Intn(2)])
		if r.Intn(2) == 0 {
			sb.WriteByte("+-"[r.Intn(2)])
		}
		for i := 1 + r.Intn(2); i > 0; i-- {
			sb.WriteByte("0123456789"[r.Intn(10)])
		}
	}
	return sb.String()
}

// value returns the text and how it ends.
func (g *jgen) value(depth int) (string, string) {
	r := g.r
	g.budget--
	if depth == 0 || g.budget <= 0 || r.Intn(3) == 0 {
		switch r.Intn(6) {
		case 0:
			return "true", "word"
		case 1:
			return "false", "word"
		case 2:
			return "null", "word"
		case 3:
			return g.str(), "quote"
		}
		return g.num(), "number"
	}
	n := r.Intn(5)
	var sb strings.Builder
	if r.Intn(2) == 0 {
		sb.WriteString("[" + g.ws())
		for i := 0; i < n; i++ {
			if i > 0 {
				sb.WriteByte(',')
			}
			v, _ := g.value(depth - 1)
			sb.WriteString(g.ws() + v + g.ws())
		}
		sb.WriteByte(']')
	} else {
		sb.WriteString("{" + g.ws())
		for i := 0; i < n; i++ {
			if i > 0 {
				sb.WriteByte(',')
			}
			v, _ := g.value(depth - 1)
			sb.WriteString(g.ws() + g.str() + g.ws() + ":" + g.ws() + v + g.ws())
		}
		sb.WriteByte('}')
	}
	return sb.String(), "bracket"
}

type jev struct {
	ty   string
	b, e int
}

func jsonEvents(text string, trailing bool) (evs []jev, errs string) {
	defer func() {
		if r := recover(); r != nil {
			errs = fmt.Sprintf("PANIC %v", r)
		}
	}()
	var d jlib.Document
	if trailing {
		d = jdoc.New("d", text, jdoc.AllowTrailingNonSpaceCharacters())
	} else {
		d = jdoc.New("d", text)
	}
	for {
		lex, err := d.NextLexeme()
		if err == io.EOF {
			if lex.File() != nil { // EndTop is delivered together with io.EOF
				evs = append(evs, jev{lex.Type().String(), int(lex.Begin()), int(lex.End())})
			}
			return evs, ""
		}
		if err != nil {
			return nil, perr(err)
		}
		evs = append(evs, jev{lex.Type().String(), int(lex.Begin()), int(lex.End())})
	}
}

func evString(evs []jev) string {
	sb := make([]string, len(evs))
	for i, ev := range evs {
		sb[i] = fmt.Sprintf("%s[%d:%d]", ev.ty, ev.b, ev.e)
	}
	return strings.Join(sb, " ")
}

// ---------------------------------------------------------------------------------------------------------
// enum rules

func genEnum(r *rand.Rand) (text, end string, items int, comments bool) {
	pool := []string{"1", "2", "42", "-7", "3.14", "0", "0.5", `"a"`, `"foo"`, `"é"`, `"a/b"`, `"ab"`, `"x y"`, `"]"`, `"//"`, `"#"`, "true", "false", "null", `"CAT"`, `"😀"`, "100", `""`}
	ws := func() string {
		return []string{"", "", " ", "  ", "\t", "\n", "\r\n", "\n  ", "\n\t"}[r.Intn(9)]
	}
	cm := func() string {
		if r.Intn(3) != 0 {
			return ""
		}
		comments = true
		if r.Intn(2) == 0 {
			return " // " + []string{"c", "Comment for 1", "], GET", "é", "{x}", "#"}[r.Intn(6)] + []string{"\n", "\r\n", "\r"}[r.Intn(3)]
		}
		return " /* " + []string{"c", "My\n   Pets", "] x", "//", "é"}[r.Intn(5)] + " */"
	}
	perm := r.Perm(len(pool))
	items = r.Intn(6)
	var sb strings.Builder
	if r.Intn(5) == 0 {
		sb.WriteString(ws())
	}
	sb.WriteString("[" + ws() + cm())
	for i := 0; i < items; i++ {
		if i > 0 {
			sb.WriteString("," + ws() + cm())
		}
		sb.WriteString(ws() + pool[perm[i]] + ws() + cm())
	}
	sb.WriteString(ws() + "]")
	end = "bracket"
	switch r.Intn(8) {
	case 0:
		sb.WriteString(" /* trailing\n comment */")
		end = "multiline-annotation"
		comments = true
	case 1:
		sb.WriteString(" // trailing comment")
		end = "inline-annotation"
		comments = true
	}
	return sb.String(), end, items, comments
}

func enumValues(text string) string {
	return vh.Recover(func() string {
		e := enum.New("e", text)
		if err := e.Check(); err != nil {
			return perr(err)
		}
		vs, err := e.Values()
		if err != nil {
			return perr(err)
		}
		var sb []string
		for _, v := range vs {
			sb = append(sb, fmt.Sprintf("%s:%s:%q", v.Type, v.Value.String(), v.Comment))
		}
		return "VALUES " + strings.Join(sb, " | ")
	})
}

// ---------------------------------------------------------------------------------------------------------
// regex types

func genRegex(r *rand.Rand) string {
	atoms := []string{"a", "b", "[a-z]+", `\d`, `\/`, `\\`, "(x|y)", ".", "é", "^", "$", "[0-9]{2}", `\w*`, "-", " ", "#", `\.`, "{", `[\/]`, "A?"}
	var sb strings.Builder
	for i := 1 + r.Intn(6); i > 0; i-- {
		sb.WriteString(atoms[r.Intn(len(atoms))])
	}
	return "/" + sb.String() + "/"
}

// ---------------------------------------------------------------------------------------------------------
// schema helpers

func schemaCheckAST(st c13.SchemaText, root string) string {
	return vh.Recover(func() string {
		s := jschema.New("root", root)
		for _, nm := range []string{"t", "u"} {
			if txt, ok := st.Types[nm]; ok {
				if err := s.AddType("@"+nm, jschema.New("@"+nm, txt)); err != nil {
					return "ADDTYPE " + perr(err)
				}
			}
		}
		if err := s.Check(); err != nil {
			return perr(err)
		}
		ast, err := s.GetAST()
		if err != nil {
			return perr(err)
		}
		return fmt.Sprintf("OK %+v", astString(ast))
	})
}

func astString(n jlib.ASTNode) string {
	var sb strings.Builder
	var rules func(m *jlib.RuleASTNodes)
	var rnode func(v jlib.RuleASTNode)
	rnode = func(v jlib.RuleASTNode) {
		fmt.Fprintf(&sb, "%s=%q#%q", v.TokenType, v.Value, v.Comment)
		if v.Properties != nil && v.Properties.Len() > 0 {
			rules(v.Properties)
		}
		if len(v.Items) > 0 {
			sb.WriteByte('[')
			for _, it := range v.Items {
				rnode(it)
				sb.WriteByte(',')
			}
			sb.WriteByte(']')
		}
	}
	rules = func(m *jlib.RuleASTNodes) {
		sb.WriteByte('{')
		if m != nil {
			m.EachSafe(func(k string, v jlib.RuleASTNode) {
				sb.WriteString(k + ":")
				rnode(v)
				sb.WriteByte(';')
			})
		}
		sb.WriteByte('}')
	}
	var node func(n jlib.ASTNode)
	node = func(n jlib.ASTNode) {
		fmt.Fprintf(&sb, "(%s %s %q %q #%q %v ", n.TokenType, n.SchemaType, n.Key, n.Value, n.Comment, n.IsKeyShortcut)
		rules(n.Rules)
		for _, c := range n.Children {
			node(c)
		}
		sb.WriteByte(')')
	}
	node(n)
	return sb.String()
}

func showTypes(st c13.SchemaText) string {
	var sb strings.Builder
	for _, nm := range []string{"t", "u"} {
		if txt, ok := st.Types[nm]; ok {
			fmt.Fprintf(&sb, " AddType @%s = %q;", nm, txt)
		}
	}
	return sb.String()
}

// rootStart returns the offset of the first byte of the root value of a generated schema text (leading blanks,
// `#` comments and `###` blocks skipped), or -1.
func rootStart(s string) int {
	i := 0
	for i < len(s) {
		switch {
		case isBlank(s[i]):
			i++
		case strings.HasPrefix(s[i:], "###"):
			j := strings.Index(s[i+3:], "###")
			if j < 0 {
				return -1
			}
			i += 3 + j + 3
		case s[i] == '#':
			for i < len(s) && s[i] != '\n' && s[i] != '\r' {
				i++
			}
		default:
			return i
		}
	}
	return -1
}

// ---------------------------------------------------------------------------------------------------------

func lenBucket(n int) string {
	switch {
	case n <= 4:
		return "1-4"
	case n <= 20:
		return "5-20"
	case n <= 100:
		return "21-100"
	case n <= 400:
		return "101-400"
	}
	return "401+"
}

func tClass(t string) string {
	if t == "" {
		return "empty"
	}
	c := t[0]
	switch {
	case c >= 'A' && c <= 'Z' || c >= 'a' && c <= 'z':
		return "letter"
	case c >= '0' && c <= '9':
		return "digit"
	case strings.IndexByte("{}[]", c) >= 0:
		return "bracket"
	case c == '"':
		return "quote"
	case c == ':' || c == ',':
		return "colon/comma"
	case c == '@':
		return "at"
	case c == '/' || c == '#':
		return "slash/hash"
	}
	return "other"
}

// ---------------------------------------------------------------------------------------------------------
// leading layout and content-less endings

var leads = []string{" ", "\n", "\r\n", "  \n  ", "\t", "\n\n    ", "# c\n", "#\n", "### b ###\n", " \r\n# c\r\n  ", "#####\t", "######\n"}

type ending struct{ name, text, end string }

// schemaEndings: what may follow the last token of a schema on its line and still belong to it, with NO content
// (and, for comparison, with some): inline annotation, multi-line annotation, line comment, block comment.
var schemaEndings = []ending{
	{"inline-empty", " //", "inline-annotation"}, {"inline-empty", "//", "inline-annotation"}, {"inline-empty", "\t //", "inline-annotation"},
	{"multi-empty", " /**/", "multiline-annotation"}, {"multi-empty", "/* */", "multiline-annotation"}, {"multi-empty", " /*\n*/", "multiline-annotation"},
	{"multi-empty", " /* \r\n\t*/", "multiline-annotation"},
	{"line-comment-empty", " #", "line-comment"}, {"line-comment-empty", "#", "line-comment"},
	{"block-comment-empty", " #####", "block-comment"}, {"block-comment-empty", " ### ###", "block-comment"}, {"block-then-line-comment-empty", "######", "line-comment"},
	{"block-comment-empty", " ###\n###", "block-comment"},
	{"line-comment", " # c", "line-comment"}, {"block-comment", " ### b\n c ###", "block-comment"}, {"inline-note", " // n", "inline-annotation"},
}

var enumEndings = []ending{
	{"inline-empty", " //", "inline-annotation"}, {"inline-empty", "//", "inline-annotation"}, {"multi-empty", " /**/", "multiline-annotation"},
	{"multi-empty", "/* */", "multiline-annotation"}, {"multi-empty", " /*\n*/", "multiline-annotation"},
}

var lineBreakSeps = []string{"\n", "\r\n", "\n\n", "\r\n\r\n", " \n", "\t\r\n", "\n  ", "\r\n\r\n  \t", "\r", " \r\n \n", "\n\n\n\n", "  \r\n"}

// pickLineBreakTail: LF / CRLF runs (3 of 4) or any separator, then foreign text (6 of 7) or nothing, under the
// side condition.
func pickLineBreakTail(r *rand.Rand, kind, end string) (sep, t string) {
	for {
		if r.Intn(4) != 0 {
			sep = lineBreakSeps[r.Intn(len(lineBreakSeps))]
		} else {
			sep = seps[r.Intn(len(seps))]
		}
		t = ""
		if r.Intn(7) != 0 {
			t = genT(r)
		}
		if tailOK(kind, end, sep, t) {
			return
		}
	}
}

// variants of one accepted generated schema: leading layout before it, a content-less annotation / comment
// behind it (where the scanner allows one: a variant that Check refuses is counted and dropped — e.g. an
// annotation behind a non-empty array on the line of its `]`).
func (x *runner) variants(r *rand.Rand, st c13.SchemaText, base string) {
	rep := x.rep
	x.types = st
	if r.Intn(2) == 0 {
		lead := leads[r.Intn(len(leads))]
		s := lead + st.Root
		if got := schemaCheckAST(st, s); got != base {
			rep.AddDiff(vh.Diff{Component: "C14-schema", Input: fmt.Sprintf("S=%q;%s", s, showTypes(st)), Impl: "with leading layout: " + got, Model: base})
			return
		}
		rep.Stat("schema_with_leading_layout")
		alone := lenOf("schema", s)
		if alone.err != "" || alone.n != len(s) {
			rep.AddDiff(vh.Diff{Component: "C14-schema", Input: fmt.Sprintf("S=%q alone;%s", s, showTypes(st)), Impl: "Len(S) = " + alone.String(), Model: fmt.Sprintf("LEN %d = len(S)", len(s))})
		}
		x.history("C14-schema", "schema", s, alone, ";"+showTypes(st))
		sep, t := pickTail(r, "schema", st.End)
		x.triple("C14-schema", "schema", s, st.End, sep, t, ";"+showTypes(st))
	}
	if st.End == "inline-annotation" || st.End == "multiline-annotation" {
		return // there is an annotation behind the last token already
	}
	for k := 0; k < 2; k++ {
		en := schemaEndings[r.Intn(len(schemaEndings))]
		s := st.Root + en.text
		got := schemaCheckAST(st, s)
		if !strings.HasPrefix(got, "OK ") {
			rep.Stat("schema_ending_" + en.name + "_not_accepted_dropped")
			continue
		}
		rep.Stat("schema_ending_" + en.name)
		x.histOnly("C14-schema", "schema", s, ";"+showTypes(st))
		sep, t := pickLineBreakTail(r, "schema", en.end)
		if x.triple("C14-schema", "schema", s, en.end, sep, t, ";"+showTypes(st)) {
			if again := schemaCheckAST(st, (s + sep + t)[:len(s)]); again != got {
				rep.AddDiff(vh.Diff{Component: "C14-schema", Input: fmt.Sprintf("S=%q sep=%q T=%q;%s", s, sep, t, showTypes(st)), Impl: "Check/AST of prefix: " + again, Model: got})
			}
		}
	}
}

// one measured text with the answer the statement demands: want >= 0 = that length, want = -1 = an error
type pooled struct {
	kind, text string
	want       int
}

type runner struct {
	pool    []pooled // accepted texts with the demanded length
	malPool []pooled // malformed starts (an error is demanded)
	rep     *vh.Report
	hr      *rand.Rand     // PRNG of the call histories (apart from the case stream)
	types   c13.SchemaText // user types of the schema under test (for AddType in histories)
}

// ---------------------------------------------------------------------------------------------------------
// Len after a call history on the same object

var histOps = map[string][]string{
	"schema": {"Check", "AddType", "GetAST", "Validate", "Example", "UsedUserTypes"},
	"json":   {"Check", "NextLexeme", "NextLexeme3", "Drain"},
	"enum":   {"Check", "Values", "GetAST"},
	"regex":  {"Pattern", "Check", "Example", "GetAST"},
}

// lenAfterHistory builds ONE object for the text, performs a short random history of loading calls (results
// ignored), then asks Len. Returns what Len said and the history.
func (x *runner) lenAfterHistory(kind, text string) (lenRes, string) {
	r := x.hr
	var ops []string
	if kind == "schema" && r.Intn(2) == 0 {
		ops = append(ops, "AddTypes") // every user type first: the loading calls behind it succeed for accepted S
	}
	for n := 1 + r.Intn(3); n > 0; n-- {
		ops = append(ops, histOps[kind][r.Intn(len(histOps[kind]))])
	}
	res := guard(func() lenRes {
		var n uint
		var err error
		switch kind {
		case "schema":
			s := jschema.New("s", text)
			added := map[string]bool{}
			addNext := func(all bool) {
				for _, nm := range []string{"t", "u"} {
					if txt, ok := x.types.Types[nm]; ok && !added[nm] {
						added[nm] = true
						_ = s.AddType("@"+nm, jschema.New("@"+nm, txt))
						if !all {
							return
						}
					}
				}
				if !all {
					_ = s.AddType("@zz", jschema.New("@zz", "1"))
				}
			}
			for _, op := range ops {
				switch op {
				case "AddTypes":
					addNext(true)
				case "AddType":
					addNext(false)
				case "Check":
					_ = s.Check()
				case "GetAST":
					_, _ = s.GetAST()
				case "Validate":
					_ = s.Validate(jdoc.New("d", "1"))
				case "Example":
					_, _ = s.Example()
				case "UsedUserTypes":
					_, _ = s.UsedUserTypes()
				}
			}
			n, err = s.Len()
		case "json":
			d := jdoc.New("d", text, jdoc.AllowTrailingNonSpaceCharacters())
			for _, op := range ops {
				k := 0
				switch op {
				case "Check":
					_ = d.Check()
				case "NextLexeme":
					k = 1
				case "NextLexeme3":
					k = 3
				case "Drain":
					k = 1 << 20
				}
				for ; k > 0; k-- {
					if _, e := d.NextLexeme(); e != nil {
						break
					}
				}
			}
			n, err = d.Len()
		case "enum":
			e := enum.New("e", text)
			for _, op := range ops {
				switch op {
				case "Check":
					_ = e.Check()
				case "Values":
					_, _ = e.Values()
				case "GetAST":
					_, _ = e.GetAST()
				}
			}
			n, err = e.Len()
		case "regex":
			s := regex.New("r", text)
			for _, op := range ops {
				switch op {
				case "Pattern":
					_, _ = s.Pattern()
				case "Check":
					_ = s.Check()
				case "Example":
					_, _ = s.Example()
				case "GetAST":
					_, _ = s.GetAST()
				}
			}
			n, err = s.Len()
		}
		if err != nil {
			return lenRes{err: perr(err)}
		}
		return lenRes{n: int(n)}
	})
	return res, strings.Join(ops, ", ")
}

// history demands: Len of the text after a call history on the same object = Len on a fresh object.
func (x *runner) history(comp, kind, text string, fresh lenRes, extraInput string) {
	hist, ops := x.lenAfterHistory(kind, text)
	x.rep.Stat(kind + "_history_checked")
	if fresh.err == "" {
		x.rep.Stat(kind + "_history_on_text_with_Len_ok")
	}
	if hist != fresh {
		x.rep.AddDiff(vh.Diff{Component: comp + "-history",
			Input: fmt.Sprintf("%s text %q; one object: %s, then Len()%s", kind, text, ops, extraInput),
			Impl:  "Len after the history = " + hist.String(),
			Model: "Len on a fresh object = " + fresh.String()})
	}
}

// histOnly: the text alone, nothing demanded about the number (a text that may end with a user comment).
func (x *runner) histOnly(comp, kind, text, extraInput string) {
	x.rep.Case("H\x00"+kind+"\x00"+text, strings.TrimLeft(text, " \t\r\n") != text || strings.Contains(text, "#"))
	fresh := lenOf(kind, text)
	// observation (no demand, C14 speaks of S followed by text that cannot continue it): a user comment that runs
	// into the END OF INPUT is not counted by schema Len (`{} # c` -> 2, but `{} # c` + LF -> 6)
	if kind == "schema" && fresh.err == "" {
		switch {
		case fresh.n == len(text):
			x.rep.Stat("observation_schema_alone_Len_counts_whole_text")
		default:
			x.rep.Stat("observation_schema_alone_Len_stops_before_trailing_user_comment")
		}
	}
	x.history(comp, kind, text, fresh, extraInput)
}

// triple checks Len(S+sep+T) = len(S) and returns whether it held.
func (x *runner) triple(comp, kind, s, end, sep, t, extraInput string) bool {
	rep := x.rep
	whole := s + sep + t
	rep.Case(kind+"\x00"+s+"\x00"+sep+"\x00"+t, t != "")
	rep.Stat(kind + "_sep_" + sepClass(sep))
	rep.Stat(kind + "_T_" + tClass(t))
	rep.Stat(kind + "_end_" + end)
	rep.Stat(kind + "_len_" + lenBucket(len(s)))
	got := lenOf(kind, whole)
	x.history(comp, kind, whole, got, extraInput)
	if got.err != "" || got.n != len(s) {
		rep.AddDiff(vh.Diff{Component: comp,
			Input: fmt.Sprintf("S=%q sep=%q T=%q (S ends with %s)%s", s, sep, t, end, extraInput),
			Impl:  "Len(S+sep+T) = " + got.String(),
			Model: fmt.Sprintf("LEN %d = len(S)", len(s))})
		return false
	}
	if len(x.pool) < 60000 {
		x.pool = append(x.pool, pooled{kind, whole, len(s)})
	}
	return true
}

// interleaved: Len of a text does not depend on which OTHER objects were measured before it — accepted texts (with and
// without trailing text), bare values ending exactly at the end of the text, and malformed starts of every kind, in a
// random order, each on a fresh object; the answers are those of the streams above (len(S) / an error).
func (x *runner) interleaved(r *rand.Rand, n int) {
	rep := x.rep
	pool := append([]pooled(nil), x.pool...)
	for _, v := range []string{"42", "0", "-1", "1.5", "true", "false", "null", `"a"`, `""`, "[]", "{}", "[1]", `{"a": 1}`, "7 ", "[1, 2]\n"} {
		pool = append(pool, pooled{"schema", v, len(strings.TrimRight(v, " \n"))}, pooled{"json", v, len(strings.TrimRight(v, " \n"))})
	}
	for _, v := range []string{"@a", "@a | @b", "[]", "[1]", `["a", 2]`} {
		k := "schema"
		if v[0] == '[' {
			k = "enum"
		}
		pool = append(pool, pooled{k, v, len(v)})
	}
	for _, v := range []string{`"abc`, `{"a": tru}`, "-", "12.", `"a\q"`, "@cat | ", "[1,", `{"a"`, "{", "[", `"\u12`, "tru", "1e", "[1 2]", `{"a" 1}`, "nul", `["x`} {
		pool = append(pool, pooled{"schema", v, -1}, pooled{"json", v, -1})
		if v[0] == '[' {
			pool = append(pool, pooled{"enum", v, -1})
		}
	}
	small := pool[len(x.pool):] // the hand-written short texts (accepted and malformed)
	for i := 0; i < n; i++ {
		var p pooled
		switch {
		case i%4 == 0 && len(x.malPool) > 0:
			p = x.malPool[r.Intn(len(x.malPool))]
		case i%4 == 3 && len(x.pool) > 0:
			p = x.pool[r.Intn(len(x.pool))]
		default:
			p = small[r.Intn(len(small))]
		}
		got := lenOf(p.kind, p.text)
		rep.Case("I\x00"+p.kind+"\x00"+p.text, true)
		rep.Stat("interleaved_" + p.kind)
		bad := (p.want < 0 && got.err == "") || (p.want >= 0 && (got.err != "" || got.n != p.want))
		if bad {
			want := "an error"
			if p.want >= 0 {
				want = fmt.Sprintf("LEN %d", p.want)
			}
			rep.AddDiff(vh.Diff{Component: "C14-interleaved", Input: fmt.Sprintf("%s text %q measured on a fresh object as call #%d of a random sequence of Len calls on OTHER fresh objects (accepted and malformed texts alternating)", p.kind, p.text, i+1),
				Impl: "Len = " + got.String(), Model: want + " (what the same text gives when measured first)"})
		}
	}
}

func Run(args []string) {
	rep := vh.NewReport(command, "accepted texts S (generated schemas in random spellings incl. annotations, user comments, shortcuts; generated JSON documents with random layout; enum rules with // and /* */ comments; regex types /P/) x separators (none, spaces, tabs, LF/CRLF runs, mixes) x trailing texts T (directive lines and random strings over a directive-like alphabet) filtered by the side condition 'T cannot continue S'; demanded Len(S+sep+T)=len(S), prefix passes Check with the same AST / event list / Values / Pattern; malformed starts (proper prefix cut after the first and before the last byte of the root value: random cut, after ':', inside a string) must give an error; texts without any value (empty, blanks, only comments) are evaluated and counted, nothing is demanded about them; every text is also measured on one object after a short random history of loading calls and must give what a fresh object gives; schema texts also with leading layout and with content-less annotations / comments at the end followed by LF / CRLF runs and foreign text; a second schema stream whose strings (regex / const / enum / or / type rule values of inline and multi-line annotations, notes, example strings, keys; on root scalars, properties, items, containers) are built from the delimiters of the notation (*/ /* // # ### escaped quote and backslash, brackets, braces, @ |, comma, colon, note dash, escaped line breaks) in every JSON spelling, kept when Check accepts them. nontrivial = T is not empty (triples) / the prefix is not empty (malformed)")
	x := &runner{rep: rep, hr: vh.NewRand(salt + 1)}
	r := vh.NewRand(salt)
	r2 := vh.NewRand(salt + 2) // leading layout and content-less endings (apart from the main case stream)
	nSchema, nJSON, nEnum, nRegex, nMal := vh.Pick(1400, 40000), vh.Pick(1400, 60000), vh.Pick(1400, 60000), vh.Pick(700, 20000), vh.Pick(2400, 60000)
	nDelim := vh.Pick(2500, 60000)

	// ---- schemas: 3 tails per accepted S
	var kept []c13.SchemaText
	schemaCase := func(r *rand.Rand, st c13.SchemaText, stream string) bool {
		s := st.Root
		if s != strings.TrimRight(s, " \t\r\n") || s == "" {
			rep.AddDiff(vh.Diff{Component: "C14-schema", Input: fmt.Sprintf("%q", s), Impl: "GENERATOR BUG: S has trailing blanks or is empty"})
			return false
		}
		base := schemaCheckAST(st, s)
		if !strings.HasPrefix(base, "OK ") {
			rep.Stat(stream + "_not_accepted_skipped")
			return false
		}
		rep.Stat(stream + "_accepted")
		for _, rw := range st.Rewrites {
			rep.Stat("schema_spelling_" + rw)
		}
		kept = append(kept, st)
		x.types = st
		alone := lenOf("schema", s)
		if alone.err != "" || alone.n != len(s) {
			rep.AddDiff(vh.Diff{Component: "C14-schema", Input: fmt.Sprintf("S=%q alone;%s", s, showTypes(st)), Impl: "Len(S) = " + alone.String(), Model: fmt.Sprintf("LEN %d = len(S)", len(s))})
		}
		x.history("C14-schema", "schema", s, alone, ";"+showTypes(st))
		for k := 0; k < 3; k++ {
			sep, t := pickTail(r, "schema", st.End)
			if x.triple("C14-schema", "schema", s, st.End, sep, t, ";"+showTypes(st)) {
				// the prefix Len points at is S itself: Check and AST of the prefix are those of S (checked above once);
				// re-checked through the returned number to keep the demand literal.
				n := lenOf("schema", s+sep+t).n
				if again := schemaCheckAST(st, (s + sep + t)[:n]); again != base {
					rep.AddDiff(vh.Diff{Component: "C14-schema", Input: fmt.Sprintf("S=%q sep=%q T=%q;%s", s, sep, t, showTypes(st)), Impl: "Check/AST of prefix: " + again, Model: base})
				}
			}
		}
		x.variants(r2, st, base)
		return true
	}
	for i := 0; i < nSchema; i++ {
		schemaCase(r, c13.GenSchemaText(r.Int63()>>8), "schema")
	}

	// ---- schemas whose strings (rule values, notes, examples, keys) carry the delimiters of the notation (delim.go)
	rd := vh.NewRand(salt + 4)
	for i := 0; i < nDelim; i++ {
		st, stats := genDelimSchema(rd.Int63()>>8, i < nDelim*2/5) // the short ones (root scalars) first: short failing inputs first
		if schemaCase(rd, st, "delim_schema") {
			for _, s := range stats {
				rep.Stat("delim_" + s)
			}
		}
	}

	x.shortTails(r)

	// ---- JSON documents
	for i := 0; i < nJSON; i++ {
		g := &jgen{r: r, budget: 4 + r.Intn(40)}
		lead := ""
		if r.Intn(6) == 0 {
			lead = []string{" ", "\n", "\t", "\r\n  "}[r.Intn(4)]
		}
		v, end := g.value(r.Intn(5))
		s := lead + v
		strict, e := jsonEvents(s, false)
		if e != "" {
			rep.AddDiff(vh.Diff{Component: "C14-json", Input: fmt.Sprintf("%q", s), Impl: "generated document not accepted: " + e, Model: "valid JSON"})
			continue
		}
		for k := 0; k < 3; k++ {
			sep, t := pickTail(r, "json", end)
			if !x.triple("C14-json", "json", s, end, sep, t, "") {
				continue
			}
			whole := s + sep + t
			evs, e := jsonEvents(whole, true)
			if e == "" && len(evs) > 0 && evs[len(evs)-1].ty == "end-top" {
				evs = evs[:len(evs)-1]
				rep.Stat("json_end_top_event_seen")
			}
			if e != "" || evString(evs) != evString(strict) {
				rep.AddDiff(vh.Diff{Component: "C14-json", Input: fmt.Sprintf("S=%q sep=%q T=%q", s, sep, t),
					Impl:  "events of S+sep+T (trailing characters allowed, end-top dropped): " + e + evString(evs),
					Model: "events of S alone: " + evString(strict)})
			}
			if c := vh.Recover(func() string {
				if err := jdoc.New("d", whole[:len(s)]).Check(); err != nil {
					return perr(err)
				}
				return "OK"
			}); c != "OK" {
				rep.AddDiff(vh.Diff{Component: "C14-json", Input: fmt.Sprintf("S=%q", s), Impl: "Check(prefix) = " + c, Model: "OK"})
			}
		}
	}

	// ---- enum rules
	var keptEnums []string
	for i := 0; i < nEnum; i++ {
		s, end, items, comments := genEnum(r)
		base := enumValues(s)
		if !strings.HasPrefix(base, "VALUES") {
			rep.AddDiff(vh.Diff{Component: "C14-enum", Input: fmt.Sprintf("%q", s), Impl: "generated enum not accepted: " + base, Model: "accepted"})
			continue
		}
		rep.Stat(fmt.Sprintf("enum_items_%d", items))
		if comments {
			rep.Stat("enum_with_comments")
		}
		if end == "bracket" {
			keptEnums = append(keptEnums, s)
		}
		for k := 0; k < 3; k++ {
			sep, t := pickTail(r, "enum", end)
			if x.triple("C14-enum", "enum", s, end, sep, t, "") {
				if again := enumValues((s + sep + t)[:len(s)]); again != base {
					rep.AddDiff(vh.Diff{Component: "C14-enum", Input: fmt.Sprintf("S=%q sep=%q T=%q", s, sep, t), Impl: again, Model: base})
				}
			}
		}
	}

	// ---- enum rules that end with a content-less comment
	for i := 0; i < len(keptEnums) && i < vh.Pick(300, 6000); i++ {
		base := keptEnums[i]
		for _, en := range enumEndings {
			s := base + en.text
			vals := enumValues(s)
			if !strings.HasPrefix(vals, "VALUES") {
				rep.AddDiff(vh.Diff{Component: "C14-enum", Input: fmt.Sprintf("%q", s), Impl: "enum with a content-less comment at the end not accepted: " + vals, Model: "accepted"})
				continue
			}
			rep.Stat("enum_ending_" + en.name)
			x.histOnly("C14-enum", "enum", s, "")
			sep, t := pickLineBreakTail(r2, "enum", en.end)
			if x.triple("C14-enum", "enum", s, en.end, sep, t, "") {
				if again := enumValues((s + sep + t)[:len(s)]); again != vals {
					rep.AddDiff(vh.Diff{Component: "C14-enum", Input: fmt.Sprintf("S=%q sep=%q T=%q", s, sep, t), Impl: again, Model: vals})
				}
			}
		}
	}

	// ---- regex types: Len = length of the /P/ token whatever follows
	for i := 0; i < nRegex; i++ {
		s := genRegex(r)
		pat := vh.Recover(func() string {
			p, err := regex.New("r", s).Pattern()
			if err != nil {
				return perr(err)
			}
			return "PATTERN " + p
		})
		if !strings.HasPrefix(pat, "PATTERN ") {
			// the atoms only build patterns Go's regexp accepts: a refusal is a failure to find the end of /P/
			if _, err := stdregexp.Compile(s[1 : len(s)-1]); err != nil {
				rep.Stat("regex_generated_invalid_skipped")
				continue
			}
			rep.AddDiff(vh.Diff{Component: "C14-regex", Input: fmt.Sprintf("%q", s), Impl: pat, Model: "PATTERN " + s[1:len(s)-1]})
			continue
		}
		if pat != "PATTERN "+s[1:len(s)-1] {
			rep.AddDiff(vh.Diff{Component: "C14-regex", Input: fmt.Sprintf("%q", s), Impl: pat, Model: "PATTERN " + s[1:len(s)-1]})
			continue
		}
		for k := 0; k < 3; k++ {
			sep := seps[r.Intn(len(seps))]
			t := ""
			if r.Intn(7) != 0 {
				t = genT(r)
			}
			if x.triple("C14-regex", "regex", s, "slash", sep, t, "") {
				whole := s + sep + t
				again := vh.Recover(func() string {
					p, err := regex.New("r", whole).Pattern()
					if err != nil {
						return perr(err)
					}
					return "PATTERN " + p
				})
				if again != pat {
					rep.AddDiff(vh.Diff{Component: "C14-regex", Input: fmt.Sprintf("S=%q sep=%q T=%q", s, sep, t), Impl: again, Model: pat})
				}
			}
		}
	}

	// ---- malformed starts
	mal := func(kind, text, how string, nontrivial bool) {
		rep.Case("M\x00"+kind+"\x00"+text, nontrivial)
		rep.Stat("malformed_" + kind + "_" + how)
		got := lenOf(kind, text)
		if kind != "regex" && len(x.malPool) < 20000 {
			x.malPool = append(x.malPool, pooled{kind, text, -1})
		}
		if got.err == "" {
			rep.AddDiff(vh.Diff{Component: "C14-malformed", Input: fmt.Sprintf("%s text %q (%s)", kind, text, how), Impl: "Len = " + got.String(), Model: "an error: the text does not begin with a lexically complete " + kind})
		} else {
			rep.Stat("malformed_error_" + strings.SplitN(strings.TrimPrefix(got.err, "ERR "), "@", 2)[0])
		}
	}
	nothing := func(kind, text, how string) {
		rep.Case("N\x00"+kind+"\x00"+text, text != "")
		rep.Stat("nothing_" + kind + "_" + how)
		got := lenOf(kind, text)
		switch {
		case strings.HasPrefix(got.err, "PANIC"):
			rep.AddDiff(vh.Diff{Component: "C14-malformed", Input: fmt.Sprintf("%s text %q (%s: no value at all)", kind, text, how), Impl: "Len = " + got.String(), Model: "no panic"})
		case got.err != "":
			rep.Stat("nothing_" + kind + "_answer_error")
		case got.n == 0:
			rep.Stat("nothing_" + kind + "_answer_0")
		default:
			rep.Stat("nothing_" + kind + "_answer_positive")
		}
	}
	cut := func(r *rand.Rand, s string, lo, hi int) (int, string) { // cut position in [lo, hi)
		switch r.Intn(3) {
		case 0:
			var ps []int
			for i := lo; i < hi; i++ {
				if s[i-1] == ':' {
					ps = append(ps, i)
				}
			}
			if len(ps) > 0 {
				return ps[r.Intn(len(ps))], "cut-after-colon"
			}
		case 1:
			var ps []int
			for i := lo; i < hi; i++ {
				if s[i-1] == '"' {
					ps = append(ps, i)
				}
			}
			if len(ps) > 0 {
				return ps[r.Intn(len(ps))], "cut-at-quote"
			}
		}
		return lo + r.Intn(hi-lo), "cut-random"
	}
	for i := 0; i < nMal; i++ {
		switch i % 3 {
		case 0: // schema
			if len(kept) == 0 {
				continue
			}
			st := kept[r.Intn(len(kept))]
			s := st.Root
			rs := rootStart(s)
			if rs < 0 || (st.End != "bracket" && st.End != "quote") || len(s)-rs < 2 {
				continue
			}
			p, how := cut(r, s, rs+1, len(s))
			mal("schema", s[:p], how, true)
			if r.Intn(4) == 0 { // blanks after the cut do not complete anything
				mal("schema", s[:p]+[]string{" ", "\n", "\r\n\t"}[r.Intn(3)], how+"+blanks", true)
			}
		case 1: // json
			g := &jgen{r: r, budget: 4 + r.Intn(30)}
			s, end := g.value(1 + r.Intn(4))
			if (end != "bracket" && end != "quote") || len(s) < 2 {
				continue
			}
			p, how := cut(r, s, 1, len(s))
			mal("json", s[:p], how, true)
		default: // enum
			if len(keptEnums) == 0 {
				continue
			}
			s := keptEnums[r.Intn(len(keptEnums))]
			rs := strings.IndexByte(s, '[')
			p, how := cut(r, s, rs+1, len(s))
			mal("enum", s[:p], how, true)
		}
	}
	blanks := []string{"", " ", "\n", "\t", "  \n\t", "\r\n", "\r", "\n\n\n", " \t \r\n "}
	comments := []string{"# c", "# c\n", "#", "#\n", "### x ###", "###\nblock\n###\n", "# a\n# b\n", " # c", "\n# c\r\n", "# {\"a\": 1}", "### [1, 2] ###", "# c\n\n\n", "#c\r", "### a ### # b\n"}
	for _, kind := range []string{"schema", "json", "enum"} {
		for _, b := range blanks {
			how := "only-blanks"
			if b == "" {
				how = "empty"
			}
			nothing(kind, b, how)
		}
	}
	for _, c := range comments {
		nothing("schema", c, "only-comment")
		// `#` is no comment in a JSON document or an enum rule: the text starts with a foreign byte
		mal("json", c, "only-comment", true)
		mal("enum", c, "only-comment", true)
	}
	for _, c := range []string{"// c", "// c\n", "/* c */", "/* c */\n"} {
		mal("enum", c, "only-comment", true) // an enum must start with '['
		mal("json", c, "only-comment", true)
	}
	for _, c := range []string{"", "abc", "/abc", "/", "//", " /a/", "/a\\/", "/[/"} {
		mal("regex", c, "regex", c != "")
	}
	x.interleaved(vh.NewRand(salt+3), vh.Pick(20000, 300000))
	rep.Finish()
}
