package c03keytype

// Generator of string key types: copied from x/sem-keys/keytypes.go (genKeyType, finish, candidates).

import (
	"encoding/hex"
	"math/rand"
	"regexp"
	"strconv"
	"strings"
)

func b01(v bool) string {
	if v {
		return "1"
	}
	return "0"
}

// keyType is one string type used as a key type: an example and a rule set.
type keyType struct {
	slot string // k0..k3: the name of the type in the schema (@k0 …) and the model predicate standing for it
	ex   string
	pat  string
	re   *regexp.Regexp
	min  int // -1: absent
	max  int // -1: absent
	enum []string
	typ  string   // explicit `type` rule: "" = none | "string" | "enum" | "email" | "uri" | "uuid" | "date" | "datetime"
	cnst int      // const: 0 absent, 1 true, 2 false
	null int      // nullable: 0 absent, 1 true, 2 false
	text string   // schema text of the type
	wire []string // raw rules of the `semcf` request
	kind string   // none | enum | regex | minLength | regex+maxLength | type_email | enum+type_enum | … (const / nullable counted apart)
}

// format: the format the explicit `type` rule demands ("" = none: no type rule, "string", "enum").
func (t *keyType) format() string {
	switch t.typ {
	case "email", "uri", "uuid", "date", "datetime":
		return t.typ
	}
	return ""
}

// ruleFree: none of the type's rules survives compilation. `type: "string"` (the JSON kind of the example), `type:
// "enum"` (says that there is an enum rule), `const: false` and `nullable: false` say what the type without rules says,
// and the compiler drops them: such a type is the type WITHOUT RULES, which as a key type stands for its example (the
// reading of this command from the start: model predicate k2 = the key "zz"; the unchanged tree follows it for all of
// these spellings). Every other rule set — `nullable: true` included, which adds null to the values and no key —
// admits exactly the keys the type accepts as a value.
func (t *keyType) ruleFree() bool {
	return t.enum == nil && t.re == nil && t.min < 0 && t.max < 0 && t.format() == "" && t.cnst != 1 && t.null != 1
}

// violated lists the rules of the type the key does not satisfy (a type without rules is its example).
func (t *keyType) violated(k string) []string {
	var v []string
	switch {
	case t.enum != nil:
		in := false
		for _, e := range t.enum {
			in = in || e == k
		}
		if !in {
			v = append(v, "enum")
		}
	case t.ruleFree():
		if k != t.ex {
			v = append(v, "example")
		}
	default:
		if t.re != nil && !t.re.MatchString(k) {
			v = append(v, "regex")
		}
		if t.min >= 0 && len(k) < t.min {
			v = append(v, "minLength")
		}
		if t.max >= 0 && len(k) > t.max {
			v = append(v, "maxLength")
		}
		if f := t.format(); f != "" && !fmtOK(f, k) {
			v = append(v, "type_"+f)
		}
	}
	if t.cnst == 1 && k != t.ex {
		v = append(v, "const")
	}
	return v
}

func (t *keyType) accepts(k string) bool { return len(t.violated(k)) == 0 }

// nRules: how many rules decide (type "string" / "enum", nullable and const: false do not).
func (t *keyType) nRules() int {
	n := 0
	if t.format() != "" {
		n++
	}
	if t.cnst == 1 {
		n++
	}
	if t.re != nil {
		n++
	}
	if t.min >= 0 {
		n++
	}
	if t.max >= 0 {
		n++
	}
	if t.enum != nil {
		n++
	}
	return n
}

func hexs(s string) string { return hex.EncodeToString([]byte(s)) }

// keys are ASCII without quote, backslash and control characters: the JSON token is the key in quotes
func quote(s string) string { return `"` + s + `"` }

func (t *keyType) finish(r *rand.Rand) {
	var rs, ws, names []string
	if t.enum != nil {
		var it, wi []string
		for _, e := range t.enum {
			it = append(it, quote(e))
			wi = append(wi, hexs(quote(e)))
		}
		rs = append(rs, "enum: ["+strings.Join(it, ", ")+"]")
		ws = append(ws, "e:"+strings.Join(wi, ","))
		names = append(names, "enum")
	}
	if t.re != nil {
		rs = append(rs, "regex: "+quote(t.pat))
		ws = append(ws, "r:"+hexs(t.pat))
		names = append(names, "regex")
	}
	if t.min >= 0 {
		rs = append(rs, "minLength: "+strconv.Itoa(t.min))
		ws = append(ws, "l:"+strconv.Itoa(t.min))
		names = append(names, "minLength")
	}
	if t.max >= 0 {
		rs = append(rs, "maxLength: "+strconv.Itoa(t.max))
		ws = append(ws, "L:"+strconv.Itoa(t.max))
		names = append(names, "maxLength")
	}
	t.kind = strings.Join(names, "+")
	if t.kind == "" {
		t.kind = "none"
	}
	if t.typ != "" {
		rs = append(rs, `type: "`+t.typ+`"`)
		if f := t.format(); f != "" {
			ws = append(ws, "t:"+f)
		} else {
			ws = append(ws, "t:other")
		}
		if t.kind == "none" {
			t.kind = "type_" + t.typ
		} else {
			t.kind += "+type_" + t.typ
		}
	}
	if t.cnst != 0 {
		rs = append(rs, "const: "+strconv.FormatBool(t.cnst == 1))
		ws = append(ws, "C"+b01(t.cnst == 1))
	}
	if t.null != 0 {
		rs = append(rs, "nullable: "+strconv.FormatBool(t.null == 1))
		ws = append(ws, "N"+b01(t.null == 1))
	}
	if r != nil { // the order of the rules in the annotation is free
		r.Shuffle(len(rs), func(i, j int) { rs[i], rs[j] = rs[j], rs[i]; ws[i], ws[j] = ws[j], ws[i] })
	}
	t.text = quote(t.ex)
	if len(rs) > 0 {
		t.text += " // {" + strings.Join(rs, ", ") + "}"
	}
	t.wire = ws
}

var keyWords = []string{"ab", "abc", "a", "key", "k1", "id7", "xyz", "zz", "abcd", "b2b", "x", "ba", "cab", "a1"}

// patterns without quote and backslash (printed verbatim inside a JSON string)
var keyPatterns = []string{"^[a-z]+$", "^[a-z]", "[0-9]$", "^a", "b", "^.{2,3}$", "^[a-z0-9]*$", "^(ab|xy|k)", "^[^0-9]*$", "c$", "^[a-c]+$", "[a-z][0-9]"}

var extraKeys = []string{"", "A", "AB", "a1", "abcd", "abcde", "zzz", "zzzz", "x", "k", "id", "a-b", "Abc", "ab1", "1", "12", "xyz", "B", "a b", "_", "e", "q"}

// genKeyType draws a string type from everything a string type can carry: no rule at all, an enum rule, any non-empty
// subset of regex / minLength / maxLength, a FORMAT type (`type: "email" | "uri" | "uuid" | "date" | "datetime"`, the
// example a valid value of the format), next to them the explicit `type` rule that names what the type is anyway
// (`type: "string"`, `type: "enum"` beside an enum rule) and const / nullable, true or false. Combinations the checker
// refuses (a format type with a length / regex / enum rule) are not string types and are not drawn.
func genKeyType(r *rand.Rand) *keyType {
	t := &keyType{ex: keyWords[r.Intn(len(keyWords))], min: -1, max: -1}
	switch k := r.Intn(20); {
	case k < 2: // no deciding rule
		if r.Intn(3) == 0 {
			t.typ = "string"
		}
	case k < 5: // enum
		t.enum = []string{t.ex}
		for i := r.Intn(4); i > 0; i-- {
			c := keyWords[r.Intn(len(keyWords))]
			if r.Intn(3) == 0 {
				c = extraKeys[r.Intn(len(extraKeys))]
			}
			dup := false
			for _, e := range t.enum {
				dup = dup || e == c
			}
			if !dup {
				t.enum = append(t.enum, c)
			}
		}
		r.Shuffle(len(t.enum), func(i, j int) { t.enum[i], t.enum[j] = t.enum[j], t.enum[i] })
		if r.Intn(2) == 0 {
			t.typ = "enum"
		}
	case k < 10: // a format type
		t.typ = fmtNames[r.Intn(len(fmtNames))]
		t.ex = fmtExample(r, t.typ)
	default:
		// a non-empty subset of {regex, minLength, maxLength}; two or three rules 3 times in 4
		var m int
		if r.Intn(4) == 0 {
			m = []int{1, 2, 4}[r.Intn(3)]
		} else {
			m = []int{3, 5, 6, 7}[r.Intn(4)]
		}
		if m&1 != 0 {
			off := r.Intn(len(keyPatterns))
			for i := range keyPatterns {
				p := keyPatterns[(off+i)%len(keyPatterns)]
				if re := regexp.MustCompile(p); re.MatchString(t.ex) {
					t.pat, t.re = p, re
					break
				}
			}
		}
		L := len(t.ex)
		if m&2 != 0 {
			t.min = L - r.Intn(3)
			if t.min < 0 {
				t.min = 0
			}
		}
		if m&4 != 0 {
			t.max = L + r.Intn(3)
		}
		if r.Intn(5) == 0 {
			t.typ = "string"
		}
	}
	// const / nullable: one type in three from the 3 x 3 grid absent / true / false, else rarely
	if r.Intn(3) == 0 {
		t.null, t.cnst = r.Intn(3), r.Intn(3)
	} else {
		if r.Intn(5) == 0 {
			t.null = 1 + r.Intn(2)
		}
		if r.Intn(6) == 0 {
			t.cnst = 1 + r.Intn(2)
		}
	}
	t.finish(r)
	return t
}

const mutChars = "aA1-_zb"

// candidates: strings around the type's accepted set: the example, the enum items, each of them one character
// longer / shorter (at either end), with one character replaced by a letter of another class, repeated up to one
// above maxLength, cut down to one below minLength.
func (t *keyType) candidates(r *rand.Rand) []string {
	base := append([]string{t.ex}, t.enum...)
	var out []string
	for _, b := range base {
		out = append(out, b)
		for _, c := range mutChars {
			out = append(out, b+string(c), string(c)+b)
		}
		if len(b) > 0 {
			out = append(out, b[1:], b[:len(b)-1])
			i := r.Intn(len(b))
			for _, c := range mutChars {
				out = append(out, b[:i]+string(c)+b[i+1:])
			}
			out = append(out, strings.ToUpper(b))
		}
		if t.max >= 0 && len(b) > 0 {
			x := b
			for len(x) <= t.max {
				x += b[len(b)-1:]
			}
			out = append(out, x)
		}
		if t.min >= 1 && len(b) >= t.min {
			out = append(out, b[:t.min-1], b[len(b)-t.min+1:])
		}
	}
	if f := t.format(); f != "" {
		out = append(out, fmtProbes(r, f)...)
	}
	var keep []string
	for _, k := range out {
		if keyOK(k) {
			keep = append(keep, k)
		}
	}
	return keep
}

