// Package c03keytype: harness command `c03-keytype`.
//
// The KEY TEST of a key shortcut, real code against the Lean model KeyType.keyStep (driver word `keyt`,
// lean/Driver/KeyType.lean): for a key type @K and a document key token <key>,
//
//	real:  root `{ @K: 1 }` + AddType(@K) + Check, then Validate(`{<key>: 1}`) == nil   (the root has no other way to take a key)
//	model: keyt <kind of the root of @K> <example token> <key token> <decoded key> <oracle bits> <constraints>  ==  1
//
// Key types are drawn from everything Check accepts on a string (generator of x/sem-keys: no rule, enum, regex /
// minLength / maxLength subsets, format types, explicit type string / enum, const / nullable true / false, rules in any
// order), here additionally with the EXAMPLE spelled with escapes, `type: "any"`, an `or` rule / a type reference on
// the string example (constraints that are no literal validators) and roots that are no strings (Check decides).
// Keys: the probes of x/sem-keys around each type's accepted set, a pool of keys with quote, backslash, control,
// two- to four-byte characters, and every key in up to three SPELLINGS (plain, characters as \uXXXX in either case,
// two-character escapes, surrogate pairs). Regex / mail / uri / RFC 3339 are evaluated in Go on the decoded key and
// sent as oracle bits (protocol of `semcf`); the driver checks that its own Unquote of the key token is the decoded
// key the bits were computed for.
package c03keytype

import (
	stderrors "errors"
	"fmt"
	"math/rand"
	"regexp"
	"runtime"
	"strings"
	"sync"
	"unicode/utf8"

	jlib "github.com/jsightapi/jsight-schema-go-library"
	jdoc "github.com/jsightapi/jsight-schema-go-library/formats/json"
	"github.com/jsightapi/jsight-schema-go-library/notations/jschema"

	"verifharness/vh"
)

const (
	command = "c03-keytype"
	salt    = 3177
)

func errCode(err error) string {
	var pe jlib.ParsingError
	if stderrors.As(err, &pe) {
		return fmt.Sprint(pe.ErrCode())
	}
	return "other"
}

// spell: a JSON string token for the decoded string s. mode 0: shortest (only the mandatory escapes), 1: some
// characters as \uXXXX (lower / upper hex, non-BMP as a surrogate pair) and `/` as `\/`, 2: every character as \uXXXX.
func spell(r *rand.Rand, s string, mode int) string {
	var b strings.Builder
	b.WriteByte('"')
	for _, c := range s {
		esc := mode == 2 || (mode == 1 && r.Intn(3) == 0)
		u := func(v rune) {
			f := "\\u%04x"
			if r.Intn(2) == 0 {
				f = "\\u%04X"
			}
			fmt.Fprintf(&b, f, v)
		}
		switch {
		case esc && c >= 0x10000:
			v := c - 0x10000
			u(0xD800 + (v >> 10))
			u(0xDC00 + (v & 0x3ff))
		case esc:
			u(c)
		case c == '"':
			b.WriteString(`\"`)
		case c == '\\':
			b.WriteString(`\\`)
		case c == '/' && mode == 1:
			b.WriteString(`\/`)
		case c == '\n' && mode == 1:
			b.WriteString(`\n`)
		case c == '\t' && mode == 1:
			b.WriteString(`\t`)
		case c < 0x20:
			fmt.Fprintf(&b, "\\u%04x", c)
		default:
			b.WriteRune(c)
		}
	}
	b.WriteByte('"')
	return b.String()
}

// decoded keys outside printable ASCII / with the notation's delimiters
var oddKeys = []string{"a\"b", "a\\b", "\\", "\"", "a/b", "é", "abé", "日本", "😀", "a😀", "a\nb", "\t", "a b", " ", "zz ", "//", "/*", "#", "{", "a:b", "ǆ", "\u007f", "A", "null", "1", "true"}

// one key type as the library gets it and as the model gets it
type ktype struct {
	text   string   // schema text of @K
	extra  []string // schema texts of further types (@S for a reference)
	kind   string   // s i f b n o
	exTok  string   // EXAMPLE token
	wire   []string // constraints of the keyt request
	re     *regexp.Regexp
	class  string // stat label
	cands  []string
	hasFmt bool
}

func genType(r *rand.Rand) *ktype {
	switch k := r.Intn(40); {
	case k < 2: // a root that is no string
		i := r.Intn(7)
		texts := []string{"12", "1.5", "true", "null", "{}", "[]", "@S | @Q"}
		kinds := []string{"i", "f", "b", "n", "o", "o", "o"}
		return &ktype{text: texts[i], extra: []string{`"s"`, `"q" // {minLength: 1}`}, kind: kinds[i], exTok: texts[i], class: "root_not_a_string_" + []string{"integer", "float", "boolean", "null", "object", "array", "mixed"}[i]}
	case k < 4: // constraints that are no literal validators
		ex := keyWords[r.Intn(len(keyWords))]
		switch r.Intn(4) {
		case 0:
			t := &ktype{text: quote(ex) + ` // {type: "any"}`, kind: "s", exTok: quote(ex), wire: []string{"A"}, class: "type_any"}
			if r.Intn(2) == 0 {
				t.text = quote(ex) + ` // {type: "any", nullable: true}`
				t.wire = []string{"A", "N1"}
			}
			return t
		case 1:
			return &ktype{text: quote(ex) + ` // {type: "@S"}`, extra: []string{`"s" // {minLength: 1}`}, kind: "s", exTok: quote(ex), wire: []string{"T"}, class: "type_reference_on_string_example"}
		case 2:
			return &ktype{text: quote(ex) + ` // {or: [{type: "string", maxLength: 1}, {type: "integer"}]}`, kind: "s", exTok: quote(ex), wire: []string{"T"}, class: "or_on_string_example"}
		default:
			return &ktype{text: quote(ex) + ` // {or: ["@S", "@Q"]}`, extra: []string{`"s"`, `1`}, kind: "s", exTok: quote(ex), wire: []string{"T"}, class: "or_of_names_on_string_example"}
		}
	}
	g := genKeyType(r)
	t := &ktype{text: g.text, kind: "s", exTok: quote(g.ex), wire: g.wire, re: g.re, class: "string_" + g.kind, cands: g.candidates(r), hasFmt: g.format() != ""}
	if g.cnst != 0 {
		t.class += "+const_" + b01(g.cnst == 1)
	}
	if g.null != 0 {
		t.class += "+nullable_" + b01(g.null == 1)
	}
	if g.ruleFree() {
		t.class = "without_effective_rules"
	}
	// the EXAMPLE spelled with escapes, one type in six (the text starts with the example token)
	if r.Intn(6) == 0 && g.enum == nil {
		tok := spell(r, g.ex, 1+r.Intn(2))
		if tok != t.exTok {
			t.text = tok + strings.TrimPrefix(g.text, quote(g.ex))
			t.exTok = tok
			t.class += "+example_with_escapes"
		}
	}
	for _, e := range g.enum {
		t.cands = append(t.cands, e)
	}
	t.cands = append(t.cands, g.ex)
	return t
}

type kcase struct {
	id, req, impl, input, class string
	stats                        []string
	nontrivial                   bool
}

// realKey: `{<keyTok>: 1}` against `{ @K: 1 }`. ACC | REJ | ADDERR … | CHECKERR … | PANIC …
func realKey(t *ktype, keyTok string) string {
	return vh.Recover(func() string {
		s := jschema.New("root", "{\n  @K: 1\n}")
		if err := s.AddType("@K", jschema.New("@K", t.text)); err != nil {
			return "ADDERR " + errCode(err)
		}
		for i, x := range t.extra {
			nm := []string{"@S", "@Q"}[i]
			if err := s.AddType(nm, jschema.New(nm, x)); err != nil {
				return "ADDERR " + errCode(err)
			}
		}
		if err := s.Check(); err != nil {
			return "CHECKERR " + errCode(err)
		}
		if err := s.Validate(jdoc.New("doc", "{"+keyTok+": 1}")); err != nil {
			return "REJ " + errCode(err)
		}
		return "ACC"
	})
}

func realValue(typeText, tok string) string {
	return vh.Recover(func() string {
		s := jschema.New("root", typeText)
		if err := s.Check(); err != nil {
			return "CHECKERR " + errCode(err)
		}
		if err := s.Validate(jdoc.New("doc", tok)); err != nil {
			return "REJ"
		}
		return "ACC"
	})
}

func hexOrDash(s string) string {
	if s == "" {
		return "-"
	}
	return hexs(s)
}

func oneType(seed int64) []kcase {
	r := rand.New(rand.NewSource(seed))
	t := genType(r)
	// decoded keys: the type's probes, common keys, odd keys
	seen := map[string]bool{}
	var keys []string
	add := func(k string) {
		if !seen[k] && utf8.ValidString(k) && !strings.HasPrefix(k, "@") {
			seen[k] = true
			keys = append(keys, k)
		}
	}
	r.Shuffle(len(t.cands), func(i, j int) { t.cands[i], t.cands[j] = t.cands[j], t.cands[i] })
	for i, k := range t.cands {
		if i < 14 || k == strings.Trim(t.exTok, `"`) {
			add(k)
		}
	}
	for i := 0; i < 3; i++ {
		add(extraKeys[r.Intn(len(extraKeys))])
		add(oddKeys[r.Intn(len(oddKeys))])
	}
	add(keyWords[r.Intn(len(keyWords))])
	var out []kcase
	for _, k := range keys {
		toks := map[string]string{spell(r, k, 0): "plain"}
		if r.Intn(2) == 0 || k == "" {
			if s := spell(r, k, 1); toks[s] == "" {
				toks[s] = "some_escapes"
			}
		}
		if r.Intn(4) == 0 {
			if s := spell(r, k, 2); toks[s] == "" {
				toks[s] = "all_u_escapes"
			}
		}
		bits := b01(t.re != nil && t.re.MatchString(k)) + b01(mailOK(k)) + b01(uriOK(k)) + b01(datetimeOK(k))
		for tok, how := range toks {
			impl := realKey(t, tok)
			c := kcase{
				id:    t.text + "\x00" + strings.Join(t.extra, "\x00") + "\x00" + tok,
				req:   "keyt " + t.kind + " " + hexs(t.exTok) + " " + hexs(tok) + " " + hexOrDash(k) + " " + bits + " " + strings.Join(t.wire, " "),
				impl:  impl,
				input: "@K = " + t.text + "   [further types: " + strings.Join(t.extra, " ; ") + "]\nroot { @K: 1 }, document {" + tok + ": 1}",
				class: t.class,
			}
			c.stats = append(c.stats, "key_type_"+t.class, "key_spelling_"+how)
			if !keyOK(k) {
				c.stats = append(c.stats, "key_outside_plain_ascii")
			}
			c.nontrivial = t.kind == "s"
			out = append(out, c)
		}
	}
	return out
}

// want: the library's verdict the model reply stands for
func agrees(impl, model string) bool {
	switch {
	case impl == "ACC":
		return model == "1"
	case strings.HasPrefix(impl, "REJ"):
		return model == "0" || model == "P"
	}
	return false
}

func Run(args []string) {
	rep := vh.NewReport(command, "key test of key shortcuts: key types drawn from everything Check accepts on a string (generator of sem-keys: no rule / enum / regex, minLength, maxLength subsets / format types / type string, enum / const, nullable true, false; here also the example spelled with escapes, type any, or / type reference on a string example, roots that are no strings — those Check refuses are counted and skipped) x probe keys (per type up to 14 keys around its accepted set, 3 common keys, 3 keys with quote / backslash / control / multi-byte / non-BMP characters or the notation's delimiters), every key in 1-3 spellings (shortest; some characters as \\uXXXX in either hex case, \\/ \\n \\t; all characters as \\uXXXX, surrogate pairs): real Validate({<key>: 1}) against { @K: 1 } == nil  <=>  Lean KeyType.keyStep (driver keyt) answers 1; regex / mail / uri / RFC 3339 evaluated in Go on the decoded key and sent as oracle bits, the driver checks its own Unquote of the key token against the decoded key; one fixed case replays the witness of C03_key_vs_value_full_false on the real library")
	r := vh.NewRand(salt)

	// the witness of C03_key_vs_value_full_false: @K = "zz", key "a"
	{
		w := &ktype{text: `"zz"`, kind: "s", exTok: `"zz"`}
		asKey, asValue, own := realKey(w, `"a"`), realValue(`"zz"`, `"a"`), realKey(w, `"zz"`)
		rep.Stat("witness_ruleless_type_key_vs_value")
		if !strings.HasPrefix(asKey, "REJ") || asValue != "ACC" || own != "ACC" {
			rep.AddDiff(vh.Diff{Component: command + "/witness", Input: `@K = "zz"; {"a": 1} against { @K: 1 }; "a" against "zz"; {"zz": 1} against { @K: 1 }`,
				Impl: asKey + " / " + asValue + " / " + own, Model: "REJ / ACC / ACC (C03_key_vs_value_full_false, C03_key_type_without_rules)"})
		}
	}

	nTypes := vh.Pick(6000, 150000)
	seenCase := map[string]struct{}{}
	const batch = 5000
	for done := 0; done < nTypes; done += batch {
		n := batch
		if nTypes-done < n {
			n = nTypes - done
		}
		seeds := make([]int64, n)
		for i := range seeds {
			seeds[i] = r.Int63()
		}
		results := make([][]kcase, n)
		var wg sync.WaitGroup
		next := make(chan int, n)
		for i := 0; i < n; i++ {
			next <- i
		}
		close(next)
		for w := runtime.NumCPU(); w > 0; w-- {
			wg.Add(1)
			go func() {
				defer wg.Done()
				for i := range next {
					results[i] = oneType(seeds[i])
				}
			}()
		}
		wg.Wait()
		var reqs []string
		var cases []kcase
		for _, res := range results {
			rep.Stat("key_types_generated")
			for _, c := range res {
				if _, ok := seenCase[c.id]; ok {
					continue
				}
				seenCase[c.id] = struct{}{}
				if strings.HasPrefix(c.impl, "CHECKERR") || strings.HasPrefix(c.impl, "ADDERR") {
					rep.Stat("skipped_key_type_refused_" + strings.ReplaceAll(c.impl, " ", "_") + "_" + c.class)
					continue
				}
				for _, s := range c.stats {
					rep.Stat(s)
				}
				rep.Stat("real_" + strings.Fields(c.impl)[0])
				rep.Case(c.id, c.nontrivial)
				reqs = append(reqs, c.req)
				cases = append(cases, c)
			}
		}
		for i, m := range vh.AskModelSharded(reqs, 16) {
			c := cases[i]
			rep.Stat("model_" + m + "_" + strings.Fields(c.impl)[0])
			if !agrees(c.impl, m) {
				rep.AddDiff(vh.Diff{Input: c.input, Impl: c.impl, Model: m + "   (1 admitted / 0 not admitted / P ErrInvalidKeyType)", Note: c.req})
			}
		}
	}
	rep.Finish()
}
