package c03keytype

// Format types as key types: `@K = "tom@cats.org" // {type: "email"}` (uri, uuid, date, datetime alike). The key
// probes are DERIVED from the format, after x/sem-rules-full/derived.go: values the format accepts, values it refuses,
// and values composed from boundary parts (dates year x month x day over leap / common / century years and the month
// lengths with layout variants; datetimes date x T x time x fraction x zone with out-of-range fields; uuids in the four
// forms with mixed case and one anomaly; e-mail local x domain x wrapper; uri scheme x separator x authority x tail),
// a value of ANOTHER format, plus the mutations of the example every key type gets (one character longer / shorter /
// replaced). The verdict is never the construction: net/mail, net/url and time of the Go standard library (oracle
// bits of the `semcf` request), an independent reading of the uuid forms and time.Parse for dates (both modelled in
// Lean: checked against RulesF.litOKFull), and all five against the real library validating the key AS A VALUE of the
// type alone.
//
// Document keys stay printable ASCII without quote and backslash (the JSON token is the key in quotes): probes with
// other characters are left out (keyOK).

import (
	"fmt"
	"math/rand"
	"net/mail"
	"net/url"
	"strings"
	"time"
)

var fmtNames = []string{"email", "uri", "uuid", "date", "datetime"}

func keyOK(k string) bool {
	for i := 0; i < len(k); i++ {
		if c := k[i]; c < 0x20 || c > 0x7e || c == '"' || c == '\\' {
			return false
		}
	}
	return true
}

// ---- verdicts ----

func mailOK(s string) bool {
	_, err := mail.ParseAddress(s)
	return err == nil
}

func uriOK(s string) bool {
	u, err := url.ParseRequestURI(s)
	return err == nil && u.IsAbs() && u.Hostname() != ""
}

func datetimeOK(s string) bool {
	_, err := time.Parse(time.RFC3339, s)
	return err == nil
}

func dateOK(s string) bool {
	_, err := time.Parse("2006-01-02", s)
	return err == nil
}

func isHex(s string) bool {
	for i := 0; i < len(s); i++ {
		c := s[i]
		if !(c >= '0' && c <= '9' || c >= 'a' && c <= 'f' || c >= 'A' && c <= 'F') {
			return false
		}
	}
	return true
}

// uuidOK: the four forms of github.com/google/uuid: 32 hex digits; 8-4-4-4-12; that in braces; that after "urn:uuid:"
// in any case.
func uuidOK(s string) bool {
	switch len(s) {
	case 32:
		return isHex(s)
	case 36:
	case 38:
		if s[0] != '{' || s[37] != '}' {
			return false
		}
		s = s[1:37]
	case 45:
		if strings.ToLower(s[:9]) != "urn:uuid:" {
			return false
		}
		s = s[9:]
	default:
		return false
	}
	g := strings.Split(s, "-")
	if len(g) != 5 {
		return false
	}
	for i, n := range []int{8, 4, 4, 4, 12} {
		if len(g[i]) != n || !isHex(g[i]) {
			return false
		}
	}
	return true
}

// fmtOK: does the format accept the string (Email.Validate puts three guards around mail.ParseAddress).
func fmtOK(f, s string) bool {
	switch f {
	case "email":
		if s == "" || s[0] == ' ' || s[0] == '<' || s[len(s)-1] == ' ' || s[len(s)-1] == '>' {
			return false
		}
		return mailOK(s)
	case "uri":
		return uriOK(s)
	case "uuid":
		return uuidOK(s)
	case "date":
		return dateOK(s)
	case "datetime":
		return datetimeOK(s)
	}
	return true
}

// ---- pools (x/sem-rules-full) ----

var fmtGood = map[string][]string{
	"email":    {"a@b.c", "john.doe@example.com", "x+y@host.org", "a@b", "user@[127.0.0.1]", "a.b-c_d@sub.example.co.uk", "1@2.3", "tom@cats.org"},
	"uri":      {"http://a.b", "https://example.com/x?y=1#z", "ftp://h/p", "http://[::1]:80/", "x://h", "HTTP://A.B", "http://u:p@h", "mailto://h", "http://h:8080/p", "http://1.2.3.4:80", "a+b.c-d://h", "http://h?q", "https://cats.org/tom"},
	"uuid":     {"550e8400-e29b-41d4-a716-446655440000", "550E8400-E29B-41D4-A716-446655440000", "urn:uuid:550e8400-e29b-41d4-a716-446655440000", "URN:UUID:550e8400-e29b-41d4-a716-446655440000", "{550e8400-e29b-41d4-a716-446655440000}", "550e8400e29b41d4a716446655440000"},
	"date":     {"2020-02-29", "2021-12-31", "0001-01-01", "1999-04-30", "2000-02-29", "9999-12-31", "0000-01-01", "2020-06-30", "2400-02-29"},
	"datetime": {"2020-02-29T12:00:00Z", "2021-12-31T23:59:59+01:00", "2000-01-01T00:00:00.123Z", "1999-04-30T01:02:03-08:00", "2020-01-01T00:00:00.000000001Z", "2020-01-01T00:00:00.5+05:30", "2020-01-01T00:00:00-00:00", "2020-12-31T23:59:59.999-23:59", "2021-12-31T10:00:00+03:00"},
}

var fmtBad = map[string][]string{
	"email":    {"", " a@b.c", "a@b.c ", "<a@b.c>", "a@b.c>", "<a@b.c", "a", "@b.c", "a@", "a b@c.d", "a@b@c", "a@b.c, d@e.f", "(c) a@b.c", "a@b.c (c)", "A <a@b.c>", "John <j@x.y>", "j@x.y (John)", "group: j@x.y;", "a@b..c", ".a@b.c", "a.@b.c", "a@[1.2.3.4"},
	"uri":      {"", "a.b", "/x/y", "http://", "http:///p", "mailto:a@b.c", "//h/p", "http://a b", "h ttp://a", ":", "*", "http://%zz", "urn:x", "http:a.b", "1http://a.b", "http://:8080/p", "http://@", "x://", "http://?q", "http://[::1", "http://h:port/", "file:///etc/passwd", "http:/h/p"},
	"uuid":     {"", "550e8400-e29b-41d4-a716-44665544000", "550e8400-e29b-41d4-a716-4466554400000", "550e8400-e29b-41d4-a716-44665544000g", "550e8400_e29b-41d4-a716-446655440000", "urn:uuid-550e8400-e29b-41d4-a716-446655440000", "{550e8400-e29b-41d4-a716-446655440000)", "(550e8400-e29b-41d4-a716-446655440000}", "550e8400e29b41d4a71644665544000", "{550e8400e29b41d4a716446655440000}", "550e8400-e29b-41d4-a716-446655440000 ", "550e8400e29b-41d4-a716-4466-55440000"},
	"date":     {"", "2021-02-29", "1900-02-29", "2020-13-01", "2020-00-10", "2020-04-31", "2020-1-01", "2020-01-1", "20200101", "2020-01-01T00:00:00Z", " 2020-01-01", "2020-01-01 ", "2020/01/01", "2020-01-00", "2020-01-32", "+020-01-01", "2100-02-29", "2020-01-01Z"},
	"datetime": {"", "2020-02-29", "2020-02-29T12:00:00", "2021-02-29T12:00:00Z", "2020-01-01 00:00:00Z", "2020-01-01T00:00Z", "2020-01-01T00:00:60Z", "2020-01-01T00:00:00+0100", "2020-01-01T00:00:00+25:00", "2020-01-01T00:00:00Z ", "2020-1-01T00:00:00Z", "2020-01-01T00:00:00,5Z", "2020-01-01T00:00:00.Z", "2020-01-01T00:00:00+01", "2020-01-01T25:00:00Z", "2020-02-30T00:00:00Z", "2020-01-01T00:00:00UTC", "20200101T000000Z", "2020-01-01T24:00:00Z", "2020-06-30T23:59:60Z", "2020-01-01t00:00:00z"},
}

func init() { // the pools hold what their names say, as far as the oracles and the key alphabet go
	for _, f := range fmtNames {
		var good, bad []string
		for _, s := range fmtGood[f] {
			if keyOK(s) && fmtOK(f, s) {
				good = append(good, s)
			}
		}
		for _, s := range fmtBad[f] {
			if keyOK(s) && !fmtOK(f, s) {
				bad = append(bad, s)
			}
		}
		fmtGood[f], fmtBad[f] = good, bad
	}
}

// fmtExample: a value the format accepts (pool or composed), usable as a key.
func fmtExample(r *rand.Rand, f string) string {
	if r.Intn(3) == 0 {
		for i := 0; i < 8; i++ {
			if s, _ := genFmt(r, f); keyOK(s) && s != "" && fmtOK(f, s) {
				return s
			}
		}
	}
	pool := fmtGood[f]
	return pool[r.Intn(len(pool))]
}

// fmtProbes: strings around the accepted set of format f (the caller filters with keyOK and asks the oracles).
func fmtProbes(r *rand.Rand, f string) []string {
	good, bad := fmtGood[f], fmtBad[f]
	var out []string
	for i := 0; i < 3; i++ {
		out = append(out, good[r.Intn(len(good))])
	}
	for i := 0; i < 4; i++ {
		out = append(out, bad[r.Intn(len(bad))])
	}
	for i := 0; i < 6; i++ {
		s, _ := genFmt(r, f)
		out = append(out, s)
	}
	g := fmtNames[r.Intn(len(fmtNames))] // a value of another format
	out = append(out, fmtGood[g][r.Intn(len(fmtGood[g]))])
	return out
}

// ---- values composed from boundary parts (copied from x/sem-rules-full/derived.go) ----

var dateYears = []int{0, 1, 4, 100, 400, 1000, 1600, 1700, 1800, 1900, 1904, 1996, 1999, 2000, 2001, 2019, 2020, 2021, 2023, 2024, 2100, 2200, 2300, 2400, 9996, 9999}
var dateDays = []int{0, 1, 9, 10, 27, 28, 29, 30, 31, 32}

func genYMD(r *rand.Rand) (y, m, d int) {
	y = dateYears[r.Intn(len(dateYears))]
	if r.Intn(4) == 0 {
		y = r.Intn(10000)
	}
	m = 1 + r.Intn(12)
	switch r.Intn(12) {
	case 0:
		m = []int{0, 13, 99, 20}[r.Intn(4)]
	case 1, 2, 3, 4:
		m = 2
	}
	d = dateDays[r.Intn(len(dateDays))]
	if r.Intn(8) == 0 {
		d = r.Intn(100)
	}
	return
}

func genDate(r *rand.Rand) (string, string) {
	y, m, d := genYMD(r)
	s := fmt.Sprintf("%04d-%02d-%02d", y, m, d)
	if r.Intn(5) != 0 {
		return s, "ymd"
	}
	switch r.Intn(13) {
	case 0:
		s = fmt.Sprintf("%d-%d-%d", y, m, d)
	case 1:
		s = fmt.Sprintf("%05d-%02d-%02d", y, m, d)
	case 2:
		s = fmt.Sprintf("%02d-%02d-%02d", y%100, m, d)
	case 3:
		sep := []string{"/", ".", "", " ", ":", "_"}[r.Intn(6)]
		s = strings.ReplaceAll(s, "-", sep)
	case 4:
		s = []string{" ", "+", "-", "0"}[r.Intn(4)] + s
	case 5:
		s += []string{" ", "Z", "T00:00:00Z", "+01:00", "0", "T", "-"}[r.Intn(7)]
	case 6:
		s = fmt.Sprintf("%04d-%02d-%02d", y, d, m)
	case 7:
		s = fmt.Sprintf("%02d-%02d-%04d", d, m, y)
	case 8:
		s = fmt.Sprintf("%04d-%02d", y, m)
	case 9:
		s = fmt.Sprintf("%04d-%02d-%03d", y, m, d)
	case 10:
		s = fmt.Sprintf("%04d-%d-%02d", y, m, d)
	case 11:
		s = fmt.Sprintf("%04d-%02d-%d", y, m, d)
	default:
		s = fmt.Sprintf("%04d-%03d", y, 1+r.Intn(366)) // ordinal date
	}
	return s, "shape"
}

func pickS(r *rand.Rand, usual []string, rare []string) string {
	if r.Intn(6) == 0 {
		return rare[r.Intn(len(rare))]
	}
	return usual[r.Intn(len(usual))]
}

func genDatetime(r *rand.Rand) (string, string) {
	date, cls := genDate(r)
	s := date
	s += pickS(r, []string{"T"}, []string{"t", " ", "", "_", "TT"})
	s += pickS(r, []string{"00", "12", "23", "01"}, []string{"24", "25", "99", "1", "-1"}) + ":"
	s += pickS(r, []string{"00", "30", "59"}, []string{"60", "61", "5", "99"})
	s += pickS(r, []string{":00", ":59", ":07"}, []string{":60", ":61", "", ":5", ":99", ":"})
	s += pickS(r, []string{"", "", ".0", ".5", ".123", ".123456789", ".000000001"}, []string{".", ",5", ".1234567890", ".12345678901234567890", ".5.5", ". 5"})
	s += pickS(r, []string{"Z", "Z", "+00:00", "-00:00", "+01:00", "-08:00", "+05:30", "+14:00", "+23:59", "-23:59"},
		[]string{"z", "+24:00", "-24:00", "+01:60", "", "+0100", "+01", "+1:00", " +01:00", "Z ", "ZZ", "UTC", "+99:99", "+01:00:00", "+-1:00"})
	return s, cls
}

const hexDigits = "0123456789abcdefABCDEF"

func genUuid(r *rand.Rand, anomaly bool) (string, string) {
	digs := []string{"0123456789abcdef", "0123456789ABCDEF", hexDigits, "0123456789", "abcdef", "fF0"}[r.Intn(6)]
	b := make([]byte, 32)
	for i := range b {
		b[i] = digs[r.Intn(len(digs))]
	}
	plain := string(b)
	std := plain[:8] + "-" + plain[8:12] + "-" + plain[12:16] + "-" + plain[16:20] + "-" + plain[20:]
	urn := []string{"urn:uuid:", "URN:UUID:", "Urn:Uuid:", "uRN:uUID:"}[r.Intn(4)]
	form := r.Intn(4)
	s := [4]string{std, urn + std, "{" + std + "}", plain}[form]
	if !anomaly {
		return s, "wellformed"
	}
	switch r.Intn(10) {
	case 0: // length - 1
		i := r.Intn(len(s))
		return s[:i] + s[i+1:], "length_minus_1"
	case 1: // length + 1
		i := r.Intn(len(s) + 1)
		return s[:i] + string(hexDigits[r.Intn(len(hexDigits))]) + s[i:], "length_plus_1"
	case 2, 3: // a character next to the hex ranges, or an arbitrary one
		i := r.Intn(len(s))
		return s[:i] + string("gG@`/:zZ-x _{}"[r.Intn(14)]) + s[i+1:], "odd_char"
	case 4: // hyphen moved / replaced
		if j := strings.IndexByte(s, '-'); j >= 0 {
			hy := []int{}
			for i := range s {
				if s[i] == '-' {
					hy = append(hy, i)
				}
			}
			i := hy[r.Intn(len(hy))]
			bs := []byte(s)
			switch r.Intn(3) {
			case 0:
				bs[i], bs[i+1] = bs[i+1], bs[i]
			case 1:
				bs[i], bs[i-1] = bs[i-1], bs[i]
			default:
				bs[i] = "_ :0a."[r.Intn(6)]
			}
			return string(bs), "hyphen"
		}
		i := 1 + r.Intn(30)
		return plain[:i] + "-" + plain[i+1:], "hyphen"
	case 5:
		return []string{"{" + std + ")", "(" + std + "}", "{" + std, std + "}", "{" + plain + "}", "[" + std + "]", "(" + std + ")", "x" + std + "x", "{" + std + "x", "x" + std + "}", "}" + std + "{", "{{" + std + "}}", "{" + std + "} "}[r.Intn(13)], "braces"
	case 6:
		return []string{"urn:uuid-" + std, "urn:uuid:" + plain, "urn-uuid:" + std, "uuid:" + std, "urn:uuid:{" + std + "}", "{urn:uuid:" + std + "}", "urn:uuid: " + std[1:], "xxxxxxxxx" + std, "urn:uuie:" + std, "urn:uuid:" + std[:35], "urn:uuid:" + std + "0", "urn:guid:" + std}[r.Intn(12)], "prefix"
	case 7:
		return s + []string{" ", "-", "}"}[r.Intn(3)], "suffixed"
	case 8:
		return []string{" ", "{", "-", "0"}[r.Intn(4)] + s, "prefixed"
	}
	// groups of other lengths, same total
	return plain[:4] + "-" + plain[4:12] + "-" + plain[12:16] + "-" + plain[16:20] + "-" + plain[20:], "groups"
}

var mailLocals = []string{"a", "john.doe", "x+y", "a.b-c_d", "1", "A", "a!#$%&'*+-/=?^_`{|}~b"}
var mailLocalsOdd = []string{".a", "a.", "a..b", "a b", "", "a@b", "<a", "a>", "(c)a", "a,b", "a;b", "a:b"}
var mailDomains = []string{"b.c", "example.com", "b", "[127.0.0.1]", "sub.example.co.uk", "1.2", "b-c.d"}
var mailDomainsOdd = []string{"b..c", "", "[1.2.3.4", "b.c.", ".b.c", "b c", "b.c>", "b,c", "[::1]", "b_c.d", "-b.c"}
var mailWraps = []string{"%s", "%s", "%s", "%s", "%s", "%s", "<%s>", "N <%s>", "%s (c)", "(c) %s", " %s", "%s ",
	"%s>", "<%s", "%s, %[1]s", "%s,", "%s;", "g: %s;", "<%s> ", " <%s>", "<%s>x", "=?utf-8?q?J?= <%s>", "N<%s>", "<%s>(c)", "%s (c", "<<%s>>", "N N <%s>", "%s <%[1]s>", "mailto:%s"}

func genEmail(r *rand.Rand) (string, string) {
	l, d := pickS(r, mailLocals, mailLocalsOdd), pickS(r, mailDomains, mailDomainsOdd)
	w := mailWraps[r.Intn(len(mailWraps))]
	cls := "bare"
	if w != "%s" {
		cls = "wrapped"
	}
	return fmt.Sprintf(w, l+"@"+d), cls
}

var uriSchemes = []string{"http", "https", "ftp", "x", "a+b.c-d", "HTTP", "mailto", "urn", "file", "h2"}
var uriSchemesOdd = []string{"1http", "", "h ttp", "+a", "ht_tp", "http:", "-"}
var uriSeps = []string{"://", "://", "://", "://", "://", "://", ":", ":/", ":///", "//", "", ":////", "::", " ://"}
var uriAuths = []string{"h", "a.b", "h:80", "u@h", "u:p@h", "[::1]", "[::1]:80", "1.2.3.4:80", "a_b.c", "xn--p1ai", "h:", "[fe80::1%25en0]", "H", "h.", "u:@h", "%41"}
var uriAuthsOdd = []string{":80", "u@:21", "u:p@", "@", "[]", "[]:80", "[::1", "::1]", "", "a b", "h:port", "h:80:80", "%zz", ":", "u@", "@:", "[::1]x", "h:-1", "h:65536", "u@@h", "[h]", " h", "h ", "<h>"}
var uriTails = []string{"", "", "/", "/p", "/p?q#f", "?q", "#f", "/a/b/../c", "/%41", "//", "/p;v", "?", "#"}
var uriTailsOdd = []string{"/ p", "/%zz", " ", "/p q", "/p#f#g", "?q p", "/%", "#%zz"}

func genUri(r *rand.Rand) (string, string) {
	s := pickS(r, uriSchemes, uriSchemesOdd) + uriSeps[r.Intn(len(uriSeps))] + pickS(r, uriAuths, uriAuthsOdd) + pickS(r, uriTails, uriTailsOdd)
	return s, "parts"
}

func genFmt(r *rand.Rand, f string) (string, string) {
	switch f {
	case "date":
		return genDate(r)
	case "datetime":
		return genDatetime(r)
	case "uuid":
		return genUuid(r, r.Intn(3) != 0)
	case "email":
		return genEmail(r)
	}
	return genUri(r)
}
