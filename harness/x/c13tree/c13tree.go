// Package c13tree: tie for C13's annotated-tree theorems (`C13_annotated_tree_*`, Lean modules `AnnTree*.lean`).
//
// A generated ANNOTATED TREE (objects / arrays / scalars, any nesting; every node may carry one annotation: a rule
// object with literal values and optionally a note) is printed in TWO random surface forms. Per annotation: inline
// `// {…}` or multi-line `/* {…} */` (line breaks inside), before or behind the comma for scalars, behind the opening
// bracket for containers, note or not, quoted or bare rule names, trailing comma in the rule object, blanks; per text:
// LF / CRLF / CR / mixed line ends, indentation, `#` line comments and `###` block comments where a line break is
// allowed. Compared: real GetAST (comments aside: kinds, keys, literal values, rule names AND rule values in written
// order, notes) equal across the two forms; real Check verdict (error code) equal across the forms; the loader
// model's table (driver `loadv`) equal to the real GetAST for BOTH forms. A malformed stream (1-3 byte mutations of
// the printed forms) compares model and real tree / error only.
//
// NOTES are part of the SURFACE FORM, not of the tree (C13: "annotation notes" is one of the re-spellings, the AST is
// compared "comments aside"): every annotation of every form draws its own note spelling from {no note, `-` only,
// `-` + blanks, a plain text, a text holding `-` `//` `/*` `{` `}` `"` `#` UTF-8 …, (multi-line form) a note that
// starts on a later line / spans lines / is only line breaks}; un-annotated nodes marked `bare` carry a NOTE-ONLY
// annotation (`// text`, `/* text */`). Every tree is printed three times: form A, form A0 = form A with every note
// removed (same layout otherwise: the texts differ in the notes only) and an independent form B. Compared at property
// level, A0 against A and B against A: the AST with the Comment fields dropped, the Check verdict, the Validate
// verdicts of the tree's own value and of mutated documents, the bytes of Example(). The Comment fields themselves are
// compared (correspondence level) with the written note, trimmed (inline: up to a `#`).
package c13tree

import (
	stderrors "errors"
	"fmt"
	"math/rand"
	"strings"
	"sync"
	"sync/atomic"

	jlib "github.com/jsightapi/jsight-schema-go-library"
	jdoc "github.com/jsightapi/jsight-schema-go-library/formats/json"
	"github.com/jsightapi/jsight-schema-go-library/notations/jschema"

	"verifharness/vh"
)

func hx(s string) string { return vh.Hex([]byte(s)) }

// ---- IR ----

type rule struct{ name, val string }

type ann struct {
	rules []rule
	note  string
}

type node struct {
	kind string // "int", "float", "str", "bool", "null", "arr", "obj"
	tok  string
	keys []string
	kids []*node
	an   *ann
	bare bool // main stream only (an == nil): the forms write a NOTE-ONLY annotation here (`// text`)
}

var keyPool = []string{"a", "b", "id", "name", "x1", "k\\u0041", "z z", "ключ", "q\\\"q"}
var strPool = []string{"\"x\"", "\"abc\"", "\"\"", "\"a\\nb\"", "\"1.5\"", "\"a b\"", "\"\\u0041\""}
var notePool = []string{"note", "first id", "a - b", "x {y}", "1", "note: with colon", "é"}

func genRules(r *rand.Rand, n *node, isMember bool) []rule {
	var pool []rule
	switch n.kind {
	case "int":
		pool = []rule{{"min", "0"}, {"max", "100"}, {"min", "-5"}, {"type", "\"integer\""}, {"const", "true"}, {"exclusiveMinimum", "true"}}
	case "float":
		pool = []rule{{"min", "0.5"}, {"max", "99.25"}, {"precision", "2"}, {"type", "\"float\""}}
	case "str":
		pool = []rule{{"minLength", "0"}, {"maxLength", "64"}, {"regex", "\"^.*$\""}, {"type", "\"string\""}, {"const", "false"}}
	case "bool":
		pool = []rule{{"type", "\"boolean\""}, {"const", "true"}}
	case "null":
		pool = []rule{{"type", "\"null\""}}
	case "arr":
		pool = []rule{{"minItems", "0"}, {"maxItems", "10"}, {"type", "\"array\""}}
	case "obj":
		pool = []rule{{"additionalProperties", "true"}, {"additionalProperties", "false"}, {"type", "\"object\""}, {"additionalProperties", "\"string\""}}
	}
	pool = append(pool, rule{"nullable", "true"}, rule{"nullable", "false"})
	if isMember {
		pool = append(pool, rule{"optional", "true"}, rule{"optional", "false"})
	}
	if r.Intn(12) == 0 { // a rule that does not fit the node: Check must fail alike in both forms
		pool = append(pool, rule{"minLength", "1"}, rule{"minItems", "1"}, rule{"min", "1"}, rule{"precision", "1"}, rule{"bogus", "1"})
	}
	k := r.Intn(4)
	if r.Intn(10) == 0 {
		k = 0
	}
	seen := map[string]bool{}
	var out []rule
	for i := 0; i < k; i++ {
		x := pool[r.Intn(len(pool))]
		if seen[x.name] {
			continue
		}
		seen[x.name] = true
		out = append(out, x)
	}
	return out
}

func gen(r *rand.Rand, depth int, isMember bool, pAnn int) *node {
	n := &node{}
	c := r.Intn(12)
	if c >= 10 {
		c -= 3
	}
	if depth <= 0 && c >= 6 {
		c = r.Intn(6)
	}
	switch {
	case c == 0:
		n.kind, n.tok = "int", []string{"0", "1", "42", "-7", "100"}[r.Intn(5)]
	case c == 1:
		n.kind, n.tok = "float", []string{"1.5", "0.25", "-3.75", "10.0"}[r.Intn(4)]
	case c == 2 || c == 3:
		n.kind, n.tok = "str", strPool[r.Intn(len(strPool))]
	case c == 4:
		n.kind, n.tok = "bool", []string{"true", "false"}[r.Intn(2)]
	case c == 5:
		n.kind, n.tok = "null", "null"
	case c <= 7:
		n.kind = "arr"
		w := []int{0, 1, 2, 2, 3, 3}[r.Intn(6)]
		for i := 0; i < w; i++ {
			n.kids = append(n.kids, gen(r, depth-1, false, pAnn))
		}
	default:
		n.kind = "obj"
		w := []int{0, 1, 2, 3, 3, 4}[r.Intn(6)]
		used := map[string]bool{}
		for i := 0; i < w; i++ {
			k := keyPool[r.Intn(len(keyPool))]
			if used[k] {
				continue
			}
			used[k] = true
			n.keys = append(n.keys, k)
			n.kids = append(n.kids, gen(r, depth-1, true, pAnn))
		}
	}
	if r.Intn(100) < pAnn {
		a := &ann{rules: genRules(r, n, isMember)}
		if r.Intn(3) == 0 {
			a.note = notePool[r.Intn(len(notePool))]
		}
		n.an = a
	}
	return n
}

func countAnn(n *node) int {
	c := 0
	if n.an != nil {
		c = 1
	}
	for _, k := range n.kids {
		c += countAnn(k)
	}
	return c
}

// ---- surface forms ----

type style struct {
	r  *rand.Rand
	nr *rand.Rand // the notes' own generator (nil: the form is printed WITHOUT notes); never touches r, so that
	// a form and its note-free twin draw the same layout
	nl      []string // line ends to draw from
	indent  string
	comment int // percent of line breaks that get a comment
	feat    map[string]bool
	noteOf  map[*node]string // the Comment the written note denotes (trimmed; inline: up to a '#')
}

func newStyle(r, nr *rand.Rand) *style {
	s := &style{r: r, nr: nr, feat: map[string]bool{}, noteOf: map[*node]string{}}
	switch r.Intn(5) {
	case 0:
		s.nl = []string{"\n"}
	case 1:
		s.nl = []string{"\r\n"}
		s.feat["crlf"] = true
	case 2:
		s.nl = []string{"\r"}
		s.feat["cr"] = true
	default:
		s.nl = []string{"\n", "\r\n", "\r", "\n\n", "\n \n"}
		s.feat["mixed-nl"] = true
	}
	s.indent = []string{"", " ", "  ", "\t", "    "}[r.Intn(5)]
	s.comment = []int{0, 0, 20, 50}[r.Intn(4)]
	return s
}

func (s *style) sp() string { return []string{"", " ", " ", "  ", "\t"}[s.r.Intn(5)] }

// a line break (where the scanner allows user comments), possibly with comments
func (s *style) brk(depth int) string {
	var sb strings.Builder
	if s.r.Intn(100) < s.comment {
		switch s.r.Intn(3) {
		case 0:
			sb.WriteString(s.sp() + "# c" + []string{"", " x", "{}", " // {min: 1}"}[s.r.Intn(4)])
			s.feat["line-comment"] = true
		case 1:
			sb.WriteString(s.nl[s.r.Intn(len(s.nl))] + "### block" + s.nl[s.r.Intn(len(s.nl))] + " y ###")
			s.feat["block-comment"] = true
		default:
			sb.WriteString(s.sp() + "#")
			s.feat["empty-comment"] = true
		}
	}
	sb.WriteString(s.nl[s.r.Intn(len(s.nl))])
	sb.WriteString(strings.Repeat(s.indent, depth))
	return sb.String()
}

// note texts holding the bytes that mean something elsewhere in a schema
var trickyNotes = []string{"a - b", "- x", "-", "--", "x {y}", "{min: 1}", "{", "}", "}{", "// {min: 1}", "// x", "//", "/* x", "/ *", "* /",
	"*", "a*b", "**", "\"q", "\"a\": 1,", "[1, 2]", "]", "@t | @u", "\u00e9", "\u043a\u043b\u044e\u0447 - \u0437\u043d\u0430\u0447\u0435\u043d\u0438\u0435", "\u65e5\u672c\u8a9e", "a:b,c", "\\n", "x\ty", "a  b",
	"a # b", "#", "# c", "a#", "optional: true", "/"}
var inlineOnlyNotes = []string{"x */ y", "*/", "/* x */"}
var bareNotes = []string{"note", "first id", "a - b", "x {y}", "\u00e9", "1", "- x", "-", "a // b", "\u65e5\u672c", "a: b", "x # c"}

func trimNote(s string) string { return strings.Trim(s, " \t\r\n") }

// what the scanner takes for the note text of an INLINE annotation: a '#' starts a user comment
func cutInline(s string) string {
	if p := strings.IndexByte(s, '#'); p >= 0 {
		return s[:p]
	}
	return s
}

func (s *style) nblanks(orNone bool) string {
	if orNone {
		return []string{"", " ", "  ", "\t", " \t "}[s.nr.Intn(5)]
	}
	return []string{" ", "  ", "\t", " \t ", "   "}[s.nr.Intn(5)]
}

// noteText: what stands between the rule object (and the blanks behind it) and the end of the annotation. All draws
// from s.nr.
func (s *style) noteText(n *node, multi bool) string {
	if s.nr == nil {
		return ""
	}
	nr := s.nr
	nl := func() string { return s.nl[nr.Intn(len(s.nl))] }
	var body string // everything behind the dash
	k := nr.Intn(100)
	if !multi && k >= 90 {
		k = 18 + nr.Intn(30)
	}
	switch {
	case k < 18:
		s.feat["note-none"] = true
		return ""
	case k < 33:
		s.feat["note-dash-only"] = true
	case k < 48:
		body = s.nblanks(false)
		s.feat["note-dash-blanks"] = true
	case k < 64:
		t := n.an.note
		if t == "" {
			t = notePool[nr.Intn(len(notePool))]
		}
		body = s.nblanks(true) + t + s.nblanks(true)
		s.feat["note"] = true
	case k < 90:
		pool := trickyNotes
		if !multi && nr.Intn(8) == 0 {
			pool = inlineOnlyNotes
		}
		body = s.nblanks(true) + pool[nr.Intn(len(pool))] + s.nblanks(true)
		s.feat["note-tricky"] = true
	default: // multi-line form only: line breaks behind the dash
		switch nr.Intn(4) {
		case 0:
			body = nl() + s.nblanks(true)
			s.feat["note-dash-linebreak-only"] = true
		case 1:
			body = s.nblanks(true) + nl() + s.nblanks(true) + notePool[nr.Intn(len(notePool))] + s.nblanks(true)
			s.feat["note-on-later-line"] = true
		case 2:
			body = s.nblanks(true) + notePool[nr.Intn(len(notePool))] + nl() + s.nblanks(true) + trickyNotes[nr.Intn(len(trickyNotes))] + nl()
			s.feat["note-spans-lines"] = true
		default:
			body = s.nblanks(true) + nl() + nl() + s.nblanks(true)
			s.feat["note-dash-linebreak-only"] = true
		}
	}
	if multi {
		s.noteOf[n] = trimNote(body)
	} else {
		s.noteOf[n] = trimNote(cutInline(body))
	}
	if strings.Contains(body, "#") {
		s.feat["note-with-#"] = true
	}
	return "-" + body
}

// annText: the annotation of n (a rule object and perhaps a note; for a `bare` node a note-only annotation, which the
// note-free twin of a form leaves out altogether: it returns "")
func (s *style) annText(n *node) (string, bool) {
	r := s.r
	a := n.an
	multi := r.Intn(2) == 0
	bl := func() string {
		if multi && r.Intn(3) == 0 {
			s.feat["nl-in-multi"] = true
			return s.nl[r.Intn(len(s.nl))] + s.sp()
		}
		return s.sp()
	}
	var sb strings.Builder
	if multi {
		sb.WriteString("/*")
	} else {
		sb.WriteString("//")
	}
	if n.bare {
		sb.WriteString(bl())
		if s.nr == nil {
			return "", multi
		}
		t := bareNotes[s.nr.Intn(len(bareNotes))]
		if multi {
			t += s.nblanks(true)
			s.noteOf[n] = trimNote(t)
			t += "*/"
			s.feat["note-only-multi"] = true
		} else {
			t += s.nblanks(true)
			s.noteOf[n] = trimNote(cutInline(t))
			s.feat["note-only-inline"] = true
		}
		sb.WriteString(t)
		return sb.String(), multi
	}
	if multi {
		s.feat["multi"] = true
	} else {
		s.feat["inline"] = true
	}
	sb.WriteString(bl() + "{")
	for i, ru := range a.rules {
		if i > 0 {
			sb.WriteString(",")
		}
		nm := ru.name
		if r.Intn(3) == 0 {
			nm = "\"" + nm + "\""
			s.feat["quoted-name"] = true
		}
		sb.WriteString(bl() + nm + []string{"", " "}[r.Intn(2)] + ":" + bl() + ru.val + bl())
	}
	if len(a.rules) > 0 && r.Intn(4) == 0 {
		sb.WriteString("," + bl())
		s.feat["trailing-comma"] = true
	} else if len(a.rules) == 0 {
		sb.WriteString(bl())
	}
	sb.WriteString("}")
	sb.WriteString(bl())
	sb.WriteString(s.noteText(n, multi))
	if multi {
		sb.WriteString("*/")
	}
	return sb.String(), multi
}

// print a node; `sep` is "," or "" (what follows the value inside its container); returns the text up to and including
// the separator and the node's annotation
func (s *style) print(n *node, depth int, sep string, sb *strings.Builder) {
	r := s.r
	scalarTail := func() {
		// annotation before or behind the separator
		if n.an == nil && !n.bare {
			sb.WriteString(s.sp() + sep)
			return
		}
		t, multi := s.annText(n)
		if sep != "" && r.Intn(2) == 0 {
			sb.WriteString(s.sp() + sep + s.sp() + t)
			s.feat["behind-comma"] = true
		} else {
			sb.WriteString(s.sp() + t)
			if multi {
				sb.WriteString(s.sp() + sep)
			} else {
				if sep != "" {
					sb.WriteString(s.brk(depth) + sep)
					s.feat["comma-on-next-line"] = true
				}
				return
			}
		}
		_ = multi
	}
	switch n.kind {
	case "arr", "obj":
		open, close := "[", "]"
		if n.kind == "obj" {
			open, close = "{", "}"
		}
		sb.WriteString(open)
		inlineOpen := false
		if n.an != nil || n.bare {
			t, multi := s.annText(n)
			sb.WriteString(s.sp() + t)
			inlineOpen = !multi
		}
		for i, k := range n.kids {
			if !(inlineOpen && i == 0) {
				sb.WriteString(s.brk(depth + 1))
			} else {
				sb.WriteString(s.brk(depth + 1)) // the inline annotation needs its line break anyway
			}
			if n.kind == "obj" {
				sb.WriteString("\"" + n.keys[i] + "\"" + s.sp() + ":" + s.sp())
			}
			ksep := ","
			if i == len(n.kids)-1 {
				ksep = ""
			}
			s.print(k, depth+1, ksep, sb)
		}
		sb.WriteString(s.brk(depth))
		sb.WriteString(close + s.sp() + sep)
	default:
		sb.WriteString(n.tok)
		scalarTail()
	}
}

// render: one surface form. `seed` fixes the layout, `noteSeed` the notes (0: no notes at all, the rest of the text
// as with any other noteSeed).
func render(seed, noteSeed int64, root *node) (string, *style) {
	r := rand.New(rand.NewSource(seed))
	var nr *rand.Rand
	if noteSeed != 0 {
		nr = rand.New(rand.NewSource(noteSeed))
	}
	s := newStyle(r, nr)
	var sb strings.Builder
	if r.Intn(3) == 0 {
		sb.WriteString(s.brk(0))
	}
	s.print(root, 0, "", &sb)
	if r.Intn(2) == 0 {
		sb.WriteString(s.brk(0))
	}
	return sb.String(), s
}

// markBare: un-annotated nodes that carry a note-only annotation in the forms
func markBare(r *rand.Rand, n *node, p int) int {
	c := 0
	if n.an == nil && r.Intn(100) < p {
		n.bare = true
		c = 1
	}
	for _, k := range n.kids {
		c += markBare(r, k, p)
	}
	return c
}

// wantNotes: the Comment fields in pre-order, as the written notes of a form denote them
func wantNotes(n *node, s *style, out *[]string) {
	*out = append(*out, hxe(s.noteOf[n]))
	for _, k := range n.kids {
		wantNotes(k, s, out)
	}
}

// ---- documents ----

var altScalars = []string{"0", "-1", "1000", "7", "1.5", "0.123", "\"\"", "\"zzzzzzzzzz\"", "\"x\"", "true", "false", "null", "[]", "{}", "[1]"}

// docOf: the value of the tree (p = 0) or a neighbour of it: every node is mutated with probability p percent (a scalar
// replaced, an item / member dropped, added, doubled, the members reversed)
func docOf(r *rand.Rand, n *node, p int) string {
	mut := p > 0 && r.Intn(100) < p
	switch n.kind {
	case "arr", "obj":
		var parts []string
		for i, k := range n.kids {
			d := docOf(r, k, p)
			if n.kind == "obj" {
				d = "\"" + n.keys[i] + "\":" + d
			}
			parts = append(parts, d)
		}
		if mut {
			switch r.Intn(5) {
			case 0:
				if len(parts) > 0 {
					i := r.Intn(len(parts))
					parts = append(parts[:i:i], parts[i+1:]...)
				}
			case 1:
				if n.kind == "obj" {
					parts = append(parts, "\"zz\":"+altScalars[r.Intn(len(altScalars))])
				} else {
					parts = append(parts, altScalars[r.Intn(len(altScalars))])
				}
			case 2:
				for i, j := 0, len(parts)-1; i < j; i, j = i+1, j-1 {
					parts[i], parts[j] = parts[j], parts[i]
				}
			case 3:
				return altScalars[r.Intn(len(altScalars))]
			default:
				if n.kind == "arr" && len(parts) > 0 {
					parts = append(parts, parts[len(parts)-1])
				} else {
					parts = nil
				}
			}
		}
		if n.kind == "obj" {
			return "{" + strings.Join(parts, ",") + "}"
		}
		return "[" + strings.Join(parts, ",") + "]"
	}
	if mut {
		return altScalars[r.Intn(len(altScalars))]
	}
	return n.tok
}

// ---- the real library ----

func dump(n jlib.ASTNode, isChildOfObject bool) string { return dumpN(n, isChildOfObject, true) }

// astNotes: the Comment fields in pre-order
func astNotes(n jlib.ASTNode, out *[]string) {
	*out = append(*out, hxe(n.Comment))
	for _, c := range n.Children {
		astNotes(c, out)
	}
}

func dumpN(n jlib.ASTNode, isChildOfObject, notes bool) string {
	var sb strings.Builder
	sb.WriteByte('(')
	switch n.TokenType {
	case jlib.TokenTypeObject:
		sb.WriteByte('o')
	case jlib.TokenTypeArray:
		sb.WriteByte('a')
	case jlib.TokenTypeShortcut:
		sb.WriteByte('m')
	default:
		sb.WriteByte('l')
	}
	if isChildOfObject {
		f := "p"
		if n.IsKeyShortcut {
			f = "s"
		}
		fmt.Fprintf(&sb, " k=%s:%s", hx(n.Key), f)
	}
	if n.TokenType != jlib.TokenTypeObject && n.TokenType != jlib.TokenTypeArray {
		fmt.Fprintf(&sb, " v=%s", hx(n.Value))
	}
	var names []string
	if n.Rules != nil {
		n.Rules.EachSafe(func(k string, rv jlib.RuleASTNode) {
			if rv.Source == jlib.RuleASTNodeSourceGenerated {
				names = append(names, hx(k))
			} else {
				names = append(names, hx(k)+":"+hx(rv.Value))
			}
		})
	}
	sb.WriteString(" r=[" + strings.Join(names, ",") + "]")
	if notes && n.Comment != "" {
		fmt.Fprintf(&sb, " c=%s", hx(n.Comment))
	}
	for _, c := range n.Children {
		sb.WriteByte(' ')
		sb.WriteString(dumpN(c, n.TokenType == jlib.TokenTypeObject, notes))
	}
	sb.WriteByte(')')
	return sb.String()
}

var loaderCodes = map[int]bool{402: true, 801: true, 802: true, 803: true, 804: true, 301: true, 302: true, 303: true, 304: true, 701: true}

// realAST: canonical tree, "ERR code pos" (errors of the scanner / loader classes), or "X …" (another error: outside the loader model)
func realAST(text string) string {
	full, _, _ := realASTs(text)
	return full
}

// realASTs: realAST with the notes, without them (= full when it is no tree), and the Comment fields in pre-order
func realASTs(text string) (full, bare, notes string) {
	full = vh.Recover(func() string {
		s := jschema.New("s", text)
		ast, err := s.GetAST()
		if err != nil {
			var pe jlib.ParsingError
			if stderrors.As(err, &pe) && loaderCodes[pe.ErrCode()] {
				return fmt.Sprintf("ERR %d %d", pe.ErrCode(), pe.Position())
			}
			if stderrors.As(err, &pe) {
				return fmt.Sprintf("X %d", pe.ErrCode()) // an error behind the loader (constraint constructors, compile): outside the loader model
			}
			return "X ?"
		}
		if ast.TokenType == "" && len(ast.Children) == 0 && ast.Value == "" {
			return "EMPTY"
		}
		bare = dumpN(ast, false, false)
		var ns []string
		astNotes(ast, &ns)
		notes = strings.Join(ns, ",")
		return dump(ast, false)
	})
	if !strings.HasPrefix(full, "(") {
		bare, notes = full, ""
		if strings.HasPrefix(full, "ERR") { // the position belongs to the spelling
			bare = strings.Join(strings.Fields(full)[:2], " ")
		}
	}
	return
}

func realValidate(text, doc string) string {
	return vh.Recover(func() string {
		if err := jschema.New("s", text).Validate(jdoc.New("doc", doc)); err != nil {
			return "REJ"
		}
		return "ACC"
	})
}

func realExample(text string) string {
	return vh.Recover(func() string {
		b, err := jschema.New("s", text).Example()
		if err != nil {
			var pe jlib.ParsingError
			if stderrors.As(err, &pe) {
				return fmt.Sprintf("ERR %d", pe.ErrCode())
			}
			return "ERR ?"
		}
		return "OK " + string(b)
	})
}

func realCheck(text string) string {
	return vh.Recover(func() string {
		err := jschema.New("s", text).Check()
		if err == nil {
			return "OK"
		}
		var pe jlib.ParsingError
		if stderrors.As(err, &pe) {
			return fmt.Sprintf("ERR %d", pe.ErrCode())
		}
		return "ERR ?" + err.Error()
	})
}

func Run(args []string) {
	rep := vh.NewReport("c13-tree", "annotated trees (depth <= 3, width <= 3, every node annotated with probability 0/50/80/100 %: rule object with 0-3 literal rules, note in a third) printed in three surface forms each: A and B independent (inline / multi-line per annotation, before / behind the comma, quoted / bare rule names, trailing comma, LF / CRLF / CR / mixed line ends, indentation, # and ### comments; per annotation and form its own NOTE spelling: none, `-` only, `-` + blanks, plain text, text holding - // /* { } \" # * UTF-8, in the multi-line form also a note on a later line / over several lines / of line breaks only; note-only annotations `// text`, `/* text */` on 0/10/25 % of the un-annotated nodes), A0 = A with every note removed and nothing else changed; A0 against A and B against A at property level: real GetAST with the Comment fields dropped (rule names and VALUES, keys, values), real Check verdict, Validate verdicts of 3 documents (the tree's value, two neighbours: scalars replaced, items / members dropped, added, doubled, reversed), bytes of Example(); Comment fields = written notes, trimmed (correspondence level); loader model (driver loadv) = real GetAST for A and B; malformed stream: 1-3 byte mutations of the forms, model = real tree or error; nontrivial = at least one annotation (with rules or note-only); stream atree (x/c13tree/atree.go): trees printed WITH layout in the grammar of the Lean type AT.ATree, driver `atree`: the table the tree DENOTES (ATree.table, the spec of C13_annotated_tree_loads) = loader model = real GetAST whenever the decidable line discipline AT.lineOK holds, loader model = real GetAST always")
	r := vh.NewRand(1313)
	n := vh.Pick(40000, 1200000)
	alphabet := []byte("{}[]:,\"\\/#@*|-_01. \n\rtn")
	var reqs, impl, inputs []string
	ask := func(text, got string) {
		reqs = append(reqs, "loadv "+hx(text))
		impl = append(impl, got)
		inputs = append(inputs, fmt.Sprintf("%q", text))
	}
	type obs struct {
		text, full, bare, notes, check, ex string
		val                                []string
	}
	observe := func(text string, docs []string) obs {
		o := obs{text: text}
		o.full, o.bare, o.notes = realASTs(text)
		o.check = realCheck(text)
		if o.check == "OK" {
			for _, d := range docs {
				o.val = append(o.val, realValidate(text, d))
			}
			o.ex = realExample(text)
		}
		return o
	}
	// across: the observables C13 speaks of, form y against form x of the same tree
	across := func(suffix, how string, x, y obs, docs []string) {
		in := fmt.Sprintf("%q vs %q", x.text, y.text)
		if x.bare != y.bare {
			rep.AddDiff(vh.Diff{Component: "ast-" + suffix, Input: in, Impl: x.bare, Model: y.bare, Level: "property",
				Note: "GetAST with the Comment fields dropped differs between two spellings of one annotated tree (" + how + ")"})
		}
		if x.check != y.check {
			rep.AddDiff(vh.Diff{Component: "check-" + suffix, Input: in, Impl: x.check, Model: y.check, Level: "property",
				Note: "Check verdict differs between two spellings of one annotated tree (" + how + ")"})
			return
		}
		if x.check != "OK" {
			return
		}
		for k, d := range docs {
			if x.val[k] != y.val[k] {
				rep.AddDiff(vh.Diff{Component: "validate-" + suffix, Input: in + fmt.Sprintf(" document %q", d), Impl: x.val[k], Model: y.val[k], Level: "property",
					Note: "Validate verdict of one document differs between two spellings of one annotated tree (" + how + ")"})
				break
			}
		}
		if x.ex != y.ex {
			rep.AddDiff(vh.Diff{Component: "example-" + suffix, Input: in, Impl: x.ex, Model: y.ex, Level: "property",
				Note: "Example() differs between two spellings of one annotated tree (" + how + ")"})
		}
	}
	type kase struct {
		root          *node
		na, nb        int
		t1, t0, t2, m string
		s1, s2        *style
		docs          []string
		o1, o0, o2    obs
		am            string
	}
	const chunk = 8192
	for base := 0; base < n; base += chunk {
		var cs []*kase
		for i := base; i < n && i < base+chunk; i++ {
			pAnn := []int{0, 50, 50, 80, 80, 100}[r.Intn(6)]
			c := &kase{root: gen(r, []int{0, 1, 2, 2, 3, 3}[r.Intn(6)], false, pAnn)}
			c.nb = markBare(r, c.root, []int{0, 10, 25}[r.Intn(3)])
			c.na = countAnn(c.root)
			seedA, seedB := r.Int63(), r.Int63()
			c.t1, c.s1 = render(seedA, 1+r.Int63(), c.root)
			c.t0, _ = render(seedA, 0, c.root)
			c.t2, c.s2 = render(seedB, 1+r.Int63(), c.root)
			c.docs = []string{docOf(r, c.root, 0), docOf(r, c.root, 15), docOf(r, c.root, 35)}
			if i%3 == 0 {
				c.m = string(vh.Mutate(r, []byte(c.t1), alphabet))
			}
			cs = append(cs, c)
		}
		// the library calls: independent schema objects, in parallel
		var wg sync.WaitGroup
		next := int64(-1)
		for w := 0; w < 16; w++ {
			wg.Add(1)
			go func() {
				defer wg.Done()
				for {
					k := int(atomic.AddInt64(&next, 1))
					if k >= len(cs) {
						return
					}
					c := cs[k]
					c.o1, c.o0, c.o2 = observe(c.t1, c.docs), observe(c.t0, c.docs), observe(c.t2, c.docs)
					if c.m != "" {
						c.am = realAST(c.m)
					}
				}
			}()
		}
		wg.Wait()
		for _, c := range cs {
			root, na, nb, docs := c.root, c.na, c.nb, c.docs
			t1, t0, t2, s1, s2 := c.t1, c.t0, c.t2, c.s1, c.s2
			o1, o0, o2 := c.o1, c.o0, c.o2
			for k := range s1.feat {
				rep.Stat("form_" + k)
			}
			for k := range s2.feat {
				rep.Stat("form_" + k)
			}
			rep.Stat(fmt.Sprintf("annotated_nodes_%d", min(na, 5)))
			if nb > 0 {
				rep.Stat("tree_with_note_only_annotation")
			}
			a1, a2 := o1.full, o2.full
			c1 := o1.check
			rep.Case(t1+"\x00"+t2, na+nb > 0)
			rep.Stat("check_" + strings.ReplaceAll(c1, " ", "_"))
			if t0 != t1 {
				rep.Stat("pair_notes_removed")
				across("notes-removed", "the second is the first with every annotation note removed", o1, o0, docs)
			} else {
				rep.Stat("pair_notes_removed_identical")
			}
			across("across-forms", "independent layouts, annotation forms and notes", o1, o2, docs)
			if c1 == "OK" {
				for k := range docs {
					rep.Stat("validate_" + o1.val[k])
				}
			}
			// the Comment fields against the written notes (the property compares the AST comments aside)
			for _, fo := range []struct {
				o obs
				s *style
			}{{o1, s1}, {o2, s2}} {
				if !strings.HasPrefix(fo.o.full, "(") {
					continue
				}
				var ws []string
				wantNotes(root, fo.s, &ws)
				if w := strings.Join(ws, ","); w != fo.o.notes {
					rep.AddDiff(vh.Diff{Component: "notes-vs-written", Input: fmt.Sprintf("%q", fo.o.text), Impl: fo.o.notes, Model: w, Level: "correspondence",
						Note: "Comment fields of GetAST in pre-order (hex, - = none) differ from the written notes, trimmed"})
				}
			}
			if strings.HasPrefix(a1, "X ") {
				rep.Stat("getast_error_behind_loader")
			}
			if strings.HasPrefix(a1, "ERR") {
				// the generator prints forms the library accepts: an error here is a finding of its own
				rep.AddDiff(vh.Diff{Component: "generated-form-rejected", Input: fmt.Sprintf("%q", t1), Impl: a1, Model: "tree", Level: "property"})
			}
			if !strings.HasPrefix(a1, "X ") {
				ask(t1, a1)
			}
			if !strings.HasPrefix(a2, "X ") {
				ask(t2, a2)
			}
			if c.m != "" {
				am := c.am
				if strings.HasPrefix(am, "X ") {
					rep.Stat("mutant_outside_model")
				} else {
					if strings.HasPrefix(am, "ERR") {
						rep.Stat("mutant_" + strings.Fields(am)[1])
					} else {
						rep.Stat("mutant_tree")
					}
					ask(c.m, am)
				}
			}
		}
	}
	runATree(rep)
	model := vh.AskModelSharded(reqs, 16)
	for i := range reqs {
		if model[i] != impl[i] {
			rep.AddDiff(vh.Diff{Component: "loader-model-vs-GetAST", Input: inputs[i], Impl: impl[i], Model: model[i], Level: "correspondence"})
		}
	}
	rep.Finish()
}

func min(a, b int) int {
	if a < b {
		return a
	}
	return b
}
