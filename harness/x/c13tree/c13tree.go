// Package c13tree: tie for C13's annotated-tree theorems (`C13_annotated_tree_*`, Lean modules `AnnTree*.lean`).
//
// A generated ANNOTATED TREE (objects / arrays / scalars, any nesting; every node may carry one annotation: a rule
// object with literal values and optionally a note) is printed in TWO random surface forms. Per annotation: inline
// `// {…}` or multi-line `/* {…} */` (line breaks inside), before or behind the comma for scalars, behind the opening
// bracket for containers, note or not, quoted or bare rule names, trailing comma in the rule object, blanks; per text:
// LF / CRLF / CR / mixed line ends, indentation, `#` line comments and `###` block comments where a line break is
// allowed. Compared: real GetAST (comments aside: kinds, keys, literal values, rule names AND rule values in written
// order, notes) equal across the two forms; real Check verdict (error code) equal across the forms; the loader
// model's table (driver `loadv`) equal to the real GetAST for BOTH forms. A malformed stream (1-3 byte mutations of
// the printed forms) compares model and real tree / error only.
package c13tree

import (
	stderrors "errors"
	"fmt"
	"math/rand"
	"strings"

	jlib "github.com/jsightapi/jsight-schema-go-library"
	"github.com/jsightapi/jsight-schema-go-library/notations/jschema"

	"verifharness/vh"
)

func hx(s string) string { return vh.Hex([]byte(s)) }

// ---- IR ----

type rule struct{ name, val string }

type ann struct {
	rules []rule
	note  string
}

type node struct {
	kind string // "int", "float", "str", "bool", "null", "arr", "obj"
	tok  string
	keys []string
	kids []*node
	an   *ann
}

var keyPool = []string{"a", "b", "id", "name", "x1", "k\\u0041", "z z", "ключ", "q\\\"q"}
var strPool = []string{"\"x\"", "\"abc\"", "\"\"", "\"a\\nb\"", "\"1.5\"", "\"a b\"", "\"\\u0041\""}
var notePool = []string{"note", "first id", "a - b", "x {y}", "1", "note: with colon", "é"}

func genRules(r *rand.Rand, n *node, isMember bool) []rule {
	var pool []rule
	switch n.kind {
	case "int":
		pool = []rule{{"min", "0"}, {"max", "100"}, {"min", "-5"}, {"type", "\"integer\""}, {"const", "true"}, {"exclusiveMinimum", "true"}}
	case "float":
		pool = []rule{{"min", "0.5"}, {"max", "99.25"}, {"precision", "2"}, {"type", "\"float\""}}
	case "str":
		pool = []rule{{"minLength", "0"}, {"maxLength", "64"}, {"regex", "\"^.*$\""}, {"type", "\"string\""}, {"const", "false"}}
	case "bool":
		pool = []rule{{"type", "\"boolean\""}, {"const", "true"}}
	case "null":
		pool = []rule{{"type", "\"null\""}}
	case "arr":
		pool = []rule{{"minItems", "0"}, {"maxItems", "10"}, {"type", "\"array\""}}
	case "obj":
		pool = []rule{{"additionalProperties", "true"}, {"additionalProperties", "false"}, {"type", "\"object\""}, {"additionalProperties", "\"string\""}}
	}
	pool = append(pool, rule{"nullable", "true"}, rule{"nullable", "false"})
	if isMember {
		pool = append(pool, rule{"optional", "true"}, rule{"optional", "false"})
	}
	if r.Intn(12) == 0 { // a rule that does not fit the node: Check must fail alike in both forms
		pool = append(pool, rule{"minLength", "1"}, rule{"minItems", "1"}, rule{"min", "1"}, rule{"precision", "1"}, rule{"bogus", "1"})
	}
	k := r.Intn(4)
	if r.Intn(10) == 0 {
		k = 0
	}
	seen := map[string]bool{}
	var out []rule
	for i := 0; i < k; i++ {
		x := pool[r.Intn(len(pool))]
		if seen[x.name] {
			continue
		}
		seen[x.name] = true
		out = append(out, x)
	}
	return out
}

func gen(r *rand.Rand, depth int, isMember bool, pAnn int) *node {
	n := &node{}
	c := r.Intn(12)
	if c >= 10 {
		c -= 3
	}
	if depth <= 0 && c >= 6 {
		c = r.Intn(6)
	}
	switch {
	case c == 0:
		n.kind, n.tok = "int", []string{"0", "1", "42", "-7", "100"}[r.Intn(5)]
	case c == 1:
		n.kind, n.tok = "float", []string{"1.5", "0.25", "-3.75", "10.0"}[r.Intn(4)]
	case c == 2 || c == 3:
		n.kind, n.tok = "str", strPool[r.Intn(len(strPool))]
	case c == 4:
		n.kind, n.tok = "bool", []string{"true", "false"}[r.Intn(2)]
	case c == 5:
		n.kind, n.tok = "null", "null"
	case c <= 7:
		n.kind = "arr"
		w := []int{0, 1, 2, 2, 3, 3}[r.Intn(6)]
		for i := 0; i < w; i++ {
			n.kids = append(n.kids, gen(r, depth-1, false, pAnn))
		}
	default:
		n.kind = "obj"
		w := []int{0, 1, 2, 3, 3, 4}[r.Intn(6)]
		used := map[string]bool{}
		for i := 0; i < w; i++ {
			k := keyPool[r.Intn(len(keyPool))]
			if used[k] {
				continue
			}
			used[k] = true
			n.keys = append(n.keys, k)
			n.kids = append(n.kids, gen(r, depth-1, true, pAnn))
		}
	}
	if r.Intn(100) < pAnn {
		a := &ann{rules: genRules(r, n, isMember)}
		if r.Intn(3) == 0 {
			a.note = notePool[r.Intn(len(notePool))]
		}
		n.an = a
	}
	return n
}

func countAnn(n *node) int {
	c := 0
	if n.an != nil {
		c = 1
	}
	for _, k := range n.kids {
		c += countAnn(k)
	}
	return c
}

// ---- surface forms ----

type style struct {
	r       *rand.Rand
	nl      []string // line ends to draw from
	indent  string
	comment int // percent of line breaks that get a comment
	feat    map[string]bool
}

func newStyle(r *rand.Rand) *style {
	s := &style{r: r, feat: map[string]bool{}}
	switch r.Intn(5) {
	case 0:
		s.nl = []string{"\n"}
	case 1:
		s.nl = []string{"\r\n"}
		s.feat["crlf"] = true
	case 2:
		s.nl = []string{"\r"}
		s.feat["cr"] = true
	default:
		s.nl = []string{"\n", "\r\n", "\r", "\n\n", "\n \n"}
		s.feat["mixed-nl"] = true
	}
	s.indent = []string{"", " ", "  ", "\t", "    "}[r.Intn(5)]
	s.comment = []int{0, 0, 20, 50}[r.Intn(4)]
	return s
}

func (s *style) sp() string { return []string{"", " ", " ", "  ", "\t"}[s.r.Intn(5)] }

// a line break (where the scanner allows user comments), possibly with comments
func (s *style) brk(depth int) string {
	var sb strings.Builder
	if s.r.Intn(100) < s.comment {
		switch s.r.Intn(3) {
		case 0:
			sb.WriteString(s.sp() + "# c" + []string{"", " x", "{}", " // {min: 1}"}[s.r.Intn(4)])
			s.feat["line-comment"] = true
		case 1:
			sb.WriteString(s.nl[s.r.Intn(len(s.nl))] + "### block" + s.nl[s.r.Intn(len(s.nl))] + " y ###")
			s.feat["block-comment"] = true
		default:
			sb.WriteString(s.sp() + "#")
			s.feat["empty-comment"] = true
		}
	}
	sb.WriteString(s.nl[s.r.Intn(len(s.nl))])
	sb.WriteString(strings.Repeat(s.indent, depth))
	return sb.String()
}

func (s *style) annText(a *ann) (string, bool) {
	r := s.r
	multi := r.Intn(2) == 0
	bl := func() string {
		if multi && r.Intn(3) == 0 {
			s.feat["nl-in-multi"] = true
			return s.nl[r.Intn(len(s.nl))] + s.sp()
		}
		return s.sp()
	}
	var sb strings.Builder
	if multi {
		sb.WriteString("/*")
		s.feat["multi"] = true
	} else {
		sb.WriteString("//")
		s.feat["inline"] = true
	}
	sb.WriteString(bl() + "{")
	for i, ru := range a.rules {
		if i > 0 {
			sb.WriteString(",")
		}
		nm := ru.name
		if r.Intn(3) == 0 {
			nm = "\"" + nm + "\""
			s.feat["quoted-name"] = true
		}
		sb.WriteString(bl() + nm + []string{"", " "}[r.Intn(2)] + ":" + bl() + ru.val + bl())
	}
	if len(a.rules) > 0 && r.Intn(4) == 0 {
		sb.WriteString("," + bl())
		s.feat["trailing-comma"] = true
	} else if len(a.rules) == 0 {
		sb.WriteString(bl())
	}
	sb.WriteString("}")
	if a.note != "" {
		sb.WriteString(bl() + "-" + s.sp() + a.note)
		s.feat["note"] = true
		if multi {
			sb.WriteString(s.sp())
		}
	} else {
		sb.WriteString(bl())
	}
	if multi {
		sb.WriteString("*/")
	}
	return sb.String(), multi
}

// print a node; `sep` is "," or "" (what follows the value inside its container); returns the text up to and including
// the separator and the node's annotation
func (s *style) print(n *node, depth int, sep string, sb *strings.Builder) {
	r := s.r
	scalarTail := func() {
		// annotation before or behind the separator
		if n.an == nil {
			sb.WriteString(s.sp() + sep)
			return
		}
		t, multi := s.annText(n.an)
		if sep != "" && r.Intn(2) == 0 {
			sb.WriteString(s.sp() + sep + s.sp() + t)
			s.feat["behind-comma"] = true
		} else {
			sb.WriteString(s.sp() + t)
			if multi {
				sb.WriteString(s.sp() + sep)
			} else {
				if sep != "" {
					sb.WriteString(s.brk(depth) + sep)
					s.feat["comma-on-next-line"] = true
				}
				return
			}
		}
		_ = multi
	}
	switch n.kind {
	case "arr", "obj":
		open, close := "[", "]"
		if n.kind == "obj" {
			open, close = "{", "}"
		}
		sb.WriteString(open)
		inlineOpen := false
		if n.an != nil {
			t, multi := s.annText(n.an)
			sb.WriteString(s.sp() + t)
			inlineOpen = !multi
		}
		for i, k := range n.kids {
			if !(inlineOpen && i == 0) {
				sb.WriteString(s.brk(depth + 1))
			} else {
				sb.WriteString(s.brk(depth + 1)) // the inline annotation needs its line break anyway
			}
			if n.kind == "obj" {
				sb.WriteString("\"" + n.keys[i] + "\"" + s.sp() + ":" + s.sp())
			}
			ksep := ","
			if i == len(n.kids)-1 {
				ksep = ""
			}
			s.print(k, depth+1, ksep, sb)
		}
		sb.WriteString(s.brk(depth))
		sb.WriteString(close + s.sp() + sep)
	default:
		sb.WriteString(n.tok)
		scalarTail()
	}
}

func render(r *rand.Rand, root *node) (string, map[string]bool) {
	s := newStyle(r)
	var sb strings.Builder
	if r.Intn(3) == 0 {
		sb.WriteString(s.brk(0))
	}
	s.print(root, 0, "", &sb)
	if r.Intn(2) == 0 {
		sb.WriteString(s.brk(0))
	}
	return sb.String(), s.feat
}

// ---- the real library ----

func dump(n jlib.ASTNode, isChildOfObject bool) string {
	var sb strings.Builder
	sb.WriteByte('(')
	switch n.TokenType {
	case jlib.TokenTypeObject:
		sb.WriteByte('o')
	case jlib.TokenTypeArray:
		sb.WriteByte('a')
	case jlib.TokenTypeShortcut:
		sb.WriteByte('m')
	default:
		sb.WriteByte('l')
	}
	if isChildOfObject {
		f := "p"
		if n.IsKeyShortcut {
			f = "s"
		}
		fmt.Fprintf(&sb, " k=%s:%s", hx(n.Key), f)
	}
	if n.TokenType != jlib.TokenTypeObject && n.TokenType != jlib.TokenTypeArray {
		fmt.Fprintf(&sb, " v=%s", hx(n.Value))
	}
	var names []string
	if n.Rules != nil {
		n.Rules.EachSafe(func(k string, rv jlib.RuleASTNode) {
			if rv.Source == jlib.RuleASTNodeSourceGenerated {
				names = append(names, hx(k))
			} else {
				names = append(names, hx(k)+":"+hx(rv.Value))
			}
		})
	}
	sb.WriteString(" r=[" + strings.Join(names, ",") + "]")
	if n.Comment != "" {
		fmt.Fprintf(&sb, " c=%s", hx(n.Comment))
	}
	for _, c := range n.Children {
		sb.WriteByte(' ')
		sb.WriteString(dump(c, n.TokenType == jlib.TokenTypeObject))
	}
	sb.WriteByte(')')
	return sb.String()
}

var loaderCodes = map[int]bool{402: true, 801: true, 802: true, 803: true, 804: true, 301: true, 302: true, 303: true, 304: true, 701: true}

// realAST: canonical tree, "ERR code pos" (errors of the scanner / loader classes), or "" (another error: outside the loader model)
func realAST(text string) string {
	return vh.Recover(func() string {
		s := jschema.New("s", text)
		ast, err := s.GetAST()
		if err != nil {
			var pe jlib.ParsingError
			if stderrors.As(err, &pe) && loaderCodes[pe.ErrCode()] {
				return fmt.Sprintf("ERR %d %d", pe.ErrCode(), pe.Position())
			}
			if stderrors.As(err, &pe) {
				return fmt.Sprintf("X %d", pe.ErrCode()) // an error behind the loader (constraint constructors, compile): outside the loader model
			}
			return "X ?"
		}
		if ast.TokenType == "" && len(ast.Children) == 0 && ast.Value == "" {
			return "EMPTY"
		}
		return dump(ast, false)
	})
}

func realCheck(text string) string {
	return vh.Recover(func() string {
		err := jschema.New("s", text).Check()
		if err == nil {
			return "OK"
		}
		var pe jlib.ParsingError
		if stderrors.As(err, &pe) {
			return fmt.Sprintf("ERR %d", pe.ErrCode())
		}
		return "ERR ?" + err.Error()
	})
}

func Run(args []string) {
	rep := vh.NewReport("c13-tree", "annotated trees (depth <= 3, width <= 3, every node annotated with probability 0/50/80/100 %: rule object with 0-3 literal rules, note in a third) printed in two random surface forms each (inline / multi-line per annotation, before / behind the comma, notes, quoted / bare rule names, trailing comma, LF / CRLF / CR / mixed line ends, indentation, # and ### comments): real GetAST (rule names and VALUES, notes, keys, values) and real Check verdict equal across the forms, loader model (driver loadv) = real GetAST for both forms; malformed stream: 1-3 byte mutations of the forms, model = real tree or error; nontrivial = at least one annotated node; stream atree (x/c13tree/atree.go): trees printed WITH layout in the grammar of the Lean type AT.ATree, driver `atree`: the table the tree DENOTES (ATree.table, the spec of C13_annotated_tree_loads) = loader model = real GetAST whenever the decidable line discipline AT.lineOK holds, loader model = real GetAST always")
	r := vh.NewRand(1313)
	n := vh.Pick(40000, 1200000)
	alphabet := []byte("{}[]:,\"\\/#@*|-_01. \n\rtn")
	var reqs, impl, inputs []string
	ask := func(text, got string) {
		reqs = append(reqs, "loadv "+hx(text))
		impl = append(impl, got)
		inputs = append(inputs, fmt.Sprintf("%q", text))
	}
	for i := 0; i < n; i++ {
		pAnn := []int{0, 50, 50, 80, 80, 100}[r.Intn(6)]
		root := gen(r, []int{0, 1, 2, 2, 3, 3}[r.Intn(6)], false, pAnn)
		na := countAnn(root)
		t1, f1 := render(r, root)
		t2, f2 := render(r, root)
		for k := range f1 {
			rep.Stat("form_" + k)
		}
		for k := range f2 {
			rep.Stat("form_" + k)
		}
		rep.Stat(fmt.Sprintf("annotated_nodes_%d", min(na, 5)))
		a1, a2 := realAST(t1), realAST(t2)
		c1, c2 := realCheck(t1), realCheck(t2)
		rep.Case(t1+"\x00"+t2, na > 0)
		rep.Stat("check_" + strings.ReplaceAll(c1, " ", "_"))
		if a1 != a2 {
			rep.AddDiff(vh.Diff{Component: "ast-across-forms", Input: fmt.Sprintf("%q vs %q", t1, t2), Impl: a1, Model: a2, Level: "property"})
		}
		if c1 != c2 {
			rep.AddDiff(vh.Diff{Component: "check-across-forms", Input: fmt.Sprintf("%q vs %q", t1, t2), Impl: c1, Model: c2, Level: "property"})
		}
		if strings.HasPrefix(a1, "X ") {
			rep.Stat("getast_error_behind_loader")
		}
		if strings.HasPrefix(a1, "ERR") {
			// the generator prints forms the library accepts: an error here is a finding of its own
			rep.AddDiff(vh.Diff{Component: "generated-form-rejected", Input: fmt.Sprintf("%q", t1), Impl: a1, Model: "tree", Level: "property"})
		}
		if !strings.HasPrefix(a1, "X ") {
			ask(t1, a1)
		}
		if !strings.HasPrefix(a2, "X ") {
			ask(t2, a2)
		}
		if i%3 == 0 {
			m := string(vh.Mutate(r, []byte(t1), alphabet))
			am := realAST(m)
			if strings.HasPrefix(am, "X ") {
				rep.Stat("mutant_outside_model")
			} else {
				if strings.HasPrefix(am, "ERR") {
					rep.Stat("mutant_" + strings.Fields(am)[1])
				} else {
					rep.Stat("mutant_tree")
				}
				ask(m, am)
			}
		}
	}
	runATree(rep)
	model := vh.AskModelSharded(reqs, 16)
	for i := range reqs {
		if model[i] != impl[i] {
			rep.AddDiff(vh.Diff{Component: "loader-model-vs-GetAST", Input: inputs[i], Impl: impl[i], Model: model[i], Level: "correspondence"})
		}
	}
	rep.Finish()
}

func min(a, b int) int {
	if a < b {
		return a
	}
	return b
}
