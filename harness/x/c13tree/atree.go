package c13tree

// Stream `atree`: the SPEC side of `C13_annotated_tree_loads`. A generated annotated tree is printed WITH its layout as
// an S-expression in the grammar of the Lean type `AT.ATree` (driver `atree`, lean/Driver/ATree.lean): scalars /
// arrays / objects, one annotation per node (inline or multi-line, before / behind the comma for scalars, behind the
// opening bracket for containers, note, trailing comma, blanks, line breaks inside the multi-line form), blanks, LF /
// CR LF line ends and `#` comments as layout. The driver answers with the text it renders from the tree
// (`AT.docText`), the decidable line discipline of the theorem (`AT.lineOK`), the dump of the table the tree DENOTES
// (`ATree.table`) and the loader model's table of the text (`loadv`). Compared: loader model = real GetAST of the text
// (always), and - when `lineOK` holds - denoted table = loader model = real GetAST. A tenth of the trees is printed
// with a layout that breaks the discipline (two values on a line, a line break before the annotation): there only
// model = real is required.

import (
	"encoding/hex"
	"fmt"
	"math/rand"
	"strings"

	"verifharness/vh"
)

type sxp struct {
	r     *rand.Rand
	bad   bool // draw layouts that may break the line discipline
	crlf  bool
	cmts  int
	feats map[string]bool
}

func hxe(s string) string {
	if s == "" {
		return "-"
	}
	return hx(s)
}

func (p *sxp) spItems(max int) []string {
	var out []string
	n := p.r.Intn(max + 1)
	for i := 0; i < n; i++ {
		if p.r.Intn(5) == 0 {
			out = append(out, "(s 09)")
		} else {
			out = append(out, "(s 20)")
		}
	}
	return out
}

func (p *sxp) gapSP() string { return "(g " + strings.Join(p.spItems(2), " ") + ")" }
func (p *sxp) gapNone() string { return "(g)" }

// a layout with a line break (and indentation), possibly a comment
func (p *sxp) gapNL(depth int) string {
	if p.bad && p.r.Intn(3) == 0 {
		p.feats["no-line-break"] = true
		return p.gapSP()
	}
	items := p.spItems(1)
	if p.r.Intn(100) < p.cmts {
		txt := []string{"", " c", " x {y}", " // {min: 1}"}[p.r.Intn(4)]
		items = append(items, "(c "+hxe(txt)+" 0a)")
		p.feats["comment"] = true
	} else if p.crlf {
		items = append(items, "(n 0d)", "(n 0a)")
	} else {
		items = append(items, "(n 0a)")
	}
	if p.r.Intn(6) == 0 {
		items = append(items, "(n 0a)")
	}
	for i := 0; i < depth; i++ {
		items = append(items, "(s 20)")
	}
	return "(g " + strings.Join(items, " ") + ")"
}

func (p *sxp) blank(multi bool) string {
	if multi && p.r.Intn(3) == 0 {
		p.feats["nl-in-multi"] = true
		return "\n" + []string{"", " "}[p.r.Intn(2)]
	}
	return []string{"", " ", " ", "\t"}[p.r.Intn(4)]
}

func (p *sxp) ann(a *ann) string {
	multi := p.r.Intn(2) == 0
	m := "i"
	if multi {
		m = "m"
		p.feats["multi"] = true
	} else {
		p.feats["inline"] = true
	}
	note := "-"
	if a.note != "" {
		note = "(" + hxe([]string{"", " ", "  "}[p.r.Intn(3)]) + " " + hx(a.note) + ")"
		p.feats["note"] = true
	}
	var ob string
	if len(a.rules) == 0 {
		ob = "(e " + hxe(p.blank(multi)) + ")"
	} else {
		tc := "-"
		if p.r.Intn(4) == 0 {
			tc = "(t " + hxe(p.blank(multi)) + ")"
			p.feats["trailing-comma"] = true
		}
		var rs []string
		for _, ru := range a.rules {
			rs = append(rs, fmt.Sprintf("(%s %s %d %s %s %s)", hxe(p.blank(multi)), hx(ru.name), p.r.Intn(2), hxe(p.blank(multi)), hx(ru.val), hxe(p.blank(multi))))
		}
		ob = "(r " + tc + " " + strings.Join(rs, " ") + ")"
	}
	nlb := "0a"
	if p.crlf && p.r.Intn(2) == 0 {
		nlb = "0d"
	}
	return fmt.Sprintf("(an %s %s %s %s %s %s)", m, hxe(p.blank(multi)), hxe(p.blank(multi)), nlb, note, ob)
}

func (p *sxp) head(n *node) string {
	if n.an == nil {
		return "-"
	}
	return "(h " + p.gapSP() + " " + p.ann(n.an) + ")"
}

// a value; `last`: no comma follows (the annotation of a scalar cannot stand behind it)
func (p *sxp) tree(n *node, depth int, last bool) string {
	switch n.kind {
	case "arr":
		return "(A " + p.head(n) + " " + p.items(n, 0, depth) + ")"
	case "obj":
		return "(O " + p.head(n) + " " + p.members(n, 0, depth) + ")"
	}
	sa := "-"
	if n.an != nil {
		if !last && p.r.Intn(2) == 0 {
			sa = "(a " + p.gapSP() + " " + p.ann(n.an) + ")"
			p.feats["behind-comma"] = true
		} else {
			g := p.gapSP()
			if p.bad && p.r.Intn(4) == 0 {
				g = p.gapNL(depth)
			}
			sa = "(b " + g + " " + p.ann(n.an) + ")"
		}
	}
	return "(S " + hx(n.tok) + " " + sa + ")"
}

func (p *sxp) items(n *node, i, depth int) string {
	if i >= len(n.kids) {
		return "(n " + p.gapNL(depth) + ")"
	}
	last := i == len(n.kids)-1
	c := "1"
	if last {
		c = "0"
	}
	return fmt.Sprintf("(c %s %s %s %s %s)", p.gapNL(depth+1), p.tree(n.kids[i], depth+1, last), p.gapSP(), c, p.items(n, i+1, depth))
}

func (p *sxp) members(n *node, i, depth int) string {
	if i >= len(n.kids) {
		return "(n " + p.gapNL(depth) + ")"
	}
	last := i == len(n.kids)-1
	c := "1"
	if last {
		c = "0"
	}
	g3 := p.gapSP()
	if p.r.Intn(12) == 0 { // the value on the line after its key
		g3 = "(g (n 0a) (s 20))"
		p.feats["value-on-next-line"] = true
	}
	return fmt.Sprintf("(c %s %s %s %s %s %s %s %s)", p.gapNL(depth+1), hx("\""+n.keys[i]+"\""), p.gapSP(), g3,
		p.tree(n.kids[i], depth+1, last), p.gapSP(), c, p.members(n, i+1, depth))
}

// bare names only: the rule-object grammar of the Lean development
func runATree(rep *vh.Report) {
	r := vh.NewRand(1314)
	n := vh.Pick(15000, 300000)
	var reqs []string
	var nas []int
	for i := 0; i < n; i++ {
		pAnn := []int{0, 50, 80, 80, 100}[r.Intn(5)]
		root := gen(r, []int{1, 2, 2, 3, 3}[r.Intn(5)], false, pAnn)
		p := &sxp{r: r, bad: r.Intn(10) == 0, crlf: r.Intn(3) == 0, cmts: []int{0, 0, 25}[r.Intn(3)], feats: map[string]bool{}}
		w0 := "(g)"
		if r.Intn(3) == 0 {
			w0 = p.gapNL(0)
		}
		w1 := "(g)"
		if r.Intn(2) == 0 {
			w1 = p.gapNL(0)
		}
		reqs = append(reqs, "atree (doc "+w0+" "+p.tree(root, 0, true)+" "+w1+")")
		nas = append(nas, countAnn(root))
		for k := range p.feats {
			rep.Stat("atree_form_" + k)
		}
	}
	model := vh.AskModelSharded(reqs, 16)
	for i, rp := range model {
		parts := strings.SplitN(rp, "|", 4)
		if len(parts) != 4 {
			rep.AddDiff(vh.Diff{Component: "atree-driver-reply", Input: reqs[i], Impl: "text|ok|table|loadv", Model: rp, Level: "correspondence"})
			continue
		}
		tb, _ := hex.DecodeString(parts[0])
		text := string(tb)
		ok, table, loadv := parts[1], parts[2], parts[3]
		real := realAST(text)
		rep.Case("atree\x00"+text, nas[i] > 0 && ok == "1")
		rep.Stat("atree_lineOK_" + ok)
		in := fmt.Sprintf("%q", text)
		if strings.HasPrefix(real, "X ") {
			rep.Stat("atree_getast_error_behind_loader")
		} else if real != loadv {
			rep.AddDiff(vh.Diff{Component: "atree-loader-model-vs-GetAST", Input: in, Impl: real, Model: loadv, Level: "correspondence"})
		}
		if ok == "1" {
			if table != loadv {
				rep.AddDiff(vh.Diff{Component: "atree-denoted-table-vs-loader-model", Input: in, Impl: loadv, Model: table, Level: "property"})
			}
			if !strings.HasPrefix(real, "X ") && table != real {
				rep.AddDiff(vh.Diff{Component: "atree-denoted-table-vs-GetAST", Input: in, Impl: real, Model: table, Level: "property"})
			}
		} else if strings.HasPrefix(real, "ERR") {
			rep.Stat("atree_bad_layout_rejected")
		} else {
			rep.Stat("atree_bad_layout_accepted")
		}
	}
}
