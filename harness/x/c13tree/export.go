package c13tree

// Exported face of the annotated-tree generator (atree.go) for other ties: `c15-text` (stream T) draws the same trees,
// printed WITH layout in the grammar of the Lean type `AT.ATree`, and needs the compact text of the tree's VALUE.

import (
	"math/rand"
	"strings"
)

// ATreeCase: one generated annotated tree. `sexp` = `(doc GAP TREE GAP)` in the grammar of lean/Driver/ATree.lean;
// `compact` = the compact JSON text of the value (scalar and key tokens as written, no layout, no annotations);
// `nAnn` = number of annotated nodes, `nRules` = number of rules; `feats` = surface features used. `enrich`: add, on top
// of the generator's rule pool, rules the example builder never consults (`type: "any"`, `optional`, `const`,
// `nullable`) to nodes that do not have them. `misfit`: allow the generator's rules that do not fit the node (Check fails).
func ATreeCase(r *rand.Rand, enrich bool) (sexp, compact string, nAnn, nRules int, container bool, feats map[string]bool) {
	pAnn := []int{0, 50, 80, 80, 100}[r.Intn(5)]
	root := gen(r, []int{1, 2, 2, 3, 3}[r.Intn(5)], false, pAnn)
	for root.kind != "arr" && root.kind != "obj" && r.Intn(8) != 0 { // the theorem's roots are containers
		root = gen(r, []int{1, 2, 2, 3, 3}[r.Intn(5)], false, pAnn)
	}
	if enrich {
		enrichRules(r, root, false)
	}
	p := &sxp{r: r, bad: r.Intn(12) == 0, crlf: r.Intn(3) == 0, cmts: []int{0, 0, 25}[r.Intn(3)], feats: map[string]bool{}}
	w0 := "(g)"
	if r.Intn(3) == 0 {
		w0 = p.gapNL(0)
	}
	w1 := "(g)"
	if r.Intn(2) == 0 {
		w1 = p.gapNL(0)
	}
	var sb strings.Builder
	compactOf(root, &sb)
	return "(doc " + w0 + " " + p.tree(root, 0, true) + " " + w1 + ")", sb.String(), countAnn(root), countRules(root),
		root.kind == "arr" || root.kind == "obj", p.feats
}

func countRules(n *node) int {
	c := 0
	if n.an != nil {
		c = len(n.an.rules)
	}
	for _, k := range n.kids {
		c += countRules(k)
	}
	return c
}

func enrichRules(r *rand.Rand, n *node, isMember bool) {
	if r.Intn(6) == 0 {
		if n.an == nil {
			n.an = &ann{}
		}
		has := map[string]bool{}
		for _, ru := range n.an.rules {
			has[ru.name] = true
		}
		var extra []rule
		switch n.kind {
		case "arr", "obj":
			extra = []rule{{"type", "\"any\""}, {"nullable", "true"}, {"type", "\"any\""}, {"nullable", "true"}, {"or", "1"}, {"allOf", "\"@t\""}}
		case "null":
			extra = []rule{{"type", "\"any\""}}
		default:
			extra = []rule{{"type", "\"any\""}, {"const", "true"}, {"nullable", "true"}, {"type", "\"mixed\""}, {"enum", "1"}, {"or", "1"}}
		}
		if isMember {
			extra = append(extra, rule{"optional", "true"})
		}
		x := extra[r.Intn(len(extra))]
		if !has[x.name] && len(n.an.rules) < 3 {
			n.an.rules = append(n.an.rules, x)
		}
	}
	for _, k := range n.kids {
		enrichRules(r, k, n.kind == "obj")
	}
}

func compactOf(n *node, sb *strings.Builder) {
	switch n.kind {
	case "arr":
		sb.WriteByte('[')
		for i, k := range n.kids {
			if i > 0 {
				sb.WriteByte(',')
			}
			compactOf(k, sb)
		}
		sb.WriteByte(']')
	case "obj":
		sb.WriteByte('{')
		for i, k := range n.kids {
			if i > 0 {
				sb.WriteByte(',')
			}
			sb.WriteString("\"" + n.keys[i] + "\":")
			compactOf(k, sb)
		}
		sb.WriteByte('}')
	default:
		sb.WriteString(n.tok)
	}
}
