// Package c18: harness command `c18-named` — property C18 "Named enum rules and regex types behave like their
// inline forms".
//
// (a) C18-enum: a list of 1–5 scalar literals (strings with every JSON escape form incl. \uXXXX, integers,
// decimals, true / false / null; duplicates and near-duplicates planted on purpose) is printed
//   - as a NAMED rule text `[ … ]` with random layout, `// …` and `/* … */` comments (after `[`, before and
//     after items, after `]`) and line breaks, registered with AddRule("@E", enum.New("@E", text)) and used by
//     `<example> // {enum: @E}`;
//   - INLINE: `<example> // {enum: [ … ]}` (one-line or /* */ annotation, same literal texts).
//
// Demanded: the rule's own Check() fails iff two items share (decoded text, string-or-not); the verdict of
// the named spelling (AddRule error or Check error) equals the Check verdict of the inline spelling; when both
// are accepted, ~15 probe documents get the same Validate verdict from both; Values() and GetAST() of the rule
// list the literals (entries of type "comment", which the rule also lists for free-standing comments, are
// skipped) in source order with their RAW source text and kind.
//
// The named spellings share ONE rule object: it is added to an object schema whose two properties both use
// `{enum: @E}` and to a scalar schema; Values() / GetAST() of the rule are read before AND after these schemas
// were checked and must not change. Every probe verdict is also compared with membership by (decoded text,
// kind) (component C02-enum), and a dedicated stream (enum.go: runEnumTwins, C02-enum) uses inline lists with twin
// items of equal text and different kind (`"1"` / 1, `"null"` / null …) in both orders.
//
// (b) C18-regex: a pattern P from a printable-ASCII grammar (literals incl. `"`, classes, negated classes, `.`,
// \d \w \s, alternation, groups, quantifiers ? * + {n} {n,m} and lazy forms, escaped slash `\/`, escaped quote
// `\"`, escaped backslash `\\`, é, optional ^ … $) as regex type text `/P/` + optional trailing text, added as
// @T and used as `"x" // {type: "@T"}` or as `@T`; versus inline `"x" // {regex: "<P as JSON string>"}`.
// Demanded: Pattern() == P; Len() == len("/P/"); Example() matches P (Go regexp); for ~12 probe strings (samples of
// the grammar, mutated samples, fixed special strings; encoded as JSON strings with random escape forms) all
// spellings give the same Validate verdict and it equals regexp.MatchString(P, decoded probe).
//
// (c) stream "multi" (multi.go): several regex types and enum rules per schema, objects shared by several schemas,
// call histories between AddType / AddRule and the first use; see the comment there.
//
// Conventions calibrated on the unchanged tree: enum.Value.Value and the AST Value of a rule item are the raw
// literal text (strings keep quotes and escapes); numbers in a rule text have no exponent (scanner rule).
// Word boundaries (\b, \B) and anchors inside a pattern are outside the grammar (the example generator ignores
// them).
package c18

import (
	"fmt"
	"regexp"

	"github.com/jsightapi/jsight-schema-go-library/notations/jschema"
	"github.com/jsightapi/jsight-schema-go-library/notations/regex"
	"github.com/jsightapi/jsight-schema-go-library/rules/enum"

	"verifharness/vh"
)

func probe(args []string) {
	switch args[0] {
	case "regex":
		rt := regex.New("@T", args[1])
		p, err := rt.Pattern()
		fmt.Printf("pattern %q err %v\n", p, err)
		ex, err := rt.Example()
		fmt.Printf("example %q err %v\n", ex, err)
		if err == nil && p != "" {
			m, e2 := regexp.MatchString(p, string(ex))
			fmt.Println("example matches:", m, e2)
		}
		l, err := rt.Len()
		fmt.Println("len", l, err)
		s := jschema.New("root", "@T")
		fmt.Println("AddType:", s.AddType("@T", rt))
		fmt.Println("Check:", s.Check())
	case "enum":
		e := enum.New("@E", args[1])
		fmt.Println("Check:", e.Check())
		vv, err := e.Values()
		fmt.Println("Values err:", err)
		for _, v := range vv {
			fmt.Printf("  %q type=%s comment=%q\n", v.Value, v.Type, v.Comment)
		}
		a, err := e.GetAST()
		fmt.Println("AST err:", err)
		for _, c := range a.Children {
			fmt.Printf("  tok=%s type=%s value=%q comment=%q\n", c.TokenType, c.SchemaType, c.Value, c.Comment)
		}
		l, err := e.Len()
		fmt.Println("len", l, err)
	}
}

func Run(args []string) {
	if len(args) >= 2 && args[0] == "probe" {
		probe(args[1:])
		return
	}
	rep := vh.NewReport("c18-named", "enum: lists of 1-5 scalars of all kinds (escapes, planted duplicates / near-duplicates) as named rule text with "+
		"random layout and comments vs the same list inline, ~15 probe documents each; regex: patterns from a printable-ASCII grammar as /P/ + trailing "+
		"text added as @T (used through type rule and as shortcut) vs inline {regex}, ~12 probe strings each with random JSON escape forms. "+
		"twins (C02-enum): inline lists with items of equal text and different kind in both orders, probes of both kinds, membership by (decoded text, kind). "+
		"multi: programs with 2-4 regex types and 0-3 enum rules (shared objects) used by 1-3 root schemas (scalar / object / array; shortcut, type rule, or-shortcut, "+
		"enum uses), set-up calls of the roots interleaved, history calls in between (other schemas with regex types built / checked / Example()d, Example() of literal "+
		"schemas, Len / Pattern / Example / GetAST of the regex objects, Check / Values / GetAST of the rule objects), first use = Check, Validate, Example or GetAST; "+
		"every verdict / error / Example / AST compared with fresh objects used straight away, with the inline spelling and with regexp / membership. "+
		"nontrivial = enum list with >= 2 items or a comment; every twins case; pattern with an operator (class, group, quantifier, alternation or escape); "+
		"multi: a root with >= 2 named objects or a call between a root's last AddRule / AddType and its first use")
	only := ""
	if len(args) > 0 {
		only = args[0]
	}
	if only == "" || only == "enum" {
		runEnum(rep)
	}
	if only == "" || only == "twins" {
		runEnumTwins(rep)
	}
	if only == "" || only == "regex" {
		runRegex(rep)
	}
	if only == "" || only == "multi" {
		runMulti(rep)
	}
	rep.Finish()
}
