package c18

import (
	stdjson "encoding/json"
	"fmt"
	"math/rand"
	"strconv"
	"strings"
	"time"

	jdoc "github.com/jsightapi/jsight-schema-go-library/formats/json"
	"github.com/jsightapi/jsight-schema-go-library/notations/jschema"
	"github.com/jsightapi/jsight-schema-go-library/rules/enum"

	"verifharness/vh"
)

// encodeJSONString encodes s as a JSON string literal choosing a random admissible form for every character.
func encodeJSONString(r *rand.Rand, s string, fancy bool) string {
	var sb strings.Builder
	sb.WriteByte('"')
	for _, c := range s {
		alt := fancy && r.Intn(4) == 0
		switch {
		case c == '"':
			sb.WriteString(pick(r, alt, `\"`, `\u0022`))
		case c == '\\':
			sb.WriteString(pick(r, alt, `\\`, `\u005c`))
		case c == '/':
			sb.WriteString(pick(r, alt, `/`, `\/`))
		case c == '\n':
			sb.WriteString(pick(r, alt, `\n`, `\u000a`))
		case c == '\t':
			sb.WriteString(pick(r, alt, `\t`, `\u0009`))
		case c == '\r':
			sb.WriteString(pick(r, alt, `\r`, `\u000D`))
		case c == '\b':
			sb.WriteString(`\b`)
		case c == '\f':
			sb.WriteString(`\f`)
		case c < 0x20:
			sb.WriteString(fmt.Sprintf(`\u%04x`, c))
		case alt && c < 0x10000:
			sb.WriteString(fmt.Sprintf(`\u%04X`, c))
		default:
			sb.WriteRune(c)
		}
	}
	sb.WriteByte('"')
	return sb.String()
}

func pick(r *rand.Rand, alt bool, a, b string) string {
	if alt {
		return b
	}
	return a
}

type item struct {
	raw  string
	kind string // string integer float boolean null
	dec  string // decoded text (strings) or the raw text
}

func (it item) key() string {
	if it.kind == "string" {
		return "S" + it.dec
	}
	return "L" + it.dec
}

func tokenOf(kind string) string {
	switch kind {
	case "integer", "float":
		return "number"
	}
	return kind
}

var strPool = []string{"a", "A", "ab", "", " ", "1", "true", "null", "a.b", "1.5", "v1.2", "-0", "1e5", "false", "{", "[", ".", "e", "0.0", "1.", ".5", "-1.50", "1E+2", "{}", "[1]", "a.b", "1.5", "x.", "3.14", "é", "😀", "a\"b", "a\\b", "a/b", "x\ny", "\t", "red", "green", "[1]", "//", "/* c */", "a,b", "]"}

func genItem(r *rand.Rand) item {
	switch r.Intn(9) {
	case 0, 1, 2:
		s := strPool[r.Intn(len(strPool))]
		return item{raw: encodeJSONString(r, s, true), kind: "string", dec: s}
	case 3, 4:
		s := []string{"0", "1", "-1", "7", "42", "-0", "100", "12345678901234567890"}[r.Intn(8)]
		return item{raw: s, kind: "integer", dec: s}
	case 5, 6:
		s := []string{"1.0", "1.5", "-2.25", "0.5", "1.50", "0.0", "100.001", "-0.0"}[r.Intn(8)]
		return item{raw: s, kind: "float", dec: s}
	case 7:
		s := []string{"true", "false"}[r.Intn(2)]
		return item{raw: s, kind: "boolean", dec: s}
	}
	return item{raw: "null", kind: "null", dec: "null"}
}

var commentWords = []string{"the", "first", "value", "1", "x,y", "]", "[", "\"q\"", "é", "// again", "/ *", "a - b", "{enum}", "@E", "*", "#"}

func commentText(r *rand.Rand, multi bool) string {
	n := 1 + r.Intn(3)
	var w []string
	for i := 0; i < n; i++ {
		w = append(w, commentWords[r.Intn(len(commentWords))])
	}
	s := strings.Join(w, " ")
	if multi && r.Intn(3) == 0 {
		s = strings.Replace(s, " ", "\n  ", 1)
	}
	return s
}

type layout struct {
	r        *rand.Rand
	sb       strings.Builder
	comments int
}

func (l *layout) ws() {
	switch l.r.Intn(6) {
	case 0, 1:
	case 2:
		l.sb.WriteByte(' ')
	case 3:
		l.sb.WriteString("\n")
	case 4:
		l.sb.WriteString("\n\t")
	case 5:
		l.sb.WriteString("  ")
	}
}

// maybeComment writes 0..2 comments; an inline comment ends with a line break.
func (l *layout) maybeComment() {
	for k := 0; k < 2; k++ {
		switch l.r.Intn(8) {
		case 0:
			l.comments++
			l.sb.WriteString("//" + []string{"", " ", "  "}[l.r.Intn(3)] + commentText(l.r, false) + []string{"", " "}[l.r.Intn(2)] + "\n")
			l.ws()
		case 1:
			l.comments++
			l.sb.WriteString("/*" + []string{"", " ", "\n "}[l.r.Intn(3)] + commentText(l.r, true) + []string{"", " ", "\n"}[l.r.Intn(3)] + "*/")
			l.ws()
		default:
			return
		}
	}
}

func namedText(r *rand.Rand, items []item) (string, int) {
	l := &layout{r: r}
	l.ws()
	l.sb.WriteByte('[')
	l.ws()
	l.maybeComment()
	for i, it := range items {
		l.sb.WriteString(it.raw)
		l.ws()
		l.maybeComment()
		if i < len(items)-1 {
			l.sb.WriteByte(',')
			l.ws()
			l.maybeComment()
		}
	}
	l.sb.WriteByte(']')
	l.ws()
	switch r.Intn(6) {
	case 0:
		l.comments++
		l.sb.WriteString("// " + commentText(r, false))
	case 1:
		l.comments++
		l.sb.WriteString("/* " + commentText(r, true) + " */")
		l.ws()
	}
	return l.sb.String(), l.comments
}

func inlineAnnotation(r *rand.Rand, items []item) string {
	raws := make([]string, len(items))
	for i, it := range items {
		raws[i] = it.raw
	}
	if r.Intn(3) == 0 {
		return " /* {enum: [\n  " + strings.Join(raws, ",\n  ") + "\n]} */"
	}
	return " // {enum: [" + strings.Join(raws, []string{", ", ",", " , "}[r.Intn(3)]) + "]}"
}

func valid(err error) string {
	if err == nil {
		return "accepted"
	}
	return "rejected"
}

func firstLine(err error) string {
	if err == nil {
		return ""
	}
	s := err.Error()
	if i := strings.Index(s, "\n"); i >= 0 {
		s = s[:i]
	}
	return " (" + s + ")"
}

type enumOutcome struct {
	ruleCheck             error
	values, ast           string // read before any schema used the rule
	valuesAfter, astAfter string // read again after the schemas that share the rule object were checked
	namedErr, inlineErr   error  // scalar schemas
	named2Err, inline2Err error  // object schemas with two properties that both use the enum
	namedV, inlineV       []error
	named2V, inline2V     []error
	panicked              string
}

func readRule(e *enum.Enum) (values, ast string) {
	vv, err := e.Values()
	if err != nil {
		values = "ERROR " + err.Error()
	} else {
		var parts []string
		for _, v := range vv {
			if string(v.Type) == "comment" {
				continue
			}
			parts = append(parts, string(v.Type)+":"+string(v.Value))
		}
		values = strings.Join(parts, " | ")
	}
	a, err := e.GetAST()
	if err != nil {
		ast = "ERROR " + err.Error()
	} else {
		var parts []string
		for _, c := range a.Children {
			if c.SchemaType == "comment" {
				continue
			}
			parts = append(parts, c.TokenType+"/"+c.SchemaType+":"+c.Value)
		}
		ast = a.TokenType + "/" + a.SchemaType + "[" + strings.Join(parts, " | ") + "]"
	}
	return
}

// The four schema texts of one case. The named spellings share ONE rule object (as an API project does).
func enumSchemas(example, example2, inline string) (named, inl, named2, inl2 string) {
	named = example + " // {enum: @E}"
	inl = example + inline
	named2 = "{\n  \"a\": " + example + ", // {enum: @E}\n  \"b\": " + example2 + " // {enum: @E}\n}"
	inl2 = "{\n  \"a\": " + example + "," + inline + "\n  \"b\": " + example2 + inline + "\n}"
	return
}

func runEnumCase(ruleText, example, example2, inline string, probes []string) (out enumOutcome, timeout bool) {
	ch := make(chan enumOutcome, 1)
	go func() {
		var o enumOutcome
		o.panicked = vh.Recover(func() string {
			e := enum.New("@E", ruleText)
			o.ruleCheck = e.Check()
			if o.ruleCheck == nil {
				o.values, o.ast = readRule(e)
			}
			tn, ti, tn2, ti2 := enumSchemas(example, example2, inline)
			named2 := jschema.New("named2", tn2)
			o.named2Err = named2.AddRule("@E", e)
			if o.named2Err == nil {
				o.named2Err = named2.Check()
			}
			named := jschema.New("named", tn)
			o.namedErr = named.AddRule("@E", e)
			if o.namedErr == nil {
				o.namedErr = named.Check()
			}
			inl := jschema.New("inline", ti)
			o.inlineErr = inl.Check()
			inl2 := jschema.New("inline2", ti2)
			o.inline2Err = inl2.Check()
			if o.ruleCheck == nil {
				o.valuesAfter, o.astAfter = readRule(e)
			}
			if o.namedErr == nil && o.inlineErr == nil {
				for _, p := range probes {
					o.namedV = append(o.namedV, named.Validate(jdoc.New("doc", p)))
					o.inlineV = append(o.inlineV, inl.Validate(jdoc.New("doc", p)))
				}
			}
			if o.named2Err == nil && o.inline2Err == nil {
				for k, p := range probes {
					d := "{\"a\": " + p + ", \"b\": " + probes[(k+1)%len(probes)] + "}"
					o.named2V = append(o.named2V, named2.Validate(jdoc.New("doc", d)))
					o.inline2V = append(o.inline2V, inl2.Validate(jdoc.New("doc", d)))
				}
			}
			return ""
		})
		ch <- o
	}()
	select {
	case o := <-ch:
		return o, false
	case <-time.After(20 * time.Second):
		return enumOutcome{}, true
	}
}

// probeKey: membership key of a probe document: (decoded text, string-or-literal); "" for containers.
func probeKey(p string) string {
	p = strings.TrimSpace(p)
	if strings.HasPrefix(p, "\"") {
		var s string
		if stdjson.Unmarshal([]byte(p), &s) != nil {
			return ""
		}
		return "S" + s
	}
	if strings.HasPrefix(p, "{") || strings.HasPrefix(p, "[") {
		return ""
	}
	return "L" + p
}

func isMember(items []item, p string) bool {
	k := probeKey(p)
	for _, it := range items {
		if k != "" && it.key() == k {
			return true
		}
	}
	return false
}

func runEnum(rep *vh.Report) {
	r := vh.NewRand(18001)
	n := vh.Pick(5000, 150000)
	for i := 0; i < n; i++ {
		cnt := 1 + r.Intn(5)
		var items []item
		for len(items) < cnt {
			it := genItem(r)
			if len(items) > 0 {
				prev := items[r.Intn(len(items))]
				switch r.Intn(20) {
				case 0: // exact duplicate
					it = prev
				case 1: // same value, other spelling (strings) / same text (others)
					it = prev
					if prev.kind == "string" {
						it.raw = encodeJSONString(r, prev.dec, true)
					}
				case 2: // near-duplicate of another kind or text
					switch prev.kind {
					case "string":
						if _, err := strconv.ParseFloat(prev.dec, 64); err == nil && !strings.ContainsAny(prev.dec, "eE") && stdjson.Valid([]byte(prev.dec)) {
							it = item{raw: prev.dec, kind: "integer", dec: prev.dec}
							if strings.Contains(prev.dec, ".") {
								it.kind = "float"
							}
						} else if prev.dec == "true" || prev.dec == "null" || prev.dec == "false" {
							it = item{raw: prev.dec, kind: map[string]string{"true": "boolean", "false": "boolean", "null": "null"}[prev.dec], dec: prev.dec}
						} else {
							it = item{raw: encodeJSONString(r, strings.ToUpper(prev.dec)+"!", true), kind: "string", dec: strings.ToUpper(prev.dec) + "!"}
						}
					case "integer":
						it = item{raw: prev.raw + ".0", kind: "float", dec: prev.raw + ".0"}
					case "float":
						it = item{raw: prev.raw + "0", kind: "float", dec: prev.raw + "0"}
					default:
						it = item{raw: strconv.Quote(prev.raw), kind: "string", dec: prev.raw}
					}
				}
			}
			items = append(items, it)
		}
		dup := false
		seen := map[string]bool{}
		for _, it := range items {
			dup = dup || seen[it.key()]
			seen[it.key()] = true
		}
		text, ncomments := namedText(r, items)
		inline := inlineAnnotation(r, items)
		example := items[r.Intn(len(items))].raw
		example2 := items[r.Intn(len(items))].raw
		memberExample := true
		if r.Intn(8) == 0 {
			example, memberExample = `"no such value"`, false
		}
		// probes
		var probes []string
		for _, it := range items {
			probes = append(probes, it.raw)
			switch it.kind {
			case "string":
				probes = append(probes, encodeJSONString(r, it.dec, true))
				if it.dec != "" {
					probes = append(probes, encodeJSONString(r, it.dec+"x", false))
				}
				if _, err := strconv.ParseFloat(it.dec, 64); err == nil && stdjson.Valid([]byte(it.dec)) {
					probes = append(probes, it.dec)
				}
			case "integer":
				probes = append(probes, it.raw+".0", strconv.Quote(it.raw))
				if !strings.HasPrefix(strings.TrimPrefix(it.raw, "-"), "0") {
					probes = append(probes, it.raw+"e0")
				}
			case "float":
				probes = append(probes, it.raw+"0", strings.TrimSuffix(strings.TrimSuffix(it.raw, "0"), "."), strconv.Quote(it.raw))
			default:
				probes = append(probes, strconv.Quote(it.raw))
			}
		}
		probes = append(probes, `true`, `false`, `null`, `""`, `"zzz"`, `0`, `{}`, `[]`, `[1]`, `{"a": 1}`)
		var ps []string
		seenP := map[string]bool{}
		for _, p := range probes {
			if !seenP[p] && stdjson.Valid([]byte(p)) {
				seenP[p] = true
				ps = append(ps, p)
			}
		}
		r.Shuffle(len(ps), func(i, j int) { ps[i], ps[j] = ps[j], ps[i] })
		if len(ps) > 15 {
			ps = ps[:15]
		}
		probes = ps

		tn, ti, tn2, ti2 := enumSchemas(example, example2, inline)
		in := fmt.Sprintf("rule := enum.New(\"@E\", %q); named2 = jschema.New(\"named2\", %q) + AddRule(\"@E\", rule) + Check; named = jschema.New(\"named\", %q) + AddRule(\"@E\", rule) + Check (same rule object); inline = jschema.New(\"inline\", %q); inline2 = jschema.New(\"inline2\", %q)", text, tn2, tn, ti, ti2)
		rep.Case(in, len(items) >= 2 || ncomments > 0)
		rep.Stat(fmt.Sprintf("enum_items_%d", len(items)))
		if ncomments > 0 {
			rep.Stat("enum_with_comments")
		}
		if dup {
			rep.Stat("enum_duplicates")
		}
		if !memberExample {
			rep.Stat("enum_example_not_member")
		}
		// Strings whose content looks like another JSON kind: the case is evaluated several times in one run and
		// every evaluation must satisfy the property (the kind of a quoted token must not depend on the run).
		reps := 1
		for _, it := range items {
			if it.kind == "string" && lookalike(it.dec) {
				reps = 8
			}
		}
		if reps > 1 {
			rep.Stat("enum_lookalike_string_cases_x8")
		}
		once := func(rpt int) (clean, fatal bool) {
			stat := func(s string) {
				if rpt == 0 {
					rep.Stat(s)
				}
			}
			o, to := runEnumCase(text, example, example2, inline, probes)
			if to {
				rep.AddDiff(vh.Diff{Component: "C18-enum", Input: in, Impl: "TIMEOUT", Model: "terminates"})
				return false, true
			}
			if o.panicked != "" {
				rep.AddDiff(vh.Diff{Component: "C18-enum", Input: in, Impl: o.panicked, Model: "no panic"})
				return false, false
			}
			// 1. duplicates
			if (o.ruleCheck != nil) != dup {
				rep.AddDiff(vh.Diff{Component: "C18-enum", Input: in, Impl: "rule.Check() " + valid(o.ruleCheck) + firstLine(o.ruleCheck), Model: fmt.Sprintf("rule.Check() rejects iff two items share (decoded text, kind): duplicates=%v", dup)})
				return false, false
			}
			// 2. Values / GetAST in source order
			if !dup {
				var wv, wa []string
				for _, it := range items {
					wv = append(wv, it.kind+":"+it.raw)
					wa = append(wa, tokenOf(it.kind)+"/"+it.kind+":"+it.raw)
				}
				if want := strings.Join(wv, " | "); o.values != want {
					rep.AddDiff(vh.Diff{Component: "C18-enum", Input: in, Impl: "Values() = " + o.values, Model: "Values() literals = " + want})
					return false, false
				}
				if want := "array/enum[" + strings.Join(wa, " | ") + "]"; o.ast != want {
					rep.AddDiff(vh.Diff{Component: "C18-enum", Input: in, Impl: "GetAST() = " + o.ast, Model: "GetAST() = " + want})
					return false, false
				}
				// … and again after the schemas sharing the rule object were loaded and checked
				if o.valuesAfter != o.values || o.astAfter != o.ast {
					rep.AddDiff(vh.Diff{Component: "C18-enum", Input: in + "; then rule.Values() / rule.GetAST() again", Impl: "Values() = " + o.valuesAfter + " ; GetAST() = " + o.astAfter, Model: "unchanged by the use of the rule: Values() literals = " + o.values + " ; GetAST() = " + o.ast})
					return false, false
				}
			}
			// 3. named vs inline: Check verdict (scalar schemas, and objects whose two properties use the enum)
			if (o.namedErr == nil) != (o.inlineErr == nil) || (o.named2Err == nil) != (o.inline2Err == nil) {
				rep.AddDiff(vh.Diff{Component: "C18-enum", Input: in, Impl: "named " + valid(o.namedErr) + firstLine(o.namedErr) + ", inline " + valid(o.inlineErr) + firstLine(o.inlineErr) +
					"; named2 " + valid(o.named2Err) + firstLine(o.named2Err) + ", inline2 " + valid(o.inline2Err) + firstLine(o.inline2Err), Model: "same Check verdict for both spellings"})
				return false, false
			}
			if o.namedErr != nil {
				stat("enum_both_rejected")
				return false, false
			}
			stat("enum_both_accepted")
			// 4. probes: the two spellings agree, and the verdict is membership by (decoded text, kind) — C02
			for k, p := range probes {
				want := isMember(items, p)
				if want {
					stat("enum_probe_member")
				} else {
					stat("enum_probe_nonmember")
				}
				if (o.namedV[k] == nil) != (o.inlineV[k] == nil) {
					rep.AddDiff(vh.Diff{Component: "C18-enum", Input: in + fmt.Sprintf("; Validate(json.New(\"doc\", %q))", p), Impl: "named " + valid(o.namedV[k]) + firstLine(o.namedV[k]) + ", inline " + valid(o.inlineV[k]) + firstLine(o.inlineV[k]), Model: "same Validate verdict for both spellings"})
					return false, false
				}
				if (o.inlineV[k] == nil) != want {
					rep.AddDiff(vh.Diff{Component: "C02-enum", Input: fmt.Sprintf("jschema.New(\"inline\", %q).Validate(json.New(\"doc\", %q))", ti, p), Impl: valid(o.inlineV[k]) + firstLine(o.inlineV[k]), Model: fmt.Sprintf("accepted iff an item has the same decoded text and the same kind: %v", want)})
					return false, false
				}
				if o.named2V != nil {
					d := "{\"a\": " + p + ", \"b\": " + probes[(k+1)%len(probes)] + "}"
					want2 := want && isMember(items, probes[(k+1)%len(probes)])
					if (o.named2V[k] == nil) != (o.inline2V[k] == nil) {
						rep.AddDiff(vh.Diff{Component: "C18-enum", Input: in + fmt.Sprintf("; Validate(json.New(\"doc\", %q))", d), Impl: "named2 " + valid(o.named2V[k]) + firstLine(o.named2V[k]) + ", inline2 " + valid(o.inline2V[k]) + firstLine(o.inline2V[k]), Model: "same Validate verdict for both spellings"})
						return false, false
					}
					if (o.inline2V[k] == nil) != want2 {
						rep.AddDiff(vh.Diff{Component: "C02-enum", Input: fmt.Sprintf("jschema.New(\"inline2\", %q).Validate(json.New(\"doc\", %q))", ti2, d), Impl: valid(o.inline2V[k]) + firstLine(o.inline2V[k]), Model: fmt.Sprintf("accepted iff both values are members by (decoded text, kind): %v", want2)})
						return false, false
					}
				}
			}
			return true, false
		}
		for rpt := 0; rpt < reps; rpt++ {
			clean, fatal := once(rpt)
			if fatal {
				return
			}
			if !clean {
				break
			}
		}
	}
}

// lookalike: the content of a string literal that could be taken for another JSON kind (or for nothing at all).
func lookalike(s string) bool {
	if s == "" || strings.TrimSpace(s) == "" || strings.ContainsAny(s, ".eE{[") {
		return true
	}
	if _, err := strconv.ParseFloat(s, 64); err == nil {
		return true
	}
	return s == "true" || s == "false" || s == "null" || s == "-0"
}

// runEnumTwins — component "C02-enum" (property C02, enum as type-sensitive membership): inline enum lists that
// hold TWIN items of equal decoded text and different kind (`"1"` and 1, `"null"` and null, `"true"` and true …)
// in both orders and at any place among filler items; probe documents of both kinds. Demanded: a document is
// accepted iff some item has the same decoded text AND the same kind.
func runEnumTwins(rep *vh.Report) {
	r := vh.NewRand(18003)
	n := vh.Pick(2000, 60000)
	lits := []struct{ raw, kind string }{{"1", "integer"}, {"0", "integer"}, {"-1", "integer"}, {"42", "integer"}, {"1.5", "float"}, {"0.0", "float"},
		{"-2.25", "float"}, {"true", "boolean"}, {"false", "boolean"}, {"null", "null"}}
	for i := 0; i < n; i++ {
		var items []item
		seen := map[string]bool{}
		add := func(it item) {
			if !seen[it.key()] {
				seen[it.key()] = true
				items = append(items, it)
			}
		}
		pairs := 1 + r.Intn(2)
		for k := 0; k < pairs; k++ {
			l := lits[r.Intn(len(lits))]
			lit := item{raw: l.raw, kind: l.kind, dec: l.raw}
			str := item{raw: encodeJSONString(r, l.raw, r.Intn(3) == 0), kind: "string", dec: l.raw}
			if r.Intn(2) == 0 {
				add(lit)
				add(str)
			} else {
				add(str)
				add(lit)
			}
		}
		for k := r.Intn(3); k > 0; k-- { // fillers at random places
			it := genItem(r)
			if !seen[it.key()] {
				seen[it.key()] = true
				at := r.Intn(len(items) + 1)
				items = append(items[:at:at], append([]item{it}, items[at:]...)...)
			}
		}
		if r.Intn(3) == 0 { // sometimes only the later or the earlier twin stays: membership must follow
			at := r.Intn(len(items))
			if len(items) > 1 {
				items = append(items[:at:at], items[at+1:]...)
			}
		}
		example := items[r.Intn(len(items))].raw
		schema := example + inlineAnnotation(r, items)
		var probes []string
		for _, it := range items {
			probes = append(probes, it.raw)
			if it.kind == "string" {
				probes = append(probes, encodeJSONString(r, it.dec, true))
				if stdjson.Valid([]byte(it.dec)) && !strings.HasPrefix(it.dec, "\"") && !strings.ContainsAny(it.dec, "[{ ") && it.dec != "" {
					probes = append(probes, it.dec) // the literal twin
				}
			} else {
				probes = append(probes, strconv.Quote(it.raw)) // the string twin
			}
		}
		for _, l := range lits {
			if r.Intn(4) == 0 {
				probes = append(probes, l.raw, strconv.Quote(l.raw))
			}
		}
		rep.Case("twins "+schema, true)
		rep.Stat(fmt.Sprintf("twins_items_%d", len(items)))
		var errs []error
		var checkErr error
		p := vh.Recover(func() string {
			s := jschema.New("inline", schema)
			if checkErr = s.Check(); checkErr != nil {
				return ""
			}
			for _, d := range probes {
				errs = append(errs, s.Validate(jdoc.New("doc", d)))
			}
			return ""
		})
		in := fmt.Sprintf("jschema.New(\"inline\", %q)", schema)
		if p != "" || checkErr != nil {
			rep.AddDiff(vh.Diff{Component: "C02-enum", Input: in + ".Check()", Impl: p + firstLine(checkErr), Model: "accepted: items are pairwise different by (decoded text, kind) and the example is a member"})
			continue
		}
		for k, d := range probes {
			want := isMember(items, d)
			if want {
				rep.Stat("twins_probe_member")
			} else {
				rep.Stat("twins_probe_nonmember")
			}
			if (errs[k] == nil) != want {
				rep.AddDiff(vh.Diff{Component: "C02-enum", Input: in + fmt.Sprintf(".Validate(json.New(\"doc\", %q))", d), Impl: valid(errs[k]) + firstLine(errs[k]), Model: fmt.Sprintf("accepted iff an item has the same decoded text and the same kind: %v", want)})
				break
			}
		}
	}
}
