package c18

import (
	"fmt"
	"math/rand"
	"regexp"
	"strings"
	"time"

	jdoc "github.com/jsightapi/jsight-schema-go-library/formats/json"
	"github.com/jsightapi/jsight-schema-go-library/notations/jschema"
	jregex "github.com/jsightapi/jsight-schema-go-library/notations/regex"

	"verifharness/vh"
)

// rx: a pattern fragment together with a sampler of strings it matches.
type rx struct {
	pat    string
	sample func(r *rand.Rand) string
	ops    int // number of operators used (for the non-triviality rule)
}

type atomDef struct {
	pat     string
	samples []string
	op      int
}

var atoms = []atomDef{
	{"a", []string{"a"}, 0}, {"b", []string{"b"}, 0}, {"xyz", []string{"xyz"}, 0}, {"0", []string{"0"}, 0}, {" ", []string{" "}, 0},
	{"é", []string{"é"}, 0}, {"-", []string{"-"}, 0}, {"_", []string{"_"}, 0}, {",", []string{","}, 0}, {":", []string{":"}, 0},
	{"@", []string{"@"}, 0}, {"#", []string{"#"}, 0}, {"'", []string{"'"}, 0}, {"=", []string{"="}, 0}, {"\"", []string{"\""}, 0},
	{`\/`, []string{"/"}, 1}, {`\"`, []string{"\""}, 1}, {`\\`, []string{`\`}, 1}, {`\.`, []string{"."}, 1}, {`\[`, []string{"["}, 1},
	{`\(`, []string{"("}, 1}, {`\|`, []string{"|"}, 1}, {`\*`, []string{"*"}, 1}, {`\{`, []string{"{"}, 1}, {`\$`, []string{"$"}, 1},
	{"[a-z]", []string{"a", "m", "z"}, 1}, {"[A-Z0-9]", []string{"A", "Q", "7"}, 1}, {"[abc]", []string{"a", "b", "c"}, 1},
	{"[^a-z]", []string{"A", "5", " ", "é", "/"}, 1}, {"[^\"]", []string{"a", "\\", "/"}, 1}, {`[\\\/"]`, []string{`\`, "/", `"`}, 1},
	{"[éè]", []string{"é", "è"}, 1}, {"[ -~]", []string{" ", "~", "a", "\"", "\\"}, 1}, {"[.]", []string{"."}, 1},
	{".", []string{"a", "Z", "é", "\"", "\\", "/", " "}, 1}, {`\d`, []string{"0", "5", "9"}, 1}, {`\w`, []string{"a", "_", "3", "Q"}, 1},
	{`\s`, []string{" ", "\t"}, 1}, {`\D`, []string{"a", " ", "é"}, 1}, {`\W`, []string{" ", "-", "\""}, 1}, {`\S`, []string{"a", "/", "é"}, 1},
}

func genRx(r *rand.Rand, depth int) rx {
	k := r.Intn(10)
	if depth <= 0 {
		k = 0
	}
	switch {
	case k <= 3: // atom
		a := atoms[r.Intn(len(atoms))]
		return rx{a.pat, func(r *rand.Rand) string { return a.samples[r.Intn(len(a.samples))] }, a.op}
	case k <= 5: // concatenation
		n := 2 + r.Intn(3)
		parts := make([]rx, n)
		var sb strings.Builder
		ops := 0
		for i := range parts {
			parts[i] = genRx(r, depth-1)
			p := parts[i].pat
			if parts[i].ops < 0 { // alternation at top of the part: needs a group
				p = "(?:" + p + ")"
			}
			sb.WriteString(p)
			ops += abs(parts[i].ops)
		}
		return rx{sb.String(), func(r *rand.Rand) string {
			var s strings.Builder
			for _, p := range parts {
				s.WriteString(p.sample(r))
			}
			return s.String()
		}, ops}
	case k == 6: // alternation (ops < 0 marks "top-level alternation")
		n := 2 + r.Intn(2)
		parts := make([]rx, n)
		var pats []string
		ops := 1
		for i := range parts {
			if r.Intn(6) == 0 {
				parts[i] = rx{"", func(*rand.Rand) string { return "" }, 0}
			} else {
				parts[i] = genRx(r, depth-1)
			}
			pats = append(pats, parts[i].pat)
			ops += abs(parts[i].ops)
		}
		return rx{strings.Join(pats, "|"), func(r *rand.Rand) string { return parts[r.Intn(len(parts))].sample(r) }, -ops}
	case k == 7: // group
		in := genRx(r, depth-1)
		open := []string{"(", "(", "(?:"}[r.Intn(3)]
		return rx{open + in.pat + ")", in.sample, abs(in.ops) + 1}
	default: // quantifier
		in := genRx(r, depth-1)
		p := in.pat
		if in.ops < 0 || len([]rune(p)) != 1 && !(strings.HasPrefix(p, "[") && strings.HasSuffix(p, "]") && strings.Count(p, "[") == 1) &&
			!(strings.HasPrefix(p, "(") && balancedGroup(p)) && !(len(p) == 2 && p[0] == '\\') {
			p = "(" + p + ")"
		}
		type q struct {
			s        string
			min, max int
		}
		qs := []q{{"?", 0, 1}, {"*", 0, 3}, {"+", 1, 3}, {"{2}", 2, 2}, {"{1,3}", 1, 3}, {"{0,2}", 0, 2}, {"{2,}", 2, 4}, {"??", 0, 1}, {"*?", 0, 3}, {"+?", 1, 3}}
		c := qs[r.Intn(len(qs))]
		return rx{p + c.s, func(r *rand.Rand) string {
			n := c.min + r.Intn(c.max-c.min+1)
			var s strings.Builder
			for i := 0; i < n; i++ {
				s.WriteString(in.sample(r))
			}
			return s.String()
		}, abs(in.ops) + 1}
	}
}

func abs(x int) int {
	if x < 0 {
		return -x
	}
	return x
}

// balancedGroup: p is one parenthesised group (the first "(" closes at the last byte).
func balancedGroup(p string) bool {
	depth := 0
	for i := 0; i < len(p); i++ {
		switch p[i] {
		case '\\':
			i++
		case '[':
			for i++; i < len(p) && p[i] != ']'; i++ {
				if p[i] == '\\' {
					i++
				}
			}
		case '(':
			depth++
		case ')':
			depth--
			if depth == 0 && i != len(p)-1 {
				return false
			}
		}
	}
	return depth == 0
}

func mutate(r *rand.Rand, s string) string {
	rs := []rune(s)
	alphabet := []rune("ab0 Zé\"\\/.-_x")
	switch r.Intn(4) {
	case 0:
		if len(rs) > 0 {
			i := r.Intn(len(rs))
			rs = append(rs[:i:i], rs[i+1:]...)
		}
	case 1:
		i := r.Intn(len(rs) + 1)
		rs = append(rs[:i:i], append([]rune{alphabet[r.Intn(len(alphabet))]}, rs[i:]...)...)
	case 2:
		if len(rs) > 0 {
			rs[r.Intn(len(rs))] = alphabet[r.Intn(len(alphabet))]
		}
	case 3:
		rs = append(rs, rs...)
	}
	return string(rs)
}

type regexOutcome struct {
	pattern  string
	patErr   error
	length   uint
	lenErr   error
	example  []byte
	exErr    error
	setupErr [3]error // AddType/Check of: type rule, shortcut, inline
	verdicts [3][]error
	panicked string
}

func runRegexCase(typeText, exampleJSON, patJSON string, probes []string) (regexOutcome, bool) {
	ch := make(chan regexOutcome, 1)
	go func() {
		var o regexOutcome
		o.panicked = vh.Recover(func() string {
			rt := jregex.New("@T", typeText)
			o.pattern, o.patErr = rt.Pattern()
			o.length, o.lenErr = rt.Len()
			o.example, o.exErr = rt.Example()
			var ss [3]*jschema.Schema
			ss[0] = jschema.New("byTypeRule", exampleJSON+` // {type: "@T"}`)
			ss[1] = jschema.New("byShortcut", "@T")
			ss[2] = jschema.New("inline", exampleJSON+` // {regex: `+patJSON+`}`)
			for k := 0; k < 2; k++ {
				o.setupErr[k] = ss[k].AddType("@T", jregex.New("@T", typeText))
			}
			for k := 0; k < 3; k++ {
				if o.setupErr[k] == nil {
					o.setupErr[k] = ss[k].Check()
				}
				if o.setupErr[k] != nil {
					return ""
				}
			}
			for _, p := range probes {
				for k := 0; k < 3; k++ {
					o.verdicts[k] = append(o.verdicts[k], ss[k].Validate(jdoc.New("doc", p)))
				}
			}
			return ""
		})
		ch <- o
	}()
	select {
	case o := <-ch:
		return o, false
	case <-time.After(20 * time.Second):
		return regexOutcome{}, true
	}
}

var fixedProbes = []string{"", "x", "a", "\"", "\\", "/", "é", "a\nb", "  ", "aaaaaaaaaaaaaaaaaaaaaaaa", "A1-b_2", "\t"}
var trailing = []string{"", "", " ", " some note", " - a / b", "  // comment", " /x/", "\t\"q\"", " \\", " é", "x"}

func runRegex(rep *vh.Report) {
	r := vh.NewRand(18002)
	n := vh.Pick(5000, 150000)
	names := [3]string{"type rule", "shortcut", "inline regex"}
	for i := 0; i < n; i++ {
		g := genRx(r, 2+r.Intn(4))
		P := g.pat
		anch := ""
		switch r.Intn(6) {
		case 0:
			if g.ops < 0 {
				P = "(" + P + ")"
			}
			P, anch = "^"+P+"$", "both"
		case 1:
			if g.ops < 0 {
				P = "(" + P + ")"
			}
			P, anch = "^"+P, "start"
		}
		if P == "" {
			continue
		}
		re, err := regexp.Compile(P)
		if err != nil {
			rep.Stat("regex_gen_invalid") // generator slip, not a library matter
			continue
		}
		// an example for the root schema: a sample that matches
		example, ok := "", false
		for try := 0; try < 10 && !ok; try++ {
			example = g.sample(r)
			ok = re.MatchString(example)
		}
		if !ok {
			rep.Stat("regex_gen_no_sample")
			continue
		}
		typeText := "/" + P + "/" + trailing[r.Intn(len(trailing))]
		patJSON := encodeJSONString(r, P, r.Intn(3) == 0)
		// probes
		dec := []string{g.sample(r), g.sample(r), g.sample(r), mutate(r, g.sample(r)), mutate(r, g.sample(r)), mutate(r, mutate(r, g.sample(r))), "zz" + g.sample(r), g.sample(r) + "\n"}
		perm := r.Perm(len(fixedProbes))
		for _, k := range perm[:4] {
			dec = append(dec, fixedProbes[k])
		}
		probes := make([]string, len(dec))
		for k, d := range dec {
			probes[k] = encodeJSONString(r, d, true)
		}
		in := fmt.Sprintf("T = regex.New(\"@T\", %q); byTypeRule = jschema.New(\"byTypeRule\", %q) + AddType(\"@T\", T); byShortcut = jschema.New(\"byShortcut\", \"@T\") + AddType(\"@T\", T); inline = jschema.New(\"inline\", %q)",
			typeText, encodeJSONString(r, example, false)+` // {type: "@T"}`, encodeJSONString(r, example, false)+` // {regex: `+patJSON+`}`)
		rep.Case("regex "+typeText, abs(g.ops) > 0)
		rep.Stat("regex_anchor_" + anch)
		if strings.Contains(P, `\/`) {
			rep.Stat("regex_with_escaped_slash")
		}
		if strings.Contains(P, `"`) {
			rep.Stat("regex_with_quote")
		}
		if strings.Contains(P, `\\`) {
			rep.Stat("regex_with_escaped_backslash")
		}
		o, to := runRegexCase(typeText, encodeJSONString(r, example, false), patJSON, probes)
		if to {
			rep.AddDiff(vh.Diff{Component: "C18-regex", Input: in, Impl: "TIMEOUT", Model: "terminates"})
			return
		}
		if o.panicked != "" {
			rep.AddDiff(vh.Diff{Component: "C18-regex", Input: in, Impl: o.panicked, Model: "no panic"})
			continue
		}
		if o.patErr != nil || o.pattern != P {
			rep.AddDiff(vh.Diff{Component: "C18-regex", Input: in, Impl: fmt.Sprintf("Pattern() = %q, %v", o.pattern, o.patErr), Model: fmt.Sprintf("Pattern() = %q", P)})
			continue
		}
		if o.lenErr != nil || int(o.length) != len(P)+2 {
			rep.AddDiff(vh.Diff{Component: "C18-regex", Input: in, Impl: fmt.Sprintf("Len() = %d, %v", o.length, o.lenErr), Model: fmt.Sprintf("Len() = %d (the /P/ token only)", len(P)+2)})
			continue
		}
		if o.exErr != nil || !re.Match(o.example) {
			rep.AddDiff(vh.Diff{Component: "C18-regex", Input: in, Impl: fmt.Sprintf("Example() = %q, %v", o.example, o.exErr), Model: "Example() matches " + P})
			continue
		}
		bad := false
		for k := 0; k < 3; k++ {
			if o.setupErr[k] != nil {
				rep.AddDiff(vh.Diff{Component: "C18-regex", Input: in, Impl: "spelling '" + names[k] + "' rejected: " + o.setupErr[k].Error(), Model: "all three spellings compile (the example matches P)"})
				bad = true
				break
			}
		}
		if bad {
			continue
		}
		for j, p := range probes {
			want := re.MatchString(dec[j])
			if want {
				rep.Stat("regex_probe_match")
			} else {
				rep.Stat("regex_probe_nomatch")
			}
			for k := 0; k < 3; k++ {
				if (o.verdicts[k][j] == nil) != want {
					rep.AddDiff(vh.Diff{Component: "C18-regex", Input: in + fmt.Sprintf("; Validate(json.New(\"doc\", %q))", p),
						Impl:  fmt.Sprintf("type rule %s, shortcut %s, inline %s", valid(o.verdicts[0][j]), valid(o.verdicts[1][j]), valid(o.verdicts[2][j])),
						Model: fmt.Sprintf("all spellings: %v (regexp.MatchString(%q, %q))", map[bool]string{true: "accepted", false: "rejected"}[want], P, dec[j])})
					bad = true
					break
				}
			}
			if bad {
				break
			}
		}
	}
}
