package c18

import (
	stdjson "encoding/json"
	"fmt"
	"math/rand"
	"reflect"
	"regexp"
	"strings"
	"time"

	jdoc "github.com/jsightapi/jsight-schema-go-library/formats/json"
	"github.com/jsightapi/jsight-schema-go-library/notations/jschema"
	jregex "github.com/jsightapi/jsight-schema-go-library/notations/regex"
	"github.com/jsightapi/jsight-schema-go-library/rules/enum"

	"verifharness/vh"
)

// Stream "multi" (components C18-regex / C18-enum, file multi.go): the property speaks about EVERY schema that uses a
// named regex type / enum rule, whatever else the program did with the library before the schema is used. A case is a
// small PROGRAM:
//
//   - 2-4 regex types (pairwise different patterns of different lengths, /P/ + trailing text) and 0-3 enum rules
//     (no duplicates, random layout and comments); one case in four is about enum rules (2-3 rules, 80 % enum uses);
//   - 1-3 root schemas: a scalar, an object with 2-4 properties or an array with 2-3 items; every value is a USE of a
//     named object: `@A` (shortcut), `"ex" // {type: "@A"}`, `@A | @B`, `ex // {enum: @E}`; one root normally
//     uses several types / rules, the same type or rule may be used twice, and several roots use the same ones;
//   - the regex.Schema / enum.Enum objects are shared by all roots (sometimes a fresh object per AddType);
//   - the calls New, AddRule…, AddType…, <first use> of the roots are interleaved at random, and HISTORY calls are
//     put in between (in particular between the AddType calls and the first use of a root): another schema with its
//     own regex type built / checked / Example()d / validated; Example() of a literal schema; Len / Pattern /
//     Example / GetAST of the shared regex objects; Check / Values / GetAST of the shared rule objects; a further
//     schema that references a shared type or rule, checked and Example()d;
//   - the first use of a root is any of Check, Validate, Example, GetAST (random order of the four).
//
// Demanded for every root (H = the root with its history, F = the same root built from fresh objects and used
// straight away, I = the root with every use written inline: `{regex: "P"}`, `{enum: […]}`,
// `{or: [{type: "string", regex: …}, …]}`):
//
//	Check:    H, F, I accept iff every example literal is admissible (matches P / is a member); error text H == F
//	Validate: for ~8 documents H, F, I give the same verdict, equal to the oracle for scalars and objects
//	          (regexp.MatchString on the decoded string / membership by (decoded text, kind); arrays: agreement of
//	          the spellings only); error text H == F
//	Example:  H == F byte for byte; decoded as JSON equal to the Example of I (the inline spelling of a shortcut use
//	          carries the Example() of the regex object as its literal); every string produced for a regex use matches P
//	GetAST:   H == F (JSON rendering)
//	history:  every history call gives what the property says (Len = len("/P/"), Pattern = P, Example matches P and
//	          does not change, Values / GetAST list the literals, the side schemas compile and accept their samples).
//
// nontrivial = some root uses two or more named objects, or a call lies between a root's last AddRule / AddType and
// its first use.

type mType struct {
	name     string
	typeText string
	P        string
	patJSON  string
	re       *regexp.Regexp
	g        rx
	ex       string // Example() of a fresh regex object
}

type mRule struct {
	name   string
	text   string
	items  []item
	inline string // whole inline annotation
	values string // expected rendering of Values()
	ast    string // expected rendering of GetAST()
}

const (
	uShortcut = iota
	uTypeRule
	uOr
	uEnum
)

type mUse struct {
	kind  int
	t, t2 *mType
	e     *mRule
	exRaw string // example literal (JSON text) of both spellings; for shortcuts: of the inline spelling only
	exOK  bool
}

type mProbe struct {
	raw   string
	isStr bool
	dec   string
}

func strProbe(r *rand.Rand, s string) mProbe {
	return mProbe{raw: encodeJSONString(r, s, true), isStr: true, dec: s}
}

func (u mUse) typed() (value, annot string) {
	switch u.kind {
	case uShortcut:
		return u.t.name, ""
	case uTypeRule:
		return u.exRaw, ` // {type: "` + u.t.name + `"}`
	case uOr:
		return u.t.name + " | " + u.t2.name, ""
	}
	return u.exRaw, " // {enum: " + u.e.name + "}"
}

func (u mUse) inline() (value, annot string) {
	switch u.kind {
	case uShortcut, uTypeRule:
		return u.exRaw, " // {regex: " + u.t.patJSON + "}"
	case uOr:
		return u.exRaw, ` // {or: [{type: "string", regex: ` + u.t.patJSON + `}, {type: "string", regex: ` + u.t2.patJSON + `}]}`
	}
	return u.exRaw, u.e.inline
}

func (u mUse) accepts(p mProbe) bool {
	switch u.kind {
	case uShortcut, uTypeRule:
		return p.isStr && u.t.re.MatchString(p.dec)
	case uOr:
		return p.isStr && (u.t.re.MatchString(p.dec) || u.t2.re.MatchString(p.dec))
	}
	return isMember(u.e.items, p.raw)
}

func (u mUse) probes(r *rand.Rand, all []*mType, good bool) mProbe {
	if u.kind == uEnum {
		if good {
			return mProbe{raw: u.e.items[r.Intn(len(u.e.items))].raw}
		}
		switch r.Intn(3) {
		case 0:
			it := genItem(r)
			return mProbe{raw: it.raw}
		case 1:
			return mProbe{raw: []string{`"zzz"`, `0`, `null`, `true`, `""`, `1.5`}[r.Intn(6)]}
		}
		it := u.e.items[r.Intn(len(u.e.items))]
		if it.kind == "string" {
			return mProbe{raw: encodeJSONString(r, it.dec+"x", false)}
		}
		return mProbe{raw: `"` + it.raw + `"`}
	}
	t := u.t
	if u.kind == uOr && r.Intn(2) == 0 {
		t = u.t2
	}
	if good {
		return strProbe(r, t.g.sample(r))
	}
	switch r.Intn(5) {
	case 0:
		return strProbe(r, mutate(r, t.g.sample(r)))
	case 1:
		return strProbe(r, all[r.Intn(len(all))].g.sample(r)) // a sample of another type of the case
	case 2:
		return strProbe(r, fixedProbes[r.Intn(len(fixedProbes))])
	case 3:
		return mProbe{raw: []string{"7", "null", "true", "[]", "{}"}[r.Intn(5)]}
	}
	return strProbe(r, "zz"+t.g.sample(r)+"\n")
}

type mRoot struct {
	name       string
	shape      int // 0 scalar, 1 object, 2 array
	uses       []mUse
	typedText  string
	inlineText string
	types      []*mType
	rules      []*mRule
	freshObj   []bool // per type: AddType gets a fresh regex object instead of the shared one
	docs       []string
	want       []int // 1 accepted, 0 rejected, -1 no oracle
	checkOK    bool
	order      []int // order of Check / Validate / Example / GetAST at the first use
}

var mKeys = []string{"a", "b", "c", "d"}

func (rt *mRoot) build(inline bool) string {
	field := func(u mUse) (string, string) {
		if inline {
			return u.inline()
		}
		return u.typed()
	}
	switch rt.shape {
	case 0:
		v, a := field(rt.uses[0])
		return v + a
	case 1:
		var sb strings.Builder
		sb.WriteString("{\n")
		for i, u := range rt.uses {
			v, a := field(u)
			sb.WriteString("  \"" + mKeys[i] + "\": " + v)
			if i < len(rt.uses)-1 {
				sb.WriteString(",")
			}
			sb.WriteString(a + "\n")
		}
		sb.WriteString("}")
		return sb.String()
	}
	var sb strings.Builder
	sb.WriteString("[\n")
	for i, u := range rt.uses {
		v, a := field(u)
		sb.WriteString("  " + v)
		if i < len(rt.uses)-1 {
			sb.WriteString(",")
		}
		sb.WriteString(a + "\n")
	}
	sb.WriteString("]")
	return sb.String()
}

func (rt *mRoot) makeDocs(r *rand.Rand, all []*mType) {
	n := 6 + r.Intn(4)
	for d := 0; d < n; d++ {
		mode := r.Intn(5) // 0,1: all good; 2,3: one bad; 4: random
		bad := r.Intn(len(rt.uses))
		var parts []string
		ok := true
		for i, u := range rt.uses {
			good := mode <= 1 || (mode <= 3 && i != bad) || (mode == 4 && r.Intn(2) == 0)
			p := u.probes(r, all, good)
			ok = ok && u.accepts(p)
			parts = append(parts, p.raw)
		}
		want := 0
		if ok {
			want = 1
		}
		switch rt.shape {
		case 0:
			rt.docs = append(rt.docs, parts[0])
		case 1:
			drop := -1
			if len(parts) > 1 && r.Intn(12) == 0 {
				drop, want = r.Intn(len(parts)), 0 // a required key is missing
			}
			var kv []string
			for i, p := range parts {
				if i != drop {
					kv = append(kv, "\""+mKeys[i]+"\": "+p)
				}
			}
			rt.docs = append(rt.docs, "{"+strings.Join(kv, ", ")+"}")
		default:
			rt.docs = append(rt.docs, "["+strings.Join(parts, ", ")+"]")
			want = -1
		}
		rt.want = append(rt.want, want)
	}
}

type mObs struct {
	done     bool
	check    string
	val      []string
	example  string
	exErr    string
	ast      string
	firstUse string
}

func errText(err error) string {
	if err == nil {
		return ""
	}
	if s := err.Error(); s != "" {
		return s
	}
	return "error with an empty text"
}

func observe(s *jschema.Schema, rt *mRoot) mObs {
	o := mObs{done: true, val: make([]string, len(rt.docs))}
	for k, what := range rt.order {
		switch what {
		case 0:
			o.check = errText(s.Check())
		case 1:
			for i, d := range rt.docs {
				o.val[i] = errText(s.Validate(jdoc.New("doc", d)))
			}
		case 2:
			b, err := s.Example()
			o.example, o.exErr = string(b), errText(err)
		case 3:
			a, err := s.GetAST()
			if err != nil {
				o.ast = errText(err)
			} else if b, err := stdjson.Marshal(a); err != nil {
				o.ast = "MARSHAL " + err.Error()
			} else {
				o.ast = string(b)
			}
		}
		if k == 0 {
			o.firstUse = []string{"Check", "Validate", "Example", "GetAST"}[what]
		}
	}
	return o
}

// mEnv: the objects of one running case.
type mEnv struct {
	regexObj map[string]*jregex.Schema
	ruleObj  map[string]*enum.Enum
	schema   map[string]*jschema.Schema
	obs      map[string]mObs
	fail     []mFail
}

type mFail struct {
	comp, at, impl, model string
}

type mOp struct {
	text string
	run  func(e *mEnv)
}

// pOp: a step of the program. owner: index of the root it belongs to, -1 for a history call, -2 for the creation
// of a shared object (def = its name); ref = the shared object a history call works on.
type pOp struct {
	mOp
	owner int
	ref   string
	def   string
}

func newType(r *rand.Rand, name string, rep *vh.Report) *mType {
	for try := 0; try < 50; try++ {
		g := genRx(r, 1+r.Intn(5))
		P := g.pat
		switch r.Intn(6) {
		case 0:
			if g.ops < 0 {
				P = "(" + P + ")"
			}
			P = "^" + P + "$"
		case 1:
			if g.ops < 0 {
				P = "(" + P + ")"
			}
			P = "^" + P
		}
		if P == "" {
			continue
		}
		re, err := regexp.Compile(P)
		if err != nil {
			continue
		}
		ok := false
		for k := 0; k < 10 && !ok; k++ {
			ok = re.MatchString(g.sample(r))
		}
		if !ok {
			continue
		}
		t := &mType{name: name, P: P, re: re, g: g}
		t.typeText = "/" + P + "/" + trailing[r.Intn(len(trailing))]
		t.patJSON = encodeJSONString(r, P, r.Intn(3) == 0)
		var ex []byte
		var exErr error
		pn := vh.Recover(func() string {
			ex, exErr = jregex.New(name, t.typeText).Example()
			return ""
		})
		if pn != "" || exErr != nil || !re.Match(ex) {
			rep.AddDiff(vh.Diff{Component: "C18-regex", Input: fmt.Sprintf("regex.New(%q, %q).Example()", name, t.typeText),
				Impl: fmt.Sprintf("%q, %v %s", ex, exErr, pn), Model: "Example() matches " + P})
			return nil
		}
		t.ex = string(ex)
		return t
	}
	return nil
}

func newRule(r *rand.Rand, name string) *mRule {
	cnt := 1 + r.Intn(4)
	var items []item
	seen := map[string]bool{}
	for len(items) < cnt {
		it := genItem(r)
		if seen[it.key()] {
			continue
		}
		seen[it.key()] = true
		items = append(items, it)
	}
	e := &mRule{name: name, items: items}
	e.text, _ = namedText(r, items)
	e.inline = inlineAnnotation(r, items)
	var wv, wa []string
	for _, it := range items {
		wv = append(wv, it.kind+":"+it.raw)
		wa = append(wa, tokenOf(it.kind)+"/"+it.kind+":"+it.raw)
	}
	e.values = strings.Join(wv, " | ")
	e.ast = "array/enum[" + strings.Join(wa, " | ") + "]"
	return e
}

// checkRegexObj: the observables of a regex object named in the property.
func checkRegexObj(e *mEnv, at string, t *mType, o *jregex.Schema, what int) {
	switch what {
	case 0:
		l, err := o.Len()
		if err != nil || int(l) != len(t.P)+2 {
			e.fail = append(e.fail, mFail{"C18-regex", at, fmt.Sprintf("Len() = %d, %v", l, err), fmt.Sprintf("Len() = %d (the /P/ token)", len(t.P)+2)})
		}
	case 1:
		p, err := o.Pattern()
		if err != nil || p != t.P {
			e.fail = append(e.fail, mFail{"C18-regex", at, fmt.Sprintf("Pattern() = %q, %v", p, err), fmt.Sprintf("Pattern() = %q", t.P)})
		}
	case 2:
		x, err := o.Example()
		if err != nil || string(x) != t.ex {
			e.fail = append(e.fail, mFail{"C18-regex", at, fmt.Sprintf("Example() = %q, %v", x, err), fmt.Sprintf("Example() = %q as on a fresh object (matches %s)", t.ex, t.P)})
		}
	case 3:
		a, err := o.GetAST()
		if err != nil || a.Value != "/"+t.P+"/" {
			e.fail = append(e.fail, mFail{"C18-regex", at, fmt.Sprintf("GetAST().Value = %q, %v", a.Value, err), fmt.Sprintf("GetAST().Value = %q", "/"+t.P+"/")})
		}
	}
}

var regexObjCalls = []string{"Len()", "Pattern()", "Example()", "GetAST()"}

func checkRuleObj(e *mEnv, at string, ru *mRule, o *enum.Enum, what int) {
	if what == 0 {
		if err := o.Check(); err != nil {
			e.fail = append(e.fail, mFail{"C18-enum", at, "Check() rejected" + firstLine(err), "accepted: no duplicates"})
		}
		return
	}
	v, a := readRule(o)
	if what == 1 && v != ru.values {
		e.fail = append(e.fail, mFail{"C18-enum", at, "Values() = " + v, "Values() literals = " + ru.values})
	}
	if what == 2 && a != ru.ast {
		e.fail = append(e.fail, mFail{"C18-enum", at, "GetAST() = " + a, "GetAST() = " + ru.ast})
	}
}

var ruleObjCalls = []string{"Check()", "Values()", "GetAST()"}

// decodeJSON: generic JSON value of an Example; ok = false when it is not JSON (nothing to compare then).
func decodeJSON(s string) (v interface{}, ok bool) {
	return v, stdjson.Unmarshal([]byte(s), &v) == nil
}

// exampleLeaves: the values an Example holds for the uses of a root, in order.
func exampleLeaves(rt *mRoot, v interface{}) ([]interface{}, bool) {
	switch rt.shape {
	case 0:
		return []interface{}{v}, true
	case 1:
		m, ok := v.(map[string]interface{})
		if !ok || len(m) != len(rt.uses) {
			return nil, false
		}
		var out []interface{}
		for i := range rt.uses {
			x, ok := m[mKeys[i]]
			if !ok {
				return nil, false
			}
			out = append(out, x)
		}
		return out, true
	}
	a, ok := v.([]interface{})
	return a, ok && len(a) == len(rt.uses)
}

func runMulti(rep *vh.Report) {
	r := vh.NewRand(18004)
	n := vh.Pick(2200, 50000)
	for i := 0; i < n; i++ {
		if !multiCase(rep, r) {
			return
		}
	}
}

func multiCase(rep *vh.Report, r *rand.Rand) (goOn bool) {
	// ---- the named objects
	nT := 2 + r.Intn(3)
	var types []*mType
	seenP := map[string]bool{}
	for len(types) < nT {
		t := newType(r, "@"+string(rune('A'+len(types))), rep)
		if t == nil {
			return true
		}
		if seenP[t.P] {
			continue
		}
		seenP[t.P] = true
		types = append(types, t)
	}
	nE := r.Intn(4)
	pEnum := 33         // per cent of the uses that are enum uses (when the case has rules)
	if r.Intn(4) == 0 { // a case about enum rules: several rules per schema, most uses are enum uses
		nE, pEnum = 2+r.Intn(2), 80
	}
	var rules []*mRule
	for k := 0; k < nE; k++ {
		rules = append(rules, newRule(r, "@E"+string(rune('1'+k))))
	}
	// ---- the roots
	nR := 1 + r.Intn(3)
	var roots []*mRoot
	for k := 0; k < nR; k++ {
		rt := &mRoot{name: fmt.Sprintf("r%d", k+1), shape: []int{0, 1, 1, 1, 1, 2}[r.Intn(6)], checkOK: true, order: r.Perm(4)}
		nU := 1
		switch rt.shape {
		case 1:
			nU = 2 + r.Intn(3)
		case 2:
			nU = 2 + r.Intn(2)
		}
		for len(rt.uses) < nU {
			var u mUse
			if len(rules) > 0 && r.Intn(100) < pEnum {
				u = mUse{kind: uEnum, e: rules[r.Intn(len(rules))], exOK: true}
				u.exRaw = u.e.items[r.Intn(len(u.e.items))].raw
				if r.Intn(12) == 0 {
					u.exRaw, u.exOK = `"no such value"`, isMember(u.e.items, `"no such value"`)
				}
			} else {
				u = mUse{kind: []int{uShortcut, uShortcut, uTypeRule, uTypeRule, uOr}[r.Intn(5)], t: types[r.Intn(len(types))], exOK: true}
				switch u.kind {
				case uShortcut:
					u.exRaw = encodeJSONString(r, u.t.ex, false)
				case uOr:
					u.t2 = types[r.Intn(len(types))]
					if u.t2 == u.t {
						u.kind = uShortcut
					}
					u.exRaw = encodeJSONString(r, u.t.ex, false)
				case uTypeRule:
					s := u.t.g.sample(r)
					if r.Intn(12) == 0 {
						s = mutate(r, s)
					}
					u.exRaw, u.exOK = encodeJSONString(r, s, false), u.t.re.MatchString(s)
				}
			}
			rt.uses = append(rt.uses, u)
			rt.checkOK = rt.checkOK && u.exOK
			add := func(t *mType) {
				for _, x := range rt.types {
					if x == t {
						return
					}
				}
				rt.types = append(rt.types, t)
				rt.freshObj = append(rt.freshObj, r.Intn(4) == 0)
			}
			if u.t != nil {
				add(u.t)
			}
			if u.t2 != nil {
				add(u.t2)
			}
			if u.e != nil {
				dup := false
				for _, x := range rt.rules {
					dup = dup || x == u.e
				}
				if !dup {
					rt.rules = append(rt.rules, u.e)
				}
			}
		}
		r.Shuffle(len(rt.types), func(a, b int) {
			rt.types[a], rt.types[b] = rt.types[b], rt.types[a]
			rt.freshObj[a], rt.freshObj[b] = rt.freshObj[b], rt.freshObj[a]
		})
		rt.typedText, rt.inlineText = rt.build(false), rt.build(true)
		rt.makeDocs(r, types)
		roots = append(roots, rt)
	}

	// ---- the program
	var prog []pOp
	for _, t := range types {
		t := t
		prog = append(prog, pOp{mOp: mOp{fmt.Sprintf("%s := regex.New(%q, %q)", t.name[1:], t.name, t.typeText), func(e *mEnv) { e.regexObj[t.name] = jregex.New(t.name, t.typeText) }}, owner: -2, def: t.name})
	}
	for _, ru := range rules {
		ru := ru
		prog = append(prog, pOp{mOp: mOp{fmt.Sprintf("%s := enum.New(%q, %q)", ru.name[1:], ru.name, ru.text), func(e *mEnv) { e.ruleObj[ru.name] = enum.New(ru.name, ru.text) }}, owner: -2, def: ru.name})
	}
	// per-root sequences: New, AddRule…, AddType…, first use
	seqs := make([][]mOp, len(roots))
	gapStart := make([]int, len(roots)) // index in the root's sequence of its last set-up op
	for k, rt := range roots {
		rt := rt
		seqs[k] = append(seqs[k], mOp{fmt.Sprintf("%s := jschema.New(%q, %q)", rt.name, rt.name, rt.typedText), func(e *mEnv) { e.schema[rt.name] = jschema.New(rt.name, rt.typedText) }})
		for _, ru := range rt.rules {
			ru := ru
			at := fmt.Sprintf("%s.AddRule(%q, %s)", rt.name, ru.name, ru.name[1:])
			seqs[k] = append(seqs[k], mOp{at, func(e *mEnv) {
				if err := e.schema[rt.name].AddRule(ru.name, e.ruleObj[ru.name]); err != nil {
					e.fail = append(e.fail, mFail{"C18-enum", at, "ERROR " + err.Error(), "the rule is added (no duplicates)"})
				}
			}})
		}
		for j, t := range rt.types {
			t, fresh := t, rt.freshObj[j]
			at := fmt.Sprintf("%s.AddType(%q, %s)", rt.name, t.name, t.name[1:])
			if fresh {
				at = fmt.Sprintf("%s.AddType(%q, regex.New(%q, %q))", rt.name, t.name, t.name, t.typeText)
			}
			seqs[k] = append(seqs[k], mOp{at, func(e *mEnv) {
				o := e.regexObj[t.name]
				if fresh {
					o = jregex.New(t.name, t.typeText)
				}
				if err := e.schema[rt.name].AddType(t.name, o); err != nil {
					e.fail = append(e.fail, mFail{"C18-regex", at, "ERROR " + err.Error(), "the type is added"})
				}
			}})
		}
		gapStart[k] = len(seqs[k]) - 1
		calls := []string{"Check()", "Validate(<docs>)", "Example()", "GetAST()"}
		var ord []string
		for _, w := range rt.order {
			ord = append(ord, calls[w])
		}
		seqs[k] = append(seqs[k], mOp{fmt.Sprintf("use %s: %s", rt.name, strings.Join(ord, ", ")), func(e *mEnv) { e.obs[rt.name] = observe(e.schema[rt.name], rt) }})
	}
	// history calls
	side := 0
	href := "" // the shared object the last generated history call works on
	history := func() mOp {
		href = ""
		switch r.Intn(9) {
		case 0, 1, 2: // another schema with its own regex type
			side++
			t := newType(r, "@Z", rep)
			if t == nil {
				return mOp{}
			}
			nm := fmt.Sprintf("o%d", side)
			text := []string{"@Z", `{"z": @Z}`, `[@Z]`}[r.Intn(3)]
			doc := encodeJSONString(r, t.g.sample(r), false)
			calls := r.Intn(8) // bit 0: Check, bit 1: Example, bit 2: Validate
			if text != "@Z" {
				calls &^= 4
			}
			at := fmt.Sprintf("%s := jschema.New(%q, %q); %s.AddType(\"@Z\", regex.New(\"@Z\", %q))", nm, nm, text, nm, t.typeText)
			if calls&1 != 0 {
				at += "; " + nm + ".Check()"
			}
			if calls&2 != 0 {
				at += "; " + nm + ".Example()"
			}
			if calls&4 != 0 {
				at += fmt.Sprintf("; %s.Validate(json.New(\"doc\", %q))", nm, doc)
			}
			var dec string
			_ = stdjson.Unmarshal([]byte(doc), &dec)
			wantDoc := t.re.MatchString(dec)
			return mOp{at, func(e *mEnv) {
				s := jschema.New(nm, text)
				if err := s.AddType("@Z", jregex.New("@Z", t.typeText)); err != nil {
					e.fail = append(e.fail, mFail{"C18-regex", at, "AddType: ERROR " + err.Error(), "the type is added"})
					return
				}
				if calls&1 != 0 {
					if err := s.Check(); err != nil {
						e.fail = append(e.fail, mFail{"C18-regex", at, "Check: ERROR " + err.Error(), "accepted (the example of the type matches its pattern)"})
					}
				}
				if calls&2 != 0 {
					b, err := s.Example()
					if err != nil {
						e.fail = append(e.fail, mFail{"C18-regex", at, "Example: ERROR " + err.Error(), "an example whose string matches " + t.P})
					} else if v, ok := decodeJSON(string(b)); ok {
						var leaf interface{} = v
						if m, isM := v.(map[string]interface{}); isM {
							leaf = m["z"]
						} else if a, isA := v.([]interface{}); isA && len(a) == 1 {
							leaf = a[0]
						}
						if sv, isS := leaf.(string); !isS || !t.re.MatchString(sv) {
							e.fail = append(e.fail, mFail{"C18-regex", at, "Example() = " + string(b), "an example whose string matches " + t.P})
						}
					}
				}
				if calls&4 != 0 {
					if err := s.Validate(jdoc.New("doc", doc)); (err == nil) != wantDoc {
						e.fail = append(e.fail, mFail{"C18-regex", at, "Validate: " + valid(err) + firstLine(err), fmt.Sprintf("%v (regexp.MatchString(%q, %q))", wantDoc, t.P, dec)})
					}
				}
			}}
		case 3: // Example() of a literal schema
			rt := roots[r.Intn(len(roots))]
			at := fmt.Sprintf("jschema.New(\"lit\", %q).Example()", rt.inlineText)
			return mOp{at, func(e *mEnv) { _, _ = jschema.New("lit", rt.inlineText).Example() }}
		case 4, 5: // observables of a shared regex object
			t := types[r.Intn(len(types))]
			w := r.Intn(4)
			at := t.name[1:] + "." + regexObjCalls[w]
			href = t.name
			return mOp{at, func(e *mEnv) { checkRegexObj(e, at, t, e.regexObj[t.name], w) }}
		case 6: // observables of a shared rule object
			if len(rules) == 0 {
				return mOp{}
			}
			ru := rules[r.Intn(len(rules))]
			w := r.Intn(3)
			at := ru.name[1:] + "." + ruleObjCalls[w]
			href = ru.name
			return mOp{at, func(e *mEnv) { checkRuleObj(e, at, ru, e.ruleObj[ru.name], w) }}
		case 7: // a further schema that references a shared type
			side++
			t := types[r.Intn(len(types))]
			nm := fmt.Sprintf("x%d", side)
			text := `{"z": ` + t.name + `}`
			href = t.name
			withCheck := r.Intn(2) == 0
			at := fmt.Sprintf("%s := jschema.New(%q, %q); %s.AddType(%q, %s)", nm, nm, text, nm, t.name, t.name[1:])
			if withCheck {
				at += "; " + nm + ".Check()"
			}
			at += "; " + nm + ".Example()"
			return mOp{at, func(e *mEnv) {
				s := jschema.New(nm, text)
				if err := s.AddType(t.name, e.regexObj[t.name]); err != nil {
					e.fail = append(e.fail, mFail{"C18-regex", at, "AddType: ERROR " + err.Error(), "the type is added"})
					return
				}
				if withCheck {
					if err := s.Check(); err != nil {
						e.fail = append(e.fail, mFail{"C18-regex", at, "Check: ERROR " + err.Error(), "accepted"})
						return
					}
				}
				b, err := s.Example()
				if err != nil {
					e.fail = append(e.fail, mFail{"C18-regex", at, "Example: ERROR " + err.Error(), "an example whose string matches " + t.P})
				} else if v, ok := decodeJSON(string(b)); ok {
					m, _ := v.(map[string]interface{})
					if sv, isS := m["z"].(string); !isS || !t.re.MatchString(sv) {
						e.fail = append(e.fail, mFail{"C18-regex", at, "Example() = " + string(b), "an example whose string matches " + t.P})
					}
				}
			}}
		default: // a further schema that uses a shared rule
			if len(rules) == 0 {
				return mOp{}
			}
			side++
			ru := rules[r.Intn(len(rules))]
			nm := fmt.Sprintf("y%d", side)
			href = ru.name
			text := ru.items[r.Intn(len(ru.items))].raw + " // {enum: " + ru.name + "}"
			probe := ru.items[r.Intn(len(ru.items))].raw
			at := fmt.Sprintf("%s := jschema.New(%q, %q); %s.AddRule(%q, %s); %s.Check(); %s.Validate(json.New(\"doc\", %q)); %s.Example()", nm, nm, text, nm, ru.name, ru.name[1:], nm, nm, probe, nm)
			return mOp{at, func(e *mEnv) {
				s := jschema.New(nm, text)
				err := s.AddRule(ru.name, e.ruleObj[ru.name])
				if err == nil {
					err = s.Check()
				}
				if err == nil {
					err = s.Validate(jdoc.New("doc", probe))
				}
				if err != nil {
					e.fail = append(e.fail, mFail{"C18-enum", at, "ERROR " + err.Error(), "accepted: example and document are members"})
				}
				_, _ = s.Example()
			}}
		}
	}
	pHist := []int{0, 15, 30, 45}[r.Intn(4)] // per cent: a history call before the next program step
	pos := make([]int, len(roots))
	gap := false    // a call between a root's last set-up op and its first use
	lastOwner := -1 // root of the previous op (-1: a history call)
	lastWasSetupEnd := false
	remaining := 0
	for k := range seqs {
		remaining += len(seqs[k])
	}
	for remaining > 0 {
		if r.Intn(100) < pHist {
			if op := history(); op.run != nil {
				prog = append(prog, pOp{mOp: op, owner: -1, ref: href})
				lastOwner = -1
			}
			continue
		}
		k := r.Intn(len(roots))
		if pos[k] >= len(seqs[k]) {
			continue
		}
		if pos[k] == gapStart[k]+1 && !(lastOwner == k && lastWasSetupEnd) {
			gap = true
		}
		prog = append(prog, pOp{mOp: seqs[k][pos[k]], owner: k})
		lastOwner, lastWasSetupEnd = k, pos[k] == gapStart[k]
		pos[k]++
		remaining--
	}
	script := scriptOf(prog)
	several := false
	for _, rt := range roots {
		several = several || len(rt.types)+len(rt.rules) >= 2
	}
	rep.Case("multi "+script, several || gap)
	rep.Stat(fmt.Sprintf("multi_types_%d", len(types)))
	rep.Stat(fmt.Sprintf("multi_rules_%d", len(rules)))
	rep.Stat(fmt.Sprintf("multi_roots_%d", len(roots)))
	if gap {
		rep.Stat("multi_calls_between_setup_and_first_use")
	}
	if several {
		rep.Stat("multi_root_with_several_named_objects")
	}
	for _, rt := range roots {
		rep.Stat(fmt.Sprintf("multi_root_shape_%d", rt.shape))
		rep.Stat(fmt.Sprintf("multi_root_named_objects_%d", len(rt.types)+len(rt.rules)))
	}

	// ---- run it; a failing program is reduced (roots, history calls and unused shared objects are dropped while
	// it still fails) so that the reported Input is short
	d, timeout := evalMulti(prog, roots, rep.Stat)
	if d == nil {
		return true
	}
	if !timeout && multiShrinks < 25 {
		multiShrinks++
		prog, roots, d = shrinkMulti(prog, roots, d)
	}
	rep.AddDiff(*d)
	return !timeout
}

var multiShrinks int

func scriptOf(prog []pOp) string {
	var lines []string
	for _, op := range prog {
		lines = append(lines, op.text)
	}
	return strings.Join(lines, "\n")
}

// shrinkMulti: greedy reduction of a failing program. Roots are removed with all their steps, history calls one by
// one, shared objects when nothing refers to them any more; a removal is kept when the program still fails.
func shrinkMulti(prog []pOp, roots []*mRoot, d *vh.Diff) ([]pOp, []*mRoot, *vh.Diff) {
	noStat := func(string) {}
	try := func(p2 []pOp, r2 []*mRoot) bool {
		d2, to := evalMulti(p2, r2, noStat)
		if d2 == nil || to || d2.Component != d.Component {
			return false
		}
		prog, roots, d = p2, r2, d2
		return true
	}
	// roots (owner indices stay those of the original list: removed roots become nil)
	live := 0
	for range roots {
		live++
	}
	for k := range roots {
		if live <= 1 {
			break
		}
		var p2 []pOp
		for _, op := range prog {
			if op.owner != k {
				p2 = append(p2, op)
			}
		}
		r2 := append([]*mRoot(nil), roots...)
		r2[k] = nil
		if try(p2, r2) {
			live--
		}
	}
	// history calls, last first
	for i := len(prog) - 1; i >= 0; i-- {
		if i < len(prog) && prog[i].owner == -1 {
			p2 := append(append([]pOp(nil), prog[:i]...), prog[i+1:]...)
			try(p2, roots)
		}
	}
	// shared objects nothing refers to
	used := map[string]bool{}
	for _, op := range prog {
		if op.ref != "" {
			used[op.ref] = true
		}
	}
	for _, rt := range roots {
		if rt == nil {
			continue
		}
		for j, t := range rt.types {
			if !rt.freshObj[j] {
				used[t.name] = true
			}
		}
		for _, ru := range rt.rules {
			used[ru.name] = true
		}
	}
	var p2 []pOp
	for _, op := range prog {
		if op.owner != -2 || used[op.def] {
			p2 = append(p2, op)
		}
	}
	if len(p2) < len(prog) {
		try(p2, roots)
	}
	return prog, roots, d
}

// evalMulti runs a program in one goroutine (it is sequential) and compares. roots[k] == nil: the root was removed.
func evalMulti(prog []pOp, roots []*mRoot, stat func(string)) (d *vh.Diff, timeout bool) {
	script := scriptOf(prog)
	type result struct {
		env      *mEnv
		fresh    map[string]mObs
		inl      map[string]mObs
		panicked string
	}
	ch := make(chan result, 1)
	go func() {
		res := result{env: &mEnv{regexObj: map[string]*jregex.Schema{}, ruleObj: map[string]*enum.Enum{}, schema: map[string]*jschema.Schema{}, obs: map[string]mObs{}},
			fresh: map[string]mObs{}, inl: map[string]mObs{}}
		res.panicked = vh.Recover(func() string {
			for _, op := range prog {
				op.run(res.env)
			}
			// the same roots from fresh objects, used straight away
			for _, rt := range roots {
				if rt == nil {
					continue
				}
				s := jschema.New(rt.name, rt.typedText)
				for _, ru := range rt.rules {
					_ = s.AddRule(ru.name, enum.New(ru.name, ru.text))
				}
				for _, t := range rt.types {
					_ = s.AddType(t.name, jregex.New(t.name, t.typeText))
				}
				res.fresh[rt.name] = observe(s, rt)
			}
			// the inline spellings
			for _, rt := range roots {
				if rt != nil {
					res.inl[rt.name] = observe(jschema.New(rt.name, rt.inlineText), rt)
				}
			}
			return ""
		})
		ch <- res
	}()
	var res result
	select {
	case res = <-ch:
	case <-time.After(30 * time.Second):
		return &vh.Diff{Component: "C18-regex", Input: script, Impl: "TIMEOUT", Model: "terminates"}, true
	}
	if res.panicked != "" {
		return &vh.Diff{Component: "C18-regex", Input: script, Impl: res.panicked, Model: "no panic"}, false
	}
	if len(res.env.fail) > 0 {
		f := res.env.fail[0]
		return &vh.Diff{Component: f.comp, Input: script + "\n-- at: " + f.at, Impl: f.impl, Model: f.model}, false
	}
	for _, rt := range roots {
		if rt == nil {
			continue
		}
		if d := compareRoot(rt, script, res.env.obs[rt.name], res.fresh[rt.name], res.inl[rt.name], stat); d != nil {
			return d, false
		}
	}
	return nil, false
}

func compareRoot(rt *mRoot, script string, h, f, in mObs, stat func(string)) (out *vh.Diff) {
	comp := "C18-regex"
	if len(rt.types) == 0 {
		comp = "C18-enum"
	}
	freshProg := func() string {
		var l []string
		l = append(l, fmt.Sprintf("F := jschema.New(%q, %q)", rt.name, rt.typedText))
		for _, ru := range rt.rules {
			l = append(l, fmt.Sprintf("F.AddRule(%q, enum.New(%q, %q))", ru.name, ru.name, ru.text))
		}
		for _, t := range rt.types {
			l = append(l, fmt.Sprintf("F.AddType(%q, regex.New(%q, %q))", t.name, t.name, t.typeText))
		}
		l = append(l, fmt.Sprintf("I := jschema.New(%q, %q)", rt.name, rt.inlineText))
		return strings.Join(l, "\n")
	}
	diff := func(what, impl, model string) {
		out = &vh.Diff{Component: comp, Input: script + "\n-- compared with (fresh objects, used straight away; inline spelling)\n" + freshProg() + "\n-- observed: " + rt.name + "." + what, Impl: impl, Model: model}
	}
	short := func(s string) string {
		if s == "" {
			return "accepted"
		}
		if k := strings.Index(s, "\n"); k >= 0 {
			s = s[:k]
		}
		return "rejected (" + s + ")"
	}
	// Check
	if (h.check == "") != rt.checkOK || (f.check == "") != rt.checkOK || (in.check == "") != rt.checkOK {
		diff("Check()", fmt.Sprintf("%s with history: %s; fresh: %s; inline: %s", rt.name, short(h.check), short(f.check), short(in.check)),
			fmt.Sprintf("all three accepted = %v (every example literal matches its pattern / is a member of its rule)", rt.checkOK))
		return
	}
	if h.check != f.check {
		diff("Check()", rt.name+" with history: "+h.check, "as from fresh objects used straight away: "+f.check)
		return
	}
	if rt.checkOK {
		stat("multi_root_accepted")
	} else {
		stat("multi_root_rejected")
	}
	stat("multi_first_use_" + h.firstUse)
	// GetAST
	if h.ast != f.ast {
		diff("GetAST()", rt.name+" with history: "+h.ast, "as from fresh objects used straight away: "+f.ast)
		return
	}
	if !rt.checkOK {
		// every other call must fail the same way
		if h.example != f.example || h.exErr != f.exErr || !reflect.DeepEqual(h.val, f.val) {
			diff("Example() / Validate of a rejected schema", fmt.Sprintf("%s with history: %q %s %q", rt.name, h.example, h.exErr, h.val), fmt.Sprintf("as from fresh objects used straight away: %q %s %q", f.example, f.exErr, f.val))
		}
		return
	}
	// Validate
	for k, d := range rt.docs {
		what := fmt.Sprintf("Validate(json.New(\"doc\", %q))", d)
		hv, fv, iv := h.val[k] == "", f.val[k] == "", in.val[k] == ""
		want := iv
		model := "the three agree"
		if rt.want[k] >= 0 {
			want = rt.want[k] == 1
			model = fmt.Sprintf("all three: %s (regexp.MatchString on the decoded strings / membership by (decoded text, kind); every key required)", map[bool]string{true: "accepted", false: "rejected"}[want])
		}
		if want {
			stat("multi_doc_accepted")
		} else {
			stat("multi_doc_rejected")
		}
		if hv != want || fv != want || iv != want {
			diff(what, fmt.Sprintf("%s with history: %s; fresh: %s; inline: %s", rt.name, short(h.val[k]), short(f.val[k]), short(in.val[k])), model)
			return
		}
		if h.val[k] != f.val[k] {
			diff(what, rt.name+" with history: "+h.val[k], "as from fresh objects used straight away: "+f.val[k])
			return
		}
	}
	// Example
	if h.exErr != "" || f.exErr != "" || in.exErr != "" {
		diff("Example()", fmt.Sprintf("%s with history: %q %s; fresh: %q %s; inline: %q %s", rt.name, h.example, h.exErr, f.example, f.exErr, in.example, in.exErr), "an example from all three")
		return
	}
	if h.example != f.example {
		diff("Example()", rt.name+" with history: "+h.example, "as from fresh objects used straight away: "+f.example)
		return
	}
	hv, ok1 := decodeJSON(h.example)
	iv, ok2 := decodeJSON(in.example)
	if !ok1 || !ok2 {
		stat("multi_example_not_json") // Go-syntax escapes of the generated literal: nothing to compare
		return
	}
	if !reflect.DeepEqual(hv, iv) {
		diff("Example()", rt.name+" with history: "+h.example, "the same JSON value as the inline spelling: "+in.example)
		return
	}
	leaves, ok := exampleLeaves(rt, hv)
	if !ok {
		diff("Example()", rt.name+" with history: "+h.example, "one value per use of the schema")
		return
	}
	for k, u := range rt.uses {
		if u.kind == uEnum {
			continue // the literal of the schema text; equal to the inline spelling's (compared above)
		}
		s, isS := leaves[k].(string)
		if !u.accepts(mProbe{isStr: isS, dec: s}) {
			diff("Example()", rt.name+" with history: "+h.example, fmt.Sprintf("value %d is a string that matches the pattern of its use", k+1))
			return
		}
	}
	return
}
