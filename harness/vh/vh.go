// Package vh: shared plumbing of the verification harness — model driver
// process, case bookkeeping, PRNG, report.
package vh

import (
	"bufio"
	"bytes"
	"crypto/sha1"
	"encoding/json"
	"fmt"
	"io"
	"math/rand"
	"os"
	"os/exec"
	"strconv"
	"strings"
	"time"
)

// Env.
func Seed() int64 {
	if s := os.Getenv("VERIF_SEED"); s != "" {
		if n, err := strconv.ParseInt(s, 10, 64); err == nil {
			return n
		}
	}
	return 1
}

func Tier() string {
	if t := os.Getenv("VERIF_TIER"); t == "thorough" {
		return "thorough"
	}
	return "quick"
}

// Pick returns q in the quick tier and t in the thorough tier.
func Pick(q, t int) int {
	if Tier() == "thorough" {
		return t
	}
	return q
}

func NewRand(salt int64) *rand.Rand { return rand.New(rand.NewSource(Seed()*1000003 + salt)) }

func ModelPath() string {
	if p := os.Getenv("VERIF_MODEL"); p != "" {
		return p
	}
	return "/verif/lean/.lake/build/bin/jsight-model"
}

// AskModel pipes the request lines to a fresh driver process and returns one
// reply per request.
func AskModel(lines []string) []string {
	if len(lines) == 0 {
		return nil
	}
	if d := os.Getenv("VERIF_DUMP"); d != "" {
		f, _ := os.CreateTemp(d, "req-*.txt")
		f.WriteString(strings.Join(lines, "\n") + "\n")
		f.Close()
	}
	cmd := exec.Command(ModelPath())
	stdin, err := cmd.StdinPipe()
	if err != nil {
		panic(err)
	}
	stdout, err := cmd.StdoutPipe()
	if err != nil {
		panic(err)
	}
	cmd.Stderr = os.Stderr
	if err := cmd.Start(); err != nil {
		panic(fmt.Sprintf("cannot start model driver %s: %v", ModelPath(), err))
	}
	go func() {
		w := bufio.NewWriterSize(stdin, 1<<20)
		for _, l := range lines {
			w.WriteString(l)
			w.WriteByte('\n')
		}
		w.Flush()
		stdin.Close()
	}()
	out := make([]string, 0, len(lines))
	r := bufio.NewReaderSize(stdout, 1<<20)
	for {
		l, err := r.ReadString('\n')
		if len(l) > 0 {
			out = append(out, strings.TrimRight(l, "\n"))
		}
		if err != nil {
			if err != io.EOF {
				panic(err)
			}
			break
		}
	}
	cmd.Wait()
	if len(out) != len(lines) {
		panic(fmt.Sprintf("model driver answered %d of %d requests", len(out), len(lines)))
	}
	return out
}

// AskModelSharded splits the requests over n driver processes.
func AskModelSharded(lines []string, n int) []string {
	if n <= 1 || len(lines) < 2000 {
		return AskModel(lines)
	}
	out := make([]string, len(lines))
	done := make(chan struct{}, n)
	chunk := (len(lines) + n - 1) / n
	k := 0
	for i := 0; i < len(lines); i += chunk {
		j := i + chunk
		if j > len(lines) {
			j = len(lines)
		}
		k++
		go func(i, j int) {
			copy(out[i:j], AskModel(lines[i:j]))
			done <- struct{}{}
		}(i, j)
	}
	for ; k > 0; k-- {
		<-done
	}
	return out
}

// Diff is one disagreement between implementation and model (or spec).
type Diff struct {
	Component string `json:"component"`
	Input     string `json:"input"`
	Impl      string `json:"impl"`
	Model     string `json:"model"`
	Class     string `json:"class,omitempty"` // known-finding class, if the generator can tell
	Level     string `json:"level,omitempty"` // "property" (default) or "correspondence"
	Note      string `json:"note,omitempty"`
}

// Report is what a harness subcommand prints as JSON on its last stdout line.
type Report struct {
	Component   string            `json:"component"`
	Evaluations int               `json:"evaluations"`
	Distinct    int               `json:"distinct_nontrivial"`
	Rule        string            `json:"rule"`
	Samples     []string          `json:"samples"`
	Stats       map[string]int    `json:"stats"`
	Diffs       []Diff            `json:"diffs"`
	NDiffs      int               `json:"ndiffs"`
	ClassCounts map[string]int    `json:"class_counts"` // diffs per known-finding class ("" = unclassified)
	States      int               `json:"states,omitempty"`
	Transitions int               `json:"transitions,omitempty"`
	Exhaustive  bool              `json:"exhaustive,omitempty"`
	Extra       map[string]string `json:"extra,omitempty"`
	WallS       float64           `json:"wall_s"`

	seen  map[[8]byte]struct{}
	kept  map[string]int
	start time.Time
}

func NewReport(component, rule string) *Report {
	return &Report{Component: component, Rule: rule, Stats: map[string]int{}, Extra: map[string]string{}, ClassCounts: map[string]int{},
		seen: map[[8]byte]struct{}{}, start: time.Now()}
}

// Case records one evaluated case; nontrivial cases are counted once per distinct key.
func (r *Report) Case(key string, nontrivial bool) {
	r.Evaluations++
	if nontrivial {
		h := sha1.Sum([]byte(key))
		var k [8]byte
		copy(k[:], h[:8])
		if _, ok := r.seen[k]; !ok {
			r.seen[k] = struct{}{}
			r.Distinct++
		}
	}
	if len(r.Samples) < 6 && (nontrivial || r.Evaluations%97 == 1) {
		if len(key) > 300 {
			key = key[:300] + "…"
		}
		r.Samples = append(r.Samples, key)
	}
}

func (r *Report) Stat(name string) { r.Stats[name]++ }

func (r *Report) AddDiff(d Diff) {
	r.NDiffs++
	r.ClassCounts[d.Class]++
	if d.Component == "" {
		d.Component = r.Component
	}
	// keep a few examples per (component, level, class) so that one noisy comparison cannot crowd out the others
	if r.kept == nil {
		r.kept = map[string]int{}
	}
	k := d.Component + "|" + d.Level + "|" + d.Class
	limit := 8
	if d.Class != "" {
		limit = 3
	}
	if r.kept[k] < limit && len(r.Diffs) < 120 {
		r.kept[k]++
		r.Diffs = append(r.Diffs, d)
	}
}

// Finish prints the report as one JSON line prefixed with "REPORT ".
func (r *Report) Finish() {
	r.WallS = time.Since(r.start).Seconds()
	b, _ := json.Marshal(r)
	// one line for every reader: encoding/json leaves U+0085 (NEL) raw, and some line splitters break there
	b = bytes.ReplaceAll(b, []byte("\u0085"), []byte("\\u0085"))
	fmt.Println("REPORT " + string(b))
}

// Compare asks the model for every request and records differences.
// impl[i] is the implementation's canonical answer to requests[i]; inputs[i]
// is a human-readable form of the case.
func (r *Report) Compare(requests, impl, inputs []string, shards int) {
	model := AskModelSharded(requests, shards)
	for i := range requests {
		if impl[i] != model[i] {
			r.AddDiff(Diff{Input: inputs[i], Impl: impl[i], Model: model[i], Note: requests[i]})
		}
	}
}

// Hex.
const hexd = "0123456789abcdef"

func Hex(b []byte) string {
	out := make([]byte, 2*len(b))
	for i, c := range b {
		out[2*i] = hexd[c>>4]
		out[2*i+1] = hexd[c&15]
	}
	return string(out)
}

// Mutate applies 1..3 byte-level edits drawn from alphabet.
func Mutate(r *rand.Rand, b []byte, alphabet []byte) []byte {
	b = append([]byte(nil), b...)
	n := 1 + r.Intn(3)
	for i := 0; i < n; i++ {
		switch r.Intn(4) {
		case 0:
			if len(b) > 0 {
				b = b[:r.Intn(len(b)+1)]
			}
		case 1:
			p := r.Intn(len(b) + 1)
			b = append(b[:p], append([]byte{alphabet[r.Intn(len(alphabet))]}, b[p:]...)...)
		case 2:
			if len(b) > 0 {
				p := r.Intn(len(b))
				b = append(b[:p], b[p+1:]...)
			}
		case 3:
			if len(b) > 0 {
				b[r.Intn(len(b))] = alphabet[r.Intn(len(alphabet))]
			}
		}
	}
	return b
}

// AllStrings calls f with every string over alphabet of length 0..maxLen.
func AllStrings(alphabet []byte, maxLen int, f func([]byte)) {
	buf := make([]byte, 0, maxLen)
	var rec func()
	rec = func() {
		f(buf)
		if len(buf) == maxLen {
			return
		}
		for _, c := range alphabet {
			buf = append(buf, c)
			rec()
			buf = buf[:len(buf)-1]
		}
	}
	rec()
}

// Recover runs f and turns a panic into a string.
func Recover(f func() string) (out string) {
	defer func() {
		if r := recover(); r != nil {
			out = fmt.Sprintf("PANIC %v", r)
		}
	}()
	return f()
}

// RepoRoot is the source tree the extractors read: /repo, or VERIF_REPO when a check is run against a scratch
// worktree (tools/seedcheck_wt.sh); the harness itself is built against the same tree through go.mod's replace.
func RepoRoot() string {
	if r := os.Getenv("VERIF_REPO"); r != "" {
		return r
	}
	return "/repo"
}
