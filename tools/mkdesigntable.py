#!/usr/bin/env python3
"""Prints the §13.1 table of DESIGN.md from checks.json (paste between the markers)."""
import json, os
root = os.path.dirname(os.path.dirname(os.path.abspath(__file__)))
c = json.load(open(os.path.join(root, "checks.json")))["properties"]
man = {p.get("property", p.get("id")): p for p in json.load(open(os.path.join(root, "MANIFEST.json")))["checks"]}
print("| property | level | obligations audited on every run (theorems in `JSight/Props/Cxx.lean`, ties in `JSight/Tie/*.lean`) | T-gen (regenerated table) | harness runs (correspondence + search) |")
print("|---|---|---|---|---|")
for pid, v in c.items():
    obs = ", ".join("`%s`" % (o.get("theorem") or list(o.values())[0]).split(".")[-1] for o in v.get("obligations", []))
    tg = ", ".join("`%s`" % " ".join(t["cmd"][:1]) if isinstance(t, dict) else "`%s`" % t for t in v.get("tgen", [])) or "—"
    runs = ", ".join("`%s`%s" % (" ".join(r["cmd"]), " (race build)" if r.get("race") else "") for r in v.get("runs", []))
    lvl = man.get(pid, {}).get("level", v.get("level", ""))
    print("| %s | %s | %s | %s | %s |" % (pid, lvl, obs, tg, runs))
