#!/bin/bash
# usage: try_patch.sh <id> <patch-file>   -> applies patch in a scratch worktree, regenerates PanicFacts, rebuilds the tie
id=$1; patch=$2
V=/root/work/c07p/verif
wt=/root/work/c07p/scratch/wt-$id
export GOFLAGS=-mod=mod GOPROXY=off GOSUMDB=off GOTOOLCHAIN=local CGO_ENABLED=0
git -C /repo worktree remove --force $wt 2>/dev/null
git -C /repo worktree add -q --detach $wt ${BASE:-HEAD} || exit 2
if ! git -C $wt apply $patch 2>/dev/null; then
  (cd $wt && patch -p1 -F3 --no-backup-if-mismatch < $patch >/dev/null 2>&1) || { echo "$id PATCH-DOES-NOT-APPLY"; git -C /repo worktree remove --force $wt; exit 0; }
fi
(cd $wt && go build ./... 2>&1 | head -5)
cp $V/lean/JSight/Generated/PanicFacts.lean /root/work/c07p/scratch/PanicFacts.orig
VERIF_REPO=$wt $V/harness/bin/vh tgen-panics $V/lean/JSight/Generated/PanicFacts.lean | grep -v '^REPORT'
diff <(grep -v "unsafeCalls\|^def graph" /root/work/c07p/scratch/PanicFacts.orig) <(grep -v "unsafeCalls\|^def graph" $V/lean/JSight/Generated/PanicFacts.lean) | grep '^[<>]' | cut -c1-260 | head -${DIFFLINES:-12}
out=$(cd $V/lean && lake build JSight.Tie.Panics 2>&1)
if echo "$out" | grep -q "Build completed successfully"; then echo "== $id: TIE PASSES"; else echo "== $id: TIE BROKEN"; echo "$out" | grep -E "^error|error:" | cut -c1-300 | head -8; fi
cp /root/work/c07p/scratch/PanicFacts.orig $V/lean/JSight/Generated/PanicFacts.lean
if [ -z "$KEEP" ]; then git -C /repo worktree remove --force $wt; fi
