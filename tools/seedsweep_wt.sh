#!/bin/bash
# usage: tools/seedsweep_wt.sh [glob] [parallel]   (default: all seeds, 4 at a time)
# Full quick check of the broken property against every seeded change, each in its own scratch worktree + scratch
# /verif copy (tools/seedcheck_wt.sh): /repo and /verif are not touched. One line per seed into seeded/SWEEP.txt;
# tools/seedresults.py turns it into seeded/RESULTS.md.
cd /verif
glob=${1:-C*-*}; par=${2:-4}
out=${SWEEP_OUT:-seeded/SWEEP.txt}
: > $out
ls -d seeded/$glob/ | while read d; do
  id=$(basename $d)
  props=$(python3 -c "import json;m=json.load(open('$d/meta.json'));print(' '.join([m['property']]+m.get('also_check',[])))")
  for p in $props; do echo "$id $p"; done
done | xargs -P $par -L 1 bash -c '
  id=$0; p=$1
  r=$(CUT=300 HEAD=4 /verif/tools/seedcheck_wt.sh $id $p quick 2>&1)
  line=$(echo "$r" | grep -E "^VIOLATION" | head -1)
  if echo "$r" | grep -q "patch does not apply"; then res="PATCH-DOES-NOT-APPLY"; elif [ -z "$line" ]; then res="NOT-DETECTED"; else case "$line" in *no-failing-input-found*) res="BROKEN-TIE";; *) res="FAILING-INPUT";; esac; fi
  first=$(echo "$r" | grep -E "disagreement:|broken:" | head -1 | cut -c1-260 | tr "\n|" " /")
  echo "$id $p $res :: $first" >> '$out'
  echo "$id $p $res"
'
sort -o $out $out
