#!/bin/bash
# usage: tools/seedtest.sh <seeded-dir> [tier] [extra properties...]
# Applies seeded/<dir>/patch.diff to /repo, runs the check of the property it breaks, restores /repo.
set -u
d=/verif/seeded/$1
tier=${2:-quick}
prop=$(python3 -c "import json;print(json.load(open('$d/meta.json'))['property'])")
cd /repo || exit 2
if ! git diff --quiet; then echo "/repo not clean"; exit 2; fi
git apply "$d/patch.diff" || { echo "patch does not apply"; exit 2; }
shift; shift 2>/dev/null
props="$prop $*"
for p in $props; do
  out=$(cd /verif && ./check $p --tier $tier 2>&1 | grep -E "^(VIOLATION|C[0-9]+:)|disagreement:|broken:" | cut -c1-400)
  echo "== $(basename $d) -> $p ($tier)"
  echo "$out" | head -8
done
git -C /repo checkout -- . ; git -C /repo clean -fdq -e verifhook 2>/dev/null
git -C /repo status --short | head -3; /verif/tools/regen.sh >/dev/null
