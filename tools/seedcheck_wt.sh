#!/bin/bash
# usage: tools/seedcheck_wt.sh <patch-dir-or-file> <Cxx> [tier]
# Runs the FULL check of property <Cxx> (T-gen, Lean build + audit, all harness runs) against /repo HEAD with a
# patch applied, without touching /repo or /verif: scratch worktree of /repo + scratch copy of /verif whose harness
# go.mod points at the worktree. Several can run at once. Prints the check's VIOLATION / summary lines and the first
# disagreements; removes both scratch directories.
set -u
src=$1; prop=$2; tier=${3:-quick}
case "$src" in /*) ;; *) src=/verif/seeded/$src;; esac
[ -d "$src" ] && patch=$src/patch.diff || patch=$src
tag=$(basename $(dirname $patch))-$prop-$$
root=${SEEDCHECK_ROOT:-/tmp/scw}/$tag
wt=$root/repo; vc=$root/verif
export GOFLAGS=-mod=mod GOPROXY=off GOSUMDB=off GOTOOLCHAIN=local
mkdir -p $root
git -C /repo worktree add -q --detach $wt HEAD || exit 2
cleanup() { cd /; git -C /repo worktree remove --force $wt 2>/dev/null; rm -rf $root; }
trap cleanup EXIT
if [ "$patch" != "none" ] && [ -f "$patch" ]; then git -C $wt apply $patch || { echo "patch does not apply"; exit 2; }; fi
mkdir -p $vc
(cd /verif && tar cf - --exclude=.git --exclude=./seeded --exclude=./refactors --exclude=./replays --exclude=./work . ) | (cd $vc && tar xf -)
sed -i "s#=> /repo#=> $wt#" $vc/harness/go.mod
cp $wt/go.sum $vc/harness/go.sum 2>/dev/null
cd $vc; export VERIF_REPO=$wt
out=$(VERIF_SEED=${VERIF_SEED:-1} timeout ${SEEDCHECK_TIMEOUT:-3000} ./check $prop --tier $tier 2>&1)
echo "== $(basename $(dirname $patch)) -> $prop ($tier)"
echo "$out" | grep -E "^(VIOLATION|C[0-9]+:)" | cut -c1-300
echo "$out" | grep -E "disagreement:|broken:" | cut -c1-${CUT:-500} | head -${HEAD:-6}
