#!/bin/bash
# Applies every harmless refactoring under /verif/refactors to /repo, runs ALL quick checks, restores /repo.
# A check must stay quiet (exit 0) or, when a tie / correspondence broke, end with no-failing-input-found.
cd /verif
out=refactors/RESULTS.md
glob=${REF_GLOB:-r*}
if [ -z "${REF_APPEND:-}" ]; then
echo "# Harmless refactorings vs. checks (quick tier): a check must not report a failing input" > $out
echo >> $out
echo "| refactoring | summary | checks that reported something |" >> $out
echo "|---|---|---|" >> $out
fi
for d in refactors/$glob/; do
  id=$(basename $d)
  summ=$(python3 -c "import json;m=json.load(open('$d/meta.json'));print(m['summary'].replace('|','/').replace('\n',' ')[:300])")
  git -C /repo apply /verif/$d/patch.diff || { echo "| $id | patch does not apply | |" >> $out; continue; }
  rep=""
  for p in C01 C02 C03 C04 C05 C06 C07 C08 C09 C10 C11 C12 C13 C14 C15 C16 C17 C18 C19; do
    line=$(./check $p --tier quick 2>/dev/null | grep -E "^VIOLATION" | head -1)
    if [ -n "$line" ]; then
      case "$line" in *no-failing-input-found*) rep="$rep $p:broken-tie(no-failing-input-found)";; *) rep="$rep $p:FALSE-ALARM-with-input($(echo $line | sed 's/.*replay=//'))";; esac
    fi
  done
  git -C /repo checkout -- . ; git -C /repo clean -fdq
  echo "| $id | $summ | ${rep:-none} |" >> $out
  echo "$id:${rep:- quiet}"
done
/verif/tools/regen.sh >/dev/null
