#!/usr/bin/env python3
import json, sys, glob
import jsonschema
jsonschema.validate(json.load(open('/verif/MANIFEST.json')), json.load(open('/root/.vp/MANIFEST.schema.json')))
es = json.load(open('/root/.vp/EVIDENCE.schema.json'))
for f in sorted(glob.glob('/verif/evidence/*.json')):
    jsonschema.validate(json.load(open(f)), es)
    print("ok", f)
print("manifest ok")
