#!/bin/bash
# usage: tools/seedverify.sh <Cxx> <a|b>
# Confirms a seeded change from /tmp/seed/out/<Cxx>/<v>: applies in a scratch worktree, suite unchanged,
# demo fails with / passes without the change; then files it under /verif/seeded/<Cxx>-<v>/.
set -u
id=$1; v=$2
src=/tmp/seed/out/$id/$v
wt=/tmp/sv/$id-$v
export GOFLAGS=-mod=mod GOPROXY=off GOSUMDB=off GOTOOLCHAIN=local
[ -f $src/patch.diff ] || { echo "no patch"; exit 2; }
mkdir -p /tmp/sv; git -C /repo worktree add -q --detach $wt HEAD || exit 2
cd $wt
res="{}"
mkdir -p zz_demo_$v && cp $src/demo_test.go zz_demo_$v/demo_test.go
race=""; grep -q '"race"\|-race' $src/meta.json 2>/dev/null && race="-race"
if [ -n "$race" ]; then export CGO_ENABLED=1; fi
before=$(go test $race -count=1 ./zz_demo_$v/ 2>&1 | tail -1)
if git apply $src/patch.diff 2>/tmp/sv/apply.err; then
  build=$(go build ./... 2>&1 | tail -2; go build -tags verif ./... 2>&1 | tail -2)
  suite=$(CGO_ENABLED=0 go test -vet=off -count=1 $(go list ./... | grep -v zz_demo) 2>&1 | grep -E "^(--- FAIL|FAIL|panic)" | grep -v "^FAIL$" | sed -E 's/\t[0-9.]+s$//; s/ \([0-9.]+s\)$/ (0.00s)/' | tr '\n' ' ')
  after=$(go test $race -count=1 ./zz_demo_$v/ 2>&1 | tail -1)
else
  build="APPLY FAILED: $(cat /tmp/sv/apply.err | head -2)"; suite=""; after=""
fi
echo "[$id-$v] demo before: $before | after: $after | build: ${build:-ok} | suite: $suite"
ok=0
case "$before" in ok*) case "$after" in FAIL*|*FAIL*) [ -z "$build" ] && [ "$suite" = "--- FAIL: TestEnum_String (0.00s) FAIL	github.com/jsightapi/jsight-schema-go-library/notations/jschema/internal/schema/constraint " ] && ok=1;; esac;; esac
cd /; git -C /repo worktree remove --force $wt
if [ $ok = 1 ]; then
  d=/verif/seeded/$id-$v; mkdir -p $d; cp $src/patch.diff $src/demo_test.go $d/
  python3 - "$src/meta.json" "$d/meta.json" "$before" "$after" <<'PY'
import json,sys
m=json.load(open(sys.argv[1]))
m["confirmed"]={"demo_without_change":sys.argv[3],"demo_with_change":sys.argv[4],"suite_with_change":"unchanged: only the pre-existing TestEnum_String fails","how":"tools/seedverify.sh: scratch worktree of /repo HEAD, go build ./... (with and without -tags verif), go test -vet=off -count=1 ./..., demo in zz_demo_<variant>/"}
json.dump(m,open(sys.argv[2],"w"),indent=1)
PY
  echo "  CONFIRMED -> $d"
else
  echo "  NOT CONFIRMED"
fi
