#!/usr/bin/env python3
"""Rewrites the §13.1 table of DESIGN.md in place from checks.json (output of tools/mkdesigntable.py)."""
import os, re, subprocess
root = os.path.dirname(os.path.dirname(os.path.abspath(__file__)))
table = subprocess.run(["python3", os.path.join(root, "tools", "mkdesigntable.py")], capture_output=True, text=True).stdout.strip("\n")
p = os.path.join(root, "DESIGN.md")
s = open(p).read()
head = "| property | level | obligations audited on every run"
i = s.index(head)
j = s.index("\n\n", i)
s = s[:i] + table + s[j:]
open(p, "w").write(s)
print("table updated:", table.count("\n") - 1, "rows")
