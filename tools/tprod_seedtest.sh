#!/bin/bash
# usage: tools/tprod_seedtest.sh <seeded-dir-name | path to a .diff> <vh-subcommand>
# Scratch worktree of /repo HEAD + the T-prod hook files (HOOKS, default: the patch next to this script's verif copy)
# + the seeded change; scratch harness copy pointing at it; runs ONE harness subcommand against this workspace's driver.
set -u
here=$(cd "$(dirname "$0")/.." && pwd)
name=$1; shift
if [ -f "$name" ]; then patch=$name; tag=$(basename $name .diff)-$$; else patch=/verif/seeded/$name/patch.diff; tag=$name-$$; fi
wt=/tmp/tprodwt/$tag/repo; hw=/tmp/tprodwt/$tag/harness
export GOFLAGS=-mod=mod GOPROXY=off GOSUMDB=off GOTOOLCHAIN=local CGO_ENABLED=0
mkdir -p /tmp/tprodwt/$tag
git -C /repo worktree add -q --detach $wt HEAD || exit 2
cleanup() { cd /; git -C /repo worktree remove --force $wt 2>/dev/null; rm -rf /tmp/tprodwt/$tag; }
trap cleanup EXIT
git -C $wt apply ${HOOKS:-$here/tools/tprod_hooks.patch} || { echo "hook patch does not apply"; exit 2; }
git -C $wt apply $patch || { echo "patch does not apply"; exit 2; }
cp -r $here/harness $hw && rm -rf $hw/bin
sed -i "s#=> .*#=> $wt#" $hw/go.mod
cd $hw && go build -tags verif -o $hw/bin/vh ./cmd/vh || exit 2
VERIF_TIER=${VERIF_TIER:-quick} VERIF_MODEL=$here/lean/.lake/build/bin/jsight-model timeout ${VH_TIMEOUT:-1800} $hw/bin/vh "$@" 2>&1 | grep -E "^REPORT|panic|fatal" | python3 -c "
import sys, json
for line in sys.stdin:
    if not line.startswith('REPORT '):
        print(line.rstrip()[:400]); continue
    r = json.loads(line[7:])
    print(r['component'], 'states', r.get('states'), 'transitions', r.get('transitions'), 'ndiffs', r['ndiffs'], 'wall', round(r['wall_s'], 1))
    comps = {}
    for d in r['diffs'] or []:
        comps[d['component']] = comps.get(d['component'], 0) + 1
    print('  kept diffs by component:', comps)
    for d in (r['diffs'] or [])[:int('${SHOW:-3}')]:
        print('  -', d['component'], d['input']); print('      impl :', d['impl'][:300]); print('      model:', d['model'][:300]); print('      note :', d.get('note', '')[:200])
"
