#!/bin/bash
# Regenerate every T-gen table from /repo's current working tree (run after seeded-change experiments,
# before committing: the committed tables must come from the unchanged tree).
set -e
cd /verif
export GOFLAGS=-mod=mod GOPROXY=off GOSUMDB=off GOTOOLCHAIN=local CGO_ENABLED=0
(cd harness && go build -tags verif -o bin/vh ./cmd/vh)
./harness/bin/vh tgen-errors "$PWD/lean/JSight/Generated/ErrorTable.lean" >/dev/null
./harness/bin/vh tgen-cmap "$PWD/lean/JSight/Generated/CMapUses.lean" >/dev/null
./harness/bin/vh tgen-compat "$PWD/lean/JSight/Generated/CompatTable.lean" >/dev/null
./harness/bin/vh tgen-kinds "$PWD/lean/JSight/Generated/KindMatrix.lean" >/dev/null
git -C /verif status --short lean/JSight/Generated | head
