#!/usr/bin/env python3
"""Writes /verif/checks.json — what each property's check consists of (single source of truth for
./check and for MANIFEST.json via tools/mkmanifest.py)."""
import json, os
R = os.path.dirname(os.path.dirname(os.path.abspath(__file__)))

def ob(mod, *names_says):
    return [{"theorem": n, "module": mod, "says": s} for n, s in names_says]

P = {}

P["C01"] = dict(
    lean_targets=["JSight.Props.C01", "JSight.Tie.Kinds"],
    tgen=[{"cmd": ["tgen-kinds", "{LEAN}/JSight/Generated/KindMatrix.lean"]}],
    obligations=ob("JSight.Tie.Kinds",
        ("Gen.C01_kind_matrix", "kind-admissibility verdicts of the real Validate (executed on the current tree, 120 combinations) = the model's litOK"),
        ("Gen.C01_kind_matrix_size", "the regenerated matrix is complete")) + ob("JSight.Props.C01",
        ("Props.C01.C01_validate_iff_shape", "validator event machine = shape spec, all schemas/documents of the fragment, unbounded depth/width"),
        ("Props.C01.C01_validate_iff_shape_param", "same for any scalar-rule semantics litOK"),
        ("Props.C01.C01_with_alternatives", "with alternatives (nullable containers = container | null)"),
        ("Props.C01.C01_order_indep", "verdict invariant under permutation of the document's members"),
        ("Props.C01.C01_cfg_only_optional", "KeysAreOptionalByDefault = marking unmarked keys optional")),
    runs=[{"cmd": ["c01-shape"]}],
    level_text="Proof: the validator of the rule-free fragment (stack of validator frames fed with lexical events) accepts exactly the documents of the example's shape — theorem for all schemas and documents, no bound on depth or width, incl. order independence and the key-optionality option. The model is tied to the code on every run by a differential of real Validate against the Lean model and the Lean spec over generated schemas x documents of the fragment (both configurations).",
    level_note="Trusted: Lean kernel (axioms propext, Classical.choice, Quot.sound); hand-written model validated against Validate by T-diff (sampled); text->events (scanner) by C06; loader not modelled.",
    technique="Lean 4 theorem (event machine = denotational shape, mutual structural recursion) + differential correspondence with Validate")

P["C02"] = dict(
    lean_targets=["JSight.Props.C02", "JSight.Tie.Kinds"],
    tgen=[{"cmd": ["tgen-kinds", "{LEAN}/JSight/Generated/KindMatrix.lean"]}],
    obligations=ob("JSight.Tie.Kinds",
        ("Gen.C01_kind_matrix", "kind-admissibility verdicts of the real Validate (executed on the current tree) = the model's litOK")) + ob("JSight.Props.C02",
        ("Props.C02.C02_accept_iff", "litOK = (null and nullable) or (kind admissible and all rules hold)"),
        ("Props.C02.C02_null_admitted", "null admitted by nullable:true whatever other rules"),
        ("Props.C02.C02_min_exact", "min compares exact decimal values (strict iff exclusive)"),
        ("Props.C02.C02_max_exact", "max compares exact decimal values (strict iff exclusive)"),
        ("Props.C02.C02_false_rules_inert", "false-valued nullable / exclusive* change nothing"),
        ("Props.C02.C02_accept_iff_full", "every scalar rule: accept <=> (null and nullable) or (admissible kind and every rule satisfied by the token's MEANING), all applicable rule sets, all scalar tokens; regexp / mail / url / time are oracle parameters"),
        ("Props.C02.C02_unquote_is_decode", "the library's Unquote = RFC 8259 string decoding (escapes, surrogate pairs, raw UTF-8)"),
        ("Props.C02.C02_every_numeral_is_token", "every RFC 8259 numeral except 0e.. is in the theorem's domain"),
        ("Props.C02.C02_precision_exact", "precision depends only on the exact value"),
        ("Props.C02.C02_precision_is_fraction_digits", "precision p <=> value * 10^p is an integer"),
        ("Props.C02.C02_length_decoded", "minLength / maxLength bound the UTF-8 length of the DECODED string"),
        ("Props.C02.C02_const_by_value", "const = equality with the example by value (decoded text / exact number)"),
        ("Props.C02.C02_enum_type_sensitive", "enum = membership, never across kinds"),
        ("Props.C02.C02_false_rules_inert_full", "a false-valued nullable / const / exclusive* anywhere in the annotation changes nothing"),
        ("Props.C02.C02_null_first", "null is decided by nullable alone, whatever other rules are present"),
        ("Props.C02.C02_enum_by_value_full_false", "known finding K-C10-enumtext as a refuted full statement (enum compares number spellings)"),
        ("Props.C02.C02_enum_by_value_partial", "outside that class enum membership is by value"),
        ("Props.C02.C02_every_numeral_full_false", "known finding K-C10-zeroexp as a refuted full statement")),
    runs=[{"cmd": ["sem-rules"]}, {"cmd": ["sem-rules-full"]}, {"cmd": ["check-lit-rules"]}, {"cmd": ["formats-diff"]}, {"cmd": ["unquote-diff"]},
          {"cmd": ["c18-named", "twins"]}, {"cmd": ["c18-named", "enum"]}],
    partial="every scalar rule is inside the model and the accept-iff theorem (min/max/exclusive, precision, minLength/maxLength on the decoded string, const by value, enum, nullable first, false-valued rules inert, uuid/date); the regexp engine, net/mail, net/url and time.Parse(RFC3339) are oracle parameters of the theorem, evaluated in Go for the tie; enum compares number spellings (K-C10-enumtext) and 0e.. numerals are not recognised (K-C10-zeroexp): both stated and refuted as full statements",
    level_text="Proof (partial): scalar validation with EVERY rule the property names is a Lean model (RulesF.litOKFull: the dispatcher and the constraints as coded) proved equal to a spec over the token's meaning (exact decimal value, decoded string): accept iff null-by-nullable or (admissible kind and every rule satisfied), for all applicable rule sets and all scalar tokens; precision = fraction digits of the exact value, lengths on the decoded string, const by value, enum type-sensitive, false-valued rules inert, Unquote = RFC 8259 decoding; Go regexp / net/mail / net/url / time are oracle parameters. Tie: sem-rules-full (every rule combination the checker accepts x odd spellings, oracle bits computed in Go) and differential of real Validate/Check vs the Lean model on rule sets with bounds and probes in odd spellings, bounded-exhaustive single-node Check, uuid/date format models, string unquoting.",
    level_note="Trusted: Lean kernel; Go stdlib engines (regexp, net/mail, net/url, time.Parse) are oracles; enum/const/regex/precision rules are validated by other checks (c13, c18, number-diff), not proved.",
    technique="Lean 4 theorems on the literal-validation model + differential correspondence")

P["C03"] = dict(
    lean_targets=["JSight.Props.C03"],
    obligations=ob("JSight.Props.C03",
        ("Props.C03.C03_union", "independent-leaves machine = union semantics"),
        ("Props.C03.C03_shared_tree", "validator tree with shared parents (as coded, F-11) = union semantics"),
        ("Props.C03.C03_shared_eq_independent", "shared-parent tree = independent leaves"),
        ("Props.C03.C03_named_types", "named, recursive types, nullable references: tree = union over reachable alternatives"),
        ("Props.C03.C03_alts_iff_reach", "depth-first type expansion = reachability through reference chains"),
        ("Props.C03.C03_additional_properties", "+ additionalProperties in all modes"),
        ("Props.C03.C03_allOf_expand", "expanded object = own properties ++ properties of the expanded bases, all bases objects"),
        ("Props.C03.C03_key_shortcuts", "+ key shortcuts (declaration order, one document key per shortcut): tree = spec"),
        ("Props.C03.C03_pinned_tree_false", "regression witness: the pre-fix tree accepts an invalid document")),
    runs=[{"cmd": ["sem-types"]}, {"cmd": ["sem-addprops"]}, {"cmd": ["sem-allof"]}, {"cmd": ["sem-keys"]}, {"cmd": ["sem-or"]}],
    partial="the additionalProperties merge of allOf (copy / must be equal) and its error cases are compared with the code, not characterised by a theorem; the key-shortcut spec is the greedy declaration-order reading",
    level_text="Proof (partial): the validator tree as the code keeps it (leaves map, shared parent validators, step back, depth-first type expansion with name de-duplication, additionalProperties modes, key shortcuts) accepts exactly the union of the reachable alternatives at every position — theorems for all type environments (cyclic ones included), schemas and documents. The allOf expansion is an executable model compared with the real Validate only. Tie: five differentials (types, additionalProperties, allOf, key shortcuts, or rule) from an IR generator printing JSight text for the real library and S-expressions for the Lean driver.",
    level_note="Trusted: Lean kernel; models validated by T-diff (sampled); loader (text -> nodes) not modelled; overlapping key shortcuts are greedy by declaration order (scope, not finding).",
    technique="Lean 4 theorems (tree machine = union semantics, DFS = reachability) + differential correspondence")

P["C04"] = dict(
    lean_targets=["JSight.Props.C04"],
    obligations=ob("JSight.Props.C04", ("Props.C04.C04_example_valid", "checked schema => its example document validates (any literal rule semantics)"),
        ("Props.C04.C04_checked_iff", "with unique keys the checker's conditions hold exactly when the EXAMPLE validates: a violated rule anywhere makes them fail")),
    runs=[{"cmd": ["c04-check-example"]}],
    partial="on the model the checker's conditions are equivalent to 'the EXAMPLE validates' (theorem); that the real Check reports a violated rule at the value's position is explored on the real code, not proved",
    level_text="Proof (partial): if the checker's conditions hold on a plain-JSON schema (every literal passes the same literal validation on its own example, keys unique) then validating the example succeeds — theorem for every nesting and any literal-rule semantics. Tie/search on the real code: Check ok => Validate(example) ok on generated schemas with 16 rule kinds, and every single-rule corruption is rejected at the byte offset of the corrupted value.",
    level_note="Trusted: Lean kernel; the checker itself is represented by the predicate `checked` (what it establishes), validated by the exploration; K-C04-* known findings excluded by class.",
    technique="Lean 4 theorem relating Check and Validate on the model + property exploration on the real code")

P["C05"] = dict(
    lean_targets=["JSight.Props.C05"],
    obligations=ob("JSight.Props.C05",
        ("Props.C05.C05_check_iff_rfc", "for all byte strings: scanner-model check (strict) = RFC 8259 recogniser accepts"),
        ("Props.C05.C05_trailing", "for all byte strings: check with trailing allowed = recogniser has read one complete value when it first cannot continue"),
        ("Props.C05.C05_grammar_accepted", "every text the RFC 8259 grammar generates (token grammar, any layout, any depth) is accepted"),
        ("Props.C05.C05_check_iff_grammar", "strict Check accepts exactly ws value ws of the RFC 8259 grammar (both directions; unbounded length and depth)"),
        ("Props.C05.C05_machines_agree", "the span-carrying and the span-free model of the JSON scanner accept the same byte strings (both modes)"),
        ("Props.C05.C05_checkS_iff_rfc", "Document.Check as modelled with positions = RFC recogniser")),
    runs=[{"cmd": ["json-tprod"]}, {"cmd": ["json-exh"]}, {"cmd": ["json-diff"]}],
    assumptions=["the RFC 8259 grammar on byte classes (RfcG.GTok / GValid, StrBody, NumTok.WF: ~60 lines) is the reading of 'is a JSON text'; the recogniser is proved equivalent to it and additionally validated against encoding/json.Valid on the exhaustive stream"],
    level_text="Proof: for every byte string the scanner model's Check (strict and trailing modes) equals an independently written RFC 8259 recogniser (simulation proof, unbounded length and depth). The model is tied to the code on every run by product-state exploration of (implementation state, model state) over all 256 next bytes, bounded-exhaustive comparison of Check with model, spec and encoding/json, and a mutation/generation differential.",
    level_note="Trusted: Lean kernel, axioms {propext}; the recogniser as the reading of RFC 8259 (validated against encoding/json.Valid); model-code tie is validation (T-prod to nesting depth 4/6, exhaustive strings to length 5/6), not extraction.",
    technique="Lean 4 simulation proof (scanner model = RFC recogniser) + product-state correspondence with the Go scanner")

P["C06"] = dict(
    lean_targets=["JSight.Props.C06", "JSight.Props.C13"],
    obligations=ob("JSight.Props.C06",
        ("Props.C06.C06_events_of_tree", "events of any valid text = events denoted by its tree (nesting, token spans, containers bracket to bracket)"),
        ("Props.C06.C06_spans", "every span inside the input, begin <= end"),
        ("Props.C06.C06_rebuild", "the value (tree without layout) is recovered from events + token slices alone"),
        ("Props.C06.C06_nested", "events properly nested; closer pairs with the innermost opener and carries its offset"),
        ("Props.C06.C06_string_token", "RFC strings are scalar tokens"),
        ("Props.C06.C06_number_token", "RFC numbers are scalar tokens"),
        ("Props.C06.C06_key_token", "RFC strings are key tokens"),
        ("Props.C06.C06_schema_events_of_tree", "schema scanner model on every plain-JSON value tree (any depth/width/layout incl. line breaks): exactly the tree's events plus one newLine per line break"),
        ("Props.C06.C06_schema_is_json_plus_newlines", "clone agreement: on the same bytes the JSON scanner delivers the schema scanner's stream without the newLine events; the schema scanner adds nothing else"),
        ("Props.C06.C06_enum_events", "enum-rule scanner model on ws [ items ] ws: the events the grammar predicts")) + ob("JSight.Props.C13",
        ("JsonScan.evs_types", "the event-type sequence is a function of the tree without layout")),
    runs=[{"cmd": ["json-diff"]}, {"cmd": ["json-tprod"]}, {"cmd": ["schema-diff"]}, {"cmd": ["enum-diff"]}],
    partial="clone agreement of the schema and enum scanner models with the JSON scanner model is a theorem for plain-JSON trees without exponents / lists of scalars; annotations, comments and type shortcuts are covered by the differential only",
    level_text="Proof (JSON scanner): for every valid JSON tree, every layout and both modes the scanner model delivers exactly the events the tree denotes — properly nested, spans inside the input, literal/key spans = tokens, containers bracket to bracket (unbounded depth/width). Tie: events of real NextLexeme vs model on generated valid texts (plus rebuild-the-value-from-events against encoding/json), mutations, product-state exploration; schema and enum scanners: full event streams vs their Lean models, bounded-exhaustive over four alphabets + mutations.",
    level_note="Trusted: Lean kernel; schema/enum scanner models are validated (millions of inputs), their equivalence to the JSON scanner on plain JSON is not a theorem.",
    technique="Lean 4 theorem (events of a rendered tree, mutual structural recursion) + differential / product-state correspondence")

P["C07"] = dict(
    lean_targets=["JSight.Props.C07", "JSight.Tie.Errors"],
    tgen=[{"cmd": ["tgen-errors", "{LEAN}/JSight/Generated/ErrorTable.lean"]}],
    obligations=ob("JSight.Props.C07",
        ("Props.C07.C07_json_no_crash", "JSON scanner model never reaches a runtime-panic site, all byte strings, both modes"),
        ("Props.C07.C07_enum_no_crash", "enum-rule scanner model: for every byte string no stack underflow / mismatched closer / fuel exhaustion — every error is structured"),
        ("Props.C07.C07_enum_len_no_crash", "the same for the enum scanner's Length"),
        ("Props.C07.C07_schema_no_crash", "schema scanner model (~60 states, three stacks): for every byte string no stack underflow / mismatched closer / unexpected context / fuel exhaustion — every error is structured"),
        ("Props.C07.C07_schema_len_no_crash", "the same for the schema scanner's Length"),
        ("Props.C07.C07_render_total", "Error() rendering total inside the content")) + ob("JSight.Tie.Errors",
        ("Gen.C07_format_sites", "every errors.Format site passes as many arguments as the template has placeholders (regenerated table)"),
        ("Gen.C07_bare_sites", "every bare error code used as an error value has a placeholder-free template"),
        ("Gen.C07_every_code_has_template", "every error code has a template"),
        ("Gen.C07_nothing_unresolved", "the extractor resolved every construction site")),
    runs=[{"cmd": ["api-fuzz"]}, {"cmd": ["json-tprod"]}, {"cmd": ["schema-diff"]}, {"cmd": ["enum-diff"]}, {"cmd": ["render-diff"]}],
    partial="absence of panics above the scanners (loader, compiler, checker, validator, example, AST) is explored by API fuzzing, not proved",
    level_text="Proof (partial): (1) template/argument agreement at every error construction site and a template for every code — decide-theorems over a table regenerated from /repo's source on every run; (2) the JSON scanner model never reaches a runtime-panic site (theorem, all inputs); (3) Error() rendering is total (theorem). Schema / enum scanner crash-freedom: models with explicit crash outcomes validated bounded-exhaustively. Everything above the scanners: every public method of every object under recover + deadline on mutated inputs (exploration).",
    level_note="Trusted: Lean kernel; go/ast extractor (fails closed: unresolved sites break a theorem); API fuzz is exploration; K-C07-recerr / -dupname / -exampleerr known findings by class.",
    technique="Lean 4 decide-theorems over regenerated tables + no-crash theorem on the scanner model + API fuzz")

P["C08"] = dict(
    lean_targets=["JSight.Props.C08", "JSight.Tie.CMap", "JSight.Tie.Compat"],
    tgen=[{"cmd": ["tgen-cmap", "{LEAN}/JSight/Generated/CMapUses.lean"]}, {"cmd": ["tgen-compat", "{LEAN}/JSight/Generated/CompatTable.lean"]}],
    obligations=ob("JSight.Props.C08",
        ("Props.C08.C08_verdict_perm", "verdict of every order-insensitive pipeline is the same for every ordering of a duplicate-free rule set"),
        ("Props.C08.C08_lookup_perm", "the constraint map's lookup function does not depend on insertion order")) + ob("JSight.Tie.CMap",
        ("Gen.C08_cmap_uses_reviewed", "every use of the constraint map in the Go source is an order-insensitive query or a reviewed iteration (regenerated table)"),
        ("Gen.C08_cmap_table_nonempty", "the extractor found the pipeline")) + ob("JSight.Tie.Compat",
        ("Gen.C08_applicability_table", "the code's rule x JSON-kind compatibility predicate (executed on the current tree) is the statement's applicability table"),
        ("Gen.C08_applicability_covers", "the regenerated table covers every rule family")),
    runs=[{"cmd": ["c08-rules"]}],
    partial="order independence is a theorem (+ regenerated tie); the rule x kind applicability table is a decide-theorem over the table obtained by executing the code; the companion-rule conditions (pairs ordered, exclusive needs bound, or / enum / any / reference exclusivity) are compared with a spec written from the statement, not proved",
    level_text="Proof (partial): any compile/check pipeline that observes a node's constraint map only through Has/Get/Len/Set/Delete, a key-wise Filter and an every-constraint-passes iteration gives the same verdict for every ordering of the rules (theorem, all pipelines, all rule sets); a table of every constraint-map use regenerated from the Go source on every run shows the code stays inside that language. Search: all subsets of rule names x parameters x permutations on the real Check (order independence), and the verdict against a Go spec of the statement.",
    level_note="Trusted: Lean kernel; go/ast extractor; the applicability spec (c08-rules) is calibrated against the unchanged tree by rule-level statements listed in its source; K-C08-ref-type-or known finding by class.",
    technique="Lean 4 theorem (verdict invariant under rule order) + regenerated use table + exploration of the real Check")

P["C09"] = dict(
    lean_targets=["JSight.Props.C09"],
    obligations=ob("JSight.Props.C09",
        ("Props.C09.C09_never_rejects_legal", "every inhabited type graph passes the recursion check"),
        ("Props.C09.C09_full_false", "the converse is false of the code: required 2-cycle accepted (K-C09-cycle)"),
        ("Props.C09.C09_resolved_completely", "type expansion = reachability"),
        ("Props.C09.C09_links_names_missing", "a type the link check reports missing is referenced (by the root or a type in the table) and is not in the table"),
        ("Props.C09.C09_links_ok_resolved", "if the link check passes every referenced type was added"),
        ("Props.C09.C09_links_iff_partial", "link check ok <=> every referenced type was added, when no other pipeline error comes first"),
        ("Props.C09.C09_links_fails_iff_partial", "the same stated for failure: some missing name is reported <=> not all resolved"),
        ("Props.C09.C09_links_iff_full_false", "without that hypothesis the statement is false: an allOf recursion (703) in front of a missing type"),
        ("Props.C09.C09_links_own_eq_flat", "types added to other types (ownership chains of any depth): the link check = the flat check of the hoisted table"),
        ("Props.C09.C09_links_own_hoisted_iff", "the hoisted table holds exactly the type objects that reach the root through a chain of AddType calls"),
        ("Props.C09.C09_links_own_sound", "with ownership: a reported missing type is referenced and unreachable"),
        ("Props.C09.C09_links_own_complete", "with ownership: check ok => every referenced type is reachable"),
        ("Props.C09.C09_links_own_iff_partial", "with ownership: exactness under the same hypothesis"),
        ("Props.C09.C09_links_own_pinned_unnoticed", "regression witness of F-27: the old order (allOf expansion before hoisting) missed a missing parent"),
        ("Props.C09.C09_links_own_fixed", "the same inputs on the current order: the missing parent is named / the nested parent is found"),
        ("Props.C09.C09_used_nodup", "UsedUserTypes lists each name once"),
        ("Props.C09.C09_used_mem_iff", "UsedUserTypes lists exactly the names the schema text references (eight reference forms)"),
        ("Props.C09.C09_used_order", "in order of first occurrence"),
        ("Props.C09.C09_links_never_out_of_fuel", "termination: with |types|+1 fuel the link check never runs out"),
        ("Props.C09.C09_links_fuel_stable", "more fuel gives the same verdict"),
        ("Props.C09.C09_validate_fuel_stable", "termination of the validator's type expansion on every graph"),
        ("Props.C09.C09_example_fuel_stable", "termination of the example builder on every graph")),
    runs=[{"cmd": ["c09-typegraph"]}, {"cmd": ["c09-model"]}, {"cmd": ["c09-links"]}],
    partial="exactness of the recursion check is refuted (known finding K-C09-cycle); the link check (also with types added to other types), UsedUserTypes and termination (fuel sufficiency of every fuelled model) are theorems on models tied by c09-links; that the NAMED missing type is the first one in traversal order is compared, not proved",
    level_text="Proof (partial): the recursion DFS as coded never rejects a type graph whose root is inhabited (theorem, all graphs); the converse is refuted by a proved counterexample that is a known finding of the code; the validator's type expansion reaches exactly the reachable alternatives; the link check as coded (root and every added type, all eight reference forms, allOf expansion, types added to other types hoisted first) passes iff every referenced type was added and a reported name is referenced and absent; UsedUserTypes = the names the text references, each once, in order of first occurrence; every fuelled model (link check, validator type expansion, example builder) provably never runs out of fuel on any graph (termination). Tie: c09-links compares the real Check verdict incl. the named type and UsedUserTypes at eight points of a call history with the Lean model over generated graphs with ownership chains. Search: generated type graphs with every reference form: missing types (1302), UsedUserTypes, verdict vs least-fixpoint inhabitation and vs the DFS-as-coded, termination of Check/Validate/Example in child processes.",
    level_note="Trusted: Lean kernel; graph model validated by the exploration (as-coded reference agrees with real Check); K-C09-cycle, K-C09-orrule1303 known findings by class.",
    technique="Lean 4 theorems (inhabited => accepted, link check <=> resolved, UsedUserTypes exact, fuel sufficiency) + refutation witnesses + differential correspondence with the real Check / UsedUserTypes")

P["C10"] = dict(
    lean_targets=["JSight.Props.C10"],
    obligations=ob("JSight.Props.C10",
        ("Props.C10.C10_scan_spec", "normal form denotes the value of the numeral text"),
        ("Props.C10.C10_cmp_exact", "Cmp = exact comparison of the denoted values (unbounded digits/exponents, all signs, every zero)"),
        ("Props.C10.C10_fracLen", "fractional length <= p iff value*10^p is an integer"),
        ("Props.C10.C10_cmp_normal_forms", "Cmp on well-formed normal forms = comparison of values"),
        ("Props.C10.C10_total", "every RFC 8259 numeral (any digit counts, any sign/fraction/exponent) is recognised, except integer part 0 directly followed by an exponent"),
        ("Props.C10.C10_zeroexp_not_recognised", "0e1 is not recognised (known finding K-C10-zeroexp, proved of the model)")),
    runs=[{"cmd": ["number-diff"]}, {"cmd": ["sem-rules"]}, {"cmd": ["sem-rules-full"]}],
    level_text="Proof: numeral text -> normal form -> comparison is exact decimal arithmetic: Cmp of two scanned numerals equals the comparison of their positional denotations by integer cross-scaling, and the fractional length decides precision/integrality — theorems for numerals of any length and exponent. Tie: NewNumber/String/LengthOfFractionalPart/Cmp vs the Lean model bounded-exhaustively (all strings over -0159.eE+ up to 5/7 chars) and on random numerals up to 60 digits, |exp|<400; plus the real Cmp against math/big.Rat.",
    level_note="Trusted: Lean kernel (one Mathlib module for ring); exponents of more than 18 digits wrap in Go's ParseUint (outside the property's quantifier); K-C10-zeroexp, K-C10-enumtext known findings.",
    technique="Lean 4 theorems (scanner = positional denotation, digit-wise Cmp = value comparison) + bounded-exhaustive differential")

P["C11"] = dict(
    lean_targets=["JSight.Props.C11", "JSight.Tie.SyncPool", "JSight.Tie.SyncRanges", "JSight.Tie.SyncGlobals", "JSight.Tie.SyncHealth"],
    tgen=[{"cmd": ["tgen-sync", "{LEAN}/JSight/Generated/SyncFacts.lean"]}],
    obligations=ob("JSight.Props.C11",
        ("Props.C11.C11_once_stable", "a once-wrapped computation returns its first result forever"),
        ("Props.C11.C11_handed_out_stable", "a slice handed out by Example keeps its content under all later Example calls (copy-out)"),
        ("Props.C11.C11_pinned_overwrites", "regression witness: the pooled-buffer variant is overwritten by the second call"),
        ("Props.C11.C11_leaf_order_free", "validator verdict independent of the order of alternatives (map iteration over leaves)")) + ob("JSight.Tie.SyncPool",
        ("Gen.C11_no_pooled_alias_returned", "no function reachable from the API returns memory of an object it puts back into a sync.Pool (regenerated table: the code is Heap.example, not examplePinned)"),
        ("Gen.C11_no_pooled_alias_returned_nonempty", "the example builder (object, array) and the loader are in the pool table"),
        ("Gen.C11_dead_aliasers_reviewed", "the only functions that still return pooled memory are the reviewed dead buildExample* family")) + ob("JSight.Tie.SyncRanges",
        ("Gen.C11_map_ranges_reviewed", "every range over a Go map in the library is order-free by construction (keyed stores / counters / sorted before use) or a reviewed site (regenerated inventory)"),
        ("Gen.C11_map_ranges_reviewed_nonempty", "the inventory sees the checker, loader and validator packages")) + ob("JSight.Tie.SyncGlobals",
        ("Gen.C12_no_global_state", "no function outside init stores into a package-level variable"),
        ("Gen.C12_no_global_state_nonempty", "the inventory looked at the package-level variables")) + ob("JSight.Tie.SyncHealth",
        ("Gen.Sync_source_type_checked", "the extractor type-checked the library from source without an error")),
    runs=[{"cmd": ["c11-history"]}],
    partial="memo/pool/aliasing and the leaf-order lemma are theorems; Go's runtime map order, GC and real API histories are exercised, not modelled",
    level_text="Proof (partial): the logic parts are theorems on protocol models — once-cells return the first result forever, values handed out by Example never change (copy-out), the validator's verdict does not depend on the iteration order over its leaves. Search: histories of up to 12 public operations over a pool of schemas/documents/enums/regexes vs fresh objects, retained values re-read at the end, the whole comparison across processes (map order).",
    level_note="Trusted: Lean kernel; sync.Once / sync.Pool semantics and Go map iteration are runtime behaviour (exercised only); K-C11-sharedallof known finding by class.",
    technique="Lean 4 theorems on memo/pool/permutation models + history exploration against fresh objects")

P["C12"] = dict(
    lean_targets=["JSight.Props.C12", "JSight.Tie.SyncOnce", "JSight.Tie.SyncPool", "JSight.Tie.SyncLocks", "JSight.Tie.SyncGlobals", "JSight.Tie.SyncHealth"],
    tgen=[{"cmd": ["tgen-sync", "{LEAN}/JSight/Generated/SyncFacts.lean"]}],
    obligations=ob("JSight.Props.C12", ("Props.C12.C12_once_exactly_once", "under every schedule the compile function starts at most once and all returned values agree"),
        ("Props.C12.C12_pool_result_is_own", "concurrent Example() over the shared buffer pool: under every schedule every goroutine's result is its own text"),
        ("Props.C12.C12_pool_pinned_overwritten", "handing out the pooled buffer itself fails under a concrete schedule")) + ob("JSight.Tie.SyncOnce",
        ("Gen.C12_every_lazy_read_guarded", "every read of a lazily computed field (inner, astNode, usedUserTypes, values, pattern, err, value) is dominated by a completed Do of its once cell on the same object, in every exported method and the helpers it calls (regenerated table: every reader goes through Once.run)"),
        ("Gen.C12_every_lazy_read_guarded_nonempty", "the table has a guarded row for every method C12 names, the expected number of once cells per type, and every cell is used"),
        ("Gen.C12_no_write_outside_once", "outside the set-up phase no exported method stores into the object outside a once function"),
        ("Gen.C12_no_write_outside_once_nonempty", "the write table covers the methods C12 names"),
        ("Gen.C12_once_wrappers_sound", "ErrOnce / ErrOnceWithValue hand their function to the inner sync.Once only"),
        ("Gen.C12_no_other_mutex", "no library type other than the generated ordered maps carries a mutex")) + ob("JSight.Tie.SyncPool",
        ("Gen.C11_no_pooled_alias_returned", "no function reachable from the API returns memory of an object it puts back into a sync.Pool (the copy-out step of PoolRace)")) + ob("JSight.Tie.SyncLocks",
        ("Gen.C19_lock_bracketing", "every method of the ordered maps (incl. the constraint map) holds the mutex for its whole body, writers exclusively")) + ob("JSight.Tie.SyncGlobals",
        ("Gen.C12_no_global_state", "no function outside init stores into a package-level variable")) + ob("JSight.Tie.SyncHealth",
        ("Gen.Sync_source_type_checked", "the extractor type-checked the library from source without an error")),
    runs=[{"cmd": ["c12-concurrent"], "race": True}],
    partial="the protocol (first use compiles once, all see the same result) is a theorem over all schedules; data-race freedom and equality with the sequential run under the real Go memory model are exercised under the race detector",
    level_text="Proof (partial): a small-step model of n goroutines racing to one sync.Once cell under an arbitrary schedule — the compile function is started at most once and every goroutine that returned got the same value (theorem, all schedules, any n); and a small-step model of any number of goroutines running Example() over the shared buffer pool (get / write / copy out / put, interleaved arbitrarily): every result is the goroutine's own text (theorem, all schedules). Runtime part: 2..32 goroutines with random operation mixes on shared and private schemas under the race detector, results compared with the sequential oracle.",
    level_note="Trusted: Lean kernel; Go scheduler, memory model and race detector are runtime behaviour the model cannot exhibit; K-C12-allof known finding (stream off by default).",
    technique="Lean 4 invariant proof over schedules + race-detector runs")

P["C13"] = dict(
    lean_targets=["JSight.Props.C13", "JSight.Props.C01"],
    obligations=ob("JSight.Props.C13",
        ("Props.C13.C13_whitespace_invariant", "two valid texts with the same tree modulo layout give the same event-type sequence"),
        ("Props.C13.C13_rule_name_spelling", "bare and quoted spelling of a rule name, with any blanks around, give the loader the same name"),
        ("Props.C13.C13_newline_idempotent", "loader model: a new-line event after a new-line event changes nothing (LF / CR / CRLF, blank lines)"),
        ("Props.C13.C13_newline_run_absorbed", "loader model: any run of further new-line events is absorbed"),
        ("JsonScan.evs_types", "event types are a function of the stripped tree")) + ob("JSight.Props.C01",
        ("Props.C01.C01_order_indep", "verdict invariant under property order in the document")),
    runs=[{"cmd": ["c13-metamorphic"]}, {"cmd": ["loader-diff"]}, {"cmd": ["unquote-diff"]}, {"cmd": ["schema-diff"]}],
    partial="document whitespace and property order are theorems; on the schema side the loader model (text -> node tree with bound annotations, compared with the real GetAST by loader-diff) absorbs repeated new-line events (theorem); escapes, comments, annotation spelling, rule order in text: validated (metamorphic differential on the real code, scanner / loader / unquote models)",
    level_text="Proof (partial): re-spelling a document's whitespace does not change the event sequence the validator is fed (theorem from C06), property order does not change the verdict (C01). Search: generated schemas in a base spelling and variants composed of all listed rewrites (line ends, indentation, comments, inline vs multi-line annotations, notes, quoted names, trailing comma, rule order) must agree in Check verdict, AST and validation verdicts; documents re-spelled (whitespace, member order, escapes).",
    level_note="Trusted: Lean kernel; loader-level rewrites are translation-validated on the real code only.",
    technique="Lean 4 theorems (layout/order invariance) + metamorphic exploration")

P["C14"] = dict(
    lean_targets=["JSight.Props.C14"],
    obligations=ob("JSight.Props.C14",
        ("Props.C14.C14_json_len", "Len of an embedded JSON document = length of the document without trailing blanks"),
        ("Props.C14.C14_events_embedded", "events of an embedded document then end-top at the foreign byte"),
        ("Props.C14.C14_schema_len_whole", "schema scanner model: Len of a plain-JSON schema filling the input = offset just after the value (any tree, any layout)"),
        ("Props.C14.C14_schema_len_embedded", "schema scanner model: Len of a plain-JSON schema followed by foreign text = offset just after the value (glued or blank-separated foreign byte; exact side condition for bytes glued to a number)"),
        ("Props.C14.C14_enum_len", "enum rule text ws [ items ] ws (grammar tokens, any layout incl. line breaks): Len is the offset just after the closing bracket"),
        ("Props.C14.C14_len_error", "a scanner error is the error of Len")),
    runs=[{"cmd": ["c14-len"]}, {"cmd": ["json-diff"]}, {"cmd": ["schema-diff"]}, {"cmd": ["enum-diff"]}],
    partial="JSON documents: theorem; schema and enum Len: models validated against the code + property exploration",
    level_text="Proof (JSON documents): for every valid tree, layout, separator blanks and foreign byte that cannot continue the value, Len is exactly the length of the document without trailing blanks (theorem, unbounded). Schema / enum Len: Lean models of the length mode compared with the code bounded-exhaustively; property-level exploration of (S, separator, tail) triples for all four kinds incl. regex types.",
    level_note="Trusted: Lean kernel; schema/enum length mode not proved; empty / comment-only texts are outside the statement.",
    technique="Lean 4 theorem (Len of embedded document) + differential / exploration for schema, enum, regex")

P["C15"] = dict(
    lean_targets=["JSight.Props.C15"],
    obligations=ob("JSight.Props.C15",
        ("Props.C15.C15_wellformed", "whatever the example builder emits is the rendering of a valid JSON tree which the scanner reads back"),
        ("Props.C15.C15_build_is_render", "builder bytes = rendering of the builder's tree"),
        ("Props.C15.C15_self_valid", "reference-free schemas accepted by Check: the emitted bytes are the whole EXAMPLE document in compact layout and Validate accepts it (any literal rule semantics)"),
        ("Props.C15.C15_self_valid_refs", "with user-type references over any (also recursive) type table: if the builder completes without a recursion cut-off, the emitted bytes are the compact text of the built document and Validate accepts it"),
        ("Props.C15.C15_plain_text_roundtrip", "TEXT level: for any JSON value written with any white-space layout, schema scanner model -> loader model -> example builder returns exactly its compact text (source tokens byte for byte)"),
        ("Props.C15.C15_plain_result_is_json", "that result is read by the JSON scanner model as the events of the value: it is accepted"),
        ("Props.C15.C15_text_builder_is_model", "the byte-level builder on the loader's node table = the abstract builder EX.build (every node table)"),
        ("Props.C15.C15_build_extends", "EX.build is the restriction of the extended builder EXK.build (key shortcuts, additionalProperties)"),
        ("Props.C15.C15_self_valid_ext_partial", "self-validation with or-shortcuts, nullable, additionalProperties, any type table, key shortcuts on literal string types, cut-offs at optional properties / array suffixes; the known-finding classes excluded by a decidable class"),
        ("Props.C15.C15_self_valid_optional_cut", "optional recursion: if every omitted child is the value of an optional property the output validates"),
        ("Props.C15.C15_self_valid_allOf", "the same for objects with allOf (expanded first)"),
        ("Props.C15.C15_self_valid_full_false", "the unrestricted statement is false: K-C15-reqcut witness reproduced by the model"),
        ("Props.C15.C15_self_valid_full_false_arraycut", "K-C15-arraycut witness"),
        ("Props.C15.C15_self_valid_full_false_keyclash", "K-C15-keyclash witness")),
    runs=[{"cmd": ["example-diff"]}, {"cmd": ["c15-example"]}, {"cmd": ["c15-text"]}, {"cmd": ["c15-exk"]}],
    partial="well-formedness is a theorem for all schemas; the plain-JSON sentence is a theorem at TEXT level (scanner + loader + builder models) for white-space layouts (comments / annotations in the layout: tied, not proved); self-validation is a theorem for the decidable class that excludes exactly the known-finding classes (cut-off at a required property or before an emitted array element, key type through an alias, key example clashing with a literal key), incl. key shortcuts, additionalProperties, allOf and optional recursion; or rule-sets inside containers (K-C15-orcontainer) and enum-rule examples are explored, not proved",
    level_text="Proof (partial): the example builder (with the separator/escaping fix) emits the rendering of a valid JSON tree and the scanner reads back exactly that tree (theorem, all schemas/type tables). Tie: model bytes vs real Example() on generated schemas with mutually referring types. Search: json.Valid(Example()), Validate(Example()) == nil, plain-JSON schemas give their compact example.",
    level_note="Trusted: Lean kernel; key shortcuts/enum rules in examples validated only; K-C15-* known findings by structural class.",
    technique="Lean 4 theorems (builder output = rendering of a valid tree; text-level round trip; self-validation on a decidable class; refutation witnesses for the known findings) + differential correspondence + exploration")

P["C16"] = dict(
    lean_targets=["JSight.Props.C16"],
    level="translation_validation",
    obligations=ob("JSight.Props.C16",
        ("Props.C16.C16_enum_first", "schema type: enum first"),
        ("Props.C16.C16_or_second", "then or"),
        ("Props.C16.C16_type_third", "then explicit type"),
        ("Props.C16.C16_precision_fourth", "then precision"),
        ("Props.C16.C16_kind_last", "then the JSON kind"),
        ("Props.C16.C16_text_mirrors_tree", "plain-JSON schema text (any depth/width/layout, distinct keys): scanner + loader models build exactly one node per value in source order with kinds, parents, children, key spans and literal spans of the text"),
        ("Props.C16.C16_text_duplicate_key", "otherwise error 402 at the first key that repeats an earlier key of its object (after decoding)"),
        ("Props.C16.C16_text_total", "every object either has pairwise distinct decoded keys or a first duplicate"),
        ("Props.C16.C16_rules_order", "rules listed in constraint-map order, types hidden"),
        ("Props.C16.C16_annotation_binds_last_node", "loader model: an annotation binds to the node created last"),
        ("Props.C16.C16_rule_needs_exactly_one_node", "loader model: rules need exactly one node on the line (803 / 804)")),
    runs=[{"cmd": ["c16-ast"]}, {"cmd": ["c16-model"]}, {"cmd": ["loader-diff"]}],
    partial="type precedence and rule order are theorems on the AST model; text -> node tree (scanner + loader) is a Lean model compared with the real GetAST (loader-diff: kinds in source order, keys, shortcut flags, values, rule names in order, notes); the rule values' AST is translation-validated",
    level_text="Translation validation: the generator's abstract schema determines the expected AST (one node per example value in source order, key/shortcut flag, token kind, value, declared-or-inferred type, rules with names/values/order/source marks, notes); the real GetAST() of the printed text is compared field by field. The type-precedence decision table and the rule order are additionally theorems on a Lean model of astNodeFromNode.",
    level_note="Trusted: the Go generator/printer and its expected-AST function (conventions calibrated on the unchanged tree are listed in its source); Lean kernel for the decision-table theorems.",
    technique="translation validation of text -> AST against an IR-computed AST + Lean 4 decision-table theorems")

P["C17"] = dict(
    lean_targets=["JSight.Props.C17"],
    obligations=ob("JSight.Props.C17",
        ("Props.C17.C17_json_errpos", "reported index = first dead byte: prefix before it completable, nothing after it"),
        ("Props.C17.C17_render_total", "renderer total for every content and position inside it"),
        ("Props.C17.C17_line_number", "line number = 1 + new-line symbols before the position"),
        ("Props.C17.C17_line_lf", "LF files: counted by LF"),
        ("Props.C17.C17_line_cr", "CR files: counted by CR"),
        ("Props.C17.C17_line_crlf", "CRLF files: counted by LF"),
        ("Props.C17.C17_validation_errpos", "validator with positions (C01 fragment + kind-disjoint alternatives, any literal rules) on a document tree's events = firstOffence: code and byte offset of the first offending value or key, any depth / width / layout"),
        ("Props.C17.C17_validation_errpos_bytes", "the same on bytes with the scanner model in front (uses C06_events_of_tree)"),
        ("Props.C17.C17_validation_pos_inside", "a reported validation position lies inside the document"),
        ("Props.C17.C17_validation_pos_is_token_start", "a reported validation position is the begin offset of a value or key token"),
        ("Props.C17.C17_validation_accepts_iff_shape", "the position-carrying validator accepts exactly the documents of the schema's shape (consistency with C01 / C03)")),
    runs=[{"cmd": ["render-diff"]}, {"cmd": ["c17-positions"]}, {"cmd": ["c17-valpos"]}, {"cmd": ["json-exh"]}],
    partial="JSON error positions, validation error positions (C01 fragment with kind-disjoint alternatives: code and offset of the first offending value or key), renderer totality and the line number (LF / CR / CRLF files) are theorems; text/caret exactness is model-vs-code exhaustive on small files; schema positions and validation positions under key shortcuts, additionalProperties, array-level rules and unions of several containers are explored with planted violations",
    level_text="Proof (partial): the JSON scanner's error index is the first byte after which nothing can follow while the prefix before it is completable (viable-prefix theorem through the C05 simulation, all byte strings); a validation error is reported with the code and at the first byte of the first offending value or key of the document, in document order (theorem: position-carrying validator model = denotational firstOffence over document trees with layout, incl. through the scanner model on bytes); the renderer never indexes outside the content (theorem). Tie: position-carrying validator model and spec vs real Validate (code, position) on generated schema x document pairs with planted violations and random layout (c17-valpos); renderer model vs real Error() on all contents up to 6/7 bytes over {a,space,tab,LF,CR} x all positions + long lines; model errPos vs real position on the exhaustive stream. Search: planted violations at generator-known offsets in documents and schemas.",
    level_note="Trusted: Lean kernel; line-number/caret text exactness validated exhaustively on small files, not proved.",
    technique="Lean 4 theorems (first dead byte, renderer totality) + exhaustive differential + planted-violation exploration")

P["C18"] = dict(
    lean_targets=["JSight.Props.C18"],
    obligations=ob("JSight.Props.C18",
        ("Props.C18.C18_regex_extract", "/P/rest yields pattern P and Len |P|+2"),
        ("Props.C18.C18_enum_events", "enum rule text with pairwise distinct (decoded text, kind) items: the scan succeeds with the events the grammar predicts"),
        ("Props.C18.C18_enum_values", "the literal events, in order, span exactly the item tokens: Values lists the literals in source order"),
        ("Props.C18.C18_enum_duplicate", "the first item whose (decoded text, kind) repeats an earlier one is rejected with error 810 at its first byte"),
        ("Props.C18.C18_goquote_roundtrip", "Go %q then the library's Unquote gives the pattern back")),
    runs=[{"cmd": ["c18-named"]}, {"cmd": ["c18-model"]}, {"cmd": ["enum-diff"]}, {"cmd": ["unquote-diff"]}],
    partial="token extraction and the quoting hand-over are theorems; enum rule vs inline list, regexp engine and example generator are explored / oracles",
    level_text="Proof (partial): the regex-type token extraction and the %q -> Unquote hand-over to the schema loader are theorems (so @T and inline {regex: P} give the same pattern to the same engine). Tie: enum-rule scanner model vs code; unquote model vs code. Search: named enum rules vs inline lists (Check agreement, duplicates, Values order, probe verdicts) and regex types vs inline regex (probe verdicts vs Go regexp, Pattern, Example matches, Len).",
    level_note="Trusted: Lean kernel; Go regexp and reggen are oracles.",
    technique="Lean 4 theorems (token extraction, quote round trip) + exploration of named vs inline forms")

P["C19"] = dict(
    lean_targets=["JSight.Props.C19", "JSight.Tie.SyncLocks", "JSight.Tie.SyncHealth"],
    tgen=[{"cmd": ["tgen-sync", "{LEAN}/JSight/Generated/SyncFacts.lean"]}],
    obligations=ob("JSight.Props.C19",
        ("Props.C19.C19_refines", "every operation sequence: invariant holds, state and every observation equal the reference insertion-ordered list"),
        ("Props.C19.C19_len", "Len = number of iterated keys"),
        ("Props.C19.C19_delete_absent", "deleting an absent key changes nothing"),
        ("Props.C19.C19_filter", "Filter visits every entry exactly once in order"),
        ("Props.C19.C19_pinned_false", "regression witness: the pre-fix delete breaks Len = iterated keys")) + ob("JSight.Tie.SyncLocks",
        ("Gen.C19_lock_bracketing", "every exported method of the three generated maps and of the generator template takes mx.Lock / RLock first, releases it by defer, stores into data / order only under the write lock, iterates the order slice, calls callbacks under its lock (regenerated table: methods are atomic steps)"),
        ("Gen.C19_lock_bracketing_nonempty", "the generated containers are exactly the three ordered maps with the thirteen methods, and each generated file has the template's facts")) + ob("JSight.Tie.SyncHealth",
        ("Gen.Sync_source_type_checked", "the extractor type-checked the library from source without an error")),
    runs=[{"cmd": ["c19-omap"]}, {"cmd": ["c19-omap-race"], "race": True}],
    level_text="Proof: the generated ordered map (Go map + order slice, as coded with the delete/Filter fix) refines an insertion-ordered association list for every sequence of Set/Update/Delete/Filter/Map/Find/Each/Get/Has/Len with arbitrary keys, values, predicates and functions (theorem by induction over the sequence). Tie: all operation sequences up to length 4/6 over 3 keys, 2 values, 4 predicates on all three generated types (public ASTNodes, RuleASTNodes, internal Constraints via hook) against the Lean model and a reference list; random sequences to length 200.",
    level_note="Trusted: Lean kernel; Go map semantics modelled as a finite partial function; mutex atomicity and data-race freedom are exercised under the race detector, not modelled.",
    technique="Lean 4 refinement proof (ordered map = insertion-ordered list, all op sequences) + exhaustive differential")

cfg = {
    "trusted_base": [
        "Lean 4.33.0 kernel (lake build); axioms allowed: propext, Classical.choice, Quot.sound — audited with #print axioms on every run; no sorry / native_decide / bv_decide / own axioms (grep on every run)",
        "hand-written Lean models, tied to /repo's working tree on every run by T-gen (regenerated tables + decide theorems), T-prod (product-state exploration) and T-diff (differential runs): validation, not extraction",
        "the Go harness (generators, canonicalisers, go/ast extractors) and the line protocol of the Lean driver jsight-model",
    ],
    "unclaimed_default": "machine-checked proof applies (see DESIGN.md §4) but the check for this property is not registered yet in this build",
    "properties": P,
}
for k, v in P.items():
    v.setdefault("level", "proof")
    v.setdefault("assumptions", [])
    v.setdefault("partial", "")
json.dump(cfg, open(os.path.join(R, "checks.json"), "w"), indent=1)
print("wrote checks.json:", sorted(P))
