#!/bin/bash
# usage: tools/merge_agent.sh <agent-workspace/verif> <base-commit> <path>...
# Takes files from an agent's copy of /verif: new files are copied, existing ones are 3-way merged
# (git merge-file ours base theirs, base = the file at <base-commit>, the commit the copy was taken from).
ws=$1; base=$2; shift 2
cd /verif
for f in "$@"; do
  if [ -d "$ws/$f" ]; then mkdir -p "$f"; cp -r "$ws/$f/." "$f/"; echo "copied dir $f"; continue; fi
  [ -f "$ws/$f" ] || { echo "MISSING in workspace: $f"; continue; }
  if [ ! -f "$f" ]; then mkdir -p "$(dirname $f)"; cp "$ws/$f" "$f"; echo "new     $f"; continue; fi
  if cmp -s "$ws/$f" "$f"; then echo "same    $f"; continue; fi
  if git cat-file -e "$base:$f" 2>/dev/null; then
    git show "$base:$f" > /tmp/merge_base.$$
    cp "$f" /tmp/merge_ours.$$
    if git merge-file -q /tmp/merge_ours.$$ /tmp/merge_base.$$ "$ws/$f"; then cp /tmp/merge_ours.$$ "$f"; echo "merged  $f"
    else cp /tmp/merge_ours.$$ "$f"; echo "CONFLICT $f (markers left in file)"; fi
    rm -f /tmp/merge_base.$$ /tmp/merge_ours.$$
  else cp "$ws/$f" "$f"; echo "replaced (no base) $f"; fi
done
