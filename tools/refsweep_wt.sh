#!/bin/bash
# usage: tools/refsweep_wt.sh [glob] [parallel]
# Every harmless refactoring under refactors/<glob> against ALL 19 quick checks, each refactoring in its own scratch
# worktree of /repo + scratch copy of /verif (never touches /repo or /verif). One line per (refactoring, property)
# into refactors/SWEEP.txt: SILENT or the VIOLATION line. REFSWEEP_CHECKS="04 07" restricts the checks.
cd /verif
glob=${1:-r*}; par=${2:-2}
out=${SWEEP_OUT:-refactors/SWEEP.txt}
case "$out" in /*) ;; *) out=/verif/$out;; esac   # the workers run elsewhere: absolute path
: > $out
export GOFLAGS=-mod=mod GOPROXY=off GOSUMDB=off GOTOOLCHAIN=local
ls -d refactors/$glob/ | xargs -P $par -L 1 bash -c '
  d=$0; id=$(basename $d)
  root=/tmp/rsw/$id-$$; wt=$root/repo; vc=$root/verif
  mkdir -p $root
  git -C /repo worktree add -q --detach $wt HEAD || exit 2
  if ! git -C $wt apply /verif/$d/patch.diff 2>/dev/null; then
    (cd $wt && patch -p1 -F3 --no-backup-if-mismatch < /verif/$d/patch.diff >/dev/null 2>&1) || { echo "$id ALL PATCH-DOES-NOT-APPLY" >> '$out'; git -C /repo worktree remove --force $wt; rm -rf $root; exit 0; }
  fi
  mkdir -p $vc
  (cd /verif && tar cf - --exclude=.git --exclude=./seeded --exclude=./refactors --exclude=./replays --exclude=./work . ) | (cd $vc && tar xf -)
  sed -i "s#=> /repo#=> $wt#" $vc/harness/go.mod; cp $wt/go.sum $vc/harness/go.sum 2>/dev/null
  cd $vc; export VERIF_REPO=$wt
  for i in ${REFSWEEP_CHECKS:-01 02 03 04 05 06 07 08 09 10 11 12 13 14 15 16 17 18 19}; do
    r=$(./check C$i --tier quick 2>&1 | grep -E "^VIOLATION|broken:|disagreement:" | head -2 | cut -c1-300 | tr "\n" " ")
    if [ -z "$r" ]; then echo "$id C$i SILENT" >> '$out'; else echo "$id C$i $r" >> '$out'; fi
  done
  cd /; git -C /repo worktree remove --force $wt 2>/dev/null; rm -rf $root
  echo "$id done"
'
sort -o $out $out
grep -vc SILENT $out
