#!/usr/bin/env python3
"""Regenerate MANIFEST.json from checks.json (single source of truth for what is claimed)."""
import json, os, subprocess
R = os.path.dirname(os.path.dirname(os.path.abspath(__file__)))
cfg = json.load(open(os.path.join(R, 'checks.json')))
props = cfg['properties']
allp = [json.loads(l)['id'] for l in open(os.path.join(R, 'properties.jsonl'))]
hooks = subprocess.run(['git', '-C', '/repo', 'log', '--format=%H', '--grep=^verif hooks'], capture_output=True, text=True).stdout.split()
m = {
 "version": 1,
 "setup_cmd": "./setup.sh",
 "hooks": {"guard": "verif",
           "enable": "go build -tags verif — the harness module /verif/harness replaces the library with /repo and is always built with the tag",
           "baseline_off_cmd": "cd /repo && GOFLAGS=-mod=mod GOPROXY=off GOSUMDB=off GOTOOLCHAIN=local go test -json -vet=off -count=1 -timeout 25m ./...",
           "source_commits": hooks, "add_only": True},
 "engines": [
  {"name": "lean4", "path": "/verif/lean", "serves_properties": sorted(props), "kind_free_text": "Lean 4 models, specs and theorems (lake project JSight) + compiled line-protocol driver jsight-model"},
  {"name": "harness", "path": "/verif/harness", "serves_properties": sorted(props), "kind_free_text": "Go harness built against /repo with -tags verif: T-gen extractors, T-prod explorer, T-diff runners, property-level search"}],
 "checks": [], "notes": cfg.get("notes", "see DESIGN.md; ./check <id> decides one property"), "not_applicable": []}
for p in allp:
    c = props.get(p)
    if c and not c.get("unclaimed"):
        m["checks"].append({
            "property_id": p, "quick_cmd": f"./check {p} --tier quick", "thorough_cmd": f"./check {p} --tier thorough",
            "evidence_file": f"/verif/evidence/{p}.json", "replay_cmd_template": f"./check {p} --replay {{path}}", "engine": "lean4",
            "level_claimed": {"category": c.get("level", "proof"), "text": c["level_text"], "design_ref": "DESIGN.md §4 " + p},
            "level_note": c["level_note"], "technique": c.get("technique", "Lean 4 theorem on a model + checked correspondence (T-gen/T-prod/T-diff)")})
    else:
        m["not_applicable"].append({"property_id": p, "reason": (c or {}).get("unclaimed") or cfg["unclaimed_default"]})
json.dump(m, open(os.path.join(R, 'MANIFEST.json'), 'w'), indent=1)
print("checks:", [c["property_id"] for c in m["checks"]], "not claimed:", [c["property_id"] for c in m["not_applicable"]])
