#!/usr/bin/env python3
"""tools/seedresults.py [sweep-file ...] — writes seeded/RESULTS.md from sweep files (lines `<seed> <Cxx> <RESULT> :: <first
disagreement>`, written by tools/seedsweep_wt.sh / tools/seedround.sh) and the seeds' meta.json. A seed counts as reported
when the check of its property OR of a property listed under `also_check` in its meta.json reports it."""
import glob, json, os, re, sys
root = os.path.join(os.path.dirname(os.path.abspath(__file__)), "..", "seeded")
files = sys.argv[1:] or sorted(glob.glob(os.path.join(root, "SWEEP_*.txt")))
res = {}
for f in files:
    for l in open(f):
        m = re.match(r"(C\d+-\w+) (C\d+) (\S+) :: ?(.*)", l.strip())
        if m:
            res[(m.group(1), m.group(2))] = (m.group(3), m.group(4))
rank = {"FAILING-INPUT": 0, "BROKEN-TIE": 1, "NOT-DETECTED": 2, "PATCH-DOES-NOT-APPLY": 3}
rows, tot = [], {}
for d in sorted(glob.glob(os.path.join(root, "C*-*"))):
    sid = os.path.basename(d)
    try:
        meta = json.load(open(os.path.join(d, "meta.json")))
    except Exception:
        continue
    props = [meta["property"]] + meta.get("also_check", [])
    got = [(p,) + res[(sid, p)] for p in props if (sid, p) in res]
    if not got:
        rows.append((sid, meta, "not swept", ""))
        tot["not swept"] = tot.get("not swept", 0) + 1
        continue
    best = min(got, key=lambda g: rank.get(g[1], 9))
    label = {"FAILING-INPUT": "VIOLATION with failing input", "BROKEN-TIE": "VIOLATION no-failing-input-found (a tie / correspondence broke)",
             "NOT-DETECTED": "not reported", "PATCH-DOES-NOT-APPLY": "patch no longer applies"}[best[1]]
    tot[best[1]] = tot.get(best[1], 0) + 1
    via = "" if best[0] == meta["property"] else f" (by the {best[0]} check)"
    rows.append((sid, meta, f"{best[0]}: {label}{via}", best[2]))
with open(os.path.join(root, "RESULTS.md"), "w") as f:
    f.write("# Seeded changes vs. checks (quick tier, VERIF_SEED=1; full checks in scratch worktrees, tools/seedsweep_wt.sh)\n\n")
    f.write("Totals: " + ", ".join(f"{k}: {v}" for k, v in sorted(tot.items())) + f" (of {len(rows)})\n\n")
    f.write("| seeded change | property | what it changes | needs | result of ./check | first disagreement |\n|---|---|---|---|---|---|\n")
    cut = lambda s, n: (s[:n] + "…") if len(s) > n else s
    esc = lambda s: s.replace("|", "/").replace("\n", " ")
    for sid, meta, r, first in rows:
        f.write(f"| {sid} | {meta['property']} | {esc(cut(meta.get('summary',''), 260))} | {esc(cut(meta.get('needs',''), 260))} | {r} | {esc(cut(first, 200))} |\n")
print(tot, len(rows))
