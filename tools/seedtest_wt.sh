#!/bin/bash
# usage: tools/seedtest_wt.sh <seeded-dir> <vh-subcommand> [args...]
# Like seedtest.sh but leaves /repo alone, so several can run at once: makes a scratch worktree of /repo HEAD with the
# seeded patch applied and a scratch copy of the harness whose `replace` points at it, builds vh (or vhrace when
# VH_RACE=1) with -tags verif there, runs ONE harness subcommand against the committed Lean driver, prints its REPORT
# line(s), and removes both scratch directories.
set -u
name=$1; shift
d=/verif/seeded/$name
tag=$name-$$
wt=/tmp/swt/$tag/repo; hw=/tmp/swt/$tag/harness
export GOFLAGS=-mod=mod GOPROXY=off GOSUMDB=off GOTOOLCHAIN=local
mkdir -p /tmp/swt/$tag
git -C /repo worktree add -q --detach $wt HEAD || exit 2
cleanup() { cd /; git -C /repo worktree remove --force $wt 2>/dev/null; rm -rf /tmp/swt/$tag; }
trap cleanup EXIT
git -C $wt apply $d/patch.diff || { echo "patch does not apply"; exit 2; }
cp -r ${HARNESS_SRC:-/verif/harness} $hw && rm -rf $hw/bin
sed -i "s#=> /repo#=> $wt#" $hw/go.mod
cp $wt/go.sum $hw/go.sum 2>/dev/null
cd $hw
if [ "${VH_RACE:-0}" = 1 ]; then CGO_ENABLED=1 go build -race -tags verif -o $hw/bin/vh ./cmd/vhrace || exit 2
else go build -tags verif -o $hw/bin/vh ./cmd/vh || exit 2; fi
VERIF_SEED=${VERIF_SEED:-1} VERIF_TIER=${VERIF_TIER:-quick} VERIF_MODEL=/verif/lean/.lake/build/bin/jsight-model timeout ${VH_TIMEOUT:-900} $hw/bin/vh "$@" 2>&1 | grep -E "^REPORT|panic|fatal" | cut -c1-${VH_CUT:-1500}
