#!/bin/bash
# usage: tools/seedround.sh Cxx v   — confirm a new seeded change (seedverify) and run the full quick check of its property against it (seedcheck_wt)
id=$1; v=$2
r=$(/verif/tools/seedverify.sh $id $v 2>&1 | grep -E "CONFIRMED|demo before" | tr '\n' ' ' | cut -c1-300)
case "$r" in *"NOT CONFIRMED"*) echo "$id-$v: NOT CONFIRMED :: $r"; exit 0;; esac
c=$(CUT=700 HEAD=3 /verif/tools/seedcheck_wt.sh $id-$v $id quick 2>&1 | grep -v "^WARNING")
if echo "$c" | grep -q "^VIOLATION"; then
  if echo "$c" | grep -q "no-failing-input-found"; then res=BROKEN-TIE; else res=FAILING-INPUT; fi
else res=NOT-DETECTED; fi
echo "$id-$v: confirmed; check: $res"
echo "$c" | grep -E "disagreement:|broken:" | head -2 | cut -c1-700
