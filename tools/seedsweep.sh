#!/bin/bash
# Runs the quick check of the broken property against every seeded change; writes seeded/RESULTS.md.
# (applies each patch to /repo and restores it; /repo must be clean and otherwise unused meanwhile)
cd /verif
out=${SEED_OUT:-seeded/RESULTS.md}
glob=${SEED_GLOB:-C*-*}
echo "# Seeded changes vs. checks (quick tier, VERIF_SEED=${VERIF_SEED:-1})" > $out
echo >> $out
echo "| seeded change | property | what it changes | needs | result of ./check |" >> $out
echo "|---|---|---|---|---|" >> $out
for d in seeded/$glob/; do
  id=$(basename $d)
  prop=$(python3 -c "import json;m=json.load(open('$d/meta.json'));print(m['property'])")
  also=$(python3 -c "import json;m=json.load(open('$d/meta.json'));print(' '.join(m.get('also_check',[])))")
  summ=$(python3 -c "import json;m=json.load(open('$d/meta.json'));print(m['summary'].replace('|','/').replace('\n',' ')[:260])")
  needs=$(python3 -c "import json;m=json.load(open('$d/meta.json'));print(m['needs'].replace('|','/').replace('\n',' ')[:260])")
  res=""
  git -C /repo apply /verif/$d/patch.diff || { echo "| $id | $prop | patch does not apply | | |" >> $out; continue; }
  for p in $prop $also; do
    line=$(./check $p --tier quick 2>/dev/null | grep -E "^VIOLATION" | head -1)
    if [ -n "$line" ]; then
      case "$line" in *no-failing-input-found*) res="$res $p: VIOLATION (no-failing-input-found: broken tie / correspondence)";; *) res="$res $p: VIOLATION with failing input";; esac
    else res="$res $p: not detected"; fi
  done
  git -C /repo checkout -- . ; git -C /repo clean -fdq
  echo "| $id | $prop | $summ | $needs | $res |" >> $out
  echo "$id:$res"
done
/verif/tools/regen.sh
