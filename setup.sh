#!/bin/bash
# Build the framework from files on disk only (offline): Lean library + theorem modules + driver, Go harness.
set -e
cd "$(dirname "$0")"
export GOFLAGS=-mod=mod GOPROXY=off GOSUMDB=off GOTOOLCHAIN=local CGO_ENABLED=0
(cd lean && lake build JSight Driver jsight-model 2>&1 | grep -E "error|✖|Build completed" || true)
test -x lean/.lake/build/bin/jsight-model
mkdir -p harness/bin evidence replays
cp /repo/go.sum harness/go.sum 2>/dev/null || true
(cd harness && go build -tags verif -o bin/vh ./cmd/vh)
(cd harness && CGO_ENABLED=1 go build -race -tags verif -o bin/vhrace ./cmd/vhrace)
echo setup-ok
