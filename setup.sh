#!/bin/bash
# Build the framework from files on disk only (offline): Go harness, regenerated tables, Lean library +
# theorem modules + driver.
set -e
cd "$(dirname "$0")"
export GOFLAGS=-mod=mod GOPROXY=off GOSUMDB=off GOTOOLCHAIN=local CGO_ENABLED=0
mkdir -p harness/bin evidence replays lean/JSight/Generated
cp /repo/go.sum harness/go.sum 2>/dev/null || true
(cd harness && go build -tags verif -o bin/vh ./cmd/vh)
(cd harness && CGO_ENABLED=1 go build -race -tags verif -o bin/vhrace ./cmd/vhrace)
# T-gen tables the Lean tie modules import (rewritten again by every check)
./harness/bin/vh tgen-errors "$PWD/lean/JSight/Generated/ErrorTable.lean" >/dev/null
./harness/bin/vh tgen-cmap "$PWD/lean/JSight/Generated/CMapUses.lean" >/dev/null
./harness/bin/vh tgen-compat "$PWD/lean/JSight/Generated/CompatTable.lean" >/dev/null
./harness/bin/vh tgen-kinds "$PWD/lean/JSight/Generated/KindMatrix.lean" >/dev/null
./harness/bin/vh tgen-sync "$PWD/lean/JSight/Generated/SyncFacts.lean" >/dev/null
./harness/bin/vh tgen-panics "$PWD/lean/JSight/Generated/PanicFacts.lean" >/dev/null
(cd lean && lake build JSight jsight-model 2>&1 | grep -E "error|✖|Build completed" || true)
test -x lean/.lake/build/bin/jsight-model
echo setup-ok
